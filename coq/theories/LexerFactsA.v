(* LexerFactsA.v - totality / no-crash / allocation-ceiling facts about the parsers (Records.v)
   and the lexer model (Lexer.v), and behaviour of the lexer on failing sources (C10, C15). *)
From Coq Require Import List NArith ZArith Bool Lia ZifyN ZifyNat ZifyBool.
From Coq.Strings Require Import Byte.
From RecordUpdate Require Import RecordSet.
From Mcap Require Import Bytes BytesFacts GoSem Crc32 Records Lexer Source.
Import ListNotations RecordSetNotations.
Open Scope N_scope.
Open Scope go_scope.

(* ====================================================================================== *)
(* Part 1: the body parsers are total: Ok or Err, never Panic / Exit / OutOfFuel           *)
(* ====================================================================================== *)

Definition okerr {A} (x : outcome A) : Prop :=
  match x with Ok _ | Err _ => True | _ => False end.

Lemma okerr_no_crash {A} (x : outcome A) : okerr x <-> no_crash x = true.
Proof. destruct x; cbn; intuition discriminate. Qed.

Lemma okerr_bind {A B} (x : outcome A) (f : A -> outcome B) :
  okerr x -> (forall a, x = Ok a -> okerr (f a)) -> okerr (bind x f).
Proof. destruct x; cbn; auto. Qed.

Lemma get_u_ok n buf off v o :
  get_u n buf off = Ok (v, o) -> o = (off + n)%nat /\ (o <= length buf)%nat.
Proof.
  unfold get_u. destruct (Nat.ltb (length buf) (off + n)) eqn:E; [discriminate|].
  intros H; inversion H; subst. apply Nat.ltb_ge in E. split; [reflexivity|exact E].
Qed.

Lemma get_u_okerr n buf off : okerr (get_u n buf off).
Proof. unfold get_u. destruct (Nat.ltb _ _); exact I. Qed.

Lemma bind_get_u {B} n buf off (f : N * nat -> outcome B) :
  (forall v o, o = (off + n)%nat -> (o <= length buf)%nat -> okerr (f (v, o))) ->
  okerr (bind (get_u n buf off) f).
Proof.
  intros H. apply okerr_bind; [apply get_u_okerr|].
  intros [v o] E. apply get_u_ok in E. destruct E. apply H; assumption.
Qed.

Lemma get_pstr_ok buf off v o :
  get_pstr buf off = Ok (v, o) -> (off + 4 <= o)%nat /\ (o <= length buf)%nat.
Proof.
  unfold get_pstr.
  destruct (Nat.ltb (length buf) off) eqn:E1; [discriminate|].
  destruct (Nat.ltb (length buf - off) 4) eqn:E2; [discriminate|].
  destruct (N.of_nat (length buf - (off + 4)) <? unle (sub buf off 4)) eqn:E3; [discriminate|].
  intros H; inversion H; subst; clear H.
  apply Nat.ltb_ge in E1, E2. apply N.ltb_ge in E3. lia.
Qed.

Lemma get_pstr_okerr buf off : (off <= length buf)%nat -> okerr (get_pstr buf off).
Proof.
  intros H. unfold get_pstr.
  destruct (Nat.ltb (length buf) off) eqn:E1; [apply Nat.ltb_lt in E1; lia|].
  destruct (Nat.ltb _ 4); [exact I|].
  destruct (_ <? _); exact I.
Qed.

Lemma bind_get_pstr {B} buf off (f : bytes * nat -> outcome B) :
  (off <= length buf)%nat ->
  (forall v o, (off + 4 <= o)%nat -> (o <= length buf)%nat -> okerr (f (v, o))) ->
  okerr (bind (get_pstr buf off) f).
Proof.
  intros Hoff H. apply okerr_bind; [apply get_pstr_okerr; exact Hoff|].
  intros [v o] E. apply get_pstr_ok in E. destruct E. apply H; assumption.
Qed.

(* getPrefixedMap: every iteration that continues advances the inset by at least 8 *)
Lemma get_map_loop_total buf off maplen : (off <= length buf)%nat ->
  forall fuel inset acc,
    (inset <= length buf - off)%nat -> (length buf - off - inset < fuel)%nat ->
    okerr (get_map_loop fuel buf off inset maplen acc) /\
    (forall m o, get_map_loop fuel buf off inset maplen acc = Ok (m, o) -> (o <= length buf)%nat).
Proof.
  intros Hoff. induction fuel as [|f IH]; intros inset acc Hin Hfuel; [lia|].
  cbn [get_map_loop].
  destruct (_ <? _).
  2:{ split; [exact I|]. intros m o H; inversion H; subst. lia. }
  assert (Hlen : length (skipn off buf) = (length buf - off)%nat) by apply skipn_length.
  destruct (get_pstr (skipn off buf) inset) as [[k i1]| | | |] eqn:E1; cbn [bind].
  - apply get_pstr_ok in E1. destruct E1 as [A1 B1].
    destruct (get_pstr (skipn off buf) i1) as [[v i2]| | | |] eqn:E2; cbn [bind].
    + apply get_pstr_ok in E2. destruct E2 as [A2 B2].
      apply IH; lia.
    + split; [exact I|discriminate].
    + exfalso. pose proof (get_pstr_okerr (skipn off buf) i1) as H. rewrite E2 in H. apply H. lia.
    + exfalso. pose proof (get_pstr_okerr (skipn off buf) i1) as H. rewrite E2 in H. apply H. lia.
    + exfalso. pose proof (get_pstr_okerr (skipn off buf) i1) as H. rewrite E2 in H. apply H. lia.
  - split; [exact I|discriminate].
  - exfalso. pose proof (get_pstr_okerr (skipn off buf) inset) as H. rewrite E1 in H. apply H. lia.
  - exfalso. pose proof (get_pstr_okerr (skipn off buf) inset) as H. rewrite E1 in H. apply H. lia.
  - exfalso. pose proof (get_pstr_okerr (skipn off buf) inset) as H. rewrite E1 in H. apply H. lia.
Qed.

Lemma get_map_okerr buf off : okerr (get_map buf off).
Proof.
  unfold get_map. apply bind_get_u. intros v o Ho Hle.
  cbn beta iota. apply get_map_loop_total; lia.
Qed.

Lemma get_map_ok buf off m o : get_map buf off = Ok (m, o) -> (o <= length buf)%nat.
Proof.
  unfold get_map. destruct (get_u32 buf off) as [[v o1]| | | |] eqn:E; cbn [bind]; try discriminate.
  apply get_u_ok in E. destruct E as [E1 E2].
  intros H. eapply get_map_loop_total in H; eauto; lia.
Qed.

Lemma bind_get_map {B} buf off (f : kvs * nat -> outcome B) :
  (forall v o, (o <= length buf)%nat -> okerr (f (v, o))) ->
  okerr (bind (get_map buf off) f).
Proof.
  intros H. apply okerr_bind; [apply get_map_okerr|].
  intros [v o] E. apply get_map_ok in E. apply H; assumption.
Qed.

Lemma parse_mi_loop_total buf start bl : forall fuel off acc,
  (off <= length buf)%nat -> (length buf - off < fuel)%nat ->
  okerr (parse_mi_loop fuel buf start off bl acc).
Proof.
  induction fuel as [|f IH]; intros off acc Hoff Hfuel; [lia|].
  cbn [parse_mi_loop]. destruct (_ <? _); [|exact I].
  apply bind_get_u. intros t o1 -> H1. cbn beta iota.
  apply bind_get_u. intros v o2 -> H2. cbn beta iota.
  apply IH; lia.
Qed.

Lemma parse_cio_loop_total rest total : forall fuel inset acc,
  (inset <= length rest)%nat -> (length rest - inset < fuel)%nat ->
  okerr (parse_cio_loop fuel rest inset total acc) /\
  (forall m o, parse_cio_loop fuel rest inset total acc = Ok (m, o) -> (o <= length rest)%nat).
Proof.
  induction fuel as [|f IH]; intros inset acc Hin Hfuel; [lia|].
  cbn [parse_cio_loop]. destruct (_ <? _).
  2:{ split; [exact I|]. intros m o H; inversion H; subst; lia. }
  destruct (get_u16 rest inset) as [[ch i1]| | | |] eqn:E1; cbn [bind];
    try (pose proof (get_u_okerr 2 rest inset) as HH; unfold get_u16 in E1; rewrite E1 in HH; contradiction).
  2:{ split; [exact I|discriminate]. }
  apply get_u_ok in E1. destruct E1 as [-> B1].
  destruct (get_u64 rest (inset + 2)) as [[v i2]| | | |] eqn:E2; cbn [bind];
    try (pose proof (get_u_okerr 8 rest (inset + 2)) as HH; unfold get_u64 in E2; rewrite E2 in HH; contradiction).
  2:{ split; [exact I|discriminate]. }
  apply get_u_ok in E2. destruct E2 as [-> B2].
  apply IH; lia.
Qed.

Lemma parse_counts_loop_total buf stop : forall fuel off acc,
  (off <= length buf)%nat -> (length buf - off < fuel)%nat ->
  okerr (parse_counts_loop fuel buf off stop acc).
Proof.
  induction fuel as [|f IH]; intros off acc Hoff Hfuel; [lia|].
  cbn [parse_counts_loop]. destruct (Nat.ltb _ _); [|exact I].
  apply bind_get_u. intros t o1 -> H1. cbn beta iota.
  apply bind_get_u. intros v o2 -> H2. cbn beta iota.
  apply IH; lia.
Qed.

Ltac pstep :=
  match goal with
  | |- okerr (bind (get_pstr _ _) _) => apply bind_get_pstr; [lia|intros ? ? ? ?; cbn beta iota]
  | |- okerr (bind (get_map _ _) _) => apply bind_get_map; intros ? ? ?; cbn beta iota
  | |- okerr (bind (get_u16 _ _) _) => apply bind_get_u; intros ? ? ? ?; cbn beta iota
  | |- okerr (bind (get_u32 _ _) _) => apply bind_get_u; intros ? ? ? ?; cbn beta iota
  | |- okerr (bind (get_u64 _ _) _) => apply bind_get_u; intros ? ? ? ?; cbn beta iota
  | |- okerr (Ok _) => exact I
  | |- okerr (Err _) => exact I
  end.

Lemma parse_header_total buf : okerr (parse_header buf).
Proof. unfold parse_header. repeat pstep. Qed.
Lemma parse_footer_total buf : okerr (parse_footer buf).
Proof. unfold parse_footer. repeat pstep. Qed.
Lemma parse_schema_total buf : okerr (parse_schema buf).
Proof. unfold parse_schema. repeat pstep. Qed.
Lemma parse_channel_total buf : okerr (parse_channel buf).
Proof. unfold parse_channel. repeat pstep. Qed.
Lemma parse_message_total buf : okerr (parse_message buf).
Proof. unfold parse_message. repeat pstep. Qed.
Lemma parse_chunk_total buf : okerr (parse_chunk buf).
Proof. unfold parse_chunk. repeat pstep. destruct (_ <? _); exact I. Qed.
Lemma parse_msgindex_total buf : okerr (parse_msgindex buf).
Proof.
  unfold parse_msgindex. repeat pstep.
  apply okerr_bind; [apply parse_mi_loop_total; lia|]. intros; exact I.
Qed.
Lemma parse_chunkindex_total buf : okerr (parse_chunkindex buf).
Proof.
  unfold parse_chunkindex. repeat pstep.
  assert (Hlen : length (skipn o3 buf) = (length buf - o3)%nat) by apply skipn_length.
  destruct (parse_cio_loop_total (skipn o3 buf) v3 (S (length buf)) 0%nat []) as [A B]; [lia|lia|].
  apply okerr_bind; [exact A|]. intros [offs inset] E. apply B in E. cbn beta iota zeta.
  repeat pstep.
Qed.
Lemma parse_attindex_total buf : okerr (parse_attindex buf).
Proof. unfold parse_attindex. repeat pstep. Qed.
Lemma parse_statistics_total buf : okerr (parse_statistics buf).
Proof.
  unfold parse_statistics. destruct (Nat.ltb _ _); [exact I|]. repeat pstep.
  destruct (_ <? _); [exact I|].
  apply okerr_bind; [apply parse_counts_loop_total; lia|]. intros; exact I.
Qed.
Lemma parse_metadata_total buf : okerr (parse_metadata buf).
Proof. unfold parse_metadata. repeat pstep. Qed.
Lemma parse_mdindex_total buf : okerr (parse_mdindex buf).
Proof. unfold parse_mdindex. repeat pstep. Qed.
Lemma parse_sumoffset_total buf : okerr (parse_sumoffset buf).
Proof. unfold parse_sumoffset. destruct (Nat.ltb _ _); [exact I|]. repeat pstep. Qed.
Lemma parse_dataend_total buf : okerr (parse_dataend buf).
Proof. unfold parse_dataend. repeat pstep. Qed.

Theorem parse_total_all (buf : bytes) :
  okerr (parse_header buf) /\ okerr (parse_footer buf) /\ okerr (parse_schema buf) /\
  okerr (parse_channel buf) /\ okerr (parse_message buf) /\ okerr (parse_chunk buf) /\
  okerr (parse_msgindex buf) /\ okerr (parse_chunkindex buf) /\ okerr (parse_attindex buf) /\
  okerr (parse_statistics buf) /\ okerr (parse_metadata buf) /\ okerr (parse_mdindex buf) /\
  okerr (parse_sumoffset buf) /\ okerr (parse_dataend buf).
Proof.
  repeat split;
  [ apply parse_header_total | apply parse_footer_total | apply parse_schema_total
  | apply parse_channel_total | apply parse_message_total | apply parse_chunk_total
  | apply parse_msgindex_total | apply parse_chunkindex_total | apply parse_attindex_total
  | apply parse_statistics_total | apply parse_metadata_total | apply parse_mdindex_total
  | apply parse_sumoffset_total | apply parse_dataend_total ].
Qed.

(* ====================================================================================== *)
(* Part 2: readers, load_chunk in stages, one iteration of Lexer.Next                      *)
(* ====================================================================================== *)


(* take / drop lemmas come from Source.v *)
Lemma drop_length n b : length (drop n b) = (length b - N.to_nat (N.min n (blen b)))%nat.
Proof. unfold drop. rewrite skipn_length. reflexivity. Qed.
Lemma take_drop n b : take n b ++ drop n b = b.
Proof. unfold take, drop. apply firstn_skipn. Qed.

(* ---------- readers ---------- *)
(* r' is r after some bytes were consumed *)
Definition adv (r r' : rdr) : Prop :=
  r_end r' = r_end r /\ r_seek r' = r_seek r /\ (length (r_buf r') <= length (r_buf r))%nat.

Lemma adv_refl r : adv r r. Proof. repeat split; lia. Qed.
Lemma adv_trans a b c : adv a b -> adv b c -> adv a c.
Proof. unfold adv. intuition (try congruence; try lia). Qed.

Lemma rd_full_adv n r b oe r' : rd_full n r = (b, oe, r') -> adv r r'.
Proof.
  unfold rd_full, adv. destruct (n =? 0); [intros H; inversion H; subst; repeat split; lia|].
  destruct (n <=? blen (r_buf r)); intros H; inversion H; subst; cbn; repeat split; try lia.
  rewrite drop_length. lia.
Qed.

Lemma rd_full_ok n r b r' : rd_full n r = (b, None, r') ->
  blen b = n /\ r_buf r = b ++ r_buf r' /\ r_end r' = r_end r /\ r_seek r' = r_seek r.
Proof.
  unfold rd_full. destruct (n =? 0) eqn:E0.
  { intros H; inversion H; subst. apply N.eqb_eq in E0. subst. repeat split. }
  destruct (n <=? blen (r_buf r)) eqn:E1; intros H; inversion H; subst; cbn.
  apply N.leb_le in E1. repeat split.
  - unfold blen. rewrite take_length. unfold blen in *. lia.
  - symmetry; apply take_drop.
Qed.

Lemma rd_full_err n r b x r' : rd_full n r = (b, Some x, r') ->
  x = match r_end r with
      | None => match r_buf r with [] => EEOF | _ => EUnexpectedEOF end
      | Some e => e end
  /\ b = r_buf r /\ r_buf r' = [] /\ blen (r_buf r) < n.
Proof.
  unfold rd_full. destruct (n =? 0) eqn:E0; [discriminate|].
  destruct (n <=? blen (r_buf r)) eqn:E1; [discriminate|].
  intros H; inversion H; subst; cbn. apply N.leb_gt in E1. repeat split; auto.
Qed.

Lemma rd_skip_adv n r oe r' : rd_skip n r = (oe, r') -> adv r r'.
Proof.
  unfold rd_skip, adv. destruct (r_seek r) eqn:Es.
  - intros H; inversion H; subst; cbn. rewrite drop_length. repeat split; auto; lia.
  - destruct (_ <? _); intros H; inversion H; subst; cbn; rewrite ?drop_length; repeat split; auto; lia.
Qed.

Lemma rd_skip_err n r x r' : rd_skip n r = (Some x, r') -> x = end_err r /\ r_seek r = false.
Proof.
  unfold rd_skip. destruct (r_seek r); [discriminate|].
  destruct (_ <? _); [|discriminate]. intros H; inversion H; auto.
Qed.


Section LexFacts.
Variable lo : lopts.
Variable dstream : doracle.

Lemma adv_skipn k r : adv r {| r_buf := skipn k (r_buf r); r_end := r_end r; r_seek := r_seek r |}.
Proof. unfold adv; cbn. rewrite skipn_length. repeat split; lia. Qed.
Lemma adv_drop k r : adv r {| r_buf := drop k (r_buf r); r_end := r_end r; r_seek := r_seek r |}.
Proof. apply adv_skipn. Qed.

Lemma do_attachment_adv rl r ev oe r' : do_attachment lo rl r = (ev, oe, r') -> adv r r'.
Proof.
  unfold do_attachment.
  destruct (lo_cb lo) eqn:Ecb.
  - destruct (rd_skip rl r) eqn:E. intros H; inversion H; subst. eapply rd_skip_adv; eauto.
  - match goal with |- context [match ?p with Ok _ => _ | Err _ => _ | Panic _ => _ | Exit _ => _ | OutOfFuel => _ end] =>
      destruct p as [[[[[[lt ct] name] media] ds] o5]| | | |] end;
    try (intros H; inversion H; subst; first [apply adv_refl|apply adv_drop]).
    match goal with |- context[let '(_, _) := ?X in _] => destruct X as [pc pos'] end.
    destruct (rd_skip _ _) as [e2 r2] eqn:E. intros H; inversion H; subst.
    eapply adv_trans; [apply (adv_skipn pos')|]. eapply rd_skip_adv; eauto.
  - match goal with |- context [match ?p with Ok _ => _ | Err _ => _ | Panic _ => _ | Exit _ => _ | OutOfFuel => _ end] =>
      destruct p as [[[[[[lt ct] name] media] ds] o5]| | | |] end;
    try (intros H; inversion H; subst; first [apply adv_refl|apply adv_drop]).
    match goal with |- context[let '(_, _) := ?X in _] => destruct X as [pc pos'] end.
    destruct (rd_skip _ _) as [e2 r2] eqn:E. intros H; inversion H; subst.
    eapply adv_trans; [apply (adv_skipn pos')|]. eapply rd_skip_adv; eauto.
  - match goal with |- context [match ?p with Ok _ => _ | Err _ => _ | Panic _ => _ | Exit _ => _ | OutOfFuel => _ end] =>
      destruct p as [[[[[[lt ct] name] media] ds] o5]| | | |] end;
    try (intros H; inversion H; subst; first [apply adv_refl|apply adv_drop|apply adv_skipn]).
Qed.

Lemma do_attachment_none rl r : lo_cb lo = CbNone ->
  do_attachment lo rl r = (None, fst (rd_skip rl r), snd (rd_skip rl r)).
Proof. intros H. unfold do_attachment. rewrite H. destruct (rd_skip rl r); reflexivity. Qed.

(* ---------- load_chunk in stages ---------- *)
Inductive lc1 :=
| LC1Err (e : err) (s : lstate)
| LC1Ok (usize ucrc : N) (comp : bytes) (rlen : N) (s : lstate).

Definition lc_supported (comp : bytes) : bool :=
  mem_bytes comp (lo_custom lo) || bytes_eqb comp [] || bytes_eqb comp [x7a; x73; x74; x64]
  || bytes_eqb comp [x6c; x7a; x34].

Definition lc_head (record_len : N) (s : lstate) : lc1 :=
  let '(hd, e, b1) := rd_full 32 (lx_base s) in
  let s := s <| lx_base := b1 |> in
  match e with
  | Some EUnexpectedEOF => LC1Err ETruncated s
  | Some e => LC1Err e s
  | None =>
    let usize := unle (sub hd 16 8) in
    let ucrc := unle (sub hd 24 4) in
    let clen := unle (sub hd 28 4) in
    let need := clen + 8 in
    if record_len <? 32 + need then LC1Err EOther s else
    let grow := lx_bufcap s <? need in
    if grow && negb (need <? max_int32) then LC1Err ELengthOutOfRange s else
    let s := if grow then s <| lx_allocs := need :: lx_allocs s |> <| lx_bufcap := need |> else s in
    let '(cb, e, b2) := rd_full need (lx_base s) in
    let s := s <| lx_base := b2 |> in
    match e with
    | Some EUnexpectedEOF | Some EEOF => LC1Err ETruncated s
    | Some e => LC1Err e s
    | None =>
      let rlen := unle (drop clen cb) in
      LC1Ok usize ucrc (take clen cb) (if 9223372036854775807 <? rlen then 0 else rlen) s
    end
  end.

(* the limited reader over the base and the decoder on top of it: (base afterwards, chunk reader) *)
Definition lc_open (comp : bytes) (rlen : N) (b : rdr) : rdr * rdr :=
  let complete := rlen <=? blen (r_buf b) in
  let avail := take rlen (r_buf b) in
  let avail_end := if complete then None else r_end b in
  let b' := {| r_buf := drop rlen (r_buf b); r_end := r_end b; r_seek := r_seek b |} in
  let '(plain, pend) := if bytes_eqb comp [] && negb (mem_bytes comp (lo_custom lo))
                        then (avail, avail_end) else dstream comp avail avail_end in
  (b', {| r_buf := plain; r_end := pend; r_seek := false |}).

Definition lc_validate (usize ucrc : N) (comp : bytes) (b chunk_rdr : rdr) (s : lstate) : option err * lstate :=
  if (0 <? lo_max_chunk lo) && (lo_max_chunk lo <? usize) then (Some EChunkTooLarge, s) else
  if (lx_ubuf s <? usize) && (max_int32 <? usize) then (Some ELengthOutOfRange, s) else
  if (lx_ubuf s <? usize) && negb (usize * 2 <? max_int32) then (Some ELengthOutOfRange, s) else
  let s := if lx_ubuf s <? usize then s <| lx_allocs := usize * 2 :: lx_allocs s |> <| lx_ubuf := usize * 2 |> else s in
  let '(data, e, r1) := rd_full usize chunk_rdr in
  let lazy := bytes_eqb comp [] || mem_bytes comp (lo_custom lo) in
  let s := s <| lx_chunk := Some r1 |> in
  match e with
  | Some e => (Some e, s)
  | None =>
    let is_lz4 := drains_chunk comp in
    let extra_bad := if is_lz4 then
                       match r_buf r1, r_end r1 with
                       | [], None => None
                       | _, Some e => Some e
                       | _ :: _, None => Some EOther
                       end
                     else None in
    let s := if is_lz4 then s <| lx_chunk := Some {| r_buf := []; r_end := r_end r1; r_seek := false |} |> else s in
    match extra_bad with
    | Some e => (Some e, s)
    | None =>
      if (0 <? ucrc) && negb (crc32 data =? ucrc) then (Some EInvalidChunkCrc, s)
      else
        let s := if lazy then s <| lx_base := {| r_buf := drop (blen data) (r_buf b); r_end := r_end b; r_seek := r_seek b |} |>
                 else s in
        (None, s <| lx_chunk := Some {| r_buf := data; r_end := None; r_seek := true |} |>)
    end
  end.

Lemma load_chunk_eq rl s :
  load_chunk lo dstream rl s =
  match lx_chunk s with
  | Some _ => (Some ENestedChunk, s)
  | None =>
    match lc_head rl s with
    | LC1Err e s' => (Some e, s')
    | LC1Ok usize ucrc comp rlen s1 =>
      if negb (lc_supported comp) then (Some EOther, s1) else
      let b := lx_base s1 in
      let '(b', cr) := lc_open comp rlen b in
      let s2 := s1 <| lx_base := b' |> <| lx_chunk := Some cr |> in
      if negb (lo_validate lo) then (None, s2) else lc_validate usize ucrc comp b cr s2
    end
  end.
Proof.
  unfold load_chunk, lc_head. destruct (lx_chunk s); [reflexivity|].
  destruct (rd_full 32 (lx_base s)) as [[hd e] b1].
  destruct e as [e|]; [destruct e; reflexivity|].
  destruct (_ <? _); [reflexivity|].
  unfold make_safe.
  match goal with |- context[lx_bufcap ?s <? ?n] => destruct (lx_bufcap s <? n) eqn:Eg end; cbn [andb].
  - destruct (_ <? max_int32) eqn:Em; cbn [negb]; [|reflexivity].
    destruct (rd_full _ _) as [[cb e2] b2].
    destruct e2 as [e2|]; [destruct e2; reflexivity|].
    unfold lc_supported. destruct (negb (_ || _)); [reflexivity|].
    unfold lc_open. cbv zeta.
    match goal with |- context[let '(_, _) := ?X in _] => destruct X as [plain pend] end.
    destruct (negb (lo_validate lo)); [reflexivity|].
    unfold lc_validate. destruct (_ && _); [reflexivity|].
    unfold make_safe.
    match goal with |- context[lx_ubuf ?s <? ?n] => destruct (lx_ubuf s <? n) eqn:Eu end; cbn [andb].
    + destruct (max_int32 <? _); [reflexivity|]. clear Em.
      destruct (_ * 2 <? max_int32); cbn [negb]; [|reflexivity].
      reflexivity.
    + reflexivity.
  - destruct (rd_full _ _) as [[cb e2] b2].
    destruct e2 as [e2|]; [destruct e2; reflexivity|].
    unfold lc_supported. destruct (negb (_ || _)); [reflexivity|].
    unfold lc_open. cbv zeta.
    match goal with |- context[let '(_, _) := ?X in _] => destruct X as [plain pend] end.
    destruct (negb (lo_validate lo)); [reflexivity|].
    unfold lc_validate. destruct (_ && _); [reflexivity|].
    unfold make_safe.
    match goal with |- context[lx_ubuf ?s <? ?n] => destruct (lx_ubuf s <? n) eqn:Eu end; cbn [andb].
    + destruct (max_int32 <? _); [reflexivity|].
      destruct (_ * 2 <? max_int32); cbn [negb]; reflexivity.
    + reflexivity.
Qed.

End LexFacts.


Ltac rsimpl := unfold set; cbn [lx_base lx_chunk lx_ubuf lx_bufcap lx_allocs r_buf r_end r_seek].
Ltac rsimpl_in H := unfold set in H; cbn [lx_base lx_chunk lx_ubuf lx_bufcap lx_allocs r_buf r_end r_seek] in H.

Section Measure.
Variable lo : lopts.
Variable dstream : doracle.
(* ---------- the progress measure ---------- *)
Definition Lb (s : lstate) : nat := length (r_buf (lx_base s)).
Definition cl (s : lstate) : nat := match lx_chunk s with None => 0%nat | Some r => S (length (r_buf r)) end.

(* bookkeeping shared by the stages of load_chunk: how the allocation log grows *)
Definition allocs_ext (P : N -> Prop) (s s' : lstate) : Prop :=
  exists l, lx_allocs s' = l ++ lx_allocs s /\ Forall P l.

Lemma allocs_ext_refl (P : N -> Prop) s : allocs_ext P s s.
Proof. exists []. split; [reflexivity|constructor]. Qed.
Lemma allocs_ext_trans (P : N -> Prop) a b c : allocs_ext P a b -> allocs_ext P b c -> allocs_ext P a c.
Proof.
  intros [l1 [E1 F1]] [l2 [E2 F2]]. exists (l2 ++ l1). split.
  - rewrite E2, E1. apply app_assoc.
  - apply Forall_app; auto.
Qed.
Lemma allocs_ext_eq (P : N -> Prop) s s' : lx_allocs s' = lx_allocs s -> allocs_ext P s s'.
Proof. intros H. exists []. split; [exact H|constructor]. Qed.
Lemma allocs_ext_one (P : N -> Prop) s s' n : lx_allocs s' = n :: lx_allocs s -> P n -> allocs_ext P s s'.
Proof. intros H Hn. exists [n]. split; [exact H|repeat constructor; exact Hn]. Qed.
Lemma allocs_ext_weaken (P Q : N -> Prop) s s' : (forall n, P n -> Q n) -> allocs_ext P s s' -> allocs_ext Q s s'.
Proof. intros H [l [E F]]. exists l. split; [exact E|]. eapply Forall_impl; eauto. Qed.

Definition head_alloc_ok (rl n : N) : Prop := n < max_int32 /\ n + 32 <= rl.
Definition ubuf_alloc_ok (n : N) : Prop :=
  n < max_int32 /\ (0 < lo_max_chunk lo -> n <= 2 * lo_max_chunk lo).

Lemma lc_head_spec rl s :
  match lc_head rl s with
  | LC1Err _ s' | LC1Ok _ _ _ _ s' =>
    adv (lx_base s) (lx_base s') /\ lx_chunk s' = lx_chunk s /\ lx_ubuf s' = lx_ubuf s /\
    allocs_ext (head_alloc_ok rl) s s'
  end.
Proof.
  unfold lc_head.
  destruct (rd_full 32 (lx_base s)) as [[hd e] b1] eqn:E1. apply rd_full_adv in E1.
  assert (G : forall x, adv (lx_base s) (lx_base (s <| lx_base := b1 |>)) /\
     lx_chunk (s <| lx_base := b1 |>) = lx_chunk s /\ lx_ubuf (s <| lx_base := b1 |>) = lx_ubuf s /\
     allocs_ext (head_alloc_ok x) s (s <| lx_base := b1 |>)).
  { intros x. repeat split; try apply E1. apply allocs_ext_eq. reflexivity. }
  destruct e as [e|]; [destruct e; apply G|].
  destruct (rl <? _) eqn:Erl; [apply G|]. apply N.ltb_ge in Erl.
  match goal with |- context[lx_bufcap ?s <? ?n] => destruct (lx_bufcap s <? n) eqn:Eg end; cbn [andb].
  - destruct (_ <? max_int32) eqn:Em; cbn [negb]; [|apply G]. apply N.ltb_lt in Em.
    destruct (rd_full _ _) as [[cb e2] b2] eqn:E2. apply rd_full_adv in E2. rsimpl_in E2.
    assert (G2 : adv (lx_base s) b2) by (eapply adv_trans; eauto).
    destruct e2 as [e2|]; [destruct e2|]; rsimpl; (split; [exact G2|split; [reflexivity|split; [reflexivity|]]]);
      (eapply allocs_ext_one; [reflexivity|split; [exact Em|lia]]).
  - destruct (rd_full _ _) as [[cb e2] b2] eqn:E2. apply rd_full_adv in E2. rsimpl_in E2.
    assert (G2 : adv (lx_base s) b2) by (eapply adv_trans; eauto).
    destruct e2 as [e2|]; [destruct e2|]; rsimpl; (split; [exact G2|split; [reflexivity|split; [reflexivity|]]]);
      apply allocs_ext_eq; reflexivity.
Qed.

Lemma lc_validate_allocs usize ucrc comp b cr s oe s' :
  lc_validate lo usize ucrc comp b cr s = (oe, s') -> allocs_ext ubuf_alloc_ok s s'.
Proof.
  unfold lc_validate.
  destruct ((0 <? lo_max_chunk lo) && (lo_max_chunk lo <? usize)) eqn:Emc; [intros H; inversion H; subst; apply allocs_ext_refl|].
  destruct ((lx_ubuf s <? usize) && (max_int32 <? usize)) eqn:Em1; [intros H; inversion H; subst; apply allocs_ext_refl|].
  destruct ((lx_ubuf s <? usize) && negb (usize * 2 <? max_int32)) eqn:Em2; [intros H; inversion H; subst; apply allocs_ext_refl|].
  match goal with |- context[rd_full usize cr] => destruct (rd_full usize cr) as [[data e] r1] eqn:Er end.
  set (sa := if lx_ubuf s <? usize then _ else s).
  assert (Ga : allocs_ext ubuf_alloc_ok s sa).
  { subst sa. destruct (lx_ubuf s <? usize) eqn:Eu.
    - eapply allocs_ext_one; [reflexivity|].
      cbn [andb] in Em1, Em2. split; [lia|]. intros Hpos.
      destruct (0 <? lo_max_chunk lo) eqn:E0; [|lia]. cbn [andb] in Emc. lia.
    - apply allocs_ext_refl. }
  clearbody sa.
  destruct e as [e|].
  { intros H; inversion H; subst; clear H.
    eapply allocs_ext_trans; [exact Ga|apply allocs_ext_eq; reflexivity]. }
  set (sb := if drains_chunk comp then set lx_chunk _ _ else _).
  assert (Ga2 : allocs_ext ubuf_alloc_ok s sb).
  { subst sb. destruct (drains_chunk comp);
      (eapply allocs_ext_trans; [exact Ga|apply allocs_ext_eq; reflexivity]). }
  clearbody sb.
  destruct (if drains_chunk comp then _ else None) as [x|].
  { intros H; inversion H; subst; exact Ga2. }
  destruct ((0 <? ucrc) && negb (crc32 data =? ucrc)).
  { intros H; inversion H; subst; exact Ga2. }
  intros H; inversion H; subst; clear H.
  destruct (_ || _);
    (eapply allocs_ext_trans; [exact Ga2|apply allocs_ext_eq; reflexivity]).
Qed.

Section Bound.
Variable B : nat.
Hypothesis HB : forall c a e, (length (fst (dstream c a e)) <= length a + B)%nat.

Lemma lc_open_spec comp rlen b b' cr : lc_open lo dstream comp rlen b = (b', cr) ->
  adv b b' /\ (length (r_buf b') + length (r_buf cr) <= length (r_buf b) + B)%nat /\ r_seek cr = false.
Proof.
  unfold lc_open.
  match goal with |- context[let '(_, _) := ?X in _] => destruct X as [plain pend] eqn:E end.
  intros H; inversion H; subst; clear H. split; [apply adv_drop|]. cbn. split; [|reflexivity].
  assert (length plain <= length (take rlen (r_buf b)) + B)%nat.
  { destruct (_ && _).
    - inversion E; subst. lia.
    - pose proof (HB comp (take rlen (r_buf b)) (if rlen <=? blen (r_buf b) then None else r_end b)) as H.
      rewrite E in H. exact H. }
  rewrite take_length in H. rewrite drop_length. unfold blen in *. lia.
Qed.

Lemma lc_validate_spec usize ucrc comp b cr s oe s' :
  lx_chunk s = Some cr ->
  (Lb s <= length (r_buf b))%nat ->
  (Lb s + length (r_buf cr) <= length (r_buf b) + B)%nat ->
  lc_validate lo usize ucrc comp b cr s = (oe, s') ->
  (Lb s' <= length (r_buf b))%nat /\ (Lb s' + cl s' <= length (r_buf b) + B + 1)%nat.
Proof.
  intros Hc H1 H2. unfold lc_validate.
  assert (G0 : (Lb s <= length (r_buf b))%nat /\ (Lb s + cl s <= length (r_buf b) + B + 1)%nat).
  { unfold cl. rewrite Hc. split; lia. }
  destruct ((0 <? lo_max_chunk lo) && (lo_max_chunk lo <? usize)) eqn:Emc; [intros H; inversion H; subst; exact G0|].
  destruct ((lx_ubuf s <? usize) && (max_int32 <? usize)) eqn:Em1; [intros H; inversion H; subst; exact G0|].
  destruct ((lx_ubuf s <? usize) && negb (usize * 2 <? max_int32)) eqn:Em2; [intros H; inversion H; subst; exact G0|].
  match goal with |- context[rd_full usize cr] => destruct (rd_full usize cr) as [[data e] r1] eqn:Er end.
  pose proof (rd_full_adv _ _ _ _ _ Er) as Ha. destruct Ha as [_ [_ Ha]].
  set (sa := if lx_ubuf s <? usize then _ else s).
  assert (Gl : Lb sa = Lb s).
  { subst sa. destruct (lx_ubuf s <? usize) eqn:Eu; reflexivity. }
  clearbody sa.
  destruct e as [e|].
  { intros H; inversion H; subst; clear H. unfold Lb, cl in *. rsimpl. split; lia. }
  apply rd_full_ok in Er. destruct Er as [Ed [Eb _]].
  assert (Hd : (length data <= length (r_buf cr))%nat) by (rewrite Eb, app_length; lia).
  set (sb := if drains_chunk comp then set lx_chunk _ _ else _).
  assert (Gsb : Lb sb = Lb s /\ (cl sb <= S (length (r_buf cr)))%nat).
  { subst sb. destruct (drains_chunk comp); unfold Lb, cl in *; rsimpl; cbn [length]; split; lia. }
  destruct Gsb as [Gl2 Gc2]. clearbody sb.
  destruct (if drains_chunk comp then _ else None) as [x|].
  { intros H; inversion H; subst; clear H. split; lia. }
  destruct ((0 <? ucrc) && negb (crc32 data =? ucrc)).
  { intros H; inversion H; subst; clear H. split; lia. }
  intros H; inversion H; subst; clear H.
  destruct (_ || _); unfold Lb, cl in *; rsimpl.
  - rewrite drop_length. unfold blen. split; lia.
  - split; lia.
Qed.
End Bound.
End Measure.


Definition no_pe {A} (x : outcome A) : Prop :=
  match x with Panic _ | Exit _ => False | _ => True end.

Inductive sres :=
| SDone (evs : list event) (r : nres) (s : lstate)
| SCont (s : lstate) (evs : list event).

Section Step.
Variable lo : lopts.
Variable dstream : doracle.

Lemma make_safe_cases n s :
  (n < max_int32 /\ make_safe n s = Ok (s <| lx_allocs := n :: lx_allocs s |>)) \/
  (max_int32 <= n /\ make_safe n s = Err ELengthOutOfRange).
Proof.
  unfold make_safe. destruct (n <? max_int32) eqn:E; [left|right]; split; auto.
  - apply N.ltb_lt; exact E.
  - apply N.ltb_ge; exact E.
Qed.

Definition lex_step (pcap : N) (s : lstate) (evs : list event) : sres :=
  let '(hd, e, r1) := rd_full 9 (cur s) in
  let in_chunk := match lx_chunk s with Some _ => true | None => false end in
  let s1 := set_cur r1 s in
  match e with
  | Some e =>
    let ueof := err_eqb e EUnexpectedEOF || err_eqb e ETruncated in
    let eof := err_eqb e EEOF in
    if in_chunk && (eof || ueof) then SCont (s1 <| lx_chunk := None |>) evs
    else if ueof then
      if Nat.eqb (length hd) 8 && bytes_eqb hd magic then SDone evs (NErr EEOF) s1
      else SDone evs (NErr ETruncated) s1
    else SDone evs (NErr e) s1
  | None =>
    let op := match hd with b :: _ => b | [] => x00 end in
    let rlen := unle (skipn 1 hd) in
    if (0 <? lo_max_record lo) && (lo_max_record lo <? rlen) then SDone evs (NErr ERecordTooLarge) s1 else
    if Byte.eqb op OpChunk && negb (lo_emit_chunks lo) then
      match load_chunk lo dstream rlen s1 with
      | (None, s2) => SCont s2 evs
      | (Some e, s2) =>
        if lo_emit_invalid lo && err_eqb e EInvalidChunkCrc then SDone evs (NTok EvInvalidChunk) s2
        else SDone evs (NErr e) s2
      end
    else if Byte.eqb op OpAttachment then
      if 9223372036854775807 <? rlen then SDone evs (NErr EOther) s1 else
      let '(ev, e, r2) := do_attachment lo rlen (cur s1) in
      let s2 := set_cur r2 s1 in
      let evs := match ev with Some ev => evs ++ [ev] | None => evs end in
      match e with
      | Some e => SDone evs (NErr e) s2
      | None => SCont s2 evs
      end
    else
      if (pcap <? rlen) && negb (rlen <? max_int32) then SDone evs (NErr ELengthOutOfRange) s1 else
      let s1 := if pcap <? rlen then s1 <| lx_allocs := rlen :: lx_allocs s1 |> else s1 in
      let '(body, e, r2) := rd_full rlen (cur s1) in
      let s2 := set_cur r2 s1 in
      match e with
      | Some EUnexpectedEOF => SDone evs (NErr ETruncated) s2
      | Some e => SDone evs (NErr e) s2
      | None =>
        if known_op op then SDone evs (NTok (EvToken op body)) s2
        else if Byte.eqb op x00 then SDone evs (NErr EInvalidZeroOpcode) s2
        else SCont s2 evs
      end
  end.

Lemma lex_next_S f pcap s evs :
  lex_next lo dstream (S f) pcap s evs =
  match lex_step pcap s evs with
  | SDone a b c => Ok (a, b, c)
  | SCont s' evs' => lex_next lo dstream f pcap s' evs'
  end.
Proof.
  cbn [lex_next]. unfold lex_step.
  destruct (rd_full 9 (cur s)) as [[hd e] r1].
  destruct e as [e|].
  - destruct (_ && _); [reflexivity|]. destruct (_ || _); [destruct (_ && _); reflexivity|reflexivity].
  - destruct (_ && _); [reflexivity|].
    destruct (_ && _).
    + destruct (load_chunk _ _ _ _) as [[e2|] s2]; [destruct (_ && _); reflexivity|reflexivity].
    + destruct (Byte.eqb _ OpAttachment).
      * destruct (_ <? _); [reflexivity|].
        destruct (do_attachment _ _ _) as [[ev e2] r2].
        destruct e2; reflexivity.
      * unfold make_safe. destruct (pcap <? _); cbn [andb].
        -- destruct (_ <? max_int32); cbn [negb].
           ++ destruct (rd_full _ _) as [[body e3] r3]. destruct e3 as [[]|]; try reflexivity.
              destruct (known_op _); [reflexivity|]. destruct (Byte.eqb _ _); reflexivity.
           ++ reflexivity.
        -- destruct (rd_full _ _) as [[body e3] r3]. destruct e3 as [[]|]; try reflexivity.
              destruct (known_op _); [reflexivity|]. destruct (Byte.eqb _ _); reflexivity.
Qed.

End Step.


Section Allocs.
Variable lo : lopts.
Variable dstream : doracle.

Definition chunk_alloc_ok (rl n : N) : Prop :=
  n < max_int32 /\
  (n + 32 <= rl \/ (lo_validate lo = true /\ (0 < lo_max_chunk lo -> n <= 2 * lo_max_chunk lo))).

Lemma load_chunk_allocs rl s oe s' : load_chunk lo dstream rl s = (oe, s') ->
  allocs_ext (chunk_alloc_ok rl) s s'.
Proof.
  rewrite load_chunk_eq. destruct (lx_chunk s) eqn:Ec.
  { intros H; inversion H; subst. apply allocs_ext_refl. }
  pose proof (lc_head_spec rl s) as Hh.
  assert (W1 : forall s1, allocs_ext (head_alloc_ok rl) s s1 -> allocs_ext (chunk_alloc_ok rl) s s1).
  { intros s1. apply allocs_ext_weaken. intros n [A1 A2]. split; [exact A1|left; exact A2]. }
  destruct (lc_head rl s) as [e s1|usize ucrc comp rlen s1].
  { destruct Hh as [_ [_ [_ Hal]]]. intros H; inversion H; subst. apply W1; exact Hal. }
  destruct Hh as [_ [_ [_ Hal]]].
  destruct (negb (lc_supported lo comp)).
  { intros H; inversion H; subst. apply W1; exact Hal. }
  cbv zeta. destruct (lc_open lo dstream comp rlen (lx_base s1)) as [b' cr] eqn:Eo.
  destruct (negb (lo_validate lo)) eqn:Ev.
  { intros H; inversion H; subst.
    apply W1. eapply allocs_ext_trans; [exact Hal|apply allocs_ext_eq; reflexivity]. }
  intros H. apply lc_validate_allocs in H.
  eapply allocs_ext_trans; [apply W1; exact Hal|].
  eapply allocs_ext_trans; [apply allocs_ext_eq; reflexivity|].
  eapply allocs_ext_weaken; [|exact H]. intros n [A1 A2]. split; [exact A1|right].
  split; [destruct (lo_validate lo); [reflexivity|discriminate]|exact A2].
Qed.

Lemma cur_set_cur r s : cur (set_cur r s) = r.
Proof. unfold cur, set_cur. destruct (lx_chunk s) eqn:E; rsimpl; rewrite ?E; reflexivity. Qed.
Lemma chunk_set_cur r s :
  lx_chunk (set_cur r s) = match lx_chunk s with Some _ => Some r | None => None end.
Proof. unfold set_cur. destruct (lx_chunk s) eqn:E; rsimpl; rewrite ?E; reflexivity. Qed.
Lemma allocs_set_cur r s : lx_allocs (set_cur r s) = lx_allocs s.
Proof. unfold set_cur. destruct (lx_chunk s) eqn:E; rsimpl; rewrite ?E; reflexivity. Qed.
Lemma base_set_cur r s :
  lx_base (set_cur r s) = match lx_chunk s with Some _ => lx_base s | None => r end.
Proof. unfold set_cur. destruct (lx_chunk s) eqn:E; rsimpl; rewrite ?E; reflexivity. Qed.

Definition step_alloc_ok (n : N) : Prop :=
  n < max_int32 /\
  (0 < lo_max_record lo -> n <= lo_max_record lo \/
     (lo_emit_chunks lo = false /\ lo_validate lo = true /\ (0 < lo_max_chunk lo -> n <= 2 * lo_max_chunk lo))).

Lemma lex_step_allocs pcap s evs :
  match lex_step lo dstream pcap s evs with
  | SCont s' _ | SDone _ _ s' => allocs_ext step_alloc_ok s s'
  end.
Proof.
  unfold lex_step.
  destruct (rd_full 9 (cur s)) as [[hd e] r1] eqn:E9.
  assert (A1 : allocs_ext step_alloc_ok s (set_cur r1 s)) by (apply allocs_ext_eq, allocs_set_cur).
  destruct e as [e|].
  { destruct (_ && (_ || _)).
    - eapply allocs_ext_trans; [exact A1|apply allocs_ext_eq; reflexivity].
    - destruct (_ || _); [destruct (_ && _)|]; auto. }
  set (rlen := unle (skipn 1 hd)).
  destruct ((0 <? lo_max_record lo) && (lo_max_record lo <? rlen)) eqn:Emr; [exact A1|].
  assert (Hrl : 0 < lo_max_record lo -> rlen <= lo_max_record lo) by lia.
  destruct (_ && negb (lo_emit_chunks lo)) eqn:Eck.
  { destruct (load_chunk lo dstream rlen (set_cur r1 s)) as [oe s2] eqn:El.
    apply load_chunk_allocs in El.
    assert (A2 : allocs_ext step_alloc_ok s s2).
    { eapply allocs_ext_trans; [exact A1|]. eapply allocs_ext_weaken; [|exact El].
      intros n [B1 B2]. split; [exact B1|]. intros Hpos. specialize (Hrl Hpos).
      destruct B2 as [B2|[B2 B3]]; [left; lia|right].
      split; [|split; assumption]. destruct (lo_emit_chunks lo); [|reflexivity].
      rewrite andb_false_r in Eck. discriminate. }
    destruct oe as [x|]; [destruct (lo_emit_invalid lo && _)|]; exact A2. }
  destruct (Byte.eqb _ OpAttachment).
  { destruct (9223372036854775807 <? rlen); [exact A1|].
    destruct (do_attachment lo rlen (cur (set_cur r1 s))) as [[ev e2] r2] eqn:Ed.
    assert (A2 : allocs_ext step_alloc_ok s (set_cur r2 (set_cur r1 s))).
    { apply allocs_ext_eq. rewrite !allocs_set_cur. reflexivity. }
    destruct e2; exact A2. }
  destruct ((pcap <? rlen) && negb (rlen <? max_int32)) eqn:Ems; [exact A1|].
  set (s1 := if pcap <? rlen then _ else _).
  assert (G3 : allocs_ext step_alloc_ok s s1).
  { subst s1. destruct (pcap <? rlen) eqn:Ep; [|exact A1].
    eapply allocs_ext_one; [rewrite <- (allocs_set_cur r1 s); reflexivity|].
    cbn [andb] in Ems. split; [lia|]. intros Hpos. left. auto. }
  clearbody s1.
  destruct (rd_full rlen (cur s1)) as [[body e3] r3] eqn:E3.
  assert (A2 : allocs_ext step_alloc_ok s (set_cur r3 s1)).
  { eapply allocs_ext_trans; [exact G3|apply allocs_ext_eq, allocs_set_cur]. }
  destruct e3 as [e3|]; [destruct e3; exact A2|].
  destruct (known_op _); [exact A2|].
  destruct (Byte.eqb _ x00); exact A2.
Qed.
End Allocs.

Section Total.
Variable lo : lopts.
Variable dstream : doracle.
Variable B : nat.
Hypothesis HB : forall c a e, (length (fst (dstream c a e)) <= length a + B)%nat.

Lemma load_chunk_spec rl s oe s' : load_chunk lo dstream rl s = (oe, s') ->
  match lx_chunk s with
  | Some _ => s' = s /\ oe = Some ENestedChunk
  | None => (Lb s' <= Lb s)%nat /\ (Lb s' + cl s' <= Lb s + B + 1)%nat
  end.
Proof.
  rewrite load_chunk_eq. destruct (lx_chunk s) eqn:Ec.
  { intros H; inversion H; subst. split; reflexivity. }
  pose proof (lc_head_spec rl s) as Hh.
  destruct (lc_head rl s) as [e s1|usize ucrc comp rlen s1].
  { destruct Hh as [[_ [_ Ha]] [Hc _]]. intros H; inversion H; subst.
    unfold Lb, cl. rewrite Hc, Ec. lia. }
  destruct Hh as [[_ [_ Ha]] [Hc _]].
  destruct (negb (lc_supported lo comp)).
  { intros H; inversion H; subst. unfold Lb, cl. rewrite Hc, Ec. lia. }
  cbv zeta. destruct (lc_open lo dstream comp rlen (lx_base s1)) as [b' cr] eqn:Eo.
  apply (lc_open_spec lo dstream B HB) in Eo. destruct Eo as [[_ [_ Ho1]] [Ho2 _]].
  destruct (negb (lo_validate lo)) eqn:Ev.
  { intros H; inversion H; subst. unfold Lb, cl. rsimpl. lia. }
  intros H. eapply (lc_validate_spec lo dstream B HB) in H.
  - destruct H as [V1 V2]. unfold Lb in *; lia.
  - reflexivity.
  - unfold Lb. rsimpl. lia.
  - unfold Lb. rsimpl. lia.
Qed.

Definition mu (s : lstate) : nat := (Lb s * (B + 2) + cl s)%nat.

Lemma mu_chunk_step (a c b1 b0 : nat) :
  (a <= b1)%nat -> (a + c <= b1 + B + 1)%nat -> (b1 + 9 <= b0)%nat ->
  (a * (B + 2) + c < b0 * (B + 2))%nat.
Proof. intros. nia. Qed.


Lemma mu_set_cur r s k : (length (r_buf r) + k <= length (r_buf (cur s)))%nat ->
  (mu (set_cur r s) + k <= mu s)%nat.
Proof.
  unfold mu, Lb, cl, cur, set_cur. destruct (lx_chunk s) eqn:E; rsimpl; rewrite ?E; intros H; [lia|nia].
Qed.

Lemma lex_step_spec pcap s evs :
  match lex_step lo dstream pcap s evs with
  | SCont s' _ => (mu s' < mu s)%nat
  | SDone _ (NTok _) s' => (mu s' < mu s)%nat
  | SDone _ (NErr _) s' => (mu s' <= mu s)%nat
  end.
Proof.
  unfold lex_step.
  destruct (rd_full 9 (cur s)) as [[hd e] r1] eqn:E9.
  pose proof (rd_full_adv _ _ _ _ _ E9) as [_ [_ Ha]].
  destruct e as [e|].
  { assert (M1 : (mu (set_cur r1 s) <= mu s)%nat).
    { pose proof (mu_set_cur r1 s 0). lia. }
    destruct (lx_chunk s) eqn:Ec.
    - destruct (true && _).
      + unfold mu, Lb, cl, set_cur. rewrite Ec. rsimpl. lia.
      + destruct (_ || _); [destruct (_ && _)|]; auto.
    - cbn [andb]. destruct (_ || _); [destruct (_ && _)|]; auto. }
  apply rd_full_ok in E9. destruct E9 as [E9a [E9b _]].
  assert (M1 : (mu (set_cur r1 s) + 9 <= mu s)%nat).
  { apply mu_set_cur. rewrite E9b, app_length. unfold blen in E9a. lia. }
  set (rlen := unle (skipn 1 hd)).
  destruct ((0 <? lo_max_record lo) && (lo_max_record lo <? rlen)) eqn:Emr; [lia|].
  destruct (_ && negb (lo_emit_chunks lo)) eqn:Eck.
  { destruct (load_chunk lo dstream rlen (set_cur r1 s)) as [oe s2] eqn:El.
    apply load_chunk_spec in El.
    assert (M2 : (mu s2 < mu s)%nat).
    { rewrite chunk_set_cur in El. destruct (lx_chunk s) eqn:Ec.
      - destruct El as [-> _]. lia.
      - destruct El as [L1 L2]. unfold mu at 2. unfold cl. rewrite Ec.
        unfold Lb in L1, L2 |- *. rewrite base_set_cur, Ec in L1, L2.
        rewrite Nat.add_0_r. apply (mu_chunk_step _ _ (length (r_buf r1))); try assumption.
        unfold cur in E9b. rewrite Ec in E9b. rewrite E9b, app_length. unfold blen in E9a. lia. }
    destruct oe as [x|]; [destruct (lo_emit_invalid lo && _)|]; auto; lia. }
  destruct (Byte.eqb _ OpAttachment).
  { destruct (9223372036854775807 <? rlen); [lia|].
    destruct (do_attachment lo rlen (cur (set_cur r1 s))) as [[ev e2] r2] eqn:Ed.
    apply do_attachment_adv in Ed. destruct Ed as [_ [_ Ed]].
    assert (M2 : (mu (set_cur r2 (set_cur r1 s)) <= mu (set_cur r1 s))%nat).
    { pose proof (mu_set_cur r2 (set_cur r1 s) 0). lia. }
    destruct e2; lia. }
  destruct ((pcap <? rlen) && negb (rlen <? max_int32)) eqn:Ems; [lia|].
  set (s1 := if pcap <? rlen then _ else _).
  assert (G1 : cur s1 = r1 /\ (mu s1 + 9 <= mu s)%nat).
  { subst s1. destruct (pcap <? rlen) eqn:Ep.
    - split; [|exact M1]. rewrite <- (cur_set_cur r1 s) at 2. reflexivity.
    - split; [apply cur_set_cur|exact M1]. }
  destruct G1 as [G1 G2]. clearbody s1.
  destruct (rd_full rlen (cur s1)) as [[body e3] r3] eqn:E3.
  apply rd_full_adv in E3. destruct E3 as [_ [_ E3]].
  assert (M2 : (mu (set_cur r3 s1) <= mu s1)%nat).
  { pose proof (mu_set_cur r3 s1 0). lia. }
  destruct e3 as [e3|]; [destruct e3; lia|].
  destruct (known_op _); [lia|].
  destruct (Byte.eqb _ x00); lia.
Qed.

End Total.


Section NoCrash.
Variable lo : lopts.
Variable dstream : doracle.

Lemma lex_next_no_pe : forall fuel pcap s evs, no_pe (lex_next lo dstream fuel pcap s evs).
Proof.
  induction fuel as [|f IH]; intros pcap s evs; [exact I|].
  rewrite lex_next_S. destruct (lex_step _ _ _ _ _); [exact I|apply IH].
Qed.

Lemma new_lexer_okerr src : okerr (new_lexer lo src).
Proof.
  unfold new_lexer. destruct (lo_skip_magic lo); [exact I|].
  destruct (rd_full 8 src) as [[m e] r1]. destruct e; [exact I|].
  destruct (bytes_eqb m magic); exact I.
Qed.

Lemma lex_loop_no_pe : forall n fuel s acc, no_pe (lex_loop lo dstream n fuel s acc).
Proof.
  induction n as [|n IH]; intros fuel s acc; [exact I|]. cbn [lex_loop].
  pose proof (lex_next_no_pe fuel 0 s []) as H.
  destruct (lex_next lo dstream fuel 0 s []) as [[[evs r] s']| | | |]; try exact I; try contradiction.
  destruct r; [apply IH|exact I].
Qed.

Lemma lex_all_no_pe fuel src : no_pe (lex_all lo dstream fuel src).
Proof.
  unfold lex_all. pose proof (new_lexer_okerr src) as H.
  destruct (new_lexer lo src); try exact I; try contradiction. apply lex_loop_no_pe.
Qed.

(* ----- allocation log ----- *)
Lemma lex_next_allocs : forall fuel pcap s evs evs' res s',
  lex_next lo dstream fuel pcap s evs = Ok (evs', res, s') -> allocs_ext (step_alloc_ok lo) s s'.
Proof.
  induction fuel as [|f IH]; intros pcap s evs evs' res s'; [discriminate|].
  rewrite lex_next_S. pose proof (lex_step_allocs lo dstream pcap s evs) as Hs.
  destruct (lex_step _ _ _ _ _) as [a b c|s1 evs1].
  - intros H; inversion H; subst. exact Hs.
  - intros H. apply IH in H. eapply allocs_ext_trans; eauto.
Qed.

Lemma allocs_ext_forall (P : N -> Prop) s s' :
  allocs_ext P s s' -> Forall P (lx_allocs s) -> Forall P (lx_allocs s').
Proof. intros [l [E F]] H. rewrite E. apply Forall_app; auto. Qed.

Lemma lex_loop_allocs : forall n fuel s acc evs fin s',
  lex_loop lo dstream n fuel s acc = Ok (evs, fin, s') -> allocs_ext (step_alloc_ok lo) s s'.
Proof.
  induction n as [|n IH]; intros fuel s acc evs fin s'; [discriminate|]. cbn [lex_loop].
  destruct (lex_next lo dstream fuel 0 s []) as [[[evs1 r] s1]| | | |] eqn:E; try discriminate.
  apply lex_next_allocs in E.
  destruct r.
  - intros H. apply IH in H. eapply allocs_ext_trans; eauto.
  - intros H; inversion H; subst. exact E.
Qed.

Lemma new_lexer_allocs src s : new_lexer lo src = Ok s -> lx_allocs s = [].
Proof.
  unfold new_lexer. destruct (lo_skip_magic lo); [intros H; inversion H; reflexivity|].
  destruct (rd_full 8 src) as [[m e] r1]. destruct e; [discriminate|].
  destruct (bytes_eqb m magic); [|discriminate]. intros H; inversion H; reflexivity.
Qed.

Lemma lex_all_allocs fuel src evs fin s' :
  lex_all lo dstream fuel src = Ok (evs, fin, s') -> Forall (step_alloc_ok lo) (lx_allocs s').
Proof.
  unfold lex_all. destruct (new_lexer lo src) as [s| | | |] eqn:E; try discriminate.
  apply new_lexer_allocs in E. intros H. apply lex_loop_allocs in H.
  eapply allocs_ext_forall; [exact H|]. rewrite E. constructor.
Qed.

End NoCrash.

Section Total2.
Variable lo : lopts.
Variable dstream : doracle.
Variable B : nat.
Hypothesis HB : forall c a e, (length (fst (dstream c a e)) <= length a + B)%nat.

Lemma lex_next_total : forall fuel pcap s evs, (mu B s < fuel)%nat ->
  exists evs' res s', lex_next lo dstream fuel pcap s evs = Ok (evs', res, s') /\
    match res with NTok _ => (mu B s' < mu B s)%nat | NErr _ => (mu B s' <= mu B s)%nat end.
Proof.
  induction fuel as [|f IH]; intros pcap s evs Hf; [lia|].
  rewrite lex_next_S. pose proof (lex_step_spec lo dstream B HB pcap s evs) as Hs.
  destruct (lex_step _ _ _ _ _) as [a b c|s1 evs1].
  - exists a, b, c. split; [reflexivity|exact Hs].
  - destruct (IH pcap s1 evs1) as [evs' [res [s' [E1 E2]]]]; [lia|].
    exists evs', res, s'. split; [exact E1|]. destruct res; lia.
Qed.

Lemma lex_loop_total : forall n fuel s acc, (mu B s < fuel)%nat -> (mu B s < n)%nat ->
  exists evs fin s', lex_loop lo dstream n fuel s acc = Ok (evs, fin, s').
Proof.
  induction n as [|n IH]; intros fuel s acc Hf Hn; [lia|]. cbn [lex_loop].
  destruct (lex_next_total fuel 0 s [] Hf) as [evs' [res [s' [E1 E2]]]]. rewrite E1.
  destruct res.
  - apply IH; lia.
  - eauto.
Qed.

Fixpoint tokens_produced (n fuel : nat) (s : lstate) : Prop :=
  match n with
  | O => True
  | S n' => exists evs ev s', lex_next lo dstream fuel 0 s [] = Ok (evs, NTok ev, s') /\
                              tokens_produced n' fuel s'
  end.

Lemma lex_loop_out_of_fuel : forall n fuel s acc, (mu B s < fuel)%nat ->
  lex_loop lo dstream n fuel s acc = OutOfFuel -> tokens_produced n fuel s.
Proof.
  induction n as [|n IH]; intros fuel s acc Hf; [intros; exact I|]. cbn [lex_loop tokens_produced].
  destruct (lex_next_total fuel 0 s [] Hf) as [evs' [res [s' [E1 E2]]]]. rewrite E1.
  destruct res; [|discriminate].
  intros H. exists evs', ev, s'. split; [reflexivity|]. eapply IH; [|exact H]. lia.
Qed.

Lemma new_lexer_mu src s : new_lexer lo src = Ok s -> (mu B s <= length (r_buf src) * (B + 2))%nat.
Proof.
  unfold new_lexer. destruct (lo_skip_magic lo).
  { intros H; inversion H; subst. unfold mu, Lb, cl. rsimpl. lia. }
  destruct (rd_full 8 src) as [[m e] r1] eqn:E. apply rd_full_adv in E. destruct E as [_ [_ E]].
  destruct e; [discriminate|].
  destruct (bytes_eqb m magic); [|discriminate]. intros H; inversion H; subst.
  unfold mu, Lb, cl. rsimpl. nia.
Qed.

Lemma lex_all_total fuel src : (length (r_buf src) * (B + 2) < fuel)%nat ->
  okerr (lex_all lo dstream fuel src).
Proof.
  intros Hf. unfold lex_all. pose proof (new_lexer_okerr lo src) as Hn.
  destruct (new_lexer lo src) as [s| | | |] eqn:E; try exact I; try contradiction.
  apply new_lexer_mu in E.
  destruct (lex_loop_total fuel fuel s []) as [evs [fin [s' H]]]; try lia.
  rewrite H. exact I.
Qed.

End Total2.

(* ====================================================================================== *)
(* Part 3: failing sources (C15)                                                           *)
(* ====================================================================================== *)


Lemma err_eqb_eq a b : err_eqb a b = true <-> a = b.
Proof. destruct a, b; cbn; split; intros H; try reflexivity; try discriminate. Qed.
Lemma err_eqb_neq a b : err_eqb a b = false <-> a <> b.
Proof.
  split.
  - intros H E. apply err_eqb_eq in E. congruence.
  - intros H. destruct (err_eqb a b) eqn:E; [apply err_eqb_eq in E; contradiction|reflexivity].
Qed.

Lemma rd_full_eof n r b r' : rd_full n r = (b, Some EEOF, r') -> end_err r = EEOF /\ end_err r' = EEOF.
Proof.
  intros H. pose proof (rd_full_adv _ _ _ _ _ H) as [Ha _]. apply rd_full_err in H.
  destruct H as [H _]. unfold end_err. rewrite Ha.
  destruct (r_end r) as [x|]; [subst; auto|auto].
Qed.

Lemma rd_skip_eof n r r' : rd_skip n r = (Some EEOF, r') -> end_err r = EEOF /\ end_err r' = EEOF.
Proof.
  intros H. pose proof (rd_skip_adv _ _ _ _ H) as [Ha _]. apply rd_skip_err in H.
  destruct H as [H _]. unfold end_err in *. rewrite Ha. auto.
Qed.

Section FailNotEof.
Variable lo : lopts.
Variable dstream : doracle.
Variable e : err.
Hypothesis He1 : e <> EEOF.
Hypothesis He2 : e <> EUnexpectedEOF.
Hypothesis He3 : e <> ETruncated.

Definition eof_in_chunk (oe : option err) (s : lstate) : Prop :=
  oe = Some EEOF -> exists r, lx_chunk s = Some r /\ end_err r = EEOF.

Lemma lc_head_fail rl s : r_end (lx_base s) = Some e ->
  match lc_head rl s with LC1Err x _ => x <> EEOF | LC1Ok _ _ _ _ _ => True end.
Proof.
  intros Hb. unfold lc_head.
  destruct (rd_full 32 (lx_base s)) as [[hd x] b1] eqn:E1.
  pose proof (rd_full_adv _ _ _ _ _ E1) as [Ha1 _].
  destruct x as [x|].
  { apply rd_full_err in E1. destruct E1 as [E1 _]. rewrite Hb in E1. subst x.
    destruct e; congruence. }
  destruct (rl <? _); [discriminate|].
  destruct (_ && _); [discriminate|].
  match goal with |- context[rd_full ?n ?r] => destruct (rd_full n r) as [[cb x] b2] eqn:E2 end.
  destruct x as [x|]; [|exact I].
  apply rd_full_err in E2. destruct E2 as [E2 _].
  assert (Hx : x = e).
  { rewrite E2. destruct (lx_bufcap _ <? _); rsimpl; rewrite Ha1, Hb; reflexivity. }
  clear E2. subst x. destruct e; cbv beta iota; try discriminate; congruence.
Qed.

Lemma lc_validate_fail usize ucrc comp b cr s oe s' :
  lx_chunk s = Some cr -> r_end b = r_end (lx_base s) ->
  lc_validate lo usize ucrc comp b cr s = (oe, s') ->
  r_end (lx_base s') = r_end (lx_base s) /\ eof_in_chunk oe s'.
Proof.
  intros Hc Hb. unfold lc_validate, eof_in_chunk.
  destruct ((0 <? lo_max_chunk lo) && (lo_max_chunk lo <? usize)); [intros H; inversion H; subst; split; [reflexivity|discriminate]|].
  destruct ((lx_ubuf s <? usize) && (max_int32 <? usize)); [intros H; inversion H; subst; split; [reflexivity|discriminate]|].
  destruct ((lx_ubuf s <? usize) && negb (usize * 2 <? max_int32)); [intros H; inversion H; subst; split; [reflexivity|discriminate]|].
  match goal with |- context[rd_full usize cr] => destruct (rd_full usize cr) as [[data x] r1] eqn:Er end.
  set (sa := if lx_ubuf s <? usize then _ else s).
  assert (Gl : lx_base sa = lx_base s) by (subst sa; destruct (lx_ubuf s <? usize); reflexivity).
  clearbody sa.
  destruct x as [x|].
  { intros H; inversion H; subst; clear H. rsimpl. rewrite Gl. split; [reflexivity|].
    intros Hx; inversion Hx; subst. apply rd_full_eof in Er. exists r1. split; [reflexivity|apply Er]. }
  set (sb := if drains_chunk comp then set lx_chunk _ _ else _).
  assert (Gsb : lx_base sb = lx_base s /\
                (drains_chunk comp = true -> lx_chunk sb = Some {| r_buf := []; r_end := r_end r1; r_seek := false |})).
  { subst sb. destruct (drains_chunk comp); rsimpl; rewrite Gl; split; auto; discriminate. }
  destruct Gsb as [Gl2 Gc2]. clearbody sb.
  destruct (drains_chunk comp) eqn:Elz.
  - destruct (match r_buf r1 with [] => _ | _ => _ end) as [x|] eqn:Ex.
    { intros H; inversion H; subst; clear H. split; [rewrite Gl2; reflexivity|].
      intros Hx; inversion Hx; subst. eexists. split; [apply Gc2; reflexivity|].
      unfold end_err. cbn [r_end].
      destruct (r_buf r1), (r_end r1); try discriminate; inversion Ex; reflexivity. }
    destruct ((0 <? ucrc) && negb (crc32 data =? ucrc)).
    { intros H; inversion H; subst; clear H. split; [rewrite Gl2; reflexivity|discriminate]. }
    intros H; inversion H; subst; clear H.
    split; [|discriminate]. destruct (_ || _); rsimpl; congruence.
  - destruct ((0 <? ucrc) && negb (crc32 data =? ucrc)).
    { intros H; inversion H; subst; clear H. split; [rewrite Gl2; reflexivity|discriminate]. }
    intros H; inversion H; subst; clear H.
    split; [|discriminate]. destruct (_ || _); rsimpl; congruence.
Qed.

Lemma load_chunk_fail rl s oe s' : r_end (lx_base s) = Some e ->
  load_chunk lo dstream rl s = (oe, s') ->
  r_end (lx_base s') = Some e /\ eof_in_chunk oe s'.
Proof.
  intros Hb. rewrite load_chunk_eq. destruct (lx_chunk s) eqn:Ec.
  { intros H; inversion H; subst. split; [exact Hb|discriminate]. }
  pose proof (lc_head_spec rl s) as Hh. pose proof (lc_head_fail rl s Hb) as Hf.
  destruct (lc_head rl s) as [x s1|usize ucrc comp rlen s1].
  { destruct Hh as [[Ha _] _]. intros H; inversion H; subst.
    split; [congruence|]. intros Hx; inversion Hx; subst; contradiction. }
  destruct Hh as [[Ha _] [Hc _]].
  destruct (negb (lc_supported lo comp)).
  { intros H; inversion H; subst. split; [congruence|discriminate]. }
  cbv zeta. destruct (lc_open lo dstream comp rlen (lx_base s1)) as [b' cr] eqn:Eo.
  assert (Hb' : r_end b' = r_end (lx_base s1)).
  { unfold lc_open in Eo.
    match type of Eo with context[let '(_, _) := ?X in _] => destruct X as [plain pend] end.
    inversion Eo; subst. reflexivity. }
  destruct (negb (lo_validate lo)).
  { intros H; inversion H; subst. rsimpl. split; [congruence|discriminate]. }
  intros H. apply lc_validate_fail in H; [|reflexivity|rsimpl; congruence].
  destruct H as [V1 V2]. split; [|exact V2]. rewrite V1. rsimpl. congruence.
Qed.


Hypothesis Hcb : lo_cb lo = CbNone.

Lemma end_err_base_set_cur r s :
  r_end r = r_end (cur s) -> r_end (lx_base (set_cur r s)) = r_end (lx_base s).
Proof. intros H. rewrite base_set_cur. unfold cur in H. destruct (lx_chunk s); [reflexivity|exact H]. Qed.

(* an error from the current reader that is EEOF can only come from a chunk reader *)
Lemma eof_cur r s : r_end (lx_base s) = Some e -> r_end r = r_end (cur s) -> end_err r = EEOF ->
  eof_in_chunk (Some EEOF) (set_cur r s).
Proof.
  intros Hb Hr He _. rewrite chunk_set_cur. unfold cur in Hr. destruct (lx_chunk s) as [c|].
  - exists r. split; [reflexivity|exact He].
  - unfold end_err in He. rewrite Hr, Hb in He. contradiction.
Qed.

Lemma lex_step_fail pcap s evs : r_end (lx_base s) = Some e ->
  match lex_step lo dstream pcap s evs with
  | SCont s' _ => r_end (lx_base s') = Some e
  | SDone _ res s' =>
    r_end (lx_base s') = Some e /\ (res = NErr EEOF -> exists r, lx_chunk s' = Some r /\ end_err r = EEOF)
  end.
Proof.
  intros Hb. unfold lex_step.
  destruct (rd_full 9 (cur s)) as [[hd x] r1] eqn:E9.
  pose proof (rd_full_adv _ _ _ _ _ E9) as [Ha _].
  assert (B1 : r_end (lx_base (set_cur r1 s)) = Some e).
  { rewrite end_err_base_set_cur; assumption. }
  destruct x as [x|].
  { apply rd_full_err in E9. destruct E9 as [E9 _].
    destruct (lx_chunk s) as [c|] eqn:Ec.
    - clear E9. cbn [andb]. destruct (err_eqb x EEOF || _) eqn:Ee.
      + exact B1.
      + apply orb_false_iff in Ee. destruct Ee as [Ee1 Ee2]. rewrite Ee2.
        split; [exact B1|]. intros Hx; inversion Hx; subst. cbn in Ee1. discriminate.
    - cbn [andb]. unfold cur in E9. rewrite Ec, Hb in E9. subst x.
      replace (err_eqb e EUnexpectedEOF || err_eqb e ETruncated) with false.
      2:{ symmetry. apply orb_false_iff. split; apply err_eqb_neq; assumption. }
      split; [exact B1|]. intros Hx; inversion Hx; subst. contradiction. }
  set (rlen := unle (skipn 1 hd)).
  destruct ((0 <? lo_max_record lo) && (lo_max_record lo <? rlen)); [split; [exact B1|discriminate]|].
  destruct (_ && negb (lo_emit_chunks lo)).
  { destruct (load_chunk lo dstream rlen (set_cur r1 s)) as [oe s2] eqn:El.
    apply load_chunk_fail in El; [|assumption..]. destruct El as [L1 L2].
    destruct oe as [x|]; [|exact L1].
    destruct (lo_emit_invalid lo && _) eqn:Ei; (split; [exact L1|]); [discriminate|].
    intros Hx; inversion Hx; subst. apply L2. reflexivity. }
  destruct (Byte.eqb _ OpAttachment).
  { destruct (9223372036854775807 <? rlen); [split; [exact B1|discriminate]|].
    rewrite do_attachment_none by exact Hcb.
    destruct (rd_skip rlen (cur (set_cur r1 s))) as [oe r2] eqn:Es. cbn [fst snd].
    pose proof (rd_skip_adv _ _ _ _ Es) as [Ha2 _].
    assert (B2 : r_end (lx_base (set_cur r2 (set_cur r1 s))) = Some e).
    { rewrite end_err_base_set_cur; assumption. }
    destruct oe as [x|]; [|exact B2]. split; [exact B2|].
    intros Hx; inversion Hx; subst. apply rd_skip_eof in Es.
    apply eof_cur; [exact B1|exact Ha2|apply Es|reflexivity]. }
  destruct ((pcap <? rlen) && negb (rlen <? max_int32)); [split; [exact B1|discriminate]|].
  set (s1 := if pcap <? rlen then _ else _).
  assert (G1 : r_end (lx_base s1) = Some e).
  { subst s1. destruct (pcap <? rlen); [exact B1|exact B1]. }
  clearbody s1.
  destruct (rd_full rlen (cur s1)) as [[body x] r3] eqn:E3.
  pose proof (rd_full_adv _ _ _ _ _ E3) as [Ha3 _].
  assert (B3 : r_end (lx_base (set_cur r3 s1)) = Some e).
  { rewrite end_err_base_set_cur; assumption. }
  destruct x as [x|].
  { assert (Hx : x = EEOF -> exists r, lx_chunk (set_cur r3 s1) = Some r /\ end_err r = EEOF).
    { intros ->. apply rd_full_eof in E3. apply eof_cur; [exact G1|exact Ha3|apply E3|reflexivity]. }
    destruct x; (split; [exact B3|]); try discriminate. intros _. apply Hx. reflexivity. }
  destruct (known_op _); [split; [exact B3|discriminate]|].
  destruct (Byte.eqb _ x00); [split; [exact B3|discriminate]|exact B3].
Qed.

Lemma lex_next_fail : forall fuel pcap s evs evs' res s',
  r_end (lx_base s) = Some e ->
  lex_next lo dstream fuel pcap s evs = Ok (evs', res, s') ->
  r_end (lx_base s') = Some e /\ (res = NErr EEOF -> exists r, lx_chunk s' = Some r /\ end_err r = EEOF).
Proof.
  induction fuel as [|f IH]; intros pcap s evs evs' res s' Hb; [discriminate|].
  rewrite lex_next_S. pose proof (lex_step_fail pcap s evs Hb) as Hs.
  destruct (lex_step _ _ _ _ _) as [a b c|s1 evs1].
  - intros H; inversion H; subst. exact Hs.
  - intros H. eapply IH; eauto.
Qed.

Lemma lex_loop_fail : forall n fuel s acc evs fin s',
  r_end (lx_base s) = Some e ->
  lex_loop lo dstream n fuel s acc = Ok (evs, fin, s') ->
  fin = EEOF -> exists r, lx_chunk s' = Some r /\ end_err r = EEOF.
Proof.
  induction n as [|n IH]; intros fuel s acc evs fin s' Hb; [discriminate|]. cbn [lex_loop].
  destruct (lex_next lo dstream fuel 0 s []) as [[[evs1 r] s1]| | | |] eqn:E; try discriminate.
  apply lex_next_fail in E; [|exact Hb]. destruct E as [E1 E2].
  destruct r.
  - intros H. eapply IH; eauto.
  - intros H; inversion H; subst. intros ->. apply E2. reflexivity.
Qed.

Theorem lex_all_fail_eof fuel p sk evs fin s' :
  lex_all lo dstream fuel {| r_buf := p; r_end := Some e; r_seek := sk |} = Ok (evs, fin, s') ->
  fin = EEOF -> exists r, lx_chunk s' = Some r /\ end_err r = EEOF.
Proof.
  unfold lex_all. destruct (new_lexer lo _) as [s| | | |] eqn:En; try discriminate.
  assert (Hb : r_end (lx_base s) = Some e).
  { unfold new_lexer in En. destruct (lo_skip_magic lo); [inversion En; reflexivity|].
    destruct (rd_full 8 _) as [[m x] r1] eqn:E8. apply rd_full_adv in E8. destruct E8 as [E8 _].
    destruct x; [discriminate|]. destruct (bytes_eqb m magic); [|discriminate].
    inversion En; subst. rsimpl. exact E8. }
  intros H. eapply lex_loop_fail; eauto.
Qed.

(* with EmitChunks the lexer never enters a chunk: a failing source never yields a clean EOF *)
Lemma lex_step_nochunk pcap s evs : lo_emit_chunks lo = true -> lx_chunk s = None ->
  match lex_step lo dstream pcap s evs with
  | SCont s' _ | SDone _ _ s' => lx_chunk s' = None
  end.
Proof.
  intros Hem Hc. unfold lex_step.
  destruct (rd_full 9 (cur s)) as [[hd x] r1].
  assert (C1 : lx_chunk (set_cur r1 s) = None) by (rewrite chunk_set_cur, Hc; reflexivity).
  destruct x as [x|].
  { rewrite Hc. cbn [andb]. destruct (_ || _); [destruct (_ && _)|]; exact C1. }
  destruct (_ && (_ <? _)); [exact C1|].
  rewrite Hem. cbn [negb]. rewrite andb_false_r.
  destruct (Byte.eqb _ OpAttachment).
  { destruct (9223372036854775807 <? _); [exact C1|].
    destruct (do_attachment _ _ _) as [[ev e2] r2].
    assert (C2 : lx_chunk (set_cur r2 (set_cur r1 s)) = None) by (rewrite chunk_set_cur, C1; reflexivity).
    destruct e2; exact C2. }
  destruct (_ && negb _); [exact C1|].
  set (s1 := if pcap <? _ then _ else _).
  assert (G1 : lx_chunk s1 = None) by (subst s1; destruct (pcap <? _); exact C1).
  clearbody s1.
  destruct (rd_full _ (cur s1)) as [[body x] r3].
  assert (C3 : lx_chunk (set_cur r3 s1) = None) by (rewrite chunk_set_cur, G1; reflexivity).
  destruct x as [x|]; [destruct x; exact C3|].
  destruct (known_op _); [exact C3|]. destruct (Byte.eqb _ x00); exact C3.
Qed.

Lemma lex_next_nochunk : forall fuel pcap s evs evs' res s',
  lo_emit_chunks lo = true -> lx_chunk s = None ->
  lex_next lo dstream fuel pcap s evs = Ok (evs', res, s') -> lx_chunk s' = None.
Proof.
  induction fuel as [|f IH]; intros pcap s evs evs' res s' Hem Hc; [discriminate|].
  rewrite lex_next_S. pose proof (lex_step_nochunk pcap s evs Hem Hc) as Hs.
  destruct (lex_step _ _ _ _ _) as [a b c|s1 evs1].
  - intros H; inversion H; subst. exact Hs.
  - intros H. eapply IH; eauto.
Qed.

Lemma lex_loop_nochunk : forall n fuel s acc evs fin s',
  lo_emit_chunks lo = true -> lx_chunk s = None ->
  lex_loop lo dstream n fuel s acc = Ok (evs, fin, s') -> lx_chunk s' = None.
Proof.
  induction n as [|n IH]; intros fuel s acc evs fin s' Hem Hc; [discriminate|]. cbn [lex_loop].
  destruct (lex_next lo dstream fuel 0 s []) as [[[evs1 r] s1]| | | |] eqn:E; try discriminate.
  apply lex_next_nochunk in E; auto.
  destruct r.
  - intros H. eapply IH; eauto.
  - intros H; inversion H; subst. exact E.
Qed.

Theorem lex_all_fail_not_eof_emit_chunks fuel p sk evs fin s' :
  lo_emit_chunks lo = true ->
  lex_all lo dstream fuel {| r_buf := p; r_end := Some e; r_seek := sk |} = Ok (evs, fin, s') ->
  fin <> EEOF.
Proof.
  intros Hem H Hf. destruct (lex_all_fail_eof _ _ _ _ _ _ H Hf) as [r [Hr _]].
  unfold lex_all in H. destruct (new_lexer lo _) as [s| | | |] eqn:En; try discriminate.
  assert (Hc : lx_chunk s = None).
  { unfold new_lexer in En. destruct (lo_skip_magic lo); [inversion En; reflexivity|].
    destruct (rd_full 8 _) as [[m x] r1]. destruct x; [discriminate|].
    destruct (bytes_eqb m magic); [|discriminate]. inversion En; reflexivity. }
  apply lex_loop_nochunk in H; auto. congruence.
Qed.

End FailNotEof.


(* ---------- attachment parsing through the record-level limited reader ---------- *)
Definition att_parse (lim : bytes * option err) : outcome (N * N * bytes * bytes * N * nat) :=
  let* (lt, o1) := lim_read 8 lim 0 in
  let* (ct, o2) := lim_read 8 lim o1 in
  let* (name, o3) := lim_pstr lim o2 in
  let* (media, o4) := lim_pstr lim o3 in
  let* (ds, o5) := lim_read 8 lim o4 in
  Ok (unle lt, unle ct, name, media, unle ds, o5).

Lemma sub_app_l (buf t : bytes) off n : (off + n <= length buf)%nat -> sub (buf ++ t) off n = sub buf off n.
Proof.
  intros H. unfold sub. rewrite skipn_app. rewrite firstn_app.
  rewrite skipn_length. replace (n - (length buf - off))%nat with 0%nat by lia.
  cbn [firstn]. apply app_nil_r.
Qed.

Lemma lim_read_ok n buf en off b o : lim_read n (buf, en) off = Ok (b, o) ->
  o = (off + n)%nat /\ (o <= length buf)%nat /\ b = sub buf off n.
Proof.
  unfold lim_read. destruct (Nat.leb (off + n) (length buf)) eqn:E; [|discriminate].
  apply Nat.leb_le in E. intros H; inversion H; subst. auto.
Qed.
Lemma lim_read_okerr n lim off : okerr (lim_read n lim off).
Proof. destruct lim as [buf en]. unfold lim_read. destruct (Nat.leb _ _); exact I. Qed.
Lemma lim_read_ext n buf en en' t off v : lim_read n (buf, en) off = Ok v ->
  lim_read n (buf ++ t, en') off = Ok v.
Proof.
  unfold lim_read. destruct (Nat.leb (off + n) (length buf)) eqn:E; [|discriminate].
  apply Nat.leb_le in E. intros H; inversion H; subst.
  rewrite app_length. replace (Nat.leb (off + n) (length buf + length t)) with true
    by (symmetry; apply Nat.leb_le; lia).
  rewrite sub_app_l by lia. reflexivity.
Qed.
Lemma lim_read_err n buf (e : err) off x : lim_read n (buf, Some e) off = Err x -> x = e.
Proof. unfold lim_read. destruct (Nat.leb _ _); [discriminate|]. intros H; inversion H; reflexivity. Qed.

Lemma lim_pstr_ok buf en off b o : lim_pstr (buf, en) off = Ok (b, o) ->
  (off <= o)%nat /\ (o <= length buf)%nat.
Proof.
  unfold lim_pstr. destruct (lim_read 4 (buf, en) off) as [[lb off1]| | | |] eqn:E; try discriminate.
  apply lim_read_ok in E. destruct E as [-> [E2 _]].
  destruct (_ <=? _) eqn:E3; [|discriminate]. apply N.leb_le in E3. unfold blen in E3.
  intros H; inversion H; subst. lia.
Qed.
Lemma lim_pstr_okerr lim off : okerr (lim_pstr lim off).
Proof.
  unfold lim_pstr. pose proof (lim_read_okerr 4 lim off) as H.
  destruct (lim_read 4 lim off) as [[lb off1]| | | |]; try exact I; try contradiction.
  destruct lim as [buf en]. destruct (_ <=? _); exact I.
Qed.
Lemma lim_pstr_ext buf en en' t off v : lim_pstr (buf, en) off = Ok v ->
  lim_pstr (buf ++ t, en') off = Ok v.
Proof.
  unfold lim_pstr. destruct (lim_read 4 (buf, en) off) as [[lb off1]| | | |] eqn:E; try discriminate.
  rewrite (lim_read_ext _ _ _ en' t _ _ E).
  destruct (_ <=? blen buf) eqn:E3; [|discriminate]. apply N.leb_le in E3.
  rewrite blen_app. replace (N.of_nat off1 + unle lb <=? blen buf + blen t) with true by lia.
  intros H; inversion H; subst. unfold blen in E3. rewrite sub_app_l by lia. reflexivity.
Qed.
Lemma lim_pstr_err buf (e : err) off x : lim_pstr (buf, Some e) off = Err x -> x = e.
Proof.
  unfold lim_pstr. destruct (lim_read 4 (buf, Some e) off) as [[lb off1]| | | |] eqn:E; try discriminate.
  - destruct (_ <=? _); [discriminate|]. intros H; inversion H; reflexivity.
  - intros H; inversion H; subst. eapply lim_read_err; eauto.
Qed.

Lemma att_parse_okerr lim : okerr (att_parse lim).
Proof.
  unfold att_parse.
  apply okerr_bind; [apply lim_read_okerr|intros [lt o1] _].
  apply okerr_bind; [apply lim_read_okerr|intros [ct o2] _].
  apply okerr_bind; [apply lim_pstr_okerr|intros [name o3] _].
  apply okerr_bind; [apply lim_pstr_okerr|intros [media o4] _].
  apply okerr_bind; [apply lim_read_okerr|intros [ds o5] _]. exact I.
Qed.

Lemma att_parse_ok buf en lt ct name media ds o5 :
  att_parse (buf, en) = Ok (lt, ct, name, media, ds, o5) -> (o5 <= length buf)%nat.
Proof.
  unfold att_parse.
  destruct (lim_read 8 (buf, en) 0) as [[a o1]| | | |]; cbn [bind]; try discriminate.
  destruct (lim_read 8 (buf, en) o1) as [[b o2]| | | |]; cbn [bind]; try discriminate.
  destruct (lim_pstr (buf, en) o2) as [[c o3]| | | |]; cbn [bind]; try discriminate.
  destruct (lim_pstr (buf, en) o3) as [[d o4]| | | |]; cbn [bind]; try discriminate.
  destruct (lim_read 8 (buf, en) o4) as [[f o5']| | | |] eqn:E; cbn [bind]; try discriminate.
  apply lim_read_ok in E. intros H; inversion H; subst. lia.
Qed.

Lemma att_parse_ext buf en en' t v : att_parse (buf, en) = Ok v -> att_parse (buf ++ t, en') = Ok v.
Proof.
  unfold att_parse.
  destruct (lim_read 8 (buf, en) 0) as [[a o1]| | | |] eqn:E1; cbn [bind]; try discriminate.
  rewrite (lim_read_ext _ _ _ en' t _ _ E1); cbn [bind].
  destruct (lim_read 8 (buf, en) o1) as [[b o2]| | | |] eqn:E2; cbn [bind]; try discriminate.
  rewrite (lim_read_ext _ _ _ en' t _ _ E2); cbn [bind].
  destruct (lim_pstr (buf, en) o2) as [[c o3]| | | |] eqn:E3; cbn [bind]; try discriminate.
  rewrite (lim_pstr_ext _ _ en' t _ _ E3); cbn [bind].
  destruct (lim_pstr (buf, en) o3) as [[d o4]| | | |] eqn:E4; cbn [bind]; try discriminate.
  rewrite (lim_pstr_ext _ _ en' t _ _ E4); cbn [bind].
  destruct (lim_read 8 (buf, en) o4) as [[f o5']| | | |] eqn:E5; cbn [bind]; try discriminate.
  rewrite (lim_read_ext _ _ _ en' t _ _ E5); cbn [bind]. auto.
Qed.

Lemma att_parse_err buf (e : err) x : att_parse (buf, Some e) = Err x -> x = e.
Proof.
  unfold att_parse.
  destruct (lim_read 8 (buf, Some e) 0) as [[a o1]| | | |] eqn:E1; cbn [bind]; try discriminate.
  2:{ intros H; inversion H; subst. eapply lim_read_err; eauto. }
  destruct (lim_read 8 (buf, Some e) o1) as [[b o2]| | | |] eqn:E2; cbn [bind]; try discriminate.
  2:{ intros H; inversion H; subst. eapply lim_read_err; eauto. }
  destruct (lim_pstr (buf, Some e) o2) as [[c o3]| | | |] eqn:E3; cbn [bind]; try discriminate.
  2:{ intros H; inversion H; subst. eapply lim_pstr_err; eauto. }
  destruct (lim_pstr (buf, Some e) o3) as [[d o4]| | | |] eqn:E4; cbn [bind]; try discriminate.
  2:{ intros H; inversion H; subst. eapply lim_pstr_err; eauto. }
  destruct (lim_read 8 (buf, Some e) o4) as [[f o5']| | | |] eqn:E5; cbn [bind]; try discriminate.
  intros H; inversion H; subst. eapply lim_read_err; eauto.
Qed.

(* the last attachment event of a run on a failing source may carry fewer data bytes *)
Definition att_truncated (a' a : attobs) : Prop :=
  ao_log a' = ao_log a /\ ao_create a' = ao_create a /\ ao_name a' = ao_name a /\
  ao_media a' = ao_media a /\ ao_size a' = ao_size a /\ exists t, ao_data a = ao_data a' ++ t.
Definition events_prefix_upto_attachment (evsF evsC : list event) : Prop :=
  (exists t, evsC = evsF ++ t) \/
  (exists pre a' a t, evsF = pre ++ [EvAttachment a'] /\ evsC = pre ++ EvAttachment a :: t /\
                      att_truncated a' a).


Section AttCb.
Variable lo : lopts.

(* what a reading callback (CbFull / CbPartial) observes, and how far the limited reader was consumed *)
Definition att_cb (cb : cbmode) (lim : bytes * option err) (lt ct : N) (name media : bytes) (ds : N)
  (o5 : nat) : attobs * nat :=
  let dn := if 9223372036854775807 <? ds then 0 else ds in
  let rest := skipn o5 (fst lim) in
  let want := match cb with CbPartial k => N.min (N.of_nat k) dn | _ => dn end in
  let got := take want rest in
  let short := blen got <? want in
  let data_end := if short then snd lim else None in
  let n_left := blen got <? dn in
  let pos := (o5 + length got)%nat in
  let crc_of := crc32 (firstn pos (fst lim)) in
  let computed := if n_left then Err EOther
                  else Ok (if lo_compute_acrc lo then crc_of else 0) in
  let '(parsed_crc, pos') :=
    if n_left then (Err EOther, pos)
    else match lim_read 4 lim pos with
         | Ok (cb4, p') => (Ok (unle cb4), p')
         | Err e => (Err e, length (fst lim))
         | _ => (Err EOther, pos) end in
  ({| ao_log := lt; ao_create := ct; ao_name := name; ao_media := media; ao_size := ds;
      ao_data := got; ao_data_end := data_end; ao_computed := computed; ao_parsed := parsed_crc |}, pos').

Lemma do_attachment_cb rl r : lo_cb lo <> CbNone ->
  do_attachment lo rl r =
  match att_parse (limited rl r) with
  | Ok (lt, ct, name, media, ds, o5) =>
    match lo_cb lo with
    | CbFail => (None, Some ECallback, {| r_buf := skipn o5 (r_buf r); r_end := r_end r; r_seek := r_seek r |})
    | cb =>
      let '(ob, consumed) := att_cb cb (limited rl r) lt ct name media ds o5 in
      let r1 := {| r_buf := skipn consumed (r_buf r); r_end := r_end r; r_seek := r_seek r |} in
      let '(e, r2) := rd_skip (rl - N.of_nat consumed) r1 in
      (Some (EvAttachment ob), e, r2)
    end
  | Err e => (None, Some e, {| r_buf := drop (blen (fst (limited rl r))) (r_buf r); r_end := r_end r; r_seek := r_seek r |})
  | _ => (None, Some EOther, r)
  end.
Proof.
  intros Hcb. unfold do_attachment. fold (att_parse (limited rl r)).
  destruct (lo_cb lo) eqn:Ecb; [contradiction| | |].
  - destruct (att_parse (limited rl r)) as [[[[[[lt ct] name] media] ds] o5]| | | |]; try reflexivity.
    unfold att_cb. cbv zeta.
    match goal with |- context[let '(_, _) := ?X in _] => destruct X as [pc pos'] end. reflexivity.
  - destruct (att_parse (limited rl r)) as [[[[[[lt ct] name] media] ds] o5]| | | |]; try reflexivity.
    unfold att_cb. cbv zeta.
    match goal with |- context[let '(_, _) := ?X in _] => destruct X as [pc pos'] end. reflexivity.
  - destruct (att_parse (limited rl r)) as [[[[[[lt ct] name] media] ds] o5]| | | |]; reflexivity.
Qed.

Lemma att_cb_consumed cb buf en lt ct name media ds o5 : (o5 <= length buf)%nat ->
  (snd (att_cb cb (buf, en) lt ct name media ds o5) <= length buf)%nat.
Proof.
  intros Ho. unfold att_cb. cbn [fst snd].
  set (dn := if 9223372036854775807 <? ds then 0 else ds).
  set (want := match cb with CbPartial k => N.min (N.of_nat k) dn | _ => dn end).
  set (got := take want (skipn o5 buf)).
  assert (Hg : (o5 + length got <= length buf)%nat).
  { subst got. rewrite take_length. unfold blen. rewrite skipn_length. lia. }
  destruct (blen got <? dn); [cbn [snd]; exact Hg|].
  destruct (lim_read 4 (buf, en) (o5 + length got)) as [[cb4 p']| | | |] eqn:E; cbn [snd]; try lia.
  apply lim_read_ok in E. lia.
Qed.

Lemma take_prefix n (a t : bytes) : exists u, take n (a ++ t) = take n a ++ u.
Proof.
  destruct (N.le_gt_cases n (blen a)) as [L|L].
  - rewrite take_app_le by lia. exists []. rewrite app_nil_r. reflexivity.
  - rewrite take_app_ge by lia. rewrite (take_all n a) by lia. eexists. reflexivity.
Qed.

Lemma att_cb_trunc cb buf t enF enC lt ct name media ds o5 : (o5 <= length buf)%nat ->
  att_truncated (fst (att_cb cb (buf, enF) lt ct name media ds o5))
                (fst (att_cb cb (buf ++ t, enC) lt ct name media ds o5)).
Proof.
  intros Ho. unfold att_cb. cbn [fst snd].
  set (dn := if 9223372036854775807 <? ds then 0 else ds).
  set (want := match cb with CbPartial k => N.min (N.of_nat k) dn | _ => dn end).
  match goal with |- att_truncated (fst (let '(_, _) := ?X in _)) (fst (let '(_, _) := ?Y in _)) =>
    destruct X as [pc1 p1]; destruct Y as [pc2 p2] end.
  cbn [fst]. unfold att_truncated. cbn [ao_log ao_create ao_name ao_media ao_size ao_data].
  repeat (split; [reflexivity|]).
  rewrite skipn_app. replace (o5 - length buf)%nat with 0%nat by lia. cbn [skipn].
  destruct (take_prefix want (skipn o5 buf) t) as [u Hu]. exists u. exact Hu.
Qed.
End AttCb.


Section Prefix.
Variable lo : lopts.
Variable dstream : doracle.
Variable e : err.
Hypothesis He1 : e <> EEOF.
Hypothesis He2 : e <> EUnexpectedEOF.
Hypothesis He3 : e <> ETruncated.
Hypothesis He4 : e <> EInvalidChunkCrc.
(* decoders pass the error of the underlying reader through *)
Hypothesis Hprop : forall c a, snd (dstream c a (Some e)) = Some e.
(* what a decoder delivers from a cut input is a prefix of what it delivers from the whole input *)
Hypothesis Hmono : forall c a t, exists u, fst (dstream c (a ++ t) None) = fst (dstream c a (Some e)) ++ u.

(* r is the failing reader, rC the reader over the complete input *)
Definition cut (r rC : rdr) : Prop :=
  r_end r = Some e /\ r_seek rC = r_seek r /\ exists t, r_buf rC = r_buf r ++ t.
(* result of running the same operation on both *)
Definition rrel (r rC : rdr) : Prop := r = rC \/ cut r rC.

Lemma rd_full_rrel n r rC b oe r' : rrel r rC -> rd_full n r = (b, oe, r') ->
  (oe = Some e /\ cut r rC) \/
  exists rC', rd_full n rC = (b, oe, rC') /\ r_end rC' = r_end rC /\
              ((r = rC /\ r' = rC') \/ cut r' rC').
Proof.
  intros [->|Hc] H.
  { right. exists r'. split; [exact H|]. split; [apply (rd_full_adv _ _ _ _ _ H)|left; auto]. }
  destruct Hc as [C1 [C2 [t C3]]].
  destruct oe as [x|].
  { left. apply rd_full_err in H. destruct H as [H _]. rewrite C1 in H. subst x.
    split; [reflexivity|]. split; [exact C1|split; [exact C2|exists t; exact C3]]. }
  right. revert H. unfold rd_full. destruct (n =? 0) eqn:E0.
  { intros H; inversion H; subst. eexists. split; [reflexivity|]. split; [reflexivity|].
    right. split; [exact C1|split; [exact C2|exists t; exact C3]]. }
  destruct (n <=? blen (r_buf r)) eqn:E1; [|discriminate]. apply N.leb_le in E1.
  intros H; inversion H; subst; clear H.
  rewrite C3, blen_app. replace (n <=? blen (r_buf r) + blen t) with true by lia.
  rewrite take_app_le, drop_app_le by lia.
  eexists. split; [reflexivity|]. split; [reflexivity|]. right.
  split; [exact C1|split; [exact C2|]]. cbn [r_buf]. exists t. reflexivity.
Qed.

Lemma rd_skip_rrel n r rC oe r' : rrel r rC -> rd_skip n r = (oe, r') ->
  (oe = Some e /\ cut r rC) \/
  exists rC', rd_skip n rC = (oe, rC') /\ r_end rC' = r_end rC /\
              ((r = rC /\ r' = rC') \/ cut r' rC').
Proof.
  intros [->|Hc] H.
  { right. exists r'. split; [exact H|]. split; [apply (rd_skip_adv _ _ _ _ H)|left; auto]. }
  destruct Hc as [C1 [C2 [t C3]]].
  destruct oe as [x|].
  { left. apply rd_skip_err in H. destruct H as [H _]. unfold end_err in H. rewrite C1 in H. subst x.
    split; [reflexivity|]. split; [exact C1|split; [exact C2|exists t; exact C3]]. }
  right. revert H. unfold rd_skip. rewrite C2. destruct (r_seek r) eqn:Es.
  - intros H; inversion H; subst; clear H. eexists. split; [reflexivity|]. split; [reflexivity|].
    right. split; [exact C1|split; [reflexivity|]]. cbn [r_buf]. rewrite C3.
    destruct (N.le_gt_cases n (blen (r_buf r))) as [L|L].
    + rewrite drop_app_le by lia. exists t. reflexivity.
    + rewrite drop_app_ge by lia. rewrite (drop_all n (r_buf r)) by lia. eexists. reflexivity.
  - destruct (blen (r_buf r) <? n) eqn:E1; [discriminate|]. apply N.ltb_ge in E1.
    intros H; inversion H; subst; clear H.
    rewrite C3, blen_app. replace (blen (r_buf r) + blen t <? n) with false by lia.
    rewrite drop_app_le by lia.
    eexists. split; [reflexivity|]. split; [reflexivity|]. right.
    split; [exact C1|split; [reflexivity|]]. cbn [r_buf]. exists t. reflexivity.
Qed.

(* ---------- states ---------- *)
Definition crel (a b : option rdr) : Prop :=
  match a, b with
  | None, None => True
  | Some x, Some y => rrel x y
  | _, _ => False
  end.

Definition srel (sF sC : lstate) : Prop :=
  cut (lx_base sF) (lx_base sC) /\ r_end (lx_base sC) = None /\
  crel (lx_chunk sF) (lx_chunk sC) /\
  lx_ubuf sF = lx_ubuf sC /\ lx_bufcap sF = lx_bufcap sC.

Lemma srel_base sF sC bF bC : srel sF sC -> cut bF bC -> r_end bC = None ->
  srel (sF <| lx_base := bF |>) (sC <| lx_base := bC |>).
Proof. unfold srel; rsimpl; intuition. Qed.
Lemma srel_chunk sF sC cF cC : srel sF sC -> rrel cF cC ->
  srel (sF <| lx_chunk := Some cF |>) (sC <| lx_chunk := Some cC |>).
Proof. unfold srel; rsimpl; intuition. Qed.
Lemma srel_chunk_none sF sC : srel sF sC ->
  srel (sF <| lx_chunk := None |>) (sC <| lx_chunk := None |>).
Proof. unfold srel; rsimpl; intuition. Qed.
Lemma srel_allocs sF sC x y : srel sF sC ->
  srel (sF <| lx_allocs := x |>) (sC <| lx_allocs := y |>).
Proof. unfold srel; rsimpl; intuition. Qed.
Lemma srel_bufcap sF sC n : srel sF sC ->
  srel (sF <| lx_bufcap := n |>) (sC <| lx_bufcap := n |>).
Proof. unfold srel; rsimpl; intuition. Qed.
Lemma srel_ubuf sF sC n : srel sF sC ->
  srel (sF <| lx_ubuf := n |>) (sC <| lx_ubuf := n |>).
Proof. unfold srel; rsimpl; intuition. Qed.

Lemma cut_neq r rC : cut r rC -> r_end rC = None -> r <> rC.
Proof. intros [C1 _] H E. subst. congruence. Qed.

Lemma srel_cur sF sC : srel sF sC -> rrel (cur sF) (cur sC).
Proof.
  intros [S1 [S2 [S3 _]]]. unfold cur. unfold crel in S3.
  destruct (lx_chunk sF), (lx_chunk sC); try contradiction; [exact S3|right; exact S1].
Qed.

Lemma srel_set_cur sF sC r' rC' : srel sF sC -> r_end rC' = r_end (cur sC) ->
  ((cur sF = cur sC /\ r' = rC') \/ cut r' rC') ->
  srel (set_cur r' sF) (set_cur rC' sC).
Proof.
  intros S He H. pose proof S as [S1 [S2 [S3 [S4 S5]]]]. unfold set_cur, cur in *. unfold crel in S3.
  destruct (lx_chunk sF) eqn:EF, (lx_chunk sC) eqn:EC; try contradiction.
  - apply srel_chunk; [exact S|]. destruct H as [[_ ->]|H]; [left; reflexivity|right; exact H].
  - destruct H as [[H _]|H].
    + exfalso. eapply cut_neq; eauto.
    + apply srel_base; [exact S|exact H|congruence].
Qed.

Lemma srel_in_chunk sF sC : srel sF sC ->
  match lx_chunk sF with Some _ => true | None => false end =
  match lx_chunk sC with Some _ => true | None => false end.
Proof.
  intros [_ [_ [S3 _]]]. unfold crel in S3.
  destruct (lx_chunk sF), (lx_chunk sC); try contradiction; reflexivity.
Qed.


Lemma srel_cut_base sF sC : srel sF sC -> rrel (lx_base sF) (lx_base sC).
Proof. intros [S1 _]. right. exact S1. Qed.

Lemma e_not_ueof {A} (a b : A) (f : err -> A) :
  match e with EUnexpectedEOF => a | EEOF => b | x => f x end = f e.
Proof. destruct e; try reflexivity; congruence. Qed.

Lemma lc_head_sim rl sF sC : srel sF sC ->
  (exists sF', lc_head rl sF = LC1Err e sF') \/
  match lc_head rl sF, lc_head rl sC with
  | LC1Err x a, LC1Err y b => x = y /\ srel a b
  | LC1Ok u1 c1 m1 r1 a, LC1Ok u2 c2 m2 r2 b => u1 = u2 /\ c1 = c2 /\ m1 = m2 /\ r1 = r2 /\ srel a b
  | _, _ => False
  end.
Proof.
  intros S. unfold lc_head.
  destruct (rd_full 32 (lx_base sF)) as [[hd x] b1] eqn:EF.
  destruct (rd_full_rrel _ _ _ _ _ _ (srel_cut_base _ _ S) EF) as [[-> _]|[b1C [EC [EeC HC]]]].
  { left. destruct e; try congruence; eexists; reflexivity. }
  rewrite EC. destruct HC as [[HC _]|HC].
  { exfalso. destruct S as [S1 [S2 _]]. eapply cut_neq; eauto. }
  assert (S1 : srel (sF <| lx_base := b1 |>) (sC <| lx_base := b1C |>)).
  { apply srel_base; [exact S|exact HC|]. destruct S as [_ [S2 _]]. congruence. }
  destruct x as [x|].
  { right. destruct x; (split; [reflexivity|exact S1]). }
  destruct (rl <? _); [right; split; [reflexivity|exact S1]|].
  set (need := unle (sub hd 28 4) + 8).
  replace (lx_bufcap (sC <| lx_base := b1C |>)) with (lx_bufcap (sF <| lx_base := b1 |>)) by apply S1.
  destruct (_ && _); [right; split; [reflexivity|exact S1]|].
  set (s2F := if _ <? need then _ else sF <| lx_base := b1 |>).
  set (s2C := if _ <? need then _ else sC <| lx_base := b1C |>).
  assert (S2 : srel s2F s2C).
  { subst s2F s2C. destruct (_ <? need); [|exact S1]. apply srel_bufcap, srel_allocs, S1. }
  clearbody s2F s2C.
  destruct (rd_full need (lx_base s2F)) as [[cb x] b2] eqn:EF2.
  destruct (rd_full_rrel _ _ _ _ _ _ (srel_cut_base _ _ S2) EF2) as [[-> _]|[b2C [EC2 [EeC2 HC2]]]].
  { left. destruct e; try congruence; eexists; reflexivity. }
  rewrite EC2. destruct HC2 as [[HC2 _]|HC2].
  { exfalso. destruct S2 as [Sa [Sb _]]. eapply cut_neq; eauto. }
  assert (S3 : srel (s2F <| lx_base := b2 |>) (s2C <| lx_base := b2C |>)).
  { apply srel_base; [exact S2|exact HC2|]. destruct S2 as [_ [Sb _]]. congruence. }
  right. destruct x as [x|]; [destruct x; (split; [reflexivity|exact S3])|].
  repeat split; try reflexivity; apply S3.
Qed.


Lemma lc_open_sim comp rlen bF bC b'F crF b'C crC : cut bF bC -> r_end bC = None ->
  lc_open lo dstream comp rlen bF = (b'F, crF) -> lc_open lo dstream comp rlen bC = (b'C, crC) ->
  cut b'F b'C /\ r_end b'C = None /\ rrel crF crC.
Proof.
  intros [C1 [C2 [t C3]]] HN. unfold lc_open. rewrite C3, blen_app, HN, C1, C2.
  destruct (N.le_gt_cases rlen (blen (r_buf bF))) as [L|L].
  - replace (rlen <=? blen (r_buf bF)) with true by lia.
    replace (rlen <=? blen (r_buf bF) + blen t) with true by lia.
    rewrite take_app_le, drop_app_le by lia.
    destruct (if bytes_eqb comp [] && _ then _ else _) as [plain pend].
    intros H1 H2; inversion H1; inversion H2; subst; clear H1 H2.
    split; [|split; [reflexivity|left; reflexivity]].
    split; [reflexivity|split; [reflexivity|]]. cbn [r_buf]. exists t. reflexivity.
  - replace (rlen <=? blen (r_buf bF)) with false by lia.
    rewrite take_app_ge, drop_app_ge by lia. rewrite (take_all rlen (r_buf bF)), (drop_all rlen (r_buf bF)) by lia.
    set (t' := take (rlen - blen (r_buf bF)) t).
    replace (if rlen <=? blen (r_buf bF) + blen t then None else None) with (@None err)
      by (destruct (rlen <=? _); reflexivity).
    destruct (bytes_eqb comp [] && _).
    + intros H1 H2; inversion H1; inversion H2; subst; clear H1 H2.
      split; [|split; [reflexivity|right]].
      * split; [reflexivity|split; [reflexivity|]]. cbn [r_buf]. eexists. reflexivity.
      * split; [reflexivity|split; [reflexivity|]]. cbn [r_buf]. exists t'. reflexivity.
    + pose proof (Hprop comp (r_buf bF)) as P1. destruct (Hmono comp (r_buf bF) t') as [u P2].
      destruct (dstream comp (r_buf bF) (Some e)) as [pF eF].
      destruct (dstream comp (r_buf bF ++ t') None) as [pC eC]. cbn [fst snd] in P1, P2.
      intros H1 H2; inversion H1; inversion H2; subst; clear H1 H2.
      split; [|split; [reflexivity|right]].
      * split; [reflexivity|split; [reflexivity|]]. cbn [r_buf]. eexists. reflexivity.
      * split; [reflexivity|split; [reflexivity|]]. cbn [r_buf]. exists u. reflexivity.
Qed.


Lemma cut_drop k bF bC : cut bF bC ->
  cut {| r_buf := drop k (r_buf bF); r_end := r_end bF; r_seek := r_seek bF |}
      {| r_buf := drop k (r_buf bC); r_end := r_end bC; r_seek := r_seek bC |}.
Proof.
  intros [C1 [C2 [t C3]]]. split; [exact C1|split; [exact C2|]]. cbn [r_buf]. rewrite C3.
  destruct (N.le_gt_cases k (blen (r_buf bF))) as [L|L].
  - rewrite drop_app_le by lia. exists t. reflexivity.
  - rewrite drop_app_ge by lia. rewrite (drop_all k (r_buf bF)) by lia. eexists. reflexivity.
Qed.

Lemma lc_validate_sim usize ucrc comp bF bC crF crC sF sC oeF sF' oeC sC' :
  cut bF bC -> r_end bC = None -> rrel crF crC -> srel sF sC ->
  lc_validate lo usize ucrc comp bF crF sF = (oeF, sF') ->
  lc_validate lo usize ucrc comp bC crC sC = (oeC, sC') ->
  oeF = Some e \/ (oeF = oeC /\ srel sF' sC').
Proof.
  intros Cb Nb Rc S. unfold lc_validate.
  replace (lx_ubuf sC) with (lx_ubuf sF) by apply S.
  destruct ((0 <? lo_max_chunk lo) && (lo_max_chunk lo <? usize)).
  { intros H1 H2; inversion H1; inversion H2; subst. right. split; [reflexivity|exact S]. }
  destruct ((lx_ubuf sF <? usize) && (max_int32 <? usize)).
  { intros H1 H2; inversion H1; inversion H2; subst. right. split; [reflexivity|exact S]. }
  destruct ((lx_ubuf sF <? usize) && negb (usize * 2 <? max_int32)).
  { intros H1 H2; inversion H1; inversion H2; subst. right. split; [reflexivity|exact S]. }
  set (saF := if lx_ubuf sF <? usize then _ else sF).
  set (saC := if lx_ubuf sF <? usize then _ else sC).
  assert (Sa : srel saF saC).
  { subst saF saC. destruct (lx_ubuf sF <? usize); [|exact S]. apply srel_ubuf, srel_allocs, S. }
  clearbody saF saC.
  destruct (rd_full usize crF) as [[data x] r1] eqn:EF.
  destruct (rd_full_rrel _ _ _ _ _ _ Rc EF) as [[-> _]|[r1C [EC [EeC HC]]]].
  { intros H1 _. inversion H1. left. reflexivity. }
  rewrite EC.
  assert (R1 : rrel r1 r1C) by (destruct HC as [[_ ->]|HC]; [left; reflexivity|right; exact HC]).
  destruct x as [x|].
  { intros H1 H2; inversion H1; inversion H2; subst. right. split; [reflexivity|].
    apply srel_chunk; assumption. }
  destruct (drains_chunk comp) eqn:Elz.
  - destruct HC as [[_ <-]|HC].
    + (* identical chunk readers *)
      set (sbF := set lx_chunk _ (set lx_chunk _ saF)).
      set (sbC := set lx_chunk _ (set lx_chunk _ saC)).
      assert (Sb : srel sbF sbC).
      { subst sbF sbC. apply srel_chunk; [apply srel_chunk; [exact Sa|left; reflexivity]|left; reflexivity]. }
      clearbody sbF sbC.
      destruct (match r_buf r1 with [] => _ | _ => _ end) as [x|].
      { intros H1 H2; inversion H1; inversion H2; subst. right. split; [reflexivity|exact Sb]. }
      destruct ((0 <? ucrc) && negb (crc32 data =? ucrc)).
      { intros H1 H2; inversion H1; inversion H2; subst. right. split; [reflexivity|exact Sb]. }
      intros H1 H2; inversion H1; inversion H2; subst. right. split; [reflexivity|].
      apply srel_chunk; [|left; reflexivity].
      destruct (_ || _); [|exact Sb]. apply srel_base; [exact Sb|apply cut_drop; exact Cb|exact Nb].
    + (* the cut chunk reader still has its error pending: the lz4 tail check reports it *)
      destruct HC as [C1 _]. rewrite C1.
      intros H1 _. left. destruct (r_buf r1); inversion H1; reflexivity.
  - set (sbF := set lx_chunk _ saF).
    set (sbC := set lx_chunk _ saC).
    assert (Sb : srel sbF sbC) by (subst sbF sbC; apply srel_chunk; assumption).
    clearbody sbF sbC.
    destruct ((0 <? ucrc) && negb (crc32 data =? ucrc)).
    { intros H1 H2; inversion H1; inversion H2; subst. right. split; [reflexivity|exact Sb]. }
    intros H1 H2; inversion H1; inversion H2; subst. right. split; [reflexivity|].
    apply srel_chunk; [|left; reflexivity].
    destruct (_ || _); [|exact Sb]. apply srel_base; [exact Sb|apply cut_drop; exact Cb|exact Nb].
Qed.


Lemma load_chunk_sim rl sF sC oeF sF' oeC sC' : srel sF sC ->
  load_chunk lo dstream rl sF = (oeF, sF') -> load_chunk lo dstream rl sC = (oeC, sC') ->
  oeF = Some e \/ (oeF = oeC /\ srel sF' sC').
Proof.
  intros S. rewrite !load_chunk_eq. pose proof (srel_in_chunk _ _ S) as Hin.
  destruct (lx_chunk sF) eqn:EcF, (lx_chunk sC) eqn:EcC; try discriminate.
  { intros H1 H2; inversion H1; inversion H2; subst. right. split; [reflexivity|exact S]. }
  destruct (lc_head_sim rl sF sC S) as [[sF1 Hh]|Hh].
  { rewrite Hh. intros H1 _. inversion H1. left. reflexivity. }
  destruct (lc_head rl sF) as [x s1F|usize ucrc comp rlen s1F], (lc_head rl sC) as [y s1C|usize' ucrc' comp' rlen' s1C];
    try contradiction.
  { destruct Hh as [-> S1]. intros H1 H2; inversion H1; inversion H2; subst. right. split; [reflexivity|exact S1]. }
  destruct Hh as [<- [<- [<- [<- S1]]]].
  destruct (negb (lc_supported lo comp)).
  { intros H1 H2; inversion H1; inversion H2; subst. right. split; [reflexivity|exact S1]. }
  cbv zeta.
  destruct (lc_open lo dstream comp rlen (lx_base s1F)) as [b'F crF] eqn:EoF.
  destruct (lc_open lo dstream comp rlen (lx_base s1C)) as [b'C crC] eqn:EoC.
  pose proof S1 as [Sb [Sn _]].
  destruct (lc_open_sim _ _ _ _ _ _ _ _ Sb Sn EoF EoC) as [O1 [O2 O3]].
  assert (S2 : srel (s1F <| lx_base := b'F |> <| lx_chunk := Some crF |>)
                    (s1C <| lx_base := b'C |> <| lx_chunk := Some crC |>)).
  { apply srel_chunk; [apply srel_base; assumption|exact O3]. }
  destruct (negb (lo_validate lo)).
  { intros H1 H2; inversion H1; inversion H2; subst. right. split; [reflexivity|exact S2]. }
  intros H1 H2. eapply lc_validate_sim; [exact Sb|exact Sn|exact O3|exact S2|exact H1|exact H2].
Qed.

Lemma e_not_eofish : err_eqb e EEOF || (err_eqb e EUnexpectedEOF || err_eqb e ETruncated) = false.
Proof.
  apply orb_false_iff. split; [apply err_eqb_neq; exact He1|].
  apply orb_false_iff. split; apply err_eqb_neq; assumption.
Qed.

(* ---------- attachments with callbacks ---------- *)
Definition dead (r : rdr) : Prop := r_buf r = [] /\ r_end r = Some e.

Lemma att_truncated_refl a : att_truncated a a.
Proof. unfold att_truncated. repeat (split; [reflexivity|]). exists []. rewrite app_nil_r. reflexivity. Qed.

Lemma cut_same r : r_end r = Some e -> cut r r.
Proof. intros H. split; [exact H|split; [reflexivity|exists []; rewrite app_nil_r; reflexivity]]. Qed.

Lemma cut_skipn k r rC : cut r rC -> (k <= length (r_buf r))%nat ->
  cut {| r_buf := skipn k (r_buf r); r_end := r_end r; r_seek := r_seek r |}
      {| r_buf := skipn k (r_buf rC); r_end := r_end rC; r_seek := r_seek rC |}.
Proof.
  intros [C1 [C2 [t C3]]] Hk. split; [exact C1|split; [exact C2|]]. cbn [r_buf]. rewrite C3.
  rewrite skipn_app. replace (k - length (r_buf r))%nat with 0%nat by lia. exists t. reflexivity.
Qed.

Definition att_same (rC : rdr) (evF : option event) (oeF : option err) (r'F : rdr)
  (evC : option event) (oeC : option err) (r'C : rdr) : Prop :=
  evF = evC /\ oeF = oeC /\ r_end r'C = r_end rC /\ cut r'F r'C.
Definition att_trunc_res (evF : option event) (oeF : option err) (r'F : rdr) (evC : option event) : Prop :=
  exists a' a, evF = Some (EvAttachment a') /\ evC = Some (EvAttachment a) /\ att_truncated a' a /\
               (oeF = Some e \/ (oeF = None /\ dead r'F)).

(* the tail of do_attachment for a reading callback, on cut readers with the same observation *)
Lemma att_tail_same rl r rC ob consumed oeF r'F oeC r'C :
  cut r rC -> (consumed <= length (r_buf r))%nat ->
  rd_skip (rl - N.of_nat consumed) {| r_buf := skipn consumed (r_buf r); r_end := r_end r; r_seek := r_seek r |} = (oeF, r'F) ->
  rd_skip (rl - N.of_nat consumed) {| r_buf := skipn consumed (r_buf rC); r_end := r_end rC; r_seek := r_seek rC |} = (oeC, r'C) ->
  att_same rC (Some (EvAttachment ob)) oeF r'F (Some (EvAttachment ob)) oeC r'C \/
  att_trunc_res (Some (EvAttachment ob)) oeF r'F (Some (EvAttachment ob)).
Proof.
  intros Hc Hk HF HC.
  destruct (rd_skip_rrel _ _ _ _ _ (or_intror (cut_skipn consumed r rC Hc Hk)) HF) as [[-> _]|[r2C [EC [Ee HR]]]].
  - right. exists ob, ob. split; [reflexivity|split; [reflexivity|split; [apply att_truncated_refl|left; reflexivity]]].
  - left. rewrite EC in HC. inversion HC; subst. split; [reflexivity|split; [reflexivity|split; [exact Ee|]]].
    destruct HR as [[_ <-]|HR]; [|exact HR].
    apply cut_same. pose proof (rd_skip_adv _ _ _ _ HF) as [Ha _]. cbn [r_end] in Ha.
    destruct Hc as [C1 _]. congruence.
Qed.

Lemma att_cb_consumed' cb buf en lt ct name media ds o5 ob consumed : (o5 <= length buf)%nat ->
  att_cb lo cb (buf, en) lt ct name media ds o5 = (ob, consumed) -> (consumed <= length buf)%nat.
Proof.
  intros Ho H. pose proof (att_cb_consumed lo cb buf en lt ct name media ds o5 Ho) as Hk.
  rewrite H in Hk. exact Hk.
Qed.
Lemma att_cb_trunc' cb buf t enF enC lt ct name media ds o5 obF cF obC cC : (o5 <= length buf)%nat ->
  att_cb lo cb (buf, enF) lt ct name media ds o5 = (obF, cF) ->
  att_cb lo cb (buf ++ t, enC) lt ct name media ds o5 = (obC, cC) ->
  att_truncated obF obC.
Proof.
  intros Ho H1 H2. pose proof (att_cb_trunc lo cb buf t enF enC lt ct name media ds o5 Ho) as Hk.
  rewrite H1, H2 in Hk. exact Hk.
Qed.

Lemma limited_cut rl r rC : cut r rC ->
  (rl <= blen (r_buf r) /\ limited rl rC = limited rl r /\ limited rl r = (take rl (r_buf r), None)) \/
  (blen (r_buf r) < rl /\ limited rl r = (r_buf r, Some e) /\ exists t' enC, limited rl rC = (r_buf r ++ t', enC)).
Proof.
  intros [C1 [C2 [t C3]]]. unfold limited. rewrite C3, blen_app, C1.
  destruct (N.le_gt_cases rl (blen (r_buf r))) as [L|L].
  - left. replace (rl <=? blen (r_buf r)) with true by lia.
    replace (rl <=? blen (r_buf r) + blen t) with true by lia. rewrite take_app_le by lia. auto.
  - right. replace (rl <=? blen (r_buf r)) with false by lia. split; [exact L|split; [reflexivity|]].
    destruct (rl <=? blen (r_buf r) + blen t).
    + rewrite take_app_ge by lia. eauto.
    + eauto.
Qed.

Definition att_read (cb : cbmode) (rl : N) (r : rdr) : option event * option err * rdr :=
  match att_parse (limited rl r) with
  | Ok (lt, ct, name, media, ds, o5) =>
    let '(ob, consumed) := att_cb lo cb (limited rl r) lt ct name media ds o5 in
    let r1 := {| r_buf := skipn consumed (r_buf r); r_end := r_end r; r_seek := r_seek r |} in
    let '(e, r2) := rd_skip (rl - N.of_nat consumed) r1 in
    (Some (EvAttachment ob), e, r2)
  | Err e => (None, Some e, {| r_buf := drop (blen (fst (limited rl r))) (r_buf r); r_end := r_end r; r_seek := r_seek r |})
  | _ => (None, Some EOther, r)
  end.

Definition att_res (rC : rdr) (evF : option event) (oeF : option err) (r'F : rdr)
  (evC : option event) (oeC : option err) (r'C : rdr) : Prop :=
  att_same rC evF oeF r'F evC oeC r'C \/ (evF = None /\ oeF = Some e) \/ att_trunc_res evF oeF r'F evC.

Lemma att_read_sim cb rl r rC evF oeF r'F evC oeC r'C :
  cut r rC ->
  att_read cb rl r = (evF, oeF, r'F) -> att_read cb rl rC = (evC, oeC, r'C) ->
  att_res rC evF oeF r'F evC oeC r'C.
Proof.
  intros Hc. pose proof Hc as [C1 [C2 [t C3]]]. unfold att_read, att_res.
  destruct (limited_cut rl r rC Hc) as [[L [E1 E2]]|[L [E1 [t' [enC E2]]]]].
  - (* the whole attachment record is available on both sides *)
    rewrite E1. destruct (att_parse (limited rl r)) as [[[[[[lt ct] name] media] ds] o5]| | | |] eqn:Ep.
    + rewrite E2 in Ep. pose proof (att_parse_ok _ _ _ _ _ _ _ _ Ep) as Ho.
      destruct (att_cb lo cb (limited rl r) lt ct name media ds o5) as [ob consumed] eqn:Ea.
      assert (Hk : (consumed <= length (r_buf r))%nat).
      { rewrite E2 in Ea. apply att_cb_consumed' in Ea; [|exact Ho].
        rewrite take_length in Ea. unfold blen in Ea. lia. }
      cbv zeta.
      match goal with |- context[rd_skip ?n {| r_buf := skipn consumed (r_buf r); r_end := ?a; r_seek := ?b |}] =>
        destruct (rd_skip n {| r_buf := skipn consumed (r_buf r); r_end := a; r_seek := b |}) as [oe1 r1] eqn:EF end.
      match goal with |- context[rd_skip ?n {| r_buf := skipn consumed (r_buf rC); r_end := ?a; r_seek := ?b |}] =>
        destruct (rd_skip n {| r_buf := skipn consumed (r_buf rC); r_end := a; r_seek := b |}) as [oe2 r2] eqn:EC end.
      intros H1 H2; inversion H1; inversion H2; subst.
      destruct (att_tail_same _ _ _ ob _ _ _ _ _ Hc Hk EF EC) as [A|A]; auto.
    + intros H1 H2; inversion H1; inversion H2; subst. left.
      split; [reflexivity|split; [reflexivity|split; [reflexivity|apply cut_drop; exact Hc]]].
    + intros H1 H2; inversion H1; inversion H2; subst. left.
      split; [reflexivity|split; [reflexivity|split; [reflexivity|exact Hc]]].
    + intros H1 H2; inversion H1; inversion H2; subst. left.
      split; [reflexivity|split; [reflexivity|split; [reflexivity|exact Hc]]].
    + intros H1 H2; inversion H1; inversion H2; subst. left.
      split; [reflexivity|split; [reflexivity|split; [reflexivity|exact Hc]]].
  - (* the attachment record is cut by the failure *)
    rewrite E1, E2. pose proof (att_parse_okerr (r_buf r, Some e)) as Hok.
    destruct (att_parse (r_buf r, Some e)) as [[[[[[lt ct] name] media] ds] o5]|x| | |] eqn:Ep; try contradiction.
    2:{ apply att_parse_err in Ep. subst x. intros H1 _. inversion H1; subst. right. left. auto. }
    rewrite (att_parse_ext _ _ enC t' _ Ep). pose proof (att_parse_ok _ _ _ _ _ _ _ _ Ep) as Ho.
    destruct (att_cb lo cb (r_buf r, Some e) lt ct name media ds o5) as [obF cF] eqn:EaF.
    destruct (att_cb lo cb (r_buf r ++ t', enC) lt ct name media ds o5) as [obC cC] eqn:EaC.
    pose proof (att_cb_consumed' _ _ _ _ _ _ _ _ _ _ _ Ho EaF) as Hk.
    pose proof (att_cb_trunc' _ _ _ _ _ _ _ _ _ _ _ _ _ _ _ Ho EaF EaC) as Ht.
    cbv zeta.
    match goal with |- context[rd_skip ?n {| r_buf := skipn cF (r_buf r); r_end := ?a; r_seek := ?b |}] =>
      destruct (rd_skip n {| r_buf := skipn cF (r_buf r); r_end := a; r_seek := b |}) as [oe1 r1] eqn:EF end.
    match goal with |- context[rd_skip ?n {| r_buf := skipn cC (r_buf rC); r_end := ?a; r_seek := ?b |}] =>
      destruct (rd_skip n {| r_buf := skipn cC (r_buf rC); r_end := a; r_seek := b |}) as [oe2 r2] eqn:EC end.
    intros H1 H2; inversion H1; inversion H2; subst. right. right.
    exists obF, obC. split; [reflexivity|split; [reflexivity|split; [exact Ht|]]].
    revert EF. unfold rd_skip. cbn [r_buf r_end r_seek].
    assert (Hb : blen (skipn cF (r_buf r)) < rl - N.of_nat cF).
    { unfold blen in *. rewrite skipn_length. lia. }
    destruct (r_seek r).
    + intros H; inversion H; subst. right. split; [reflexivity|]. split; [|exact C1].
      cbn [r_buf]. apply drop_all. lia.
    + replace (blen (skipn cF (r_buf r)) <? rl - N.of_nat cF) with true by lia.
      intros H; inversion H; subst. left. unfold end_err. cbn [r_end]. rewrite C1. reflexivity.
Qed.

Lemma do_attachment_sim rl r rC evF oeF r'F evC oeC r'C :
  cut r rC ->
  do_attachment lo rl r = (evF, oeF, r'F) -> do_attachment lo rl rC = (evC, oeC, r'C) ->
  att_res rC evF oeF r'F evC oeC r'C.
Proof.
  intros Hc. pose proof Hc as [C1 [C2 [t C3]]].
  destruct (lo_cb lo) eqn:Ecb.
  - (* no callback: skipReader *)
    rewrite !do_attachment_none by exact Ecb.
    destruct (rd_skip rl r) as [oe r2] eqn:EF. cbn [fst snd].
    destruct (rd_skip_rrel _ _ _ _ _ (or_intror Hc) EF) as [[-> _]|[r2C [EC [Ee HR]]]].
    + intros H _. inversion H; subst. right. left. auto.
    + rewrite EC. cbn [fst snd]. intros H1 H2; inversion H1; inversion H2; subst. left.
      split; [reflexivity|split; [reflexivity|split; [exact Ee|]]].
      destruct HR as [[_ <-]|HR]; [|exact HR].
      apply cut_same. pose proof (rd_skip_adv _ _ _ _ EF) as [Ha _]. congruence.
  - rewrite !do_attachment_cb by (rewrite Ecb; discriminate). rewrite Ecb.
    apply (att_read_sim CbFull); exact Hc.
  - rewrite !do_attachment_cb by (rewrite Ecb; discriminate). rewrite Ecb.
    apply (att_read_sim (CbPartial k)); exact Hc.
  - (* callback fails without reading *)
    rewrite !do_attachment_cb by (rewrite Ecb; discriminate). rewrite Ecb.
    destruct (limited_cut rl r rC Hc) as [[L [E1 E2]]|[L [E1 [t' [enC E2]]]]].
    + rewrite E1. destruct (att_parse (limited rl r)) as [[[[[[lt ct] name] media] ds] o5]| | | |] eqn:Ep.
      * rewrite E2 in Ep. pose proof (att_parse_ok _ _ _ _ _ _ _ _ Ep) as Ho.
        intros H1 H2; inversion H1; inversion H2; subst. left.
        split; [reflexivity|split; [reflexivity|split; [reflexivity|]]].
        apply cut_skipn; [exact Hc|]. rewrite take_length in Ho. unfold blen in Ho. lia.
      * intros H1 H2; inversion H1; inversion H2; subst. left.
        split; [reflexivity|split; [reflexivity|split; [reflexivity|apply cut_drop; exact Hc]]].
      * intros H1 H2; inversion H1; inversion H2; subst. left.
        split; [reflexivity|split; [reflexivity|split; [reflexivity|exact Hc]]].
      * intros H1 H2; inversion H1; inversion H2; subst. left.
        split; [reflexivity|split; [reflexivity|split; [reflexivity|exact Hc]]].
      * intros H1 H2; inversion H1; inversion H2; subst. left.
        split; [reflexivity|split; [reflexivity|split; [reflexivity|exact Hc]]].
    + rewrite E1, E2. pose proof (att_parse_okerr (r_buf r, Some e)) as Hok.
      destruct (att_parse (r_buf r, Some e)) as [[[[[[lt ct] name] media] ds] o5]|x| | |] eqn:Ep; try contradiction.
      2:{ apply att_parse_err in Ep. subst x. intros H1 _. inversion H1; subst. right. left. auto. }
      rewrite (att_parse_ext _ _ enC t' _ Ep). pose proof (att_parse_ok _ _ _ _ _ _ _ _ Ep) as Ho.
      intros H1 H2; inversion H1; inversion H2; subst. left.
      split; [reflexivity|split; [reflexivity|split; [reflexivity|]]].
      apply cut_skipn; [exact Hc|exact Ho].
Qed.

Lemma lex_loop_ext : forall n fuel s acc evs fin s',
  lex_loop lo dstream n fuel s acc = Ok (evs, fin, s') -> exists t, evs = acc ++ t.
Proof.
  induction n as [|n IH]; intros fuel s acc evs fin s'; [discriminate|]. cbn [lex_loop].
  destruct (lex_next lo dstream fuel 0 s []) as [[[evs1 r] s1]| | | |]; try discriminate.
  destruct r.
  - intros H. apply IH in H. destruct H as [t ->]. exists ((evs1 ++ [ev]) ++ t). rewrite <- app_assoc. reflexivity.
  - intros H; inversion H; subst. eexists. reflexivity.
Qed.

Lemma new_lexer_sim p rest sk sF :
  new_lexer lo {| r_buf := p; r_end := Some e; r_seek := sk |} = Ok sF ->
  exists sC, new_lexer lo {| r_buf := p ++ rest; r_end := None; r_seek := sk |} = Ok sC /\ srel sF sC.
Proof.
  assert (C0 : cut {| r_buf := p; r_end := Some e; r_seek := sk |} {| r_buf := p ++ rest; r_end := None; r_seek := sk |}).
  { split; [reflexivity|split; [reflexivity|exists rest; reflexivity]]. }
  unfold new_lexer. destruct (lo_skip_magic lo).
  { intros H; inversion H; subst. eexists. split; [reflexivity|].
    split; [exact C0|]. rsimpl. repeat split. }
  destruct (rd_full 8 {| r_buf := p; r_end := Some e; r_seek := sk |}) as [[m x] r1] eqn:EF.
  destruct (rd_full_rrel _ _ _ _ _ _ (or_intror C0) EF) as [[-> _]|[r1C [EC [EeC HC]]]]; [discriminate|].
  rewrite EC. destruct x; [discriminate|]. destruct (bytes_eqb m magic); [|discriminate].
  intros H; inversion H; subst. eexists. split; [reflexivity|].
  destruct HC as [[HC _]|HC]; [discriminate|].
  split; [exact HC|]. rsimpl. repeat split. exact EeC.
Qed.


(* ---------- one iteration of Next, any callback mode ---------- *)
Definition step_evs (x : sres) : list event :=
  match x with SDone evs _ _ => evs | SCont _ evs => evs end.
Definition dead_state (s : lstate) : Prop := dead (cur s).

Definition step_rel (a b : sres) : Prop :=
  match a, b with
  | SDone ev1 r1 s1, SDone ev2 r2 s2 => ev1 = ev2 /\ r1 = r2 /\ srel s1 s2
  | SCont s1 ev1, SCont s2 ev2 => ev1 = ev2 /\ srel s1 s2
  | _, _ => False
  end.

Definition step_trunc (evs : list event) (xF xC : sres) : Prop :=
  exists a' a, att_truncated a' a /\ step_evs xC = evs ++ [EvAttachment a] /\
    ((exists sF', xF = SDone (evs ++ [EvAttachment a']) (NErr e) sF') \/
     (exists sF', xF = SCont sF' (evs ++ [EvAttachment a']) /\ dead_state sF')).

Lemma lex_step_sim_gen pcap sF sC evs : srel sF sC ->
  (exists sF', lex_step lo dstream pcap sF evs = SDone evs (NErr e) sF') \/
  step_rel (lex_step lo dstream pcap sF evs) (lex_step lo dstream pcap sC evs) \/
  step_trunc evs (lex_step lo dstream pcap sF evs) (lex_step lo dstream pcap sC evs).
Proof.
  intros S. unfold lex_step. rewrite <- (srel_in_chunk _ _ S).
  destruct (rd_full 9 (cur sF)) as [[hd x] r1] eqn:EF.
  destruct (rd_full_rrel _ _ _ _ _ _ (srel_cur _ _ S) EF) as [[-> _]|[r1C [EC [EeC HC]]]].
  { left. pose proof e_not_eofish as Hn. apply orb_false_iff in Hn. destruct Hn as [Hn1 Hn2].
    rewrite Hn1, Hn2. cbn [orb]. rewrite andb_false_r. eexists. reflexivity. }
  rewrite EC.
  assert (S1 : srel (set_cur r1 sF) (set_cur r1C sC)).
  { apply srel_set_cur; [exact S|exact EeC|]. destruct HC as [[A B]|HC]; [left; auto|right; exact HC]. }
  destruct x as [x|].
  { right. left. destruct (_ && (_ || _)).
    - split; [reflexivity|apply srel_chunk_none; exact S1].
    - destruct (_ || _); [destruct (_ && _)|]; (split; [reflexivity|split; [reflexivity|exact S1]]). }
  set (rlen := unle (skipn 1 hd)).
  destruct ((0 <? lo_max_record lo) && (lo_max_record lo <? rlen)).
  { right. left. split; [reflexivity|split; [reflexivity|exact S1]]. }
  destruct (_ && negb (lo_emit_chunks lo)).
  { destruct (load_chunk lo dstream rlen (set_cur r1 sF)) as [oeF s2F] eqn:ElF.
    destruct (load_chunk lo dstream rlen (set_cur r1C sC)) as [oeC s2C] eqn:ElC.
    destruct (load_chunk_sim _ _ _ _ _ _ _ S1 ElF ElC) as [->|[<- S2]].
    - left. replace (err_eqb e EInvalidChunkCrc) with false by (symmetry; apply err_eqb_neq; exact He4).
      rewrite andb_false_r. eexists. reflexivity.
    - right. left. destruct oeF as [x|]; [destruct (lo_emit_invalid lo && _)|];
        cbn [step_rel]; repeat (split; [reflexivity|]); exact S2. }
  destruct (Byte.eqb _ OpAttachment).
  { destruct (9223372036854775807 <? rlen); [right; left; split; [reflexivity|split; [reflexivity|exact S1]]|].
    destruct (do_attachment lo rlen (cur (set_cur r1 sF))) as [[evF oeF] r2F] eqn:EdF.
    destruct (do_attachment lo rlen (cur (set_cur r1C sC))) as [[evC oeC] r2C] eqn:EdC.
    destruct (srel_cur _ _ S1) as [Heq|Hcut].
    - (* same reader (inside a chunk that was delivered completely) *)
      rewrite Heq in EdF. rewrite EdF in EdC. inversion EdC; subst.
      assert (S2 : srel (set_cur r2C (set_cur r1 sF)) (set_cur r2C (set_cur r1C sC))).
      { apply srel_set_cur; [exact S1|apply (do_attachment_adv _ _ _ _ _ _ EdF)|left; auto]. }
      right. left. destruct oeC; cbn [step_rel]; repeat (split; [reflexivity|]); exact S2.
    - destruct (do_attachment_sim _ _ _ _ _ _ _ _ _ Hcut EdF EdC) as [[-> [-> [Ee Hc2]]]|[[-> ->]|[a' [a [-> [-> [Ht Hd]]]]]]].
      + assert (S2 : srel (set_cur r2F (set_cur r1 sF)) (set_cur r2C (set_cur r1C sC))).
        { apply srel_set_cur; [exact S1|exact Ee|right; exact Hc2]. }
        right. left. destruct oeC; cbn [step_rel]; repeat (split; [reflexivity|]); exact S2.
      + left. eexists. reflexivity.
      + right. right. exists a', a. split; [exact Ht|]. split; [destruct oeC; reflexivity|].
        destruct Hd as [->|[-> Hd]].
        * left. eexists. reflexivity.
        * right. eexists. split; [reflexivity|]. unfold dead_state. rewrite cur_set_cur. exact Hd. }
  destruct ((pcap <? rlen) && negb (rlen <? max_int32)).
  { right. left. split; [reflexivity|split; [reflexivity|exact S1]]. }
  set (s1F := if pcap <? rlen then _ else set_cur r1 sF).
  set (s1C := if pcap <? rlen then _ else set_cur r1C sC).
  assert (S2 : srel s1F s1C).
  { subst s1F s1C. destruct (pcap <? rlen); [apply srel_allocs|]; exact S1. }
  clearbody s1F s1C.
  destruct (rd_full rlen (cur s1F)) as [[body x] r3] eqn:EF3.
  destruct (rd_full_rrel _ _ _ _ _ _ (srel_cur _ _ S2) EF3) as [[-> _]|[r3C [EC3 [EeC3 HC3]]]].
  { left. destruct e; try congruence; eexists; reflexivity. }
  rewrite EC3.
  assert (S3 : srel (set_cur r3 s1F) (set_cur r3C s1C)).
  { apply srel_set_cur; [exact S2|exact EeC3|]. destruct HC3 as [[A B]|HC3]; [left; auto|right; exact HC3]. }
  right. left. destruct x as [x|]; [destruct x; cbn [step_rel]; repeat (split; [reflexivity|]); exact S3|].
  destruct (known_op _); [cbn [step_rel]; repeat (split; [reflexivity|]); exact S3|].
  destruct (Byte.eqb _ x00); cbn [step_rel]; repeat (split; [reflexivity|]); exact S3.
Qed.

Lemma dead_step pcap s evs : dead_state s ->
  exists s', lex_step lo dstream pcap s evs = SDone evs (NErr e) s'.
Proof.
  intros [D1 D2]. unfold lex_step, rd_full. rewrite D1, D2. cbn [blen length N.of_nat N.leb N.eqb N.compare].
  change (9 =? 0) with false. change (9 <=? 0) with false. cbv iota.
  pose proof e_not_eofish as Hn. apply orb_false_iff in Hn. destruct Hn as [Hn1 Hn2].
  rewrite Hn1, Hn2. cbn [orb]. rewrite andb_false_r. eexists. reflexivity.
Qed.

Lemma lex_step_mono pcap s evs : exists t, step_evs (lex_step lo dstream pcap s evs) = evs ++ t.
Proof.
  assert (G : forall x, step_evs x = evs -> exists t, step_evs x = evs ++ t).
  { intros x H. exists []. rewrite app_nil_r. exact H. }
  unfold lex_step. destruct (rd_full 9 (cur s)) as [[hd x] r1].
  destruct x as [x|].
  { apply G. destruct (_ && (_ || _)); [reflexivity|]. destruct (_ || _); [destruct (_ && _)|]; reflexivity. }
  destruct (_ && (_ <? _)); [apply G; reflexivity|].
  destruct (_ && negb (lo_emit_chunks lo)).
  { apply G. destruct (load_chunk _ _ _ _) as [[x|] s2]; [destruct (lo_emit_invalid lo && _)|]; reflexivity. }
  destruct (Byte.eqb _ OpAttachment).
  { destruct (9223372036854775807 <? _); [apply G; reflexivity|].
    destruct (do_attachment _ _ _) as [[ev oe] r2].
    destruct ev as [ev|]; [exists [ev]|exists []; rewrite app_nil_r]; destruct oe; reflexivity. }
  apply G. destruct (_ && negb _); [reflexivity|].
  destruct (rd_full _ _) as [[body x] r3].
  destruct x as [x|]; [destruct x; reflexivity|].
  destruct (known_op _); [reflexivity|]. destruct (Byte.eqb _ x00); reflexivity.
Qed.

Lemma lex_next_mono : forall fuel pcap s evs evs' res s',
  lex_next lo dstream fuel pcap s evs = Ok (evs', res, s') -> exists t, evs' = evs ++ t.
Proof.
  induction fuel as [|f IH]; intros pcap s evs evs' res s'; [discriminate|].
  rewrite lex_next_S. destruct (lex_step_mono pcap s evs) as [t Ht].
  destruct (lex_step _ _ _ _ _) as [a b c|s1 evs1]; cbn [step_evs] in Ht; subst.
  - intros H; inversion H; subst. eauto.
  - intros H. apply IH in H. destruct H as [t2 ->]. exists (t ++ t2). apply app_assoc_reverse.
Qed.

(* outcome of one call of Next on related states *)
Definition next_same (evsF : list event) (resF : nres) (sF' : lstate)
  (evsC : list event) (resC : nres) (sC' : lstate) : Prop :=
  evsF = evsC /\ resF = resC /\ srel sF' sC'.
Definition next_fail (evsF : list event) (resF : nres) (evsC : list event) : Prop :=
  resF = NErr e /\ exists t, evsC = evsF ++ t.
Definition next_trunc (evsF : list event) (resF : nres) (evsC : list event) : Prop :=
  resF = NErr e /\ exists pre a' a t, evsF = pre ++ [EvAttachment a'] /\
                                     evsC = pre ++ EvAttachment a :: t /\ att_truncated a' a.

Lemma lex_next_sim_gen : forall fF fC pcap sF sC evs evsF resF sF' evsC resC sC',
  srel sF sC ->
  lex_next lo dstream fF pcap sF evs = Ok (evsF, resF, sF') ->
  lex_next lo dstream fC pcap sC evs = Ok (evsC, resC, sC') ->
  next_same evsF resF sF' evsC resC sC' \/ next_fail evsF resF evsC \/ next_trunc evsF resF evsC.
Proof.
  induction fF as [|fF IH]; intros fC pcap sF sC evs evsF resF sF' evsC resC sC' S; [discriminate|].
  destruct fC as [|fC]; [discriminate|]. intros HF HC.
  pose proof (lex_next_mono _ _ _ _ _ _ _ HC) as [tC HtC].
  rewrite lex_next_S in HF, HC.
  destruct (lex_step_sim_gen pcap sF sC evs S) as [[s1 Hs]|[Hs|Hs]].
  - rewrite Hs in HF. inversion HF; subst. right. left. split; [reflexivity|]. exists tC. reflexivity.
  - destruct (lex_step lo dstream pcap sF evs) as [a b c|s1 e1], (lex_step lo dstream pcap sC evs) as [a' b' c'|s1' e1'];
      cbn [step_rel] in Hs; try contradiction.
    + destruct Hs as [-> [-> S1]]. inversion HF; inversion HC; subst. left. split; [reflexivity|split; [reflexivity|exact S1]].
    + destruct Hs as [-> S1]. eapply IH; eauto.
  - destruct Hs as [a' [a [Ht [HeC HxF]]]].
    assert (GC : exists t, evsC = evs ++ EvAttachment a :: t).
    { destruct (lex_step lo dstream pcap sC evs) as [a0 b0 c0|s1' e1']; cbn [step_evs] in HeC; subst.
      - inversion HC; subst. exists []. reflexivity.
      - apply lex_next_mono in HC. destruct HC as [t2 ->]. exists t2. rewrite <- app_assoc. reflexivity. }
    destruct GC as [t2 ->].
    assert (GF : evsF = evs ++ [EvAttachment a'] /\ resF = NErr e).
    { destruct HxF as [[s1 Hx]|[s1 [Hx Hd]]]; rewrite Hx in HF.
      - inversion HF; subst. auto.
      - destruct fF as [|fF']; [discriminate|]. rewrite lex_next_S in HF.
        destruct (dead_step pcap s1 (evs ++ [EvAttachment a']) Hd) as [s2 Hd2]. rewrite Hd2 in HF.
        inversion HF; subst. auto. }
    destruct GF as [-> ->]. right. right. split; [reflexivity|]. exists evs, a', a, t2. auto.
Qed.

Lemma lex_loop_sim_gen : forall n n' fF fC sF sC acc evsF finF sF' evsC finC sC',
  srel sF sC ->
  lex_loop lo dstream n fF sF acc = Ok (evsF, finF, sF') ->
  lex_loop lo dstream n' fC sC acc = Ok (evsC, finC, sC') ->
  events_prefix_upto_attachment evsF evsC /\ (finF = e \/ (finF = finC /\ evsF = evsC)).
Proof.
  induction n as [|n IH]; intros n' fF fC sF sC acc evsF finF sF' evsC finC sC' S; [discriminate|].
  destruct n' as [|n']; [discriminate|]. cbn [lex_loop].
  destruct (lex_next lo dstream fF 0 sF []) as [[[evs1 r] s1]| | | |] eqn:EF; try discriminate.
  destruct (lex_next lo dstream fC 0 sC []) as [[[evs1' r'] s1']| | | |] eqn:EC; try discriminate.
  destruct (lex_next_sim_gen _ _ _ _ _ _ _ _ _ _ _ _ S EF EC) as [[<- [<- S1]]|[[-> [t ->]]|[-> [pre [a' [a [t [-> [-> Ht]]]]]]]]].
  - destruct r.
    + apply IH. exact S1.
    + intros H1 H2; inversion H1; inversion H2; subst. split; [left; exists []; rewrite app_nil_r; reflexivity|].
      right. auto.
  - intros H1 H2. inversion H1; subst; clear H1. split; [|left; reflexivity]. left.
    destruct r'.
    + apply lex_loop_ext in H2. destruct H2 as [t2 ->]. exists (t ++ [ev] ++ t2).
      rewrite <- !app_assoc. reflexivity.
    + inversion H2; subst. exists t. rewrite <- !app_assoc. reflexivity.
  - intros H1 H2. inversion H1; subst; clear H1. split; [|left; reflexivity]. right.
    destruct r'.
    + apply lex_loop_ext in H2. destruct H2 as [t2 ->].
      exists (acc ++ pre), a', a, (t ++ [ev] ++ t2). split; [apply app_assoc|split; [|exact Ht]].
      rewrite <- !app_assoc. reflexivity.
    + inversion H2; subst. exists (acc ++ pre), a', a, t. split; [apply app_assoc|split; [|exact Ht]].
      rewrite <- !app_assoc. reflexivity.
Qed.

Theorem lex_all_error_prefix_gen fuel fuel' p rest sk evsF finF sF evsC finC sC :
  lex_all lo dstream fuel {| r_buf := p; r_end := Some e; r_seek := sk |} = Ok (evsF, finF, sF) ->
  lex_all lo dstream fuel' {| r_buf := p ++ rest; r_end := None; r_seek := sk |} = Ok (evsC, finC, sC) ->
  events_prefix_upto_attachment evsF evsC /\ (finF = e \/ (finF = finC /\ evsF = evsC)).
Proof.
  unfold lex_all.
  destruct (new_lexer lo {| r_buf := p; r_end := Some e; r_seek := sk |}) as [s0| | | |] eqn:EF; try discriminate.
  destruct (new_lexer_sim p rest sk s0 EF) as [s0C [EC S]]. rewrite EC.
  apply lex_loop_sim_gen. exact S.
Qed.

Hypothesis Hcb : lo_cb lo = CbNone.

Lemma lex_step_sim pcap sF sC evs : srel sF sC ->
  (exists sF', lex_step lo dstream pcap sF evs = SDone evs (NErr e) sF') \/
  step_rel (lex_step lo dstream pcap sF evs) (lex_step lo dstream pcap sC evs).
Proof.
  intros S. unfold lex_step. rewrite <- (srel_in_chunk _ _ S).
  destruct (rd_full 9 (cur sF)) as [[hd x] r1] eqn:EF.
  destruct (rd_full_rrel _ _ _ _ _ _ (srel_cur _ _ S) EF) as [[-> _]|[r1C [EC [EeC HC]]]].
  { left. pose proof e_not_eofish as Hn. apply orb_false_iff in Hn. destruct Hn as [Hn1 Hn2].
    rewrite Hn1, Hn2. cbn [orb]. rewrite andb_false_r. eexists. reflexivity. }
  rewrite EC.
  assert (S1 : srel (set_cur r1 sF) (set_cur r1C sC)).
  { apply srel_set_cur; [exact S|exact EeC|]. destruct HC as [[A B]|HC]; [left; auto|right; exact HC]. }
  destruct x as [x|].
  { right. destruct (_ && (_ || _)).
    - split; [reflexivity|apply srel_chunk_none; exact S1].
    - destruct (_ || _); [destruct (_ && _)|]; (split; [reflexivity|split; [reflexivity|exact S1]]). }
  set (rlen := unle (skipn 1 hd)).
  destruct ((0 <? lo_max_record lo) && (lo_max_record lo <? rlen)).
  { right. split; [reflexivity|split; [reflexivity|exact S1]]. }
  destruct (_ && negb (lo_emit_chunks lo)).
  { destruct (load_chunk lo dstream rlen (set_cur r1 sF)) as [oeF s2F] eqn:ElF.
    destruct (load_chunk lo dstream rlen (set_cur r1C sC)) as [oeC s2C] eqn:ElC.
    destruct (load_chunk_sim _ _ _ _ _ _ _ S1 ElF ElC) as [->|[<- S2]].
    - left. replace (err_eqb e EInvalidChunkCrc) with false by (symmetry; apply err_eqb_neq; exact He4).
      rewrite andb_false_r. eexists. reflexivity.
    - right. destruct oeF as [x|]; [destruct (lo_emit_invalid lo && _)|];
        cbn [step_rel]; repeat (split; [reflexivity|]); exact S2. }
  destruct (Byte.eqb _ OpAttachment).
  { destruct (9223372036854775807 <? rlen); [right; split; [reflexivity|split; [reflexivity|exact S1]]|].
    rewrite !do_attachment_none by exact Hcb.
    destruct (rd_skip rlen (cur (set_cur r1 sF))) as [oe r2] eqn:EsF. cbn [fst snd].
    destruct (rd_skip_rrel _ _ _ _ _ (srel_cur _ _ S1) EsF) as [[-> _]|[r2C [EsC [EeC2 HC2]]]].
    { left. eexists. reflexivity. }
    rewrite EsC. cbn [fst snd].
    assert (S2 : srel (set_cur r2 (set_cur r1 sF)) (set_cur r2C (set_cur r1C sC))).
    { apply srel_set_cur; [exact S1|exact EeC2|]. destruct HC2 as [[A B]|HC2]; [left; auto|right; exact HC2]. }
    right. destruct oe; cbn [step_rel]; repeat (split; [reflexivity|]); exact S2. }
  destruct ((pcap <? rlen) && negb (rlen <? max_int32)).
  { right. split; [reflexivity|split; [reflexivity|exact S1]]. }
  set (s1F := if pcap <? rlen then _ else set_cur r1 sF).
  set (s1C := if pcap <? rlen then _ else set_cur r1C sC).
  assert (S2 : srel s1F s1C).
  { subst s1F s1C. destruct (pcap <? rlen); [apply srel_allocs|]; exact S1. }
  clearbody s1F s1C.
  destruct (rd_full rlen (cur s1F)) as [[body x] r3] eqn:EF3.
  destruct (rd_full_rrel _ _ _ _ _ _ (srel_cur _ _ S2) EF3) as [[-> _]|[r3C [EC3 [EeC3 HC3]]]].
  { left. destruct e; try congruence; eexists; reflexivity. }
  rewrite EC3.
  assert (S3 : srel (set_cur r3 s1F) (set_cur r3C s1C)).
  { apply srel_set_cur; [exact S2|exact EeC3|]. destruct HC3 as [[A B]|HC3]; [left; auto|right; exact HC3]. }
  right. destruct x as [x|]; [destruct x; cbn [step_rel]; repeat (split; [reflexivity|]); exact S3|].
  destruct (known_op _); [cbn [step_rel]; repeat (split; [reflexivity|]); exact S3|].
  destruct (Byte.eqb _ x00); cbn [step_rel]; repeat (split; [reflexivity|]); exact S3.
Qed.


Lemma lex_step_evs pcap s evs :
  match lex_step lo dstream pcap s evs with SDone evs' _ _ | SCont _ evs' => evs' = evs end.
Proof.
  unfold lex_step. destruct (rd_full 9 (cur s)) as [[hd x] r1].
  destruct x as [x|].
  { destruct (_ && (_ || _)); [reflexivity|]. destruct (_ || _); [destruct (_ && _)|]; reflexivity. }
  destruct (_ && (_ <? _)); [reflexivity|].
  destruct (_ && negb (lo_emit_chunks lo)).
  { destruct (load_chunk _ _ _ _) as [[x|] s2]; [destruct (lo_emit_invalid lo && _)|]; reflexivity. }
  destruct (Byte.eqb _ OpAttachment).
  { destruct (9223372036854775807 <? _); [reflexivity|].
    rewrite do_attachment_none by exact Hcb. destruct (fst (rd_skip _ _)); reflexivity. }
  destruct (_ && negb _); [reflexivity|].
  destruct (rd_full _ _) as [[body x] r3].
  destruct x as [x|]; [destruct x; reflexivity|].
  destruct (known_op _); [reflexivity|]. destruct (Byte.eqb _ x00); reflexivity.
Qed.

Lemma lex_next_evs : forall fuel pcap s evs evs' res s',
  lex_next lo dstream fuel pcap s evs = Ok (evs', res, s') -> evs' = evs.
Proof.
  induction fuel as [|f IH]; intros pcap s evs evs' res s'; [discriminate|].
  rewrite lex_next_S. pose proof (lex_step_evs pcap s evs) as Hs.
  destruct (lex_step _ _ _ _ _) as [a b c|s1 evs1].
  - intros H; inversion H; subst. reflexivity.
  - subst evs1. apply IH.
Qed.

Lemma lex_next_sim : forall fF fC pcap sF sC evs evsF resF sF' evsC resC sC',
  srel sF sC ->
  lex_next lo dstream fF pcap sF evs = Ok (evsF, resF, sF') ->
  lex_next lo dstream fC pcap sC evs = Ok (evsC, resC, sC') ->
  resF = NErr e \/ (resF = resC /\ srel sF' sC').
Proof.
  induction fF as [|fF IH]; intros fC pcap sF sC evs evsF resF sF' evsC resC sC' S; [discriminate|].
  destruct fC as [|fC]; [discriminate|]. rewrite !lex_next_S.
  destruct (lex_step_sim pcap sF sC evs S) as [[s1 Hs]|Hs].
  { rewrite Hs. intros H _. inversion H. left. reflexivity. }
  destruct (lex_step lo dstream pcap sF evs) as [a b c|s1 e1], (lex_step lo dstream pcap sC evs) as [a' b' c'|s1' e1'];
    cbn [step_rel] in Hs; try contradiction.
  - destruct Hs as [-> [-> S1]]. intros H1 H2; inversion H1; inversion H2; subst. right. auto.
  - destruct Hs as [-> S1]. apply IH. exact S1.
Qed.


Lemma lex_loop_sim : forall n n' fF fC sF sC acc evsF finF sF' evsC finC sC',
  srel sF sC ->
  lex_loop lo dstream n fF sF acc = Ok (evsF, finF, sF') ->
  lex_loop lo dstream n' fC sC acc = Ok (evsC, finC, sC') ->
  (exists t, evsC = evsF ++ t) /\ (finF = e \/ (finF = finC /\ evsF = evsC)).
Proof.
  induction n as [|n IH]; intros n' fF fC sF sC acc evsF finF sF' evsC finC sC' S; [discriminate|].
  destruct n' as [|n']; [discriminate|]. cbn [lex_loop].
  destruct (lex_next lo dstream fF 0 sF []) as [[[evs1 r] s1]| | | |] eqn:EF; try discriminate.
  destruct (lex_next lo dstream fC 0 sC []) as [[[evs1' r'] s1']| | | |] eqn:EC; try discriminate.
  pose proof (lex_next_evs _ _ _ _ _ _ _ EF). pose proof (lex_next_evs _ _ _ _ _ _ _ EC). subst evs1 evs1'.
  destruct (lex_next_sim _ _ _ _ _ _ _ _ _ _ _ _ S EF EC) as [->|[<- S1]].
  - intros H1 H2. inversion H1; subst; clear H1. split; [|left; reflexivity].
    destruct r'.
    + apply lex_loop_ext in H2. destruct H2 as [t ->]. exists ([ev] ++ t).
      rewrite !app_nil_r. cbn [app]. rewrite <- app_assoc. reflexivity.
    + inversion H2; subst. exists []. rewrite !app_nil_r. reflexivity.
  - destruct r.
    + apply IH. exact S1.
    + intros H1 H2; inversion H1; inversion H2; subst. split; [exists []; rewrite !app_nil_r; reflexivity|].
      right. auto.
Qed.


Theorem lex_all_error_prefix fuel fuel' p rest sk evsF finF sF evsC finC sC :
  lex_all lo dstream fuel {| r_buf := p; r_end := Some e; r_seek := sk |} = Ok (evsF, finF, sF) ->
  lex_all lo dstream fuel' {| r_buf := p ++ rest; r_end := None; r_seek := sk |} = Ok (evsC, finC, sC) ->
  (exists t, evsC = evsF ++ t) /\ (finF = e \/ (finF = finC /\ evsF = evsC)).
Proof.
  unfold lex_all.
  destruct (new_lexer lo {| r_buf := p; r_end := Some e; r_seek := sk |}) as [s0| | | |] eqn:EF; try discriminate.
  destruct (new_lexer_sim p rest sk s0 EF) as [s0C [EC S]]. rewrite EC.
  apply lex_loop_sim. exact S.
Qed.

End Prefix.

(* ====================================================================================== *)
(* Part 4: the statements the property files quote                                         *)
(* ====================================================================================== *)

Theorem parse_total_no_crash (buf : bytes) :
  no_crash (parse_header buf) = true /\ no_crash (parse_footer buf) = true /\
  no_crash (parse_schema buf) = true /\ no_crash (parse_channel buf) = true /\
  no_crash (parse_message buf) = true /\ no_crash (parse_chunk buf) = true /\
  no_crash (parse_msgindex buf) = true /\ no_crash (parse_chunkindex buf) = true /\
  no_crash (parse_attindex buf) = true /\ no_crash (parse_statistics buf) = true /\
  no_crash (parse_metadata buf) = true /\ no_crash (parse_mdindex buf) = true /\
  no_crash (parse_sumoffset buf) = true /\ no_crash (parse_dataend buf) = true.
Proof.
  pose proof (parse_total_all buf) as H. rewrite !okerr_no_crash in H. exact H.
Qed.

Theorem lex_next_no_panic lo dstream fuel pcap s evs site :
  lex_next lo dstream fuel pcap s evs <> Panic site /\ lex_next lo dstream fuel pcap s evs <> Exit site.
Proof.
  pose proof (lex_next_no_pe lo dstream fuel pcap s evs) as H.
  split; intros E; rewrite E in H; exact H.
Qed.

Theorem new_lexer_no_crash lo src : no_crash (new_lexer lo src) = true.
Proof. apply okerr_no_crash, new_lexer_okerr. Qed.

Theorem lex_all_no_panic lo dstream fuel src site :
  lex_all lo dstream fuel src <> Panic site /\ lex_all lo dstream fuel src <> Exit site.
Proof.
  pose proof (lex_all_no_pe lo dstream fuel src) as H.
  split; intros E; rewrite E in H; exact H.
Qed.

(* explicit fuel bounds *)
Theorem lex_next_total_explicit lo dstream (B : nat) :
  (forall c a e, (length (fst (dstream c a e)) <= length a + B)%nat) ->
  forall fuel pcap s evs,
    (length (r_buf (lx_base s)) * (B + 2) +
     match lx_chunk s with None => 0 | Some r => S (length (r_buf r)) end < fuel)%nat ->
    exists evs' res s', lex_next lo dstream fuel pcap s evs = Ok (evs', res, s').
Proof.
  intros HB fuel pcap s evs Hf.
  destruct (lex_next_total lo dstream B HB fuel pcap s evs Hf) as [a [b [c [H _]]]]. eauto.
Qed.

(* the decoder never delivers more than B bytes *)
Theorem lex_next_total_abs lo dstream (B : nat) :
  (forall c a e, (length (fst (dstream c a e)) <= B)%nat) ->
  forall fuel pcap s evs,
    ((length (r_buf (lx_base s)) + 1) * (B + 2) +
     match lx_chunk s with None => 0 | Some r => length (r_buf r) end + 2 <= fuel)%nat ->
    exists evs' res s', lex_next lo dstream fuel pcap s evs = Ok (evs', res, s').
Proof.
  intros HB fuel pcap s evs Hf. apply (lex_next_total_explicit lo dstream B).
  - intros c a e0. specialize (HB c a e0). lia.
  - destruct (lx_chunk s); nia.
Qed.

(* the decoder never delivers more than it was given (identity-like oracles) *)
Theorem lex_next_total_nonexpanding lo dstream :
  (forall c a e, (length (fst (dstream c a e)) <= length a)%nat) ->
  forall fuel pcap s evs,
    (2 * length (r_buf (lx_base s)) +
     match lx_chunk s with None => 0 | Some r => length (r_buf r) end + 2 <= fuel)%nat ->
    exists evs' res s', lex_next lo dstream fuel pcap s evs = Ok (evs', res, s').
Proof.
  intros HB fuel pcap s evs Hf. apply (lex_next_total_explicit lo dstream 0).
  - intros c a e0. specialize (HB c a e0). lia.
  - destruct (lx_chunk s); lia.
Qed.

Theorem lex_all_total_nonexpanding lo dstream :
  (forall c a e, (length (fst (dstream c a e)) <= length a)%nat) ->
  forall fuel src, (2 * length (r_buf src) < fuel)%nat -> no_crash (lex_all lo dstream fuel src) = true.
Proof.
  intros HB fuel src Hf. apply okerr_no_crash. apply (lex_all_total lo dstream 0).
  - intros c a e0. rewrite Nat.add_0_r. apply HB.
  - lia.
Qed.

Theorem lex_all_total_abs lo dstream (B : nat) :
  (forall c a e, (length (fst (dstream c a e)) <= B)%nat) ->
  forall fuel src, (length (r_buf src) * (B + 2) < fuel)%nat -> no_crash (lex_all lo dstream fuel src) = true.
Proof.
  intros HB fuel src Hf. apply okerr_no_crash. apply (lex_all_total lo dstream B).
  - intros c a e0. eapply Nat.le_trans; [apply HB|]. apply Nat.le_add_l.
  - exact Hf.
Qed.

(* allocation ceiling as an invariant of the log *)
Theorem lex_next_alloc_invariant lo dstream fuel pcap s evs evs' res s' :
  Forall (fun n => n < max_int32) (lx_allocs s) ->
  lex_next lo dstream fuel pcap s evs = Ok (evs', res, s') ->
  Forall (fun n => n < max_int32) (lx_allocs s').
Proof.
  intros Hinv H. apply lex_next_allocs in H. eapply allocs_ext_forall; [|exact Hinv].
  eapply allocs_ext_weaken; [|exact H]. intros n [A _]. exact A.
Qed.

Theorem load_chunk_alloc_invariant lo dstream rl s oe s' :
  Forall (fun n => n < max_int32) (lx_allocs s) ->
  load_chunk lo dstream rl s = (oe, s') ->
  Forall (fun n => n < max_int32) (lx_allocs s').
Proof.
  intros Hinv H. apply load_chunk_allocs in H. eapply allocs_ext_forall; [|exact Hinv].
  eapply allocs_ext_weaken; [|exact H]. intros n [A _]. exact A.
Qed.

(* ====================================================================================== *)
(* Part 5: concrete inputs for the non-vacuity examples                                    *)
(* ====================================================================================== *)
Definition ex_lo (validate : bool) (cb : cbmode) (maxrec maxchunk : N) : lopts :=
  {| lo_skip_magic := false; lo_validate := validate; lo_compute_acrc := false;
     lo_emit_chunks := false; lo_emit_invalid := false; lo_max_record := maxrec;
     lo_max_chunk := maxchunk; lo_cb := cb; lo_custom := [] |}.
(* identity decoder: delivers its input and ends the way its input ends *)
Definition id_oracle : doracle := fun _ a en => (a, en).

Lemma id_oracle_nonexpanding c a e : (length (fst (id_oracle c a e)) <= length a)%nat.
Proof. cbn. lia. Qed.
Lemma id_oracle_propagates (e : err) c a : snd (id_oracle c a (Some e)) = Some e.
Proof. reflexivity. Qed.
Lemma id_oracle_monotone (e : err) c (a t : list byte) :
  exists u, fst (id_oracle c (a ++ t) None) = fst (id_oracle c a (Some e)) ++ u.
Proof. exists t. reflexivity. Qed.

Definition ex_chunk_body (usize crc : N) (comp : bytes) (rl : N) (records : bytes) : bytes :=
  u64 0 ++ u64 0 ++ u64 usize ++ u32 crc ++ pstr comp ++ u64 rl ++ records.
Definition ex_hdr : bytes := frame OpHeader (pstr [] ++ pstr []).
Definition ex_msg (d : bytes) : bytes :=
  frame OpMessage (enc_message {| m_chan := 1; m_seq := 2; m_log := 3; m_pub := 4; m_data := d |}).
Definition ex_strip (x : outcome (list event * err * lstate)) : outcome (list event * err) :=
  match x with
  | Ok (a, b, _) => Ok (a, b) | Err e => Err e | Panic p => Panic p | Exit p => Exit p
  | OutOfFuel => OutOfFuel
  end.
Definition ex_allocs (x : outcome (list event * err * lstate)) : list N :=
  match x with Ok (_, _, s) => lx_allocs s | _ => [] end.
Definition ex_rdr (b : bytes) (en : option err) (sk : bool) : rdr :=
  {| r_buf := b; r_end := en; r_seek := sk |}.

(* hostile: a chunk record header claiming 2^63 bytes whose chunk claims 2^62 uncompressed bytes
   and a records length of 2^63 *)
Definition ex_hostile_chunk : bytes :=
  magic ++ frame_head OpChunk 9223372036854775808 ++
  ex_chunk_body 4611686018427387904 0 [] 9223372036854775808 [x01; x02; x03].
(* hostile: a message record claiming 2^63 bytes *)
Definition ex_hostile_msg : bytes := magic ++ ex_hdr ++ frame_head OpMessage 9223372036854775808 ++ [x01].
(* a well-formed little file: header, chunk with two messages, message outside *)
Definition ex_records : bytes := ex_msg [x61] ++ ex_msg [x62; x63].
Definition ex_file : bytes :=
  magic ++ ex_hdr ++ frame OpChunk (ex_chunk_body (blen ex_records) 0 [] (blen ex_records) ex_records)
  ++ ex_msg [x64] ++ frame OpFooter (enc_footer {| f_summary_start := 0; f_summary_offset_start := 0; f_crc := 0 |})
  ++ magic.
(* malformed: validated chunk declaring 5 uncompressed bytes with an empty records field *)
Definition ex_empty_chunk : bytes :=
  magic ++ ex_hdr ++ frame OpChunk (ex_chunk_body 5 0 [] 0 []) ++ ex_hdr.
(* malformed: attachment record inside a chunk, longer than the chunk *)
Definition ex_att_in_chunk : bytes :=
  magic ++ ex_hdr ++ frame OpChunk (ex_chunk_body 0 0 [] 9 (frame_head OpAttachment 100)) ++ ex_hdr.
(* malformed: attachment record of length 8 (too short for its fixed fields) *)
Definition ex_short_att : bytes := magic ++ ex_hdr ++ frame OpAttachment (u64 7) ++ ex_hdr.

(* ====================================================================================== *)
(* Part 6: C15 statements in closed form                                                   *)
(* ====================================================================================== *)
Theorem error_not_eof_stmt : forall lo dstream e,
  e <> EEOF -> e <> EUnexpectedEOF -> e <> ETruncated -> lo_cb lo = CbNone ->
  forall fuel p sk evs fin s',
    lex_all lo dstream fuel {| r_buf := p; r_end := Some e; r_seek := sk |} = Ok (evs, fin, s') ->
    fin = EEOF -> exists r, lx_chunk s' = Some r /\ end_err r = EEOF.
Proof. intros lo dstream e H1 H2 H3 Hcb. exact (lex_all_fail_eof lo dstream e H1 H2 H3 Hcb). Qed.

Theorem error_not_eof_emit_chunks_stmt : forall lo dstream e,
  e <> EEOF -> e <> EUnexpectedEOF -> e <> ETruncated -> lo_cb lo = CbNone ->
  lo_emit_chunks lo = true ->
  forall fuel p sk evs fin s',
    lex_all lo dstream fuel {| r_buf := p; r_end := Some e; r_seek := sk |} = Ok (evs, fin, s') ->
    fin <> EEOF.
Proof.
  intros lo dstream e H1 H2 H3 Hcb Hem fuel p sk evs fin s'.
  exact (lex_all_fail_not_eof_emit_chunks lo dstream e H1 H2 H3 Hcb fuel p sk evs fin s' Hem).
Qed.

Theorem error_prefix_stmt : forall lo dstream e,
  e <> EEOF -> e <> EUnexpectedEOF -> e <> ETruncated -> e <> EInvalidChunkCrc ->
  lo_cb lo = CbNone ->
  (forall c a, snd (dstream c a (Some e)) = Some e) ->
  (forall c a t, exists u, fst (dstream c (a ++ t) None) = fst (dstream c a (Some e)) ++ u) ->
  forall fuel fuel' p rest sk evsF finF sF evsC finC sC,
    lex_all lo dstream fuel {| r_buf := p; r_end := Some e; r_seek := sk |} = Ok (evsF, finF, sF) ->
    lex_all lo dstream fuel' {| r_buf := p ++ rest; r_end := None; r_seek := sk |} = Ok (evsC, finC, sC) ->
    (exists t, evsC = evsF ++ t) /\ (finF = e \/ (finF = finC /\ evsF = evsC)).
Proof.
  intros lo dstream e H1 H2 H3 H4 Hcb Hp Hm.
  exact (lex_all_error_prefix lo dstream e H1 H2 H3 H4 Hp Hm Hcb).
Qed.

(* a clean EOF reported on a failing source is not caused by the failure: the complete input gives
   the same events and the same clean EOF (the failure position was never reached) *)
Theorem eof_not_caused_by_failure_stmt : forall lo dstream e,
  e <> EEOF -> e <> EUnexpectedEOF -> e <> ETruncated -> e <> EInvalidChunkCrc ->
  lo_cb lo = CbNone ->
  (forall c a, snd (dstream c a (Some e)) = Some e) ->
  (forall c a t, exists u, fst (dstream c (a ++ t) None) = fst (dstream c a (Some e)) ++ u) ->
  forall fuel fuel' p rest sk evsF sF evsC finC sC,
    lex_all lo dstream fuel {| r_buf := p; r_end := Some e; r_seek := sk |} = Ok (evsF, EEOF, sF) ->
    lex_all lo dstream fuel' {| r_buf := p ++ rest; r_end := None; r_seek := sk |} = Ok (evsC, finC, sC) ->
    finC = EEOF /\ evsC = evsF.
Proof.
  intros lo dstream e H1 H2 H3 H4 Hcb Hp Hm fuel fuel' p rest sk evsF sF evsC finC sC HF HC.
  destruct (error_prefix_stmt lo dstream e H1 H2 H3 H4 Hcb Hp Hm _ _ _ _ _ _ _ _ _ _ _ HF HC) as [_ [E|[E1 E2]]].
  - congruence.
  - split; congruence.
Qed.

(* the general statement (attachment callbacks allowed): the last attachment event of the failing
   run may carry fewer data bytes *)
Theorem error_prefix_full_stmt : forall lo dstream e,
  e <> EEOF -> e <> EUnexpectedEOF -> e <> ETruncated -> e <> EInvalidChunkCrc ->
  (forall c a, snd (dstream c a (Some e)) = Some e) ->
  (forall c a t, exists u, fst (dstream c (a ++ t) None) = fst (dstream c a (Some e)) ++ u) ->
  forall fuel fuel' p rest sk evsF finF sF evsC finC sC,
    lex_all lo dstream fuel {| r_buf := p; r_end := Some e; r_seek := sk |} = Ok (evsF, finF, sF) ->
    lex_all lo dstream fuel' {| r_buf := p ++ rest; r_end := None; r_seek := sk |} = Ok (evsC, finC, sC) ->
    events_prefix_upto_attachment evsF evsC /\ (finF = e \/ (finF = finC /\ evsF = evsC)).
Proof.
  intros lo dstream e H1 H2 H3 H4 Hp Hm.
  exact (lex_all_error_prefix_gen lo dstream e H1 H2 H3 H4 Hp Hm).
Qed.

(* a file with an attachment record (4 data bytes), for the callback examples *)
Definition ex_att_body : bytes :=
  enc_attachment_fields {| a_log := 1; a_create := 2; a_name := [x6e]; a_media := [x6d]; a_size := 4; a_data := [] |}
  ++ [x01; x02; x03; x04] ++ u32 0.
Definition ex_att_file : bytes := magic ++ ex_hdr ++ frame OpAttachment ex_att_body ++ ex_msg [x64].
Definition ex_events (x : outcome (list event * err * lstate)) : list event :=
  match x with Ok (a, _, _) => a | _ => [] end.

(* any callback mode: a clean EOF on a failing source is not caused by the failure *)
Theorem eof_not_caused_by_failure_gen_stmt : forall lo dstream e,
  e <> EEOF -> e <> EUnexpectedEOF -> e <> ETruncated -> e <> EInvalidChunkCrc ->
  (forall c a, snd (dstream c a (Some e)) = Some e) ->
  (forall c a t, exists u, fst (dstream c (a ++ t) None) = fst (dstream c a (Some e)) ++ u) ->
  forall fuel fuel' p rest sk evsF sF evsC finC sC,
    lex_all lo dstream fuel {| r_buf := p; r_end := Some e; r_seek := sk |} = Ok (evsF, EEOF, sF) ->
    lex_all lo dstream fuel' {| r_buf := p ++ rest; r_end := None; r_seek := sk |} = Ok (evsC, finC, sC) ->
    finC = EEOF /\ evsC = evsF.
Proof.
  intros lo dstream e H1 H2 H3 H4 Hp Hm fuel fuel' p rest sk evsF sF evsC finC sC HF HC.
  destruct (error_prefix_full_stmt lo dstream e H1 H2 H3 H4 Hp Hm _ _ _ _ _ _ _ _ _ _ _ HF HC) as [_ [E|[E1 E2]]].
  - congruence.
  - split; congruence.
Qed.
