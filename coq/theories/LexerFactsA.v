(* LexerFactsA.v - totality / no-crash / allocation-ceiling facts about the parsers (Records.v)
   and the lexer model (Lexer.v), and behaviour of the lexer on failing sources (C10, C15). *)
From Coq Require Import List NArith ZArith Bool Lia ZifyN ZifyNat ZifyBool.
From Coq.Strings Require Import Byte.
From RecordUpdate Require Import RecordSet.
From Mcap Require Import Bytes BytesFacts GoSem Crc32 Records Lexer.
Import ListNotations RecordSetNotations.
Open Scope N_scope.
Open Scope go_scope.

(* ====================================================================================== *)
(* Part 1: the body parsers are total: Ok or Err, never Panic / Exit / OutOfFuel           *)
(* ====================================================================================== *)

Definition okerr {A} (x : outcome A) : Prop :=
  match x with Ok _ | Err _ => True | _ => False end.

Lemma okerr_no_crash {A} (x : outcome A) : okerr x <-> no_crash x = true.
Proof. destruct x; cbn; intuition discriminate. Qed.

Lemma okerr_bind {A B} (x : outcome A) (f : A -> outcome B) :
  okerr x -> (forall a, x = Ok a -> okerr (f a)) -> okerr (bind x f).
Proof. destruct x; cbn; auto. Qed.

Lemma get_u_ok n buf off v o :
  get_u n buf off = Ok (v, o) -> o = (off + n)%nat /\ (o <= length buf)%nat.
Proof.
  unfold get_u. destruct (Nat.ltb (length buf) (off + n)) eqn:E; [discriminate|].
  intros H; inversion H; subst. apply Nat.ltb_ge in E. split; [reflexivity|exact E].
Qed.

Lemma get_u_okerr n buf off : okerr (get_u n buf off).
Proof. unfold get_u. destruct (Nat.ltb _ _); exact I. Qed.

Lemma bind_get_u {B} n buf off (f : N * nat -> outcome B) :
  (forall v o, o = (off + n)%nat -> (o <= length buf)%nat -> okerr (f (v, o))) ->
  okerr (bind (get_u n buf off) f).
Proof.
  intros H. apply okerr_bind; [apply get_u_okerr|].
  intros [v o] E. apply get_u_ok in E. destruct E. apply H; assumption.
Qed.

Lemma get_pstr_ok buf off v o :
  get_pstr buf off = Ok (v, o) -> (off + 4 <= o)%nat /\ (o <= length buf)%nat.
Proof.
  unfold get_pstr.
  destruct (Nat.ltb (length buf) off) eqn:E1; [discriminate|].
  destruct (Nat.ltb (length buf - off) 4) eqn:E2; [discriminate|].
  destruct (N.of_nat (length buf - (off + 4)) <? unle (sub buf off 4)) eqn:E3; [discriminate|].
  intros H; inversion H; subst; clear H.
  apply Nat.ltb_ge in E1, E2. apply N.ltb_ge in E3. lia.
Qed.

Lemma get_pstr_okerr buf off : (off <= length buf)%nat -> okerr (get_pstr buf off).
Proof.
  intros H. unfold get_pstr.
  destruct (Nat.ltb (length buf) off) eqn:E1; [apply Nat.ltb_lt in E1; lia|].
  destruct (Nat.ltb _ 4); [exact I|].
  destruct (_ <? _); exact I.
Qed.

Lemma bind_get_pstr {B} buf off (f : bytes * nat -> outcome B) :
  (off <= length buf)%nat ->
  (forall v o, (off + 4 <= o)%nat -> (o <= length buf)%nat -> okerr (f (v, o))) ->
  okerr (bind (get_pstr buf off) f).
Proof.
  intros Hoff H. apply okerr_bind; [apply get_pstr_okerr; exact Hoff|].
  intros [v o] E. apply get_pstr_ok in E. destruct E. apply H; assumption.
Qed.

(* getPrefixedMap: every iteration that continues advances the inset by at least 8 *)
Lemma get_map_loop_total buf off maplen : (off <= length buf)%nat ->
  forall fuel inset acc,
    (inset <= length buf - off)%nat -> (length buf - off - inset < fuel)%nat ->
    okerr (get_map_loop fuel buf off inset maplen acc) /\
    (forall m o, get_map_loop fuel buf off inset maplen acc = Ok (m, o) -> (o <= length buf)%nat).
Proof.
  intros Hoff. induction fuel as [|f IH]; intros inset acc Hin Hfuel; [lia|].
  cbn [get_map_loop].
  destruct (_ <? _).
  2:{ split; [exact I|]. intros m o H; inversion H; subst. lia. }
  assert (Hlen : length (skipn off buf) = (length buf - off)%nat) by apply skipn_length.
  destruct (get_pstr (skipn off buf) inset) as [[k i1]| | | |] eqn:E1; cbn [bind].
  - apply get_pstr_ok in E1. destruct E1 as [A1 B1].
    destruct (get_pstr (skipn off buf) i1) as [[v i2]| | | |] eqn:E2; cbn [bind].
    + apply get_pstr_ok in E2. destruct E2 as [A2 B2].
      apply IH; lia.
    + split; [exact I|discriminate].
    + exfalso. pose proof (get_pstr_okerr (skipn off buf) i1) as H. rewrite E2 in H. apply H. lia.
    + exfalso. pose proof (get_pstr_okerr (skipn off buf) i1) as H. rewrite E2 in H. apply H. lia.
    + exfalso. pose proof (get_pstr_okerr (skipn off buf) i1) as H. rewrite E2 in H. apply H. lia.
  - split; [exact I|discriminate].
  - exfalso. pose proof (get_pstr_okerr (skipn off buf) inset) as H. rewrite E1 in H. apply H. lia.
  - exfalso. pose proof (get_pstr_okerr (skipn off buf) inset) as H. rewrite E1 in H. apply H. lia.
  - exfalso. pose proof (get_pstr_okerr (skipn off buf) inset) as H. rewrite E1 in H. apply H. lia.
Qed.

Lemma get_map_okerr buf off : okerr (get_map buf off).
Proof.
  unfold get_map. apply bind_get_u. intros v o Ho Hle.
  cbn beta iota. apply get_map_loop_total; lia.
Qed.

Lemma get_map_ok buf off m o : get_map buf off = Ok (m, o) -> (o <= length buf)%nat.
Proof.
  unfold get_map. destruct (get_u32 buf off) as [[v o1]| | | |] eqn:E; cbn [bind]; try discriminate.
  apply get_u_ok in E. destruct E as [E1 E2].
  intros H. eapply get_map_loop_total in H; eauto; lia.
Qed.

Lemma bind_get_map {B} buf off (f : kvs * nat -> outcome B) :
  (forall v o, (o <= length buf)%nat -> okerr (f (v, o))) ->
  okerr (bind (get_map buf off) f).
Proof.
  intros H. apply okerr_bind; [apply get_map_okerr|].
  intros [v o] E. apply get_map_ok in E. apply H; assumption.
Qed.

Lemma parse_mi_loop_total buf start bl : forall fuel off acc,
  (off <= length buf)%nat -> (length buf - off < fuel)%nat ->
  okerr (parse_mi_loop fuel buf start off bl acc).
Proof.
  induction fuel as [|f IH]; intros off acc Hoff Hfuel; [lia|].
  cbn [parse_mi_loop]. destruct (_ <? _); [|exact I].
  apply bind_get_u. intros t o1 -> H1. cbn beta iota.
  apply bind_get_u. intros v o2 -> H2. cbn beta iota.
  apply IH; lia.
Qed.

Lemma parse_cio_loop_total rest total : forall fuel inset acc,
  (inset <= length rest)%nat -> (length rest - inset < fuel)%nat ->
  okerr (parse_cio_loop fuel rest inset total acc) /\
  (forall m o, parse_cio_loop fuel rest inset total acc = Ok (m, o) -> (o <= length rest)%nat).
Proof.
  induction fuel as [|f IH]; intros inset acc Hin Hfuel; [lia|].
  cbn [parse_cio_loop]. destruct (_ <? _).
  2:{ split; [exact I|]. intros m o H; inversion H; subst; lia. }
  destruct (get_u16 rest inset) as [[ch i1]| | | |] eqn:E1; cbn [bind];
    try (pose proof (get_u_okerr 2 rest inset) as HH; unfold get_u16 in E1; rewrite E1 in HH; contradiction).
  2:{ split; [exact I|discriminate]. }
  apply get_u_ok in E1. destruct E1 as [-> B1].
  destruct (get_u64 rest (inset + 2)) as [[v i2]| | | |] eqn:E2; cbn [bind];
    try (pose proof (get_u_okerr 8 rest (inset + 2)) as HH; unfold get_u64 in E2; rewrite E2 in HH; contradiction).
  2:{ split; [exact I|discriminate]. }
  apply get_u_ok in E2. destruct E2 as [-> B2].
  apply IH; lia.
Qed.

Lemma parse_counts_loop_total buf stop : forall fuel off acc,
  (off <= length buf)%nat -> (length buf - off < fuel)%nat ->
  okerr (parse_counts_loop fuel buf off stop acc).
Proof.
  induction fuel as [|f IH]; intros off acc Hoff Hfuel; [lia|].
  cbn [parse_counts_loop]. destruct (Nat.ltb _ _); [|exact I].
  apply bind_get_u. intros t o1 -> H1. cbn beta iota.
  apply bind_get_u. intros v o2 -> H2. cbn beta iota.
  apply IH; lia.
Qed.

Ltac pstep :=
  match goal with
  | |- okerr (bind (get_pstr _ _) _) => apply bind_get_pstr; [lia|intros ? ? ? ?; cbn beta iota]
  | |- okerr (bind (get_map _ _) _) => apply bind_get_map; intros ? ? ?; cbn beta iota
  | |- okerr (bind (get_u16 _ _) _) => apply bind_get_u; intros ? ? ? ?; cbn beta iota
  | |- okerr (bind (get_u32 _ _) _) => apply bind_get_u; intros ? ? ? ?; cbn beta iota
  | |- okerr (bind (get_u64 _ _) _) => apply bind_get_u; intros ? ? ? ?; cbn beta iota
  | |- okerr (Ok _) => exact I
  | |- okerr (Err _) => exact I
  end.

Lemma parse_header_total buf : okerr (parse_header buf).
Proof. unfold parse_header. repeat pstep. Qed.
Lemma parse_footer_total buf : okerr (parse_footer buf).
Proof. unfold parse_footer. repeat pstep. Qed.
Lemma parse_schema_total buf : okerr (parse_schema buf).
Proof. unfold parse_schema. repeat pstep. Qed.
Lemma parse_channel_total buf : okerr (parse_channel buf).
Proof. unfold parse_channel. repeat pstep. Qed.
Lemma parse_message_total buf : okerr (parse_message buf).
Proof. unfold parse_message. repeat pstep. Qed.
Lemma parse_chunk_total buf : okerr (parse_chunk buf).
Proof. unfold parse_chunk. repeat pstep. destruct (_ <? _); exact I. Qed.
Lemma parse_msgindex_total buf : okerr (parse_msgindex buf).
Proof.
  unfold parse_msgindex. repeat pstep.
  apply okerr_bind; [apply parse_mi_loop_total; lia|]. intros; exact I.
Qed.
Lemma parse_chunkindex_total buf : okerr (parse_chunkindex buf).
Proof.
  unfold parse_chunkindex. repeat pstep.
  assert (Hlen : length (skipn o3 buf) = (length buf - o3)%nat) by apply skipn_length.
  destruct (parse_cio_loop_total (skipn o3 buf) v3 (S (length buf)) 0%nat []) as [A B]; [lia|lia|].
  apply okerr_bind; [exact A|]. intros [offs inset] E. apply B in E. cbn beta iota zeta.
  repeat pstep.
Qed.
Lemma parse_attindex_total buf : okerr (parse_attindex buf).
Proof. unfold parse_attindex. repeat pstep. Qed.
Lemma parse_statistics_total buf : okerr (parse_statistics buf).
Proof.
  unfold parse_statistics. destruct (Nat.ltb _ _); [exact I|]. repeat pstep.
  destruct (_ <? _); [exact I|].
  apply okerr_bind; [apply parse_counts_loop_total; lia|]. intros; exact I.
Qed.
Lemma parse_metadata_total buf : okerr (parse_metadata buf).
Proof. unfold parse_metadata. repeat pstep. Qed.
Lemma parse_mdindex_total buf : okerr (parse_mdindex buf).
Proof. unfold parse_mdindex. repeat pstep. Qed.
Lemma parse_sumoffset_total buf : okerr (parse_sumoffset buf).
Proof. unfold parse_sumoffset. destruct (Nat.ltb _ _); [exact I|]. repeat pstep. Qed.
Lemma parse_dataend_total buf : okerr (parse_dataend buf).
Proof. unfold parse_dataend. repeat pstep. Qed.

Theorem parse_total_all (buf : bytes) :
  okerr (parse_header buf) /\ okerr (parse_footer buf) /\ okerr (parse_schema buf) /\
  okerr (parse_channel buf) /\ okerr (parse_message buf) /\ okerr (parse_chunk buf) /\
  okerr (parse_msgindex buf) /\ okerr (parse_chunkindex buf) /\ okerr (parse_attindex buf) /\
  okerr (parse_statistics buf) /\ okerr (parse_metadata buf) /\ okerr (parse_mdindex buf) /\
  okerr (parse_sumoffset buf) /\ okerr (parse_dataend buf).
Proof.
  repeat split;
  [ apply parse_header_total | apply parse_footer_total | apply parse_schema_total
  | apply parse_channel_total | apply parse_message_total | apply parse_chunk_total
  | apply parse_msgindex_total | apply parse_chunkindex_total | apply parse_attindex_total
  | apply parse_statistics_total | apply parse_metadata_total | apply parse_mdindex_total
  | apply parse_sumoffset_total | apply parse_dataend_total ].
Qed.
