(* Ros1MsgFacts.v - proofs about the model of ParseMessageDefinition (Ros1Msg.v):
   part 1: totality (the fuel always suffices, no crash outcome is ever produced),
           helper fuels (trim_left, field_match) are sufficient, cycles are errors;
   part 2: correctness on canonically rendered type graphs. *)
From Coq Require Import List NArith ZArith Bool Lia ZifyN ZifyNat ZifyBool.
From Coq.Strings Require Import Byte.
From Mcap Require Import Bytes BytesFacts GoSem Ros1Msg.
Import ListNotations.
Open Scope nat_scope.
Open Scope go_scope.

Definition fine {A} (x : outcome A) : Prop :=
  match x with Ok _ | Err _ => True | _ => False end.

(* ------------------------------------------------------------------------------------------ *)
(* generic list / byte helpers                                                                 *)

Lemma mem_b_In x l : mem_b x l = true <-> In x l.
Proof.
  induction l as [|y l IH]; simpl; [split; [discriminate|tauto]|].
  rewrite orb_true_iff, IH, bytes_eqb_eq. split; intros [H|H]; auto.
Qed.

Lemma mem_b_false x l : mem_b x l = false <-> ~ In x l.
Proof. rewrite <- mem_b_In. destruct (mem_b x l); split; congruence. Qed.

Lemma bytes_eqb_false a b : bytes_eqb a b = false <-> a <> b.
Proof. rewrite <- bytes_eqb_eq. destruct (bytes_eqb a b); split; congruence. Qed.

(* ------------------------------------------------------------------------------------------ *)
(* resolve, with the nested loop lifted out                                                   *)

Section Go.
  Variable rec : bytes -> list bytes -> bytes -> outcome (list field).
  Variables (pkg : bytes) (deps : list (bytes * bytes)) (visiting : list bytes).

  (* verbatim copy of the loop inside [resolve], the recursive call abstracted to [rec] *)
  Fixpoint go_orig (lines : list bytes) (acc : list field) : outcome (list field) :=
    match lines with
    | [] => Ok acc
    | raw :: rest =>
      match classify_line raw with
      | LSkip => go_orig rest acc
      | LBad => Err EOther
      | LField ftype fname =>
        let '(is_arr, base, fixed) := parse_array_type ftype in
        let ft := if is_arr then base else ftype in
        let* (is_rec, rfields) :=
          (if mem_b ft primitives then Ok (false, [])
           else
             let qualified := contains_byte 47 ft in
             let fpkg := if qualified then hd [] (split_byte 47 ft) else pkg in
             let* (key, sub) :=
               (match dep_get ft deps with
                | Some d => Ok (ft, d)
                | None =>
                  if bytes_eqb ft s_header then
                    match dep_get s_std_header deps with Some d => Ok (s_std_header, d) | None => Err EOther end
                  else if negb qualified then
                    let q := fpkg ++ x2f :: ft in
                    match dep_get q deps with Some d => Ok (q, d) | None => Err EOther end
                  else Ok (ft, [])
                end) in
             if mem_b key visiting then Err EOther else
             let* fs := rec fpkg (key :: visiting) sub in
             Ok (true, fs)) in
        let f := if is_arr
                 then Fld fname (Ty ftype true fixed false (Some (Ty ft false 0%Z is_rec None rfields)) [])
                 else Fld fname (Ty ftype false fixed is_rec None rfields) in
        go_orig rest (acc ++ [f])
      end
    end.

  (* the same, cut into pieces *)
  Definition ctx_pkg (ft : bytes) : bytes :=
    if contains_byte 47 ft then hd [] (split_byte 47 ft) else pkg.

  (* the three lookup rules (+ the "qualified but missing" fall-through): parent package of the
     nested type, key in the dependency table, text of the nested definition *)
  Definition lookup_dep (ft : bytes) : outcome (bytes * bytes * bytes) :=
    match dep_get ft deps with
    | Some d => Ok (ctx_pkg ft, ft, d)
    | None =>
      if bytes_eqb ft s_header then
        match dep_get s_std_header deps with
        | Some d => Ok (ctx_pkg ft, s_std_header, d) | None => Err EOther end
      else if negb (contains_byte 47 ft) then
        match dep_get (pkg ++ x2f :: ft) deps with
        | Some d => Ok (pkg, pkg ++ x2f :: ft, d) | None => Err EOther end
      else Ok (ctx_pkg ft, ft, [])
    end.

  Definition resolve_type (ft : bytes) : outcome (bool * list field) :=
    if mem_b ft primitives then Ok (false, [])
    else
      let* (fpkg, key, sub) := lookup_dep ft in
      if mem_b key visiting then Err EOther else
      let* fs := rec fpkg (key :: visiting) sub in
      Ok (true, fs).

  Definition elem_type (ftype : bytes) (pa : bool * bytes * Z) : bytes :=
    if fst (fst pa) then snd (fst pa) else ftype.

  Definition mk_field (ftype fname : bytes) (pa : bool * bytes * Z) (r : bool * list field) : field :=
    if fst (fst pa)
    then Fld fname (Ty ftype true (snd pa) false (Some (Ty (snd (fst pa)) false 0%Z (fst r) None (snd r))) [])
    else Fld fname (Ty ftype false (snd pa) (fst r) None (snd r)).

  Fixpoint go_spec (lines : list bytes) (acc : list field) : outcome (list field) :=
    match lines with
    | [] => Ok acc
    | raw :: rest =>
      match classify_line raw with
      | LSkip => go_spec rest acc
      | LBad => Err EOther
      | LField ftype fname =>
        let pa := parse_array_type ftype in
        let* r := resolve_type (elem_type ftype pa) in
        go_spec rest (acc ++ [mk_field ftype fname pa r])
      end
    end.

  Lemma go_orig_eq lines : forall acc, go_orig lines acc = go_spec lines acc.
  Proof.
    induction lines as [|raw rest IH]; intros acc; [reflexivity|].
    cbn [go_orig go_spec]. destruct (classify_line raw) as [| ftype fname |]; auto.
    destruct (parse_array_type ftype) as [[is_arr base] fixed].
    unfold resolve_type, elem_type, mk_field, lookup_dep, ctx_pkg. cbn [fst snd].
    set (ft := if is_arr then base else ftype).
    destruct (mem_b ft primitives); cbn [bind]; [destruct is_arr; apply IH|].
    destruct (dep_get ft deps) as [d|]; cbn [bind].
    - destruct (mem_b ft visiting); cbn [bind]; auto.
      destruct (rec _ _ d); cbn [bind]; auto. destruct is_arr; apply IH.
    - destruct (bytes_eqb ft s_header).
      + destruct (dep_get s_std_header deps) as [d|]; cbn [bind]; auto.
        destruct (mem_b s_std_header visiting); cbn [bind]; auto.
        destruct (rec _ _ d); cbn [bind]; auto. destruct is_arr; apply IH.
      + destruct (contains_byte 47 ft); cbn [negb bind].
        * destruct (mem_b ft visiting); cbn [bind]; auto.
          destruct (rec _ _ []); cbn [bind]; auto. destruct is_arr; apply IH.
        * destruct (dep_get (pkg ++ x2f :: ft) deps) as [d|]; cbn [bind]; auto.
          destruct (mem_b (pkg ++ x2f :: ft) visiting); cbn [bind]; auto.
          destruct (rec _ _ d); cbn [bind]; auto. destruct is_arr; apply IH.
  Qed.

  Lemma dep_get_In k d : dep_get k deps = Some d -> In k (map fst deps).
  Proof.
    revert d. induction deps as [|[k' v] r IH]; intros d; simpl; [discriminate|].
    destruct (dep_get k r) as [x|].
    - intros _. right. apply (IH x). reflexivity.
    - destruct (bytes_eqb k k') eqn:E; [|discriminate]. apply bytes_eqb_eq in E. subst. auto.
  Qed.

  Lemma lookup_dep_key ft fpkg key sub :
    lookup_dep ft = Ok (fpkg, key, sub) -> In key (map fst deps) \/ sub = [].
  Proof.
    unfold lookup_dep. destruct (dep_get ft deps) as [d|] eqn:E.
    - intros H. injection H as <- <- <-. left. eapply dep_get_In; eauto.
    - destruct (bytes_eqb ft s_header).
      + destruct (dep_get s_std_header deps) as [d|] eqn:E2; [|discriminate].
        intros H. injection H as <- <- <-. left. eapply dep_get_In; eauto.
      + destruct (negb (contains_byte 47 ft)).
        * destruct (dep_get (pkg ++ x2f :: ft) deps) as [d|] eqn:E2; [|discriminate].
          intros H. injection H as <- <- <-. left. eapply dep_get_In; eauto.
        * intros H. injection H as <- <- <-. right. reflexivity.
  Qed.

  Lemma lookup_dep_fine ft : fine (lookup_dep ft).
  Proof.
    unfold lookup_dep. destruct (dep_get ft deps); simpl; auto.
    destruct (bytes_eqb ft s_header); [destruct (dep_get s_std_header deps); simpl; auto|].
    destruct (negb (contains_byte 47 ft)); simpl; auto.
    destruct (dep_get (pkg ++ x2f :: ft) deps); simpl; auto.
  Qed.

  Lemma go_spec_fine lines :
    (forall ft fpkg key sub, lookup_dep ft = Ok (fpkg, key, sub) -> ~ In key visiting ->
                             fine (rec fpkg (key :: visiting) sub)) ->
    forall acc, fine (go_spec lines acc).
  Proof.
    intros Hrec. induction lines as [|raw rest IH]; intros acc; simpl; auto.
    destruct (classify_line raw) as [| ftype fname |]; simpl; auto.
    unfold resolve_type. destruct (mem_b _ primitives); cbn [bind]; auto.
    pose proof (lookup_dep_fine (elem_type ftype (parse_array_type ftype))) as Hl.
    destruct (lookup_dep _) as [[[fpkg key] sub]| | | |] eqn:El; simpl in Hl; try contradiction; cbn [bind]; auto.
    destruct (mem_b key visiting) eqn:Ev; cbn [bind]; [simpl; auto|].
    apply mem_b_false in Ev. specialize (Hrec _ _ _ _ El Ev).
    destruct (rec fpkg (key :: visiting) sub); simpl in Hrec; try contradiction; cbn [bind]; simpl; auto.
  Qed.
End Go.

Lemma resolve_S fu pkg deps vis def :
  resolve (S fu) pkg deps vis def
  = go_spec (fun fpkg v sub => resolve fu fpkg deps v sub) pkg deps vis (split_byte 10 def) [].
Proof. rewrite <- go_orig_eq. reflexivity. Qed.

Lemma trim_space_nil : trim_space [] = [].
Proof. reflexivity. Qed.

Lemma resolve_empty fu pkg deps vis : resolve (S fu) pkg deps vis [] = Ok [].
Proof. reflexivity. Qed.

(* the generalised fuel lemma: along a recursion path the visiting list is duplicate free and
   consists of keys of the table, so its length is bounded by the size of the table *)
Lemma resolve_fine deps : forall fuel pkg visiting def,
  NoDup visiting -> incl visiting (map fst deps) ->
  length deps + 2 <= fuel + length visiting ->
  fine (resolve fuel pkg deps visiting def).
Proof.
  induction fuel as [|fu IH]; intros pkg vis def Hnd Hincl Hlen.
  - exfalso. pose proof (NoDup_incl_length Hnd Hincl) as H. rewrite map_length in H. lia.
  - rewrite resolve_S. apply go_spec_fine. intros ft fpkg key sub Hl Hnin.
    pose proof (NoDup_incl_length Hnd Hincl) as Hb. rewrite map_length in Hb.
    destruct (lookup_dep_key _ _ _ _ _ _ Hl) as [Hk | ->].
    + apply IH; [constructor; auto | intros x [<-|Hx]; auto | simpl; lia].
    + destruct fu as [|fu']; [lia|]. rewrite resolve_empty. exact I.
Qed.

Theorem parse_msgdef_fine pkg data : fine (parse_msgdef pkg data).
Proof.
  unfold parse_msgdef. apply resolve_fine; [constructor | intros x [] | simpl; lia].
Qed.

(* ------------------------------------------------------------------------------------------ *)
(* helper fuels: TrimSpace                                                                     *)

Lemma starts_with_split p : forall s, starts_with p s = true -> s = p ++ skipn (length p) s.
Proof.
  induction p as [|a p IH]; intros [|b s]; simpl; try discriminate; auto.
  rewrite andb_true_iff, byte_eqb_eq. intros [-> H]. f_equal. auto.
Qed.

Lemma starts_with_app p s : starts_with p (p ++ s) = true.
Proof. induction p as [|a p IH]; simpl; auto. rewrite IH, andb_true_r. apply byte_eqb_eq. reflexivity. Qed.

Lemma starts_with_mono p : forall s t, starts_with p s = true -> starts_with p (s ++ t) = true.
Proof.
  induction p as [|a p IH]; intros [|b s] t; simpl; try discriminate; auto.
  rewrite !andb_true_iff. intros [H1 H2]. auto.
Qed.

Lemma rev_concat {A} (l : list (list A)) : rev (concat l) = concat (map (@rev A) (rev l)).
Proof.
  induction l as [|x l IH]; simpl; auto.
  rewrite rev_app_distr, IH, map_app, concat_app. simpl. rewrite app_nil_r. reflexivity.
Qed.

Section Trim.
  Variable sp : list bytes.
  Hypothesis sp_nonempty : forall p, In p sp -> p <> [].

  Fixpoint trim_gen (fuel : nat) (s : bytes) : bytes :=
    match fuel with
    | O => s
    | S f => match strip_one sp s with Some s' => trim_gen f s' | None => s end
    end.

  Lemma strip_one_Some s s' : strip_one sp s = Some s' -> exists p, In p sp /\ s = p ++ s'.
  Proof.
    clear sp_nonempty. induction sp as [|p r IH]; simpl; [discriminate|].
    destruct (starts_with p s) eqn:E.
    - intros H. injection H as <-. exists p. split; auto. apply starts_with_split. exact E.
    - intros H. destruct (IH H) as (q & Hq & Hs). exists q. auto.
  Qed.

  Lemma strip_one_None s : strip_one sp s = None <-> forall p, In p sp -> starts_with p s = false.
  Proof.
    clear sp_nonempty. induction sp as [|p r IH]; simpl; [split; [intros _ p []|auto]|].
    destruct (starts_with p s) eqn:E.
    - split; [discriminate|]. intros H. rewrite (H p) in E; auto; discriminate.
    - rewrite IH. split; [intros H q [<-|Hq]; auto | intros H q Hq; auto].
  Qed.

  Lemma strip_one_shorter s s' : strip_one sp s = Some s' -> length s' < length s.
  Proof.
    intros H. destruct (strip_one_Some _ _ H) as (p & Hp & ->).
    rewrite app_length. specialize (sp_nonempty p Hp). destruct p; [congruence|simpl; lia].
  Qed.

  (* the fuel [length s] suffices: nothing strippable is left *)
  Lemma trim_gen_done fuel : forall s, length s <= fuel -> strip_one sp (trim_gen fuel s) = None.
  Proof.
    induction fuel as [|f IH]; intros s Hl; simpl.
    - destruct s; [|simpl in Hl; lia]. destruct (strip_one sp []) eqn:E; auto.
      apply strip_one_shorter in E. simpl in E. lia.
    - destruct (strip_one sp s) as [s'|] eqn:E; auto.
      apply IH. apply strip_one_shorter in E. lia.
  Qed.

  Lemma trim_gen_fuel : forall f1 f2 s, length s <= f1 -> length s <= f2 -> trim_gen f1 s = trim_gen f2 s.
  Proof.
    induction f1 as [|f1 IH]; intros f2 s H1 H2.
    - destruct s; [|simpl in H1; lia]. destruct f2; simpl; auto.
      destruct (strip_one sp []) eqn:E; auto. apply strip_one_shorter in E. simpl in E. lia.
    - destruct f2 as [|f2].
      + destruct s; [|simpl in H2; lia]. simpl.
        destruct (strip_one sp []) eqn:E; auto. apply strip_one_shorter in E. simpl in E. lia.
      + simpl. destruct (strip_one sp s) as [s'|] eqn:E; auto.
        apply strip_one_shorter in E. apply IH; lia.
  Qed.

  (* what is removed is a sequence of members of [sp] *)
  Lemma trim_gen_prefix fuel : forall s,
    exists ps, Forall (fun p => In p sp) ps /\ s = concat ps ++ trim_gen fuel s.
  Proof.
    induction fuel as [|f IH]; intros s; simpl; [exists []; auto|].
    destruct (strip_one sp s) as [s'|] eqn:E; [|exists []; auto].
    destruct (strip_one_Some _ _ E) as (p & Hp & ->). destruct (IH s') as (ps & Hps & Hs).
    exists (p :: ps). split; [constructor; auto|]. simpl. rewrite <- app_assoc, <- Hs. reflexivity.
  Qed.
End Trim.

Lemma trim_left_gen fuel s : trim_left fuel s = trim_gen spaces fuel s.
Proof. reflexivity. Qed.

Lemma trim_space_gen s :
  trim_space s =
  rev (trim_gen (map (@rev byte) spaces) (length (rev (trim_left (length s) s))) (rev (trim_left (length s) s))).
Proof. reflexivity. Qed.

Lemma spaces_nonempty p : In p spaces -> p <> [].
Proof. intros H. repeat (destruct H as [<-|H]; [discriminate|]). destruct H. Qed.

Lemma rspaces_nonempty p : In p (map (@rev byte) spaces) -> p <> [].
Proof. intros H. repeat (destruct H as [<-|H]; [discriminate|]). destruct H. Qed.

(* trim_left with fuel [length s] leaves no leading white space, and more fuel changes nothing *)
Lemma trim_left_done s : strip_one spaces (trim_left (length s) s) = None.
Proof. apply (trim_gen_done spaces spaces_nonempty). lia. Qed.

Lemma trim_left_fuel s k : trim_left (length s + k) s = trim_left (length s) s.
Proof. apply (trim_gen_fuel spaces spaces_nonempty); lia. Qed.

(* strings.TrimSpace: s = (white space)* ++ trim_space s ++ (white space)*, and the result neither
   starts nor ends with a white-space sequence *)
Theorem trim_space_spec s :
  strip_one spaces (trim_space s) = None /\
  strip_one (map (@rev byte) spaces) (rev (trim_space s)) = None /\
  exists la lb, Forall (fun p => In p spaces) la /\ Forall (fun p => In p spaces) lb /\
                s = concat la ++ trim_space s ++ concat lb.
Proof.
  rewrite trim_space_gen. set (l := trim_left (length s) s). set (r := rev l).
  set (t := trim_gen (map (@rev byte) spaces) (length r) r).
  assert (Ht : strip_one (map (@rev byte) spaces) t = None)
    by (apply (trim_gen_done _ rspaces_nonempty); lia).
  destruct (trim_gen_prefix (map (@rev byte) spaces) (length r) r) as (ps & Hps & Hr). fold t in Hr.
  assert (Hl : l = rev t ++ rev (concat ps)).
  { rewrite <- rev_app_distr, <- Hr. unfold r. rewrite rev_involutive. reflexivity. }
  split; [|split].
  - apply strip_one_None. intros p Hp. destruct (starts_with p (rev t)) eqn:E; auto.
    pose proof (trim_left_done s) as Hd. fold l in Hd. rewrite Hl in Hd.
    rewrite strip_one_None in Hd. specialize (Hd p Hp).
    rewrite (starts_with_mono _ _ _ E) in Hd. discriminate.
  - rewrite rev_involutive. exact Ht.
  - destruct (trim_gen_prefix spaces (length s) s) as (la & Hla & Hs).
    rewrite <- trim_left_gen in Hs. fold l in Hs.
    exists la, (map (@rev byte) (rev ps)). split; auto. split.
    + apply Forall_forall. intros x Hx. apply in_map_iff in Hx. destruct Hx as (y & <- & Hy).
      apply in_rev in Hy. rewrite Forall_forall in Hps. specialize (Hps y Hy).
      apply in_map_iff in Hps. destruct Hps as (z & <- & Hz). rewrite rev_involutive. exact Hz.
    + rewrite Hl, rev_concat in Hs. exact Hs.
Qed.

(* a string that neither starts nor ends with white space is left alone *)
Lemma trim_space_id s :
  strip_one spaces s = None -> strip_one (map (@rev byte) spaces) (rev s) = None -> trim_space s = s.
Proof.
  intros H1 H2. rewrite trim_space_gen.
  assert (E : trim_left (length s) s = s) by (destruct s; simpl; auto; simpl in H1; rewrite H1; auto).
  rewrite E. destruct (rev s) eqn:Er; simpl.
  - rewrite <- (rev_involutive s), Er. reflexivity.
  - simpl in H2. rewrite H2. rewrite <- Er. apply rev_involutive.
Qed.

(* ------------------------------------------------------------------------------------------ *)
(* helper fuels: the regular expression                                                        *)

Lemma span_spec p : forall s a c, span p s = (a, c) ->
  s = a ++ c /\ forallb p a = true /\ match c with [] => True | b :: _ => p b = false end.
Proof.
  induction s as [|b s IH]; intros a c; simpl.
  - intros H. injection H as <- <-. auto.
  - destruct (p b) eqn:E.
    + destruct (span p s) as [a' c'] eqn:Es. intros H. injection H as <- <-.
      destruct (IH _ _ eq_refl) as (-> & Hf & Hc). simpl. rewrite E. auto.
    + intros H. injection H as <- <-. simpl. auto.
Qed.

Lemma span_app p a : forall r, forallb p a = true -> match r with [] => True | b :: _ => p b = false end ->
  span p (a ++ r) = (a, r).
Proof.
  induction a as [|x a IH]; intros r Ha Hr; simpl.
  - destruct r; auto. simpl. rewrite Hr. reflexivity.
  - simpl in Ha. apply andb_true_iff in Ha. destruct Ha as [Hx Ha]. rewrite Hx, IH; auto.
Qed.

Lemma field_match_S f s :
  field_match (S f) s =
  match snd (span is_sp_tab s) with
  | [] => None
  | s1 =>
    let tok := fst (span (fun b => negb (is_sp_tab b)) s1) in
    let s2 := snd (span (fun b => negb (is_sp_tab b)) s1) in
    let ws := fst (span is_sp_tab s2) in
    match snd (span is_sp_tab s2) with
    | c :: r =>
      if existsb (fun b => is_byte b 32) ws && is_alpha c
      then Some (tok, fst (span is_alnum_us (c :: r)))
      else field_match f s2
    | [] => None
    end
  end.
Proof.
  cbn [field_match]. destruct (span is_sp_tab s) as [w s1]. cbn [snd]. destruct s1 as [|c1 r1]; auto.
  destruct (span (fun b => negb (is_sp_tab b)) (c1 :: r1)) as [tok s2]. cbn [fst snd].
  destruct (span is_sp_tab s2) as [ws s3]. destruct s3; reflexivity.
Qed.

(* the fuel [S (length s)] suffices: more fuel gives the same answer *)
Lemma field_match_fuel : forall f1 f2 s, length s < f1 -> length s < f2 -> field_match f1 s = field_match f2 s.
Proof.
  induction f1 as [|f1 IH]; intros f2 s H1 H2; [lia|]. destruct f2 as [|f2]; [lia|].
  rewrite !field_match_S.
  destruct (span is_sp_tab s) as [w s1] eqn:E1. cbn [snd]. destruct s1 as [|c1 r1]; auto.
  destruct (span (fun b => negb (is_sp_tab b)) (c1 :: r1)) as [tok s2] eqn:E2. cbn [fst snd].
  destruct (snd (span is_sp_tab s2)) as [|c r]; auto.
  destruct (_ && _); auto.
  apply span_spec in E1. destruct E1 as (-> & _ & Hc1).
  assert (Hlen : length s2 < length (c1 :: r1)).
  { simpl in E2. rewrite Hc1 in E2. simpl in E2. destruct (span _ r1) as [a c'] eqn:E3.
    injection E2 as <- <-. apply span_spec in E3. destruct E3 as (-> & _). simpl. rewrite app_length. lia. }
  rewrite app_length in H1, H2. apply IH; lia.
Qed.

Lemma field_match_enough s k : field_match (S (length s) + k) s = field_match (S (length s)) s.
Proof. apply field_match_fuel; lia. Qed.

(* ------------------------------------------------------------------------------------------ *)
(* cycles are errors                                                                           *)

Lemma go_spec_Ok_inv rec pkg deps vis lines : forall acc r,
  go_spec rec pkg deps vis lines acc = Ok r ->
  forall raw ftype fname, In raw lines -> classify_line raw = LField ftype fname ->
  exists x, resolve_type rec pkg deps vis (elem_type ftype (parse_array_type ftype)) = Ok x.
Proof.
  induction lines as [|l rest IH]; intros acc r H raw ftype fname Hin Hc; [destruct Hin|].
  simpl in H. destruct Hin as [->|Hin].
  - rewrite Hc in H. destruct (resolve_type _ _ _ _ _) as [x| | | |]; try discriminate. eauto.
  - destruct (classify_line l) as [|ft fn|]; try discriminate; [eauto|].
    destruct (resolve_type rec pkg deps vis (elem_type ft (parse_array_type ft))) as [x| | | |];
      try discriminate. simpl in H. eauto.
Qed.

Lemma resolve_type_Ok_inv rec pkg deps vis ft x :
  resolve_type rec pkg deps vis ft = Ok x -> mem_b ft primitives = false ->
  exists fpkg key sub fs, lookup_dep pkg deps ft = Ok (fpkg, key, sub) /\ ~ In key vis /\
                          rec fpkg (key :: vis) sub = Ok fs /\ x = (true, fs).
Proof.
  unfold resolve_type. intros H Hp. rewrite Hp in H.
  destruct (lookup_dep pkg deps ft) as [[[fpkg key] sub]| | | |]; try discriminate. cbn [bind] in H.
  destruct (mem_b key vis) eqn:Ev; [discriminate|]. apply mem_b_false in Ev.
  destruct (rec fpkg (key :: vis) sub) as [fs| | | |] eqn:Er; try discriminate.
  injection H as <-. exists fpkg, key, sub, fs. auto.
Qed.

(* [refs deps pkg def fpkg key sub]: the definition text [def], read with parent package [pkg],
   has a field whose (element) type is a record that the lookup rules resolve to the table entry
   [key] with text [sub] and parent package [fpkg] *)
Definition refs (deps : list (bytes * bytes)) (pkg def fpkg key sub : bytes) : Prop :=
  exists raw ftype fname,
    In raw (split_byte 10 def) /\ classify_line raw = LField ftype fname /\
    mem_b (elem_type ftype (parse_array_type ftype)) primitives = false /\
    lookup_dep pkg deps (elem_type ftype (parse_array_type ftype)) = Ok (fpkg, key, sub).

Lemma resolve_Ok_step fuel pkg deps vis def r fpkg key sub :
  resolve fuel pkg deps vis def = Ok r -> refs deps pkg def fpkg key sub ->
  ~ In key vis /\ exists fuel' r', resolve fuel' fpkg deps (key :: vis) sub = Ok r'.
Proof.
  intros H (raw & ftype & fname & Hin & Hc & Hp & Hl).
  destruct fuel as [|fu]; [discriminate|]. rewrite resolve_S in H.
  destruct (go_spec_Ok_inv _ _ _ _ _ _ _ H _ _ _ Hin Hc) as (x & Hx).
  destruct (resolve_type_Ok_inv _ _ _ _ _ _ Hx Hp) as (fpkg' & key' & sub' & fs & Hl' & Hn & Hr & _).
  rewrite Hl in Hl'. injection Hl' as <- <- <-. split; auto. exists fu, fs. exact Hr.
Qed.

(* chains of references; the keys met are listed most recent first *)
Inductive ref_path (deps : list (bytes * bytes)) (pkg def : bytes) : list bytes -> bytes -> bytes -> Prop :=
| rp_nil : ref_path deps pkg def [] pkg def
| rp_cons ks pkg1 def1 pkg2 key def2 :
    ref_path deps pkg def ks pkg1 def1 -> refs deps pkg1 def1 pkg2 key def2 ->
    ref_path deps pkg def (key :: ks) pkg2 def2.

Lemma resolve_Ok_path deps pkg def ks pkg' def' :
  ref_path deps pkg def ks pkg' def' ->
  forall fuel vis r, NoDup vis -> resolve fuel pkg deps vis def = Ok r ->
  NoDup (ks ++ vis) /\ exists fuel' r', resolve fuel' pkg' deps (ks ++ vis) def' = Ok r'.
Proof.
  induction 1 as [|ks pkg1 def1 pkg2 key def2 Hp IH Hr]; intros fuel vis r Hnd Hok.
  - simpl. eauto.
  - destruct (IH _ _ _ Hnd Hok) as (Hnd' & fuel' & r' & Hok').
    destruct (resolve_Ok_step _ _ _ _ _ _ _ _ _ Hok' Hr) as (Hn & Hex).
    split; [simpl; constructor; auto | exact Hex].
Qed.

(* a chain of references that meets the same table entry twice makes the parse fail *)
Theorem resolve_cycle_not_ok deps pkg def ks pkg' def' :
  ref_path deps pkg def ks pkg' def' -> ~ NoDup ks ->
  forall fuel r, resolve fuel pkg deps [] def <> Ok r.
Proof.
  intros Hp Hdup fuel r Hok.
  destruct (resolve_Ok_path _ _ _ _ _ _ Hp _ _ _ (NoDup_nil _) Hok) as (Hnd & _).
  rewrite app_nil_r in Hnd. auto.
Qed.

Definition msgdef_secs (data : bytes) : list bytes := split_sections (split_byte 10 data) [] [].
Definition msgdef_top (data : bytes) : bytes := hd [] (msgdef_secs data).
Definition msgdef_deps (data : bytes) : list (bytes * bytes) :=
  map (fun sub => let ls := split_byte 10 sub in
                  (strip_prefix s_msg_prefix (trim_space (hd [] ls)), join_nl (tl ls)))
      (tl (msgdef_secs data)).

Lemma parse_msgdef_unfold pkg data :
  parse_msgdef pkg data = resolve (length (msgdef_deps data) + 3) pkg (msgdef_deps data) [] (msgdef_top data).
Proof. reflexivity. Qed.

Theorem parse_msgdef_cycle_err pkg data ks pkg' def' :
  ref_path (msgdef_deps data) pkg (msgdef_top data) ks pkg' def' -> ~ NoDup ks ->
  exists e, parse_msgdef pkg data = Err e.
Proof.
  intros Hp Hdup. pose proof (parse_msgdef_fine pkg data) as Hf.
  pose proof (resolve_cycle_not_ok _ _ _ _ _ _ Hp Hdup (length (msgdef_deps data) + 3)) as Hn.
  rewrite <- parse_msgdef_unfold in Hn.
  destruct (parse_msgdef pkg data) as [r|e| | |]; simpl in Hf; try contradiction; [|eauto].
  exfalso. apply (Hn r). reflexivity.
Qed.

(* ========================================================================================== *)
(* part 2: abstract type graphs, their canonical rendering, and the expected field tree        *)

Inductive aty :=
| APrim (name : bytes)                    (* one of the ROS primitives *)
| ARef (written : bytes) (target : bytes). (* a nested type as written, and the "MSG:" section it denotes *)

(* af_arr: None: scalar; Some None: T[]; Some (Some ds): T[ds] with ds the decimal digits *)
Record afield := { af_ty : aty; af_arr : option (option bytes); af_name : bytes }.
Record agraph := { top : list afield; sections : list (bytes * list afield) }.

Definition sep80 : bytes := repeat x3d 80.
Definition type_text (t : aty) : bytes := match t with APrim n => n | ARef w _ => w end.
Definition arr_suffix (a : option (option bytes)) : bytes :=
  match a with None => [] | Some None => [x5b; x5d] | Some (Some ds) => x5b :: ds ++ [x5d] end.
Definition arr_value (a : option bytes) : Z :=
  match a with None => 0%Z | Some ds => match atoi ds with Some z => z | None => 0%Z end end.

Definition render_line (f : afield) : bytes :=
  type_text (af_ty f) ++ arr_suffix (af_arr f) ++ x20 :: af_name f.
Definition sec_lines (s : bytes * list afield) : list bytes :=
  sep80 :: (s_msg_prefix ++ fst s) :: map render_line (snd s).
Definition graph_lines (g : agraph) : list bytes :=
  map render_line (top g) ++ concat (map sec_lines (sections g)).
Definition render_graph (g : agraph) : bytes := join_nl (graph_lines g).

(* --- well-formedness --- *)
Definition ascii_vis (b : byte) : bool := (33 <=? bN b)%N && (bN b <=? 126)%N.
(* bytes allowed in a type name: visible ASCII except '#', '=', '[' and ']' *)
Definition ty_byte (b : byte) : bool :=
  ascii_vis b && negb (is_byte b 35) && negb (is_byte b 61) && negb (is_byte b 91) && negb (is_byte b 93).
Definition is_nil {A} (l : list A) : bool := match l with [] => true | _ => false end.
Definition type_text_ok (t : bytes) : bool := negb (is_nil t) && forallb ty_byte t.
(* [a-zA-Z][a-zA-Z0-9_]* *)
Definition ident_ok (s : bytes) : bool :=
  match s with [] => false | c :: r => is_alpha c && forallb is_alnum_us r end.
Definition sec_name_ok (n : bytes) : bool := negb (is_nil n) && forallb ascii_vis n.
(* an explicit array length: a non-empty digit string that strconv.Atoi accepts (value < 2^63) *)
Definition digits_ok (ds : bytes) : bool :=
  negb (is_nil ds) && forallb is_digit ds && match atoi ds with Some _ => true | None => false end.
Definition arr_ok (a : option (option bytes)) : bool :=
  match a with Some (Some ds) => digits_ok ds | _ => true end.
Definition field_static_ok (f : afield) : bool :=
  ident_ok (af_name f) && arr_ok (af_arr f) && type_text_ok (type_text (af_ty f)).

Fixpoint nodup_b (l : list bytes) : bool :=
  match l with [] => true | x :: r => negb (mem_b x r) && nodup_b r end.

Fixpoint sec_get (k : bytes) (secs : list (bytes * list afield)) : option (list afield) :=
  match secs with
  | [] => None
  | (n, fs) :: r => if bytes_eqb k n then Some fs else sec_get k r
  end.

(* the three lookup rules, in the order the parser applies them, relative to the parent package *)
Definition ref_target (pkg : bytes) (names : list bytes) (w : bytes) : option bytes :=
  if mem_b w names then Some w                                         (* exact *)
  else if bytes_eqb w s_header then
    (if mem_b s_std_header names then Some s_std_header else None)     (* Header special case *)
  else if negb (contains_byte 47 w) then
    (if mem_b (pkg ++ x2f :: w) names then Some (pkg ++ x2f :: w) else None)  (* package relative *)
  else None.

Definition opt_bytes_eqb (a : option bytes) (b : bytes) : bool :=
  match a with Some x => bytes_eqb x b | None => false end.

(* traversal from the top-level fields: every field is statically fine, primitives are primitives,
   references obey the lookup rules w.r.t. the current parent package, and no section is entered
   again while it is being expanded (acyclicity).  fuel: one more than the number of sections *)
Fixpoint wf_fields (secs : list (bytes * list afield)) (fuel : nat) (pkg : bytes) (vis : list bytes)
         (fs : list afield) : bool :=
  match fuel with
  | O => false
  | S f =>
    forallb (fun fld =>
      field_static_ok fld &&
      match af_ty fld with
      | APrim n => mem_b n primitives
      | ARef w t =>
        negb (mem_b w primitives) && opt_bytes_eqb (ref_target pkg (map fst secs) w) t &&
        negb (mem_b t vis) &&
        match sec_get t secs with
        | Some sfs => wf_fields secs f (ctx_pkg pkg w) (t :: vis) sfs
        | None => false
        end
      end) fs
  end.

Definition wf_graph (pkg : bytes) (g : agraph) : bool :=
  forallb field_static_ok (top g) &&
  forallb (fun s => sec_name_ok (fst s) && forallb field_static_ok (snd s)) (sections g) &&
  nodup_b (map fst (sections g)) &&
  wf_fields (sections g) (S (length (sections g))) pkg [] (top g).

(* --- the expected tree --- *)
Definition tree_field (f : afield) (is_rec : bool) (sub : list field) : field :=
  let text := type_text (af_ty f) in
  match af_arr f with
  | None => Fld (af_name f) (Ty text false 0%Z is_rec None sub)
  | Some a => Fld (af_name f) (Ty (text ++ arr_suffix (Some a)) true (arr_value a) false
                                  (Some (Ty text false 0%Z is_rec None sub)) [])
  end.

Fixpoint tree_fields (secs : list (bytes * list afield)) (fuel : nat) (fs : list afield) : list field :=
  match fuel with
  | O => []
  | S f =>
    map (fun fld =>
      match af_ty fld with
      | APrim _ => tree_field fld false []
      | ARef _ t => tree_field fld true
                      (match sec_get t secs with Some sfs => tree_fields secs f sfs | None => [] end)
      end) fs
  end.

Definition tree_of (g : agraph) : list field := tree_fields (sections g) (S (length (sections g))) (top g).

(* ------------------------------------------------------------------------------------------ *)
(* byte classes                                                                                *)

Lemma vis_lead b r : ascii_vis b = true -> strip_one spaces (b :: r) = None.
Proof. intros H. destruct b; try (vm_compute in H; discriminate H); reflexivity. Qed.

Lemma vis_trail b r : ascii_vis b = true -> strip_one (map (@rev byte) spaces) (b :: r) = None.
Proof. intros H. destruct b; try (vm_compute in H; discriminate H); reflexivity. Qed.

Lemma vis_props b : ascii_vis b = true ->
  is_sp_tab b = false /\ is_byte b 10 = false /\ is_byte b 32 = false.
Proof. intros H. destruct b; try (vm_compute in H; discriminate H); repeat split; reflexivity. Qed.

Lemma alnum_props b : is_alnum_us b = true ->
  ascii_vis b = true /\ is_byte b 35 = false /\ is_byte b 61 = false /\ is_byte b 91 = false /\
  is_byte b 93 = false.
Proof. intros H. destruct b; try (vm_compute in H; discriminate H); repeat split; reflexivity. Qed.

Lemma alpha_alnum b : is_alpha b = true -> is_alnum_us b = true.
Proof. intros H. destruct b; try (vm_compute in H; discriminate H); reflexivity. Qed.

Lemma digit_props b : is_digit b = true ->
  ascii_vis b = true /\ is_byte b 35 = false /\ is_byte b 61 = false /\ is_byte b 91 = false /\
  is_byte b 93 = false.
Proof. intros H. destruct b; try (vm_compute in H; discriminate H); repeat split; reflexivity. Qed.

Lemma ty_byte_props b : ty_byte b = true ->
  ascii_vis b = true /\ is_byte b 35 = false /\ is_byte b 61 = false /\ is_byte b 91 = false /\
  is_byte b 93 = false.
Proof.
  unfold ty_byte. rewrite !andb_true_iff, !negb_true_iff. tauto.
Qed.

Lemma forallb_contains (p : byte -> bool) c s :
  (forall b, p b = true -> is_byte b c = false) -> forallb p s = true -> contains_byte c s = false.
Proof.
  intros Hp. induction s as [|b s IH]; simpl; auto.
  rewrite andb_true_iff. intros [H1 H2]. rewrite (Hp _ H1), IH; auto.
Qed.

Lemma forallb_imp {A} (p q : A -> bool) s :
  (forall b, p b = true -> q b = true) -> forallb p s = true -> forallb q s = true.
Proof.
  intros Hp. induction s as [|b s IH]; simpl; auto.
  rewrite !andb_true_iff. intros [H1 H2]. auto.
Qed.

Lemma contains_byte_app c a b : contains_byte c (a ++ b) = contains_byte c a || contains_byte c b.
Proof. induction a as [|x a IH]; simpl; auto. rewrite IH, orb_assoc. reflexivity. Qed.

(* ------------------------------------------------------------------------------------------ *)
(* strings.Split / Index on one byte                                                           *)

Lemma split_aux_nosep c a : forall cur, contains_byte c a = false -> split_byte_aux c a cur = [rev cur ++ a].
Proof.
  induction a as [|x a IH]; intros cur; simpl; [rewrite app_nil_r; auto|].
  rewrite orb_false_iff. intros [H1 H2]. rewrite H1, IH; auto. simpl. rewrite <- app_assoc. reflexivity.
Qed.

Lemma split_aux_sep c a b r : forall cur, contains_byte c a = false -> is_byte b c = true ->
  split_byte_aux c (a ++ b :: r) cur = (rev cur ++ a) :: split_byte_aux c r [].
Proof.
  induction a as [|x a IH]; intros cur; simpl.
  - intros _ H. rewrite H, app_nil_r. reflexivity.
  - rewrite orb_false_iff. intros [H1 H2] H. rewrite H1, IH; auto. simpl. rewrite <- app_assoc. reflexivity.
Qed.

Lemma split_nosep c a : contains_byte c a = false -> split_byte c a = [a].
Proof. intros H. unfold split_byte. rewrite split_aux_nosep; auto. Qed.

Lemma split_sep c a b r : contains_byte c a = false -> is_byte b c = true ->
  split_byte c (a ++ b :: r) = a :: split_byte c r.
Proof. intros H1 H2. unfold split_byte. rewrite split_aux_sep; auto. Qed.

Definition unlines (ls : list bytes) : bytes := concat (map (fun l => l ++ [x0a]) ls).

Lemma split_unlines ls : Forall (fun l => contains_byte 10 l = false) ls ->
  split_byte 10 (unlines ls) = ls ++ [[]].
Proof.
  induction 1 as [|l ls Hl _ IH]; [reflexivity|].
  unfold unlines. simpl. rewrite <- app_assoc. simpl. rewrite split_sep; auto. f_equal. exact IH.
Qed.

Lemma split_join_nl ls : ls <> [] -> Forall (fun l => contains_byte 10 l = false) ls ->
  split_byte 10 (join_nl ls) = ls.
Proof.
  intros Hne H. induction H as [|l ls Hl Hls IH]; [congruence|].
  destruct ls as [|l2 ls]; [simpl; apply split_nosep; auto|].
  change (join_nl (l :: l2 :: ls)) with (l ++ x0a :: join_nl (l2 :: ls)).
  rewrite split_sep; auto. f_equal. apply IH. discriminate.
Qed.

Lemma join_nl_cons l ls : ls <> [] -> join_nl (l :: ls) = l ++ x0a :: join_nl ls.
Proof. destruct ls; [congruence|reflexivity]. Qed.

Lemma join_nl_unlines ls : join_nl (ls ++ [[]]) = unlines ls.
Proof.
  induction ls as [|l ls IH]; [reflexivity|].
  change ((l :: ls) ++ [[]]) with (l :: (ls ++ [[]])).
  rewrite join_nl_cons by (destruct ls; discriminate).
  rewrite IH. unfold unlines. simpl. rewrite <- app_assoc. reflexivity.
Qed.

Lemma index_aux_none c s : forall i, contains_byte c s = false -> index_byte_aux c s i = None.
Proof.
  induction s as [|b s IH]; intros i; simpl; auto.
  rewrite orb_false_iff. intros [H1 H2]. rewrite H1. auto.
Qed.

Lemma index_aux_some c a b r : forall i, contains_byte c a = false -> is_byte b c = true ->
  index_byte_aux c (a ++ b :: r) i = Some (i + length a).
Proof.
  induction a as [|x a IH]; intros i; simpl.
  - intros _ H. rewrite H. f_equal. lia.
  - rewrite orb_false_iff. intros [H1 H2] H. rewrite H1, IH; auto. f_equal. lia.
Qed.

(* ------------------------------------------------------------------------------------------ *)
(* one canonical field line                                                                    *)

(* bytes of the first token of a field line: visible ASCII except '#' and '=' *)
Definition tok_byte (b : byte) : bool := ascii_vis b && negb (is_byte b 35) && negb (is_byte b 61).

Lemma tok_byte_props b : tok_byte b = true ->
  ascii_vis b = true /\ is_byte b 35 = false /\ is_byte b 61 = false.
Proof. unfold tok_byte. rewrite !andb_true_iff, !negb_true_iff. tauto. Qed.

Lemma ident_alnum name : ident_ok name = true -> forallb is_alnum_us name = true.
Proof.
  destruct name as [|c r]; simpl; [discriminate|]. rewrite !andb_true_iff. intros [H1 H2].
  split; auto. apply alpha_alnum. exact H1.
Qed.

Lemma forallb_In {A} (p : A -> bool) l x : forallb p l = true -> In x l -> p x = true.
Proof. rewrite forallb_forall. auto. Qed.

Lemma field_match_canon f T name :
  T <> [] -> forallb tok_byte T = true -> ident_ok name = true ->
  field_match (S f) (T ++ x20 :: name) = Some (T, name).
Proof.
  intros Hne HT Hn. pose proof (ident_alnum _ Hn) as Han.
  destruct name as [|c nr]; [discriminate|]. simpl in Hn. apply andb_true_iff in Hn. destruct Hn as [Hc Hnr].
  destruct T as [|t0 T']; [congruence|].
  assert (Ht0 : is_sp_tab t0 = false).
  { simpl in HT. apply andb_true_iff in HT. destruct HT as [H _]. apply tok_byte_props in H.
    apply vis_props. tauto. }
  assert (Hc' : is_sp_tab c = false).
  { apply vis_props. apply alnum_props. apply alpha_alnum. exact Hc. }
  rewrite field_match_S.
  assert (E1 : span is_sp_tab ((t0 :: T') ++ x20 :: c :: nr) = ([], (t0 :: T') ++ x20 :: c :: nr))
    by (simpl; rewrite Ht0; reflexivity).
  rewrite E1. cbn [snd]. cbn [app]. cbv zeta.
  change (t0 :: T' ++ x20 :: c :: nr) with ((t0 :: T') ++ x20 :: c :: nr).
  rewrite (span_app (fun b => negb (is_sp_tab b)) (t0 :: T') (x20 :: c :: nr)).
  - cbn [fst snd]. pose proof (span_app is_sp_tab [x20] (c :: nr) eq_refl Hc') as E3.
    cbn [app] in E3. rewrite E3. cbn [fst snd].
    rewrite Hc. cbn [existsb]. 
    replace (is_byte x20 32) with true by reflexivity. cbn [orb andb].
    rewrite <- (app_nil_r (c :: nr)) at 1. rewrite (span_app is_alnum_us (c :: nr) [] Han I). reflexivity.
  - eapply forallb_imp; [|exact HT]. intros b Hb. apply tok_byte_props in Hb.
    destruct (vis_props b) as (-> & _); tauto.
  - reflexivity.
Qed.

Lemma classify_canon T name :
  T <> [] -> forallb tok_byte T = true -> ident_ok name = true ->
  classify_line (T ++ x20 :: name) = LField T name.
Proof.
  intros Hne HT Hn. pose proof (ident_alnum _ Hn) as Han.
  assert (Htrim : trim_space (T ++ x20 :: name) = T ++ x20 :: name).
  { apply trim_space_id.
    - destruct T as [|t0 T']; [congruence|]. simpl. apply vis_lead.
      simpl in HT. apply andb_true_iff in HT. destruct HT as [H _]. apply tok_byte_props in H. tauto.
    - assert (Hnn : name <> []) by (destruct name; [discriminate|congruence]).
      destruct (exists_last Hnn) as (m & z & ->).
      replace (T ++ x20 :: m ++ [z]) with ((T ++ x20 :: m) ++ [z]) by (rewrite <- app_assoc; reflexivity).
      rewrite rev_app_distr. simpl. apply vis_trail. apply alnum_props.
      apply (forallb_In _ _ _ Han). apply in_or_app. right. left. reflexivity. }
  unfold classify_line. rewrite Htrim.
  assert (H35 : contains_byte 35 (T ++ x20 :: name) = false).
  { rewrite contains_byte_app. simpl.
    rewrite (forallb_contains tok_byte 35 T), (forallb_contains is_alnum_us 35 name); auto.
    - intros b Hb. apply alnum_props in Hb. tauto.
    - intros b Hb. apply tok_byte_props in Hb. tauto. }
  assert (H61 : contains_byte 61 (T ++ x20 :: name) = false).
  { rewrite contains_byte_app. simpl.
    rewrite (forallb_contains tok_byte 61 T), (forallb_contains is_alnum_us 61 name); auto.
    - intros b Hb. apply alnum_props in Hb. tauto.
    - intros b Hb. apply tok_byte_props in Hb. tauto. }
  rewrite (split_nosep _ _ H35). cbn [hd]. rewrite H61.
  rewrite field_match_canon; auto.
  destruct T as [|t0 T']; [congruence|]. cbn [app].
  simpl in HT. apply andb_true_iff in HT. destruct HT as [H _]. apply tok_byte_props in H.
  destruct H as (_ & -> & _). reflexivity.
Qed.

(* parseArrayType *)
Lemma pat_scalar t : contains_byte 91 t = false -> parse_array_type t = (false, [], 0%Z).
Proof. intros H. unfold parse_array_type, index_byte. rewrite (index_aux_none _ _ _ H). reflexivity. Qed.

Lemma pat_array t ds :
  contains_byte 91 t = false -> contains_byte 93 t = false -> contains_byte 93 ds = false ->
  parse_array_type (t ++ x5b :: ds ++ [x5d]) =
  match ds with
  | [] => (true, t, 0%Z)
  | _ => match atoi ds with Some n => (true, t, n) | None => (false, [], 0%Z) end
  end.
Proof.
  intros H1 H2 H3. unfold parse_array_type, index_byte.
  rewrite (index_aux_some 91 t x5b (ds ++ [x5d]) 0 H1 eq_refl).
  replace (t ++ x5b :: ds ++ [x5d]) with ((t ++ x5b :: ds) ++ x5d :: []) at 1
    by (rewrite <- app_assoc; reflexivity).
  rewrite (index_aux_some 93 (t ++ x5b :: ds) x5d [] 0).
  2:{ rewrite contains_byte_app. simpl. rewrite H2, H3. reflexivity. }
  2:{ reflexivity. }
  rewrite app_length. simpl.
  replace (length t + S (length ds) <? length t) with false by (symmetry; apply Nat.ltb_ge; lia).
  rewrite firstn_app_exact.
  replace (t ++ x5b :: ds ++ [x5d]) with ((t ++ [x5b]) ++ ds ++ [x5d]) by (rewrite <- app_assoc; reflexivity).
  rewrite (skipn_app_exact' (length t + 1)) by (rewrite app_length; reflexivity).
  replace (length t + S (length ds) - (length t + 1)) with (length ds) by lia.
  rewrite firstn_app_exact. reflexivity.
Qed.

(* ------------------------------------------------------------------------------------------ *)
(* rendered lines                                                                              *)

Definition line_tok (f : afield) : bytes := type_text (af_ty f) ++ arr_suffix (af_arr f).

Lemma render_line_eq f : render_line f = line_tok f ++ x20 :: af_name f.
Proof. unfold render_line, line_tok. rewrite <- app_assoc. reflexivity. Qed.

Lemma static_parts f : field_static_ok f = true ->
  ident_ok (af_name f) = true /\ arr_ok (af_arr f) = true /\
  type_text (af_ty f) <> [] /\ forallb ty_byte (type_text (af_ty f)) = true.
Proof.
  unfold field_static_ok, type_text_ok. rewrite !andb_true_iff. intros [[H1 H2] [H3 H4]].
  repeat split; auto. destruct (type_text (af_ty f)); [discriminate|congruence].
Qed.

Lemma digits_parts ds : digits_ok ds = true ->
  ds <> [] /\ forallb is_digit ds = true /\ exists n, atoi ds = Some n.
Proof.
  unfold digits_ok. rewrite !andb_true_iff. intros [[H1 H2] H3]. repeat split; auto.
  - destruct ds; [discriminate|congruence].
  - destruct (atoi ds); [eauto|discriminate].
Qed.

Lemma line_tok_ok f : field_static_ok f = true -> line_tok f <> [] /\ forallb tok_byte (line_tok f) = true.
Proof.
  intros H. destruct (static_parts _ H) as (_ & Ha & Hne & Ht). unfold line_tok. split.
  - destruct (type_text (af_ty f)); [congruence|discriminate].
  - rewrite forallb_app. apply andb_true_iff. split.
    + eapply forallb_imp; [|exact Ht]. intros b Hb. apply ty_byte_props in Hb. unfold tok_byte.
      destruct Hb as (-> & -> & -> & _). reflexivity.
    + destruct (af_arr f) as [[ds|]|]; try reflexivity. simpl in Ha.
      apply digits_parts in Ha. destruct Ha as (_ & Hd & _). simpl.
      rewrite forallb_app. simpl. rewrite andb_true_r.
      eapply forallb_imp; [|exact Hd]. intros b Hb. apply digit_props in Hb. unfold tok_byte.
      destruct Hb as (-> & -> & -> & _). reflexivity.
Qed.

Lemma trim_canon T name :
  T <> [] -> forallb tok_byte T = true -> ident_ok name = true ->
  trim_space (T ++ x20 :: name) = T ++ x20 :: name.
Proof.
  intros Hne HT Hn. pose proof (ident_alnum _ Hn) as Han.
  apply trim_space_id.
  - destruct T as [|t0 T']; [congruence|]. simpl. apply vis_lead.
    simpl in HT. apply andb_true_iff in HT. destruct HT as [H _]. apply tok_byte_props in H. tauto.
  - assert (Hnn : name <> []) by (destruct name; [discriminate|congruence]).
    destruct (exists_last Hnn) as (m & z & ->).
    replace (T ++ x20 :: m ++ [z]) with ((T ++ x20 :: m) ++ [z]) by (rewrite <- app_assoc; reflexivity).
    rewrite rev_app_distr. simpl. apply vis_trail. apply alnum_props.
    apply (forallb_In _ _ _ Han). apply in_or_app. right. left. reflexivity.
Qed.

Lemma not61_eqb b : is_byte b 61 = false -> Byte.eqb x3d b = false.
Proof. intros H. destruct b; try reflexivity. vm_compute in H. discriminate H. Qed.

Definition nonsep (l : bytes) : Prop := starts_with [x3d] (trim_space l) = false.
Definition no_nl (l : bytes) : Prop := contains_byte 10 l = false.

Lemma render_line_nonsep f : field_static_ok f = true -> nonsep (render_line f).
Proof.
  intros H. destruct (line_tok_ok _ H) as (Hne & Ht). destruct (static_parts _ H) as (Hn & _).
  unfold nonsep. rewrite render_line_eq, trim_canon; auto.
  destruct (line_tok f) as [|t0 T']; [congruence|]. simpl.
  simpl in Ht. apply andb_true_iff in Ht. destruct Ht as [Ht _]. apply tok_byte_props in Ht.
  rewrite not61_eqb; tauto.
Qed.

Lemma render_line_no_nl f : field_static_ok f = true -> no_nl (render_line f).
Proof.
  intros H. destruct (line_tok_ok _ H) as (Hne & Ht). destruct (static_parts _ H) as (Hn & _).
  unfold no_nl. rewrite render_line_eq, contains_byte_app. simpl.
  rewrite (forallb_contains tok_byte 10 (line_tok f)); auto.
  - rewrite (forallb_contains is_alnum_us 10 (af_name f)); auto.
    + intros b Hb. apply alnum_props in Hb. apply vis_props. tauto.
    + apply ident_alnum. exact Hn.
  - intros b Hb. apply tok_byte_props in Hb. apply vis_props. tauto.
Qed.

Definition hdr_line (n : bytes) : bytes := s_msg_prefix ++ n.

Lemma hdr_trim n : sec_name_ok n = true -> trim_space (hdr_line n) = hdr_line n.
Proof.
  unfold sec_name_ok. rewrite andb_true_iff. intros [Hne Hv].
  assert (Hnn : n <> []) by (destruct n; [discriminate|congruence]).
  apply trim_space_id; [reflexivity|].
  destruct (exists_last Hnn) as (m & z & ->). unfold hdr_line. rewrite app_assoc, rev_app_distr. simpl.
  apply vis_trail. apply (forallb_In _ _ _ Hv). apply in_or_app. right. left. reflexivity.
Qed.

Lemma hdr_nonsep n : sec_name_ok n = true -> nonsep (hdr_line n).
Proof. intros H. unfold nonsep. rewrite hdr_trim; auto. Qed.

Lemma hdr_no_nl n : sec_name_ok n = true -> no_nl (hdr_line n).
Proof.
  unfold sec_name_ok. rewrite andb_true_iff. intros [_ Hv]. unfold no_nl, hdr_line.
  rewrite contains_byte_app. replace (contains_byte 10 s_msg_prefix) with false by reflexivity.
  apply (forallb_contains ascii_vis); auto. intros b Hb. apply vis_props in Hb. tauto.
Qed.

Lemma hdr_key n : sec_name_ok n = true -> strip_prefix s_msg_prefix (trim_space (hdr_line n)) = n.
Proof.
  intros H. rewrite hdr_trim by exact H. reflexivity.
Qed.

Lemma sep80_sep : starts_with [x3d] (trim_space sep80) = true.
Proof. reflexivity. Qed.

Lemma sep80_no_nl : no_nl sep80.
Proof. reflexivity. Qed.

(* ------------------------------------------------------------------------------------------ *)
(* splitLines                                                                                  *)

Lemma split_sections_nonsep ls : forall rest cur acc, Forall nonsep ls ->
  split_sections (ls ++ rest) cur acc = split_sections rest (cur ++ unlines ls) acc.
Proof.
  induction ls as [|l ls IH]; intros rest cur acc H.
  - unfold unlines. simpl. rewrite app_nil_r. reflexivity.
  - inversion H as [|? ? Hl Hls]; subst. simpl. unfold nonsep in Hl. simpl in Hl. rewrite Hl.
    rewrite IH; auto. f_equal. unfold unlines. simpl. rewrite <- !app_assoc. reflexivity.
Qed.

Lemma split_sections_sep l r cur acc : starts_with [x3d] (trim_space l) = true ->
  split_sections (l :: r) cur acc = split_sections r [] (acc ++ [cur]).
Proof. intros H. simpl. simpl in H. rewrite H. reflexivity. Qed.

(* a document at the level of lines: the top-level lines and, per "MSG:" section, its name and
   its body lines *)
Definition lsec_lines (s : bytes * list bytes) : list bytes := sep80 :: hdr_line (fst s) :: snd s.
Definition lsec_text (s : bytes * list bytes) : bytes := unlines (hdr_line (fst s) :: snd s).
Definition doc_lines (tl : list bytes) (sl : list (bytes * list bytes)) : list bytes :=
  tl ++ concat (map lsec_lines sl).
Definition doc_deps (sl : list (bytes * list bytes)) : list (bytes * bytes) :=
  map (fun s => (fst s, unlines (snd s))) sl.
Definition lsec_ok (s : bytes * list bytes) : Prop :=
  sec_name_ok (fst s) = true /\ Forall nonsep (snd s) /\ Forall no_nl (snd s).

Lemma split_sections_secs sl : forall cur acc,
  Forall lsec_ok sl ->
  split_sections (concat (map lsec_lines sl)) cur acc =
  match sl with
  | [] => match cur with [] => acc | _ => acc ++ [cur] end
  | _ => acc ++ cur :: map lsec_text sl
  end.
Proof.
  induction sl as [|s sl IH]; intros cur acc H; [reflexivity|].
  inversion H as [|? ? Hs Hr]; subst. destruct Hs as (Hn & Hsep & _).
  cbn [map concat]. unfold lsec_lines at 1. cbn [app].
  rewrite split_sections_sep by apply sep80_sep.
  match goal with |- split_sections ?l _ _ = _ =>
    change l with ((hdr_line (fst s) :: snd s) ++ concat (map lsec_lines sl)) end.
  rewrite split_sections_nonsep by (constructor; [apply hdr_nonsep; auto|auto]).
  rewrite IH; auto. cbn [app]. fold (lsec_text s).
  destruct sl as [|s2 sl].
  - assert (Hne : lsec_text s <> []) by (unfold lsec_text, unlines, hdr_line; simpl; discriminate).
    destruct (lsec_text s); [congruence|]. rewrite <- app_assoc. reflexivity.
  - rewrite <- app_assoc. reflexivity.
Qed.

Lemma doc_lines_no_nl tl sl : Forall no_nl tl -> Forall lsec_ok sl -> Forall no_nl (doc_lines tl sl).
Proof.
  intros Ht Hs. unfold doc_lines. apply Forall_app. split; auto.
  apply Forall_concat. apply Forall_forall. intros ls Hls. apply in_map_iff in Hls.
  destruct Hls as (s & <- & Hin). rewrite Forall_forall in Hs. destruct (Hs _ Hin) as (Hn & _ & Hnl).
  unfold lsec_lines. constructor; [apply sep80_no_nl|]. constructor; [apply hdr_no_nl; auto|auto].
Qed.

Lemma lsec_text_dep s : lsec_ok s ->
  (let ls := split_byte 10 (lsec_text s) in
   (strip_prefix s_msg_prefix (trim_space (hd [] ls)), join_nl (tl ls))) = (fst s, unlines (snd s)).
Proof.
  intros (Hn & _ & Hnl). cbv zeta. unfold lsec_text.
  rewrite split_unlines by (constructor; [apply hdr_no_nl; auto|auto]).
  cbn [app hd tl]. rewrite hdr_key by exact Hn. rewrite join_nl_unlines. reflexivity.
Qed.

(* sectioning of a whole text: the top-level definition and the dependency table *)
Lemma msgdef_doc tp sl :
  Forall nonsep tp -> Forall no_nl tp -> Forall lsec_ok sl -> doc_lines tp sl <> [] ->
  msgdef_top (join_nl (doc_lines tp sl)) = unlines tp /\
  msgdef_deps (join_nl (doc_lines tp sl)) = doc_deps sl.
Proof.
  intros Hsep Hnl Hs Hne. unfold msgdef_top, msgdef_deps, msgdef_secs.
  rewrite split_join_nl; auto; [|apply doc_lines_no_nl; auto].
  unfold doc_lines. rewrite split_sections_nonsep by exact Hsep.
  rewrite split_sections_secs by exact Hs. cbn [app].
  destruct sl as [|s sl].
  - assert (Hd : unlines tp <> []).
    { unfold doc_lines in Hne. simpl in Hne. rewrite app_nil_r in Hne.
      destruct tp as [|a tp']; [congruence|]. unfold unlines. simpl. destruct a; discriminate. }
    destruct (unlines tp); [congruence|]. split; reflexivity.
  - cbn [hd tl]. split; auto. unfold doc_deps. rewrite map_map. apply map_ext_in.
    intros a Ha. apply lsec_text_dep. rewrite Forall_forall in Hs. auto.
Qed.

(* ------------------------------------------------------------------------------------------ *)
(* lines that render a list of fields: canonical field lines, with any number of ignored lines
   (blank, comment, constant) in between                                                       *)

Definition skip_ok (raw : bytes) : bool :=
  match classify_line raw with LSkip => true | _ => false end &&
  negb (contains_byte 10 raw) && negb (starts_with [x3d] (trim_space raw)).

Inductive renders : list bytes -> list afield -> Prop :=
| rd_nil : renders [] []
| rd_field f ls fs : field_static_ok f = true -> renders ls fs -> renders (render_line f :: ls) (f :: fs)
| rd_skip raw ls fs : skip_ok raw = true -> renders ls fs -> renders (raw :: ls) fs.

Lemma skip_ok_parts raw : skip_ok raw = true -> classify_line raw = LSkip /\ no_nl raw /\ nonsep raw.
Proof.
  unfold skip_ok, no_nl, nonsep. rewrite !andb_true_iff, !negb_true_iff. intros [[H1 H2] H3].
  repeat split; auto. destruct (classify_line raw); auto; discriminate.
Qed.

Lemma renders_lines ls fs : renders ls fs -> Forall nonsep ls /\ Forall no_nl ls.
Proof.
  induction 1 as [|f ls fs Hf _ [IH1 IH2]|raw ls fs Hr _ [IH1 IH2]]; [split; constructor| |].
  - split; constructor; auto; [apply render_line_nonsep|apply render_line_no_nl]; auto.
  - apply skip_ok_parts in Hr. split; constructor; tauto.
Qed.

Lemma renders_map fs : forallb field_static_ok fs = true -> renders (map render_line fs) fs.
Proof.
  induction fs as [|f fs IH]; simpl; [constructor|]. rewrite andb_true_iff. intros [H1 H2].
  constructor; auto.
Qed.

(* ------------------------------------------------------------------------------------------ *)
(* the dependency table of a rendered graph                                                    *)

Definition sec_static_ok (s : bytes * list afield) : bool :=
  sec_name_ok (fst s) && forallb field_static_ok (snd s).

Definition sec_rel (s : bytes * list afield) (l : bytes * list bytes) : Prop :=
  fst l = fst s /\ renders (snd l) (snd s).

Lemma dep_get_none k deps : ~ In k (map fst deps) -> dep_get k deps = None.
Proof. intros H. destruct (dep_get k deps) eqn:E; auto. exfalso. apply H. eapply dep_get_In; eauto. Qed.

Lemma sec_get_none k secs : ~ In k (map fst secs) -> sec_get k secs = None.
Proof.
  induction secs as [|[n fs] r IH]; simpl; auto. intros H.
  destruct (bytes_eqb k n) eqn:E; [apply bytes_eqb_eq in E; subst; tauto|]. apply IH. tauto.
Qed.

Lemma dep_get_doc k secs sl : Forall2 sec_rel secs sl -> nodup_b (map fst secs) = true ->
  match sec_get k secs with
  | Some sfs => exists ls, renders ls sfs /\ dep_get k (doc_deps sl) = Some (unlines ls)
  | None => dep_get k (doc_deps sl) = None
  end.
Proof.
  induction 1 as [|[n fs] [n' ls] secs sl [Hn Hr] _ IH]; [reflexivity|].
  simpl in Hn, Hr. subst n'. cbn [map fst nodup_b]. rewrite andb_true_iff, negb_true_iff.
  intros [Hnin Hnd]. specialize (IH Hnd). cbn [sec_get doc_deps map fst snd dep_get].
  fold (doc_deps sl). destruct (bytes_eqb k n) eqn:E.
  - apply bytes_eqb_eq in E. subst k. apply mem_b_false in Hnin.
    rewrite (sec_get_none _ _ Hnin) in IH. rewrite IH. exists ls. auto.
  - destruct (sec_get k secs) as [sfs|].
    + destruct IH as (ls' & Hr' & ->). exists ls'. auto.
    + rewrite IH. reflexivity.
Qed.

Lemma lookup_dep_wf pkg secs sl w t sfs :
  Forall2 sec_rel secs sl -> nodup_b (map fst secs) = true ->
  opt_bytes_eqb (ref_target pkg (map fst secs) w) t = true -> sec_get t secs = Some sfs ->
  exists ls, renders ls sfs /\ lookup_dep pkg (doc_deps sl) w = Ok (ctx_pkg pkg w, t, unlines ls).
Proof.
  intros Hrel Hnd Ht Hs. unfold ref_target in Ht. unfold lookup_dep.
  pose proof (dep_get_doc t _ _ Hrel Hnd) as Hget. rewrite Hs in Hget. destruct Hget as (ls & Hr & Hget).
  exists ls. split; auto.
  destruct (mem_b w (map fst secs)) eqn:Em.
  - cbn [opt_bytes_eqb] in Ht. apply bytes_eqb_eq in Ht. subst t. rewrite Hget. reflexivity.
  - pose proof (dep_get_doc w _ _ Hrel Hnd) as Hw. apply mem_b_false in Em.
    rewrite (sec_get_none _ _ Em) in Hw. rewrite Hw.
    destruct (bytes_eqb w s_header).
    + destruct (mem_b s_std_header (map fst secs)); [|discriminate]. cbn [opt_bytes_eqb] in Ht.
      apply bytes_eqb_eq in Ht. subst t. rewrite Hget. reflexivity.
    + destruct (negb (contains_byte 47 w)) eqn:Eq; [|discriminate].
      destruct (mem_b (pkg ++ x2f :: w) (map fst secs)); [|discriminate]. cbn [opt_bytes_eqb] in Ht.
      apply bytes_eqb_eq in Ht. subst t. rewrite Hget.
      unfold ctx_pkg. apply negb_true_iff in Eq. rewrite Eq. reflexivity.
Qed.

(* ------------------------------------------------------------------------------------------ *)
(* one field                                                                                   *)

Lemma field_step fld : field_static_ok fld = true ->
  classify_line (render_line fld) = LField (line_tok fld) (af_name fld) /\
  parse_array_type (line_tok fld) =
  match af_arr fld with
  | None => (false, [], 0%Z)
  | Some a => (true, type_text (af_ty fld), arr_value a)
  end.
Proof.
  intros H. destruct (line_tok_ok _ H) as (Hne & Ht). destruct (static_parts _ H) as (Hn & Ha & Hne' & Hty).
  split; [rewrite render_line_eq; apply classify_canon; auto|].
  assert (H91 : contains_byte 91 (type_text (af_ty fld)) = false).
  { apply (forallb_contains ty_byte); auto. intros b Hb. apply ty_byte_props in Hb. tauto. }
  assert (H93 : contains_byte 93 (type_text (af_ty fld)) = false).
  { apply (forallb_contains ty_byte); auto. intros b Hb. apply ty_byte_props in Hb. tauto. }
  unfold line_tok. destruct (af_arr fld) as [[ds|]|]; simpl arr_suffix.
  - simpl in Ha. apply digits_parts in Ha. destruct Ha as (Hdne & Hd & n & Hat).
    rewrite pat_array; auto.
    + simpl. rewrite Hat. destruct ds; [congruence|reflexivity].
    + apply (forallb_contains is_digit); auto. intros b Hb. apply digit_props in Hb. tauto.
  - apply (pat_array _ [] H91 H93 eq_refl).
  - rewrite app_nil_r. apply pat_scalar. exact H91.
Qed.


Lemma go_renders rec pkg deps vis (sub_of : afield -> bool * list field) ls fs :
  renders ls fs ->
  (forall fld, In fld fs -> resolve_type rec pkg deps vis (type_text (af_ty fld)) = Ok (sub_of fld)) ->
  forall acc, go_spec rec pkg deps vis (ls ++ [[]]) acc
              = Ok (acc ++ map (fun fld => tree_field fld (fst (sub_of fld)) (snd (sub_of fld))) fs).
Proof.
  induction 1 as [|fld ls fs Hs _ IH|raw ls fs Hraw _ IH]; intros H acc.
  - simpl. rewrite app_nil_r. reflexivity.
  - pose proof (H fld (or_introl eq_refl)) as Hr. destruct (field_step _ Hs) as (Hc & Hp).
    cbn [map app go_spec]. rewrite Hc, Hp.
    assert (He : elem_type (line_tok fld)
                   match af_arr fld with
                   | None => (false, [], 0%Z)
                   | Some a => (true, type_text (af_ty fld), arr_value a)
                   end = type_text (af_ty fld)).
    { unfold elem_type, line_tok. destruct (af_arr fld); simpl; auto. apply app_nil_r. }
    cbv zeta. rewrite He, Hr. cbn [bind].
    rewrite IH by (intros; apply H; right; auto).
    rewrite <- app_assoc. do 3 f_equal.
    unfold mk_field, tree_field, line_tok. destruct (af_arr fld); simpl; auto.
    rewrite app_nil_r. reflexivity.
  - apply skip_ok_parts in Hraw. destruct Hraw as (Hc & _). cbn [app go_spec]. rewrite Hc. apply IH. exact H.
Qed.

(* ------------------------------------------------------------------------------------------ *)
(* the main induction                                                                          *)

Lemma resolve_wf secs sl : Forall2 sec_rel secs sl -> nodup_b (map fst secs) = true ->
  forall af rf pkg vis fs ls, af <= rf -> renders ls fs -> wf_fields secs af pkg vis fs = true ->
  resolve rf pkg (doc_deps sl) vis (unlines ls) = Ok (tree_fields secs af fs).
Proof.
  intros Hrel Hnd. induction af as [|f IH]; intros rf pkg vis fs ls Hle Hren Hwf; [discriminate|].
  destruct rf as [|rf']; [lia|]. rewrite resolve_S.
  cbn [wf_fields] in Hwf. rewrite forallb_forall in Hwf.
  rewrite split_unlines by (apply (renders_lines _ _ Hren)).
  rewrite (go_renders _ _ _ _
             (fun fld => match af_ty fld with
                         | APrim _ => (false, [])
                         | ARef _ t => (true, match sec_get t secs with
                                              | Some sfs => tree_fields secs f sfs | None => [] end)
                         end) _ _ Hren).
  - cbn [app tree_fields]. f_equal. apply map_ext. intros fld. destruct (af_ty fld); reflexivity.
  - intros fld Hfld. specialize (Hwf _ Hfld). apply andb_true_iff in Hwf. destruct Hwf as [Hs Hty].
    unfold resolve_type. destruct (af_ty fld) as [n|w t]; cbn [type_text].
    + rewrite Hty. reflexivity.
    + rewrite !andb_true_iff, !negb_true_iff in Hty. destruct Hty as [[[Hnp Hrt] Hv] Hsub].
      rewrite Hnp. destruct (sec_get t secs) as [sfs|] eqn:Esec; [|discriminate].
      destruct (lookup_dep_wf _ _ _ _ _ _ Hrel Hnd Hrt Esec) as (ls' & Hren' & ->). cbn [bind]. rewrite Hv.
      rewrite (IH rf' _ _ _ _ ltac:(lia) Hren' Hsub). reflexivity.
Qed.

(* ------------------------------------------------------------------------------------------ *)
(* the whole text                                                                              *)

Lemma wf_graph_parts pkg g : wf_graph pkg g = true ->
  forallb field_static_ok (top g) = true /\ forallb sec_static_ok (sections g) = true /\
  nodup_b (map fst (sections g)) = true /\
  wf_fields (sections g) (S (length (sections g))) pkg [] (top g) = true.
Proof. unfold wf_graph. rewrite !andb_true_iff. tauto. Qed.

Lemma sec_rel_ok secs sl : Forall2 sec_rel secs sl -> forallb sec_static_ok secs = true -> Forall lsec_ok sl.
Proof.
  induction 1 as [|s l secs sl [Hn Hr] _ IH]; [constructor|]. simpl. rewrite andb_true_iff.
  intros [Hs Hrest]. constructor; auto. unfold sec_static_ok in Hs. apply andb_true_iff in Hs.
  unfold lsec_ok. rewrite Hn. destruct (renders_lines _ _ Hr). tauto.
Qed.

Lemma Forall2_len {A B} (R : A -> B -> Prop) l1 l2 : Forall2 R l1 l2 -> length l1 = length l2.
Proof. induction 1; simpl; auto. Qed.

(* most general form: any line-level document whose top-level lines and section bodies render
   the fields of a well-formed graph (ignored lines allowed anywhere among the field lines) *)
Theorem parse_doc pkg g tl sl :
  wf_graph pkg g = true -> renders tl (top g) -> Forall2 sec_rel (sections g) sl ->
  parse_msgdef pkg (join_nl (doc_lines tl sl)) = Ok (tree_of g).
Proof.
  intros H Htop Hrel. destruct (wf_graph_parts _ _ H) as (Ht & Hs & Hnd & Hwf).
  destruct (doc_lines tl sl) as [|l0 ls0] eqn:El.
  - (* the empty document *)
    unfold doc_lines in El. apply app_eq_nil in El. destruct El as [E1 E2]. subst tl.
    destruct sl as [|s sl]; [|discriminate]. destruct g as [tp secs]. simpl in *.
    inversion Htop; subst. inversion Hrel; subst. reflexivity.
  - assert (Hne : doc_lines tl sl <> []) by (rewrite El; discriminate). rewrite <- El.
    destruct (renders_lines _ _ Htop) as (Hsep & Hnl).
    destruct (msgdef_doc tl sl Hsep Hnl (sec_rel_ok _ _ Hrel Hs) Hne) as (Etop & Edeps).
    rewrite parse_msgdef_unfold, Etop, Edeps. unfold tree_of.
    apply (resolve_wf _ _ Hrel Hnd); auto. unfold doc_deps. rewrite map_length.
    rewrite <- (Forall2_len _ _ _ Hrel). lia.
Qed.

(* the canonical rendering *)
Lemma graph_lines_doc g :
  graph_lines g = doc_lines (map render_line (top g))
                            (map (fun s => (fst s, map render_line (snd s))) (sections g)).
Proof. unfold graph_lines, doc_lines. rewrite map_map. reflexivity. Qed.

Theorem parse_rendered pkg g : wf_graph pkg g = true -> parse_msgdef pkg (render_graph g) = Ok (tree_of g).
Proof.
  intros H. destruct (wf_graph_parts _ _ H) as (Ht & Hs & _).
  unfold render_graph. rewrite graph_lines_doc. apply parse_doc; auto.
  - apply renders_map. exact Ht.
  - clear H Ht. induction (sections g) as [|s secs IH]; [constructor|].
    simpl in Hs. apply andb_true_iff in Hs. destruct Hs as [H1 H2]. constructor; auto.
    unfold sec_static_ok in H1. apply andb_true_iff in H1. split; [reflexivity|].
    apply renders_map. tauto.
Qed.

(* ------------------------------------------------------------------------------------------ *)
(* decorated graphs: field lines interleaved with ignored lines (comments, constants, blanks)  *)

Definition item := (afield + bytes)%type.
Record dgraph := { dtop : list item; dsections : list (bytes * list item) }.

Definition item_line (i : item) : bytes := match i with inl f => render_line f | inr raw => raw end.
Fixpoint item_fields (l : list item) : list afield :=
  match l with [] => [] | inl f :: r => f :: item_fields r | inr _ :: r => item_fields r end.
Definition erase (d : dgraph) : agraph :=
  {| top := item_fields (dtop d);
     sections := map (fun s => (fst s, item_fields (snd s))) (dsections d) |}.
Definition dgraph_lines (d : dgraph) : list bytes :=
  doc_lines (map item_line (dtop d)) (map (fun s => (fst s, map item_line (snd s))) (dsections d)).
Definition render_dgraph (d : dgraph) : bytes := join_nl (dgraph_lines d).

Definition skips_ok (l : list item) : bool :=
  forallb (fun i => match i with inl _ => true | inr raw => skip_ok raw end) l.
Definition wf_dgraph (pkg : bytes) (d : dgraph) : bool :=
  wf_graph pkg (erase d) && skips_ok (dtop d) && forallb (fun s => skips_ok (snd s)) (dsections d).

Lemma renders_items l :
  forallb field_static_ok (item_fields l) = true -> skips_ok l = true ->
  renders (map item_line l) (item_fields l).
Proof.
  induction l as [|[f|raw] l IH]; simpl; [constructor| |].
  - rewrite andb_true_iff. intros [H1 H2] H3. constructor; auto.
  - rewrite andb_true_iff. intros H1 [H2 H3]. constructor; auto.
Qed.

Theorem parse_decorated pkg d :
  wf_dgraph pkg d = true -> parse_msgdef pkg (render_dgraph d) = Ok (tree_of (erase d)).
Proof.
  unfold wf_dgraph. rewrite !andb_true_iff. intros [[H Ht] Hs].
  destruct (wf_graph_parts _ _ H) as (Hft & Hfs & _).
  unfold render_dgraph, dgraph_lines. apply parse_doc; auto.
  - apply renders_items; auto.
  - simpl in Hfs |- *. clear H Hft Ht. induction (dsections d) as [|s secs IH]; [constructor|].
    simpl in Hs, Hfs. apply andb_true_iff in Hs. apply andb_true_iff in Hfs.
    destruct Hs as [Hs1 Hs2]. destruct Hfs as [Hf1 Hf2]. simpl. constructor; auto.
    unfold sec_static_ok in Hf1. simpl in Hf1. apply andb_true_iff in Hf1.
    split; [reflexivity|]. simpl. apply renders_items; tauto.
Qed.

(* what the ignored lines can be *)
Lemma skip_blank raw : trim_space raw = [] -> classify_line raw = LSkip.
Proof. intros H. unfold classify_line. rewrite H. reflexivity. Qed.

Lemma skip_comment raw r : trim_space raw = x23 :: r -> classify_line raw = LSkip.
Proof. intros H. unfold classify_line. rewrite H. reflexivity. Qed.

Lemma skip_constant raw : trim_space raw <> [] ->
  contains_byte 61 (hd [] (split_byte 35 (trim_space raw))) = true -> classify_line raw = LSkip.
Proof.
  intros Hne H. unfold classify_line. destruct (trim_space raw) as [|b r]; [congruence|].
  destruct (is_byte b 35); auto. rewrite H. reflexivity.
Qed.


(* ------------------------------------------------------------------------------------------ *)
(* a concrete self-referential family, for every parent package                                *)

Definition s_foo : bytes := str [70;111;111]%N.              (* Foo *)
Definition s_foo_x : bytes := str [70;111;111;32;120]%N.     (* Foo x *)
Definition s_foo_y : bytes := str [70;111;111;32;121]%N.     (* Foo y *)
Definition s_slash_foo : bytes := str [47;70;111;111]%N.     (* /Foo *)
(* Foo x \n ===...=== \n MSG: <pkg>/Foo \n Foo y \n *)
Definition cyc_lines (pkg : bytes) : list bytes :=
  [s_foo_x; sep80; s_msg_prefix ++ pkg ++ s_slash_foo; s_foo_y; []].
Definition cyc_data (pkg : bytes) : bytes := join_nl (cyc_lines pkg).

Lemma cyc_hdr_trim pkg :
  trim_space (s_msg_prefix ++ pkg ++ s_slash_foo) = s_msg_prefix ++ pkg ++ s_slash_foo.
Proof. apply trim_space_id; [reflexivity|]. rewrite !rev_app_distr. reflexivity. Qed.

Lemma cyc_msgdef pkg : contains_byte 10 pkg = false ->
  msgdef_top (cyc_data pkg) = unlines [s_foo_x] /\
  msgdef_deps (cyc_data pkg) = [(pkg ++ s_slash_foo, unlines [s_foo_y; []])].
Proof.
  intros Hp. unfold msgdef_top, msgdef_deps, msgdef_secs, cyc_data.
  rewrite split_join_nl; [|discriminate|].
  2:{ unfold cyc_lines. repeat constructor. unfold no_nl. rewrite !contains_byte_app, Hp. reflexivity. }
  unfold cyc_lines.
  change [s_foo_x; sep80; s_msg_prefix ++ pkg ++ s_slash_foo; s_foo_y; []]
    with ([s_foo_x] ++ sep80 :: [s_msg_prefix ++ pkg ++ s_slash_foo; s_foo_y; []] ++ []).
  rewrite (split_sections_nonsep [s_foo_x] _ [] []) by (repeat constructor).
  rewrite split_sections_sep by reflexivity.
  rewrite (split_sections_nonsep [s_msg_prefix ++ pkg ++ s_slash_foo; s_foo_y; []] [] [] _).
  2:{ repeat constructor. unfold nonsep. rewrite cyc_hdr_trim. reflexivity. }
  cbn [split_sections app].
  set (sec := unlines [s_msg_prefix ++ pkg ++ s_slash_foo; s_foo_y; []]).
  assert (Hne : sec <> []) by (unfold sec, unlines; simpl; discriminate).
  destruct sec eqn:Es; [congruence|]. rewrite <- Es. clear Es Hne. cbn [hd tl map]. split; [reflexivity|].
  unfold sec. rewrite split_unlines.
  2:{ repeat constructor. unfold no_nl. rewrite !contains_byte_app, Hp. reflexivity. }
  cbn [app hd tl]. rewrite cyc_hdr_trim.
  change (join_nl [s_foo_y; []; []]) with (join_nl ([s_foo_y; []] ++ [[]])). rewrite join_nl_unlines.
  reflexivity.
Qed.

Lemma cyc_lookup pkg d :
  lookup_dep pkg [(pkg ++ s_slash_foo, d)] s_foo = Ok (pkg, pkg ++ s_slash_foo, d).
Proof.
  unfold lookup_dep. cbn [dep_get].
  assert (E : bytes_eqb s_foo (pkg ++ s_slash_foo) = false).
  { apply bytes_eqb_false. intros H. apply (f_equal (contains_byte 47)) in H.
    rewrite contains_byte_app in H. replace (contains_byte 47 s_slash_foo) with true in H by reflexivity.
    rewrite orb_true_r in H. discriminate H. }
  rewrite E. replace (bytes_eqb s_foo s_header) with false by reflexivity.
  replace (contains_byte 47 s_foo) with false by reflexivity. cbn [negb].
  change (pkg ++ x2f :: s_foo) with (pkg ++ s_slash_foo). rewrite bytes_eqb_refl. reflexivity.
Qed.

Theorem cycle_self_is_error pkg : contains_byte 10 pkg = false ->
  exists e, parse_msgdef pkg (cyc_data pkg) = Err e.
Proof.
  intros Hp. destruct (cyc_msgdef pkg Hp) as (Etop & Edeps).
  set (k := pkg ++ s_slash_foo). set (d := unlines [s_foo_y; []]).
  apply (parse_msgdef_cycle_err pkg (cyc_data pkg) [k; k] pkg d).
  - rewrite Etop, Edeps. fold k d.
    apply (rp_cons _ _ _ [k] pkg d pkg k d).
    + apply (rp_cons _ _ _ [] pkg (unlines [s_foo_x]) pkg k d); [constructor|].
      exists s_foo_x, s_foo, (str [120]%N). split; [left; reflexivity|]. split; [reflexivity|].
      split; [reflexivity|]. apply cyc_lookup.
    + exists s_foo_y, s_foo, (str [121]%N). split; [left; reflexivity|]. split; [reflexivity|].
      split; [reflexivity|]. apply cyc_lookup.
  - intros H. inversion H as [|? ? Hn _]. apply Hn. left. reflexivity.
Qed.

(* qualified self reference: any parent package at all *)
Definition cyc_q_data : bytes :=
  join_nl [str [97;47;70;111;111;32;120]%N; sep80; s_msg_prefix ++ str [97;47;70;111;111]%N;
           str [97;47;70;111;111;32;121]%N; []].

Theorem cycle_qualified_is_error pkg : parse_msgdef pkg cyc_q_data = Err EOther.
Proof. vm_compute. reflexivity. Qed.

(* ------------------------------------------------------------------------------------------ *)
(* the fuel is immaterial: once the answer is not OutOfFuel, more fuel gives the same answer   *)

Lemma go_spec_mono rec1 rec2 pkg deps vis :
  (forall a b c r, rec1 a b c = r -> r <> OutOfFuel -> rec2 a b c = r) ->
  forall lines acc r, go_spec rec1 pkg deps vis lines acc = r -> r <> OutOfFuel ->
                      go_spec rec2 pkg deps vis lines acc = r.
Proof.
  intros Hrec. induction lines as [|raw rest IH]; intros acc r; simpl; auto.
  destruct (classify_line raw) as [|ftype fname|]; auto.
  unfold resolve_type. destruct (mem_b _ primitives); cbn [bind]; auto.
  destruct (lookup_dep pkg deps _) as [[[fpkg key] sub]| | | |]; cbn [bind]; auto.
  destruct (mem_b key vis); cbn [bind]; auto.
  destruct (rec1 fpkg (key :: vis) sub) as [fs|e|s|s|] eqn:E1.
  - rewrite (Hrec _ _ _ _ E1) by discriminate. cbn [bind]. apply IH.
  - rewrite (Hrec _ _ _ _ E1) by discriminate. auto.
  - rewrite (Hrec _ _ _ _ E1) by discriminate. auto.
  - rewrite (Hrec _ _ _ _ E1) by discriminate. auto.
  - cbn [bind]. intros <- H. congruence.
Qed.

Lemma resolve_mono deps : forall f pkg vis def r,
  resolve f pkg deps vis def = r -> r <> OutOfFuel -> resolve (S f) pkg deps vis def = r.
Proof.
  induction f as [|f IH]; intros pkg vis def r H Hr; [simpl in H; congruence|].
  rewrite resolve_S in H. rewrite resolve_S.
  eapply go_spec_mono; [|exact H|exact Hr]. intros a b c r' H' Hr'. apply IH; auto.
Qed.

Lemma resolve_more_fuel deps k : forall f pkg vis def r,
  resolve f pkg deps vis def = r -> r <> OutOfFuel -> resolve (f + k) pkg deps vis def = r.
Proof.
  induction k as [|k IH]; intros f pkg vis def r H Hr; [rewrite Nat.add_0_r; auto|].
  rewrite Nat.add_succ_r. apply resolve_mono; auto.
Qed.

Lemma fine_not_oof {A} (x : outcome A) : fine x -> x <> OutOfFuel.
Proof. destruct x; simpl; auto; discriminate. Qed.

(* the recursion depth never exceeds (number of sections) + 2, and any larger fuel gives the
   result of ParseMessageDefinition *)
Theorem parse_msgdef_depth pkg data k :
  resolve (length (msgdef_deps data) + 2 + k) pkg (msgdef_deps data) [] (msgdef_top data)
  = parse_msgdef pkg data.
Proof.
  rewrite parse_msgdef_unfold.
  assert (H : fine (resolve (length (msgdef_deps data) + 2) pkg (msgdef_deps data) [] (msgdef_top data)))
    by (apply resolve_fine; [constructor | intros x [] | simpl; lia]).
  apply fine_not_oof in H.
  rewrite (resolve_more_fuel _ k _ _ _ _ _ eq_refl H).
  replace (length (msgdef_deps data) + 3) with (length (msgdef_deps data) + 2 + 1) by lia.
  rewrite (resolve_more_fuel _ 1 _ _ _ _ _ eq_refl H). reflexivity.
Qed.

(* ------------------------------------------------------------------------------------------ *)
(* a concrete mutual recursion p/A -> p/B -> p/A as an instance of the general cycle theorem   *)

Definition mut_data : bytes :=
  join_nl [str [65;32;120]%N; sep80; s_msg_prefix ++ str [112;47;65]%N; str [66;32;121]%N;
           sep80; s_msg_prefix ++ str [112;47;66]%N; str [65;32;122]%N; []].

Lemma mut_data_path :
  exists ks pkg' def',
    ref_path (msgdef_deps mut_data) (str [112]%N) (msgdef_top mut_data) ks pkg' def' /\ ~ NoDup ks.
Proof.
  set (p := str [112]%N). set (kA := str [112;47;65]%N). set (kB := str [112;47;66]%N).
  set (dA := unlines [str [66;32;121]%N]). set (dB := unlines [str [65;32;122]%N; []]).
  set (tp := unlines [str [65;32;120]%N]).
  assert (Etop : msgdef_top mut_data = tp) by (vm_compute; reflexivity).
  assert (Edeps : msgdef_deps mut_data = [(kA, dA); (kB, dB)]) by (vm_compute; reflexivity).
  rewrite Etop, Edeps. exists [kA; kB; kA], p, dA. split.
  - apply (rp_cons _ _ _ [kB; kA] p dB p kA dA).
    + apply (rp_cons _ _ _ [kA] p dA p kB dB).
      * apply (rp_cons _ _ _ [] p tp p kA dA); [constructor|].
        exists (str [65;32;120]%N), (str [65]%N), (str [120]%N). repeat split; vm_compute; auto.
      * exists (str [66;32;121]%N), (str [66]%N), (str [121]%N). repeat split; vm_compute; auto.
    + exists (str [65;32;122]%N), (str [65]%N), (str [122]%N). repeat split; vm_compute; auto.
  - intros H. inversion H as [|? ? Hn _]. apply Hn. right. left. reflexivity.
Qed.

(* ------------------------------------------------------------------------------------------ *)
(* the canonical rendering followed by a final newline                                         *)

Lemma join_nl_snoc ls : ls <> [] -> join_nl (ls ++ [[]]) = join_nl ls ++ [x0a].
Proof.
  induction ls as [|x ls IH]; [congruence|]. intros _. destruct ls as [|y r]; [reflexivity|].
  change ((x :: y :: r) ++ [[]]) with (x :: ((y :: r) ++ [[]])).
  transitivity (x ++ x0a :: join_nl ((y :: r) ++ [[]])); [apply join_nl_cons; discriminate|].
  rewrite IH by discriminate.
  transitivity ((x ++ x0a :: join_nl (y :: r)) ++ [x0a]); [rewrite <- app_assoc; reflexivity|].
  reflexivity.
Qed.

Lemma renders_snoc ls fs : renders ls fs -> renders (ls ++ [[]]) fs.
Proof.
  induction 1; simpl; [|constructor; auto|constructor; auto].
  apply rd_skip; [reflexivity|constructor].
Qed.

Fixpoint snoc_last (sl : list (bytes * list bytes)) : list (bytes * list bytes) :=
  match sl with
  | [] => []
  | s :: r => match r with [] => [(fst s, snd s ++ [[]])] | _ => s :: snoc_last r end
  end.

Lemma snoc_last_lines sl : sl <> [] ->
  concat (map lsec_lines (snoc_last sl)) = concat (map lsec_lines sl) ++ [[]].
Proof.
  induction sl as [|s r IH]; [congruence|]. intros _. destruct r as [|s2 r].
  - simpl. rewrite !app_nil_r. reflexivity.
  - change (snoc_last (s :: s2 :: r)) with (s :: snoc_last (s2 :: r)).
    cbn [map concat]. rewrite IH by discriminate. rewrite <- app_assoc. reflexivity.
Qed.

Lemma snoc_last_rel secs sl : Forall2 sec_rel secs sl -> Forall2 sec_rel secs (snoc_last sl).
Proof.
  induction 1 as [|s l secs sl [Hn Hr] Hrest IH]; [constructor|].
  destruct sl as [|l2 sl].
  - inversion Hrest; subst. simpl. constructor; [|constructor]. split; [exact Hn|].
    simpl. apply renders_snoc. exact Hr.
  - change (snoc_last (l :: l2 :: sl)) with (l :: snoc_last (l2 :: sl)). constructor; auto. split; auto.
Qed.

Theorem parse_rendered_nl pkg g :
  wf_graph pkg g = true -> parse_msgdef pkg (render_graph g ++ [x0a]) = Ok (tree_of g).
Proof.
  intros H. destruct (wf_graph_parts _ _ H) as (Ht & Hs & _).
  assert (Hrel : Forall2 sec_rel (sections g) (map (fun s => (fst s, map render_line (snd s))) (sections g))).
  { clear H Ht. induction (sections g) as [|s secs IH]; [constructor|].
    simpl in Hs. apply andb_true_iff in Hs. destruct Hs as [H1 H2]. constructor; auto.
    unfold sec_static_ok in H1. apply andb_true_iff in H1. split; [reflexivity|].
    apply renders_map. tauto. }
  pose proof (renders_map _ Ht) as Htop.
  unfold render_graph. destruct (graph_lines g) as [|l0 ls0] eqn:El.
  - unfold graph_lines in El. apply app_eq_nil in El. destruct El as [E1 E2].
    destruct g as [tp secs]. simpl in *. destruct tp; [|discriminate].
    destruct secs; [|discriminate]. reflexivity.
  - rewrite <- El, <- join_nl_snoc by (rewrite El; discriminate). rewrite graph_lines_doc.
    remember (map render_line (top g)) as tp.
    remember (map (fun s => (fst s, map render_line (snd s))) (sections g)) as sl.
    destruct sl as [|s0 sl0].
    + match goal with |- parse_msgdef _ (join_nl ?x) = _ =>
        replace x with (doc_lines (tp ++ [[]]) [])
          by (unfold doc_lines; simpl; rewrite !app_nil_r; reflexivity) end.
      apply parse_doc; auto. apply renders_snoc; auto.
    + match goal with |- parse_msgdef _ (join_nl ?x) = _ =>
        replace x with (doc_lines tp (snoc_last (s0 :: sl0)))
          by (unfold doc_lines; rewrite snoc_last_lines by discriminate; rewrite app_assoc; reflexivity) end.
      apply parse_doc; auto. apply snoc_last_rel; auto.
Qed.
