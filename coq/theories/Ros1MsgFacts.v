(* Ros1MsgFacts.v - proofs about the model of ParseMessageDefinition (Ros1Msg.v):
   part 1: totality (the fuel always suffices, no crash outcome is ever produced),
           helper fuels (trim_left, field_match) are sufficient, cycles are errors;
   part 2: correctness on canonically rendered type graphs. *)
From Coq Require Import List NArith ZArith Bool Lia ZifyN ZifyNat ZifyBool.
From Coq.Strings Require Import Byte.
From Mcap Require Import Bytes BytesFacts GoSem Ros1Msg.
Import ListNotations.
Open Scope go_scope.

Definition fine {A} (x : outcome A) : Prop :=
  match x with Ok _ | Err _ => True | _ => False end.

(* ------------------------------------------------------------------------------------------ *)
(* generic list / byte helpers                                                                 *)

Lemma mem_b_In x l : mem_b x l = true <-> In x l.
Proof.
  induction l as [|y l IH]; simpl; [split; [discriminate|tauto]|].
  rewrite orb_true_iff, IH, bytes_eqb_eq. split; intros [H|H]; auto.
Qed.

Lemma mem_b_false x l : mem_b x l = false <-> ~ In x l.
Proof. rewrite <- mem_b_In. destruct (mem_b x l); split; congruence. Qed.

Lemma bytes_eqb_false a b : bytes_eqb a b = false <-> a <> b.
Proof. rewrite <- bytes_eqb_eq. destruct (bytes_eqb a b); split; congruence. Qed.

(* ------------------------------------------------------------------------------------------ *)
(* resolve, with the nested loop lifted out                                                   *)

Section Go.
  Variable rec : bytes -> list bytes -> bytes -> outcome (list field).
  Variables (pkg : bytes) (deps : list (bytes * bytes)) (visiting : list bytes).

  (* verbatim copy of the loop inside [resolve], the recursive call abstracted to [rec] *)
  Fixpoint go_orig (lines : list bytes) (acc : list field) : outcome (list field) :=
    match lines with
    | [] => Ok acc
    | raw :: rest =>
      match classify_line raw with
      | LSkip => go_orig rest acc
      | LBad => Err EOther
      | LField ftype fname =>
        let '(is_arr, base, fixed) := parse_array_type ftype in
        let ft := if is_arr then base else ftype in
        let* (is_rec, rfields) :=
          (if mem_b ft primitives then Ok (false, [])
           else
             let qualified := contains_byte 47 ft in
             let fpkg := if qualified then hd [] (split_byte 47 ft) else pkg in
             let* (key, sub) :=
               (match dep_get ft deps with
                | Some d => Ok (ft, d)
                | None =>
                  if bytes_eqb ft s_header then
                    match dep_get s_std_header deps with Some d => Ok (s_std_header, d) | None => Err EOther end
                  else if negb qualified then
                    let q := fpkg ++ x2f :: ft in
                    match dep_get q deps with Some d => Ok (q, d) | None => Err EOther end
                  else Ok (ft, [])
                end) in
             if mem_b key visiting then Err EOther else
             let* fs := rec fpkg (key :: visiting) sub in
             Ok (true, fs)) in
        let f := if is_arr
                 then Fld fname (Ty ftype true fixed false (Some (Ty ft false 0%Z is_rec None rfields)) [])
                 else Fld fname (Ty ftype false fixed is_rec None rfields) in
        go_orig rest (acc ++ [f])
      end
    end.

  (* the same, cut into pieces *)
  Definition ctx_pkg (ft : bytes) : bytes :=
    if contains_byte 47 ft then hd [] (split_byte 47 ft) else pkg.

  (* the three lookup rules (+ the "qualified but missing" fall-through): parent package of the
     nested type, key in the dependency table, text of the nested definition *)
  Definition lookup_dep (ft : bytes) : outcome (bytes * bytes * bytes) :=
    match dep_get ft deps with
    | Some d => Ok (ctx_pkg ft, ft, d)
    | None =>
      if bytes_eqb ft s_header then
        match dep_get s_std_header deps with
        | Some d => Ok (ctx_pkg ft, s_std_header, d) | None => Err EOther end
      else if negb (contains_byte 47 ft) then
        match dep_get (pkg ++ x2f :: ft) deps with
        | Some d => Ok (pkg, pkg ++ x2f :: ft, d) | None => Err EOther end
      else Ok (ctx_pkg ft, ft, [])
    end.

  Definition resolve_type (ft : bytes) : outcome (bool * list field) :=
    if mem_b ft primitives then Ok (false, [])
    else
      let* (fpkg, key, sub) := lookup_dep ft in
      if mem_b key visiting then Err EOther else
      let* fs := rec fpkg (key :: visiting) sub in
      Ok (true, fs).

  Definition elem_type (ftype : bytes) (pa : bool * bytes * Z) : bytes :=
    if fst (fst pa) then snd (fst pa) else ftype.

  Definition mk_field (ftype fname : bytes) (pa : bool * bytes * Z) (r : bool * list field) : field :=
    if fst (fst pa)
    then Fld fname (Ty ftype true (snd pa) false (Some (Ty (snd (fst pa)) false 0%Z (fst r) None (snd r))) [])
    else Fld fname (Ty ftype false (snd pa) (fst r) None (snd r)).

  Fixpoint go_spec (lines : list bytes) (acc : list field) : outcome (list field) :=
    match lines with
    | [] => Ok acc
    | raw :: rest =>
      match classify_line raw with
      | LSkip => go_spec rest acc
      | LBad => Err EOther
      | LField ftype fname =>
        let pa := parse_array_type ftype in
        let* r := resolve_type (elem_type ftype pa) in
        go_spec rest (acc ++ [mk_field ftype fname pa r])
      end
    end.

  Lemma go_orig_eq lines : forall acc, go_orig lines acc = go_spec lines acc.
  Proof.
    induction lines as [|raw rest IH]; intros acc; [reflexivity|].
    cbn [go_orig go_spec]. destruct (classify_line raw) as [| ftype fname |]; auto.
    destruct (parse_array_type ftype) as [[is_arr base] fixed].
    unfold resolve_type, elem_type, mk_field, lookup_dep, ctx_pkg. cbn [fst snd].
    set (ft := if is_arr then base else ftype).
    destruct (mem_b ft primitives); cbn [bind]; [destruct is_arr; apply IH|].
    destruct (dep_get ft deps) as [d|]; cbn [bind].
    - destruct (mem_b ft visiting); cbn [bind]; auto.
      destruct (rec _ _ d); cbn [bind]; auto. destruct is_arr; apply IH.
    - destruct (bytes_eqb ft s_header).
      + destruct (dep_get s_std_header deps) as [d|]; cbn [bind]; auto.
        destruct (mem_b s_std_header visiting); cbn [bind]; auto.
        destruct (rec _ _ d); cbn [bind]; auto. destruct is_arr; apply IH.
      + destruct (contains_byte 47 ft); cbn [negb bind].
        * destruct (mem_b ft visiting); cbn [bind]; auto.
          destruct (rec _ _ []); cbn [bind]; auto. destruct is_arr; apply IH.
        * destruct (dep_get (pkg ++ x2f :: ft) deps) as [d|]; cbn [bind]; auto.
          destruct (mem_b (pkg ++ x2f :: ft) visiting); cbn [bind]; auto.
          destruct (rec _ _ d); cbn [bind]; auto. destruct is_arr; apply IH.
  Qed.

  Lemma dep_get_In k d : dep_get k deps = Some d -> In k (map fst deps).
  Proof.
    induction deps as [|[k' v] r IH]; simpl; [discriminate|].
    destruct (dep_get k r) as [x|].
    - intros _. right. apply IH. reflexivity.
    - destruct (bytes_eqb k k') eqn:E; [|discriminate]. apply bytes_eqb_eq in E. subst. auto.
  Qed.

  Lemma lookup_dep_key ft fpkg key sub :
    lookup_dep ft = Ok (fpkg, key, sub) -> In key (map fst deps) \/ sub = [].
  Proof.
    unfold lookup_dep. destruct (dep_get ft deps) as [d|] eqn:E.
    - intros H. injection H as <- <- <-. left. eapply dep_get_In; eauto.
    - destruct (bytes_eqb ft s_header).
      + destruct (dep_get s_std_header deps) as [d|] eqn:E2; [|discriminate].
        intros H. injection H as <- <- <-. left. eapply dep_get_In; eauto.
      + destruct (negb (contains_byte 47 ft)).
        * destruct (dep_get (pkg ++ x2f :: ft) deps) as [d|] eqn:E2; [|discriminate].
          intros H. injection H as <- <- <-. left. eapply dep_get_In; eauto.
        * intros H. injection H as <- <- <-. right. reflexivity.
  Qed.

  Lemma lookup_dep_fine ft : fine (lookup_dep ft).
  Proof.
    unfold lookup_dep. destruct (dep_get ft deps); simpl; auto.
    destruct (bytes_eqb ft s_header); [destruct (dep_get s_std_header deps); simpl; auto|].
    destruct (negb (contains_byte 47 ft)); simpl; auto.
    destruct (dep_get (pkg ++ x2f :: ft) deps); simpl; auto.
  Qed.

  Lemma go_spec_fine lines :
    (forall ft fpkg key sub, lookup_dep ft = Ok (fpkg, key, sub) -> ~ In key visiting ->
                             fine (rec fpkg (key :: visiting) sub)) ->
    forall acc, fine (go_spec lines acc).
  Proof.
    intros Hrec. induction lines as [|raw rest IH]; intros acc; simpl; auto.
    destruct (classify_line raw) as [| ftype fname |]; simpl; auto.
    unfold resolve_type. destruct (mem_b _ primitives); cbn [bind]; auto.
    pose proof (lookup_dep_fine (elem_type ftype (parse_array_type ftype))) as Hl.
    destruct (lookup_dep _) as [[[fpkg key] sub]| | | |] eqn:El; simpl in Hl; try contradiction; cbn [bind]; auto.
    destruct (mem_b key visiting) eqn:Ev; cbn [bind]; [simpl; auto|].
    apply mem_b_false in Ev. specialize (Hrec _ _ _ _ El Ev).
    destruct (rec fpkg (key :: visiting) sub); simpl in Hrec; try contradiction; cbn [bind]; simpl; auto.
  Qed.
End Go.

Lemma resolve_S fu pkg deps vis def :
  resolve (S fu) pkg deps vis def
  = go_spec (fun fpkg v sub => resolve fu fpkg deps v sub) pkg deps vis (split_byte 10 def) [].
Proof. rewrite <- go_orig_eq. reflexivity. Qed.

Lemma trim_space_nil : trim_space [] = [].
Proof. reflexivity. Qed.

Lemma resolve_empty fu pkg deps vis : resolve (S fu) pkg deps vis [] = Ok [].
Proof. reflexivity. Qed.

(* the generalised fuel lemma: along a recursion path the visiting list is duplicate free and
   consists of keys of the table, so its length is bounded by the size of the table *)
Lemma resolve_fine deps : forall fuel pkg visiting def,
  NoDup visiting -> incl visiting (map fst deps) ->
  length deps + 2 <= fuel + length visiting ->
  fine (resolve fuel pkg deps visiting def).
Proof.
  induction fuel as [|fu IH]; intros pkg vis def Hnd Hincl Hlen.
  - exfalso. pose proof (NoDup_incl_length Hnd Hincl) as H. rewrite map_length in H. lia.
  - rewrite resolve_S. apply go_spec_fine. intros ft fpkg key sub Hl Hnin.
    pose proof (NoDup_incl_length Hnd Hincl) as Hb. rewrite map_length in Hb.
    destruct (lookup_dep_key _ _ _ _ _ _ Hl) as [Hk | ->].
    + apply IH; [constructor; auto | intros x [<-|Hx]; auto | simpl; lia].
    + destruct fu as [|fu']; [lia|]. rewrite resolve_empty. exact I.
Qed.

Theorem parse_msgdef_fine pkg data : fine (parse_msgdef pkg data).
Proof.
  unfold parse_msgdef. apply resolve_fine; [constructor | intros x [] | simpl; lia].
Qed.
