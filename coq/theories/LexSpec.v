(* LexSpec.v - specification side of the lexer theorems: which item lists are well-formed
   files for a given lexer configuration, and which events a sequential read of such a file
   must deliver.  Definitions only; the proofs are in LexerFactsB.v. *)
From Coq Require Import List NArith ZArith Bool.
From Coq.Strings Require Import Byte.
From Mcap Require Import Bytes GoSem Crc32 Records RecordsFacts Writer Lexer.
Import ListNotations.
Open Scope N_scope.

Definition two63 : N := 9223372036854775808.

(* a written file is the concatenation of its rendered items *)
Definition render (items : list item) : bytes := concat (map render_item items).

(* a source delivering exactly the bytes b and then io.EOF *)
Definition src_of (b : bytes) (sk : bool) : rdr := {| r_buf := b; r_end := None; r_seek := sk |}.

(* split a byte string into framed records (opcode, uint64 length, body); total: a short tail is
   returned as a record with a short body *)
Fixpoint split_records (fuel : nat) (b : bytes) : list (byte * bytes) :=
  match fuel with
  | O => []
  | S f =>
    match b with
    | [] => []
    | op :: t =>
      let n := unle (firstn 8 t) in
      let body := take n (skipn 8 t) in
      (op, body) :: split_records f (drop n (skipn 8 t))
    end
  end.

Definition frame_of (r : byte * bytes) : bytes := frame (fst r) (snd r).
Definition frames (l : list (byte * bytes)) : bytes := concat (map frame_of l).

(* the token a plain record produces: unknown opcodes are skipped *)
Definition rec_events (r : byte * bytes) : list event :=
  if known_op (fst r) then [EvToken (fst r) (snd r)] else [].

Section Spec.
Variable lo : lopts.
Variable dstream : doracle.

(* compression names loadChunk accepts *)
Definition comp_supported (comp : bytes) : bool :=
  mem_bytes comp (lo_custom lo) || bytes_eqb comp [] || bytes_eqb comp [x7a; x73; x74; x64]
  || bytes_eqb comp [x6c; x7a; x34].

(* what the chunk reader installed by loadChunk delivers when the limited reader over the stored
   payload delivers `avail` and then ends as `pend` *)
Definition chunk_stream (comp avail : bytes) (pend : option err) : bytes * option err :=
  if bytes_eqb comp [] && negb (mem_bytes comp (lo_custom lo)) then (avail, pend)
  else dstream comp avail pend.

(* MaxRecordSize does not reject a record of length n *)
Definition len_ok (n : N) : Prop := ((0 <? lo_max_record lo) && (lo_max_record lo <? n)) = false.

(* a record the lexer handles by the generic path: not a chunk, not an attachment, not opcode 0 *)
Definition plain_rec_ok (r : byte * bytes) : Prop :=
  fst r <> OpChunk /\ fst r <> OpAttachment /\ fst r <> x00
  /\ blen (snd r) < max_int32 /\ len_ok (blen (snd r)).

(* the decompressed content of a chunk *)
Definition chunk_plain (k : chunk) : bytes := fst (chunk_stream (k_comp k) (k_records k) None).
Definition chunk_inner (k : chunk) : list (byte * bytes) :=
  split_records (length (chunk_plain k)) (chunk_plain k).

Definition wf_chunk_item (k : chunk) : Prop :=
  wf_chunk k /\ len_ok (blen (enc_chunk k)) /\
  if lo_emit_chunks lo then blen (enc_chunk k) < max_int32
  else
    comp_supported (k_comp k) = true /\ blen (k_comp k) + 8 < max_int32 /\
    blen (k_records k) < two63 /\       (* io.LimitReader takes an int64 *)
    exists inner,
      chunk_stream (k_comp k) (k_records k) None = (frames inner, None)
      /\ k_usize k = blen (frames inner)
      /\ Forall plain_rec_ok inner
      /\ (k_crc k = 0 \/ k_crc k = crc32 (frames inner))
      /\ (lo_validate lo = true ->
            2 * k_usize k < max_int32
            /\ ((0 <? lo_max_chunk lo) && (lo_max_chunk lo <? k_usize k)) = false
            /\ (mem_bytes (k_comp k) (lo_custom lo) = true -> k_usize k = blen (k_records k))).

Definition attach_body (a : attachment) (data : bytes) (crc : N) : bytes :=
  enc_attachment_fields a ++ data ++ u32 crc.

Definition wf_attach_item (a : attachment) (data : bytes) (crc : N) : Prop :=
  a_log a < two64 /\ a_create a < two64 /\ blen (a_name a) < two32 /\ blen (a_media a) < two32
  /\ a_size a = blen data /\ crc < two32
  /\ blen (attach_body a data crc) < two63 /\ len_ok (blen (attach_body a data crc))
  /\ (lo_cb lo = CbNone \/ lo_cb lo = CbFull).

Definition wf_item (it : item) : Prop :=
  match it with
  | IMagic => False                       (* magic only at the two ends, see wf_file *)
  | IRec op body => plain_rec_ok (op, body)
  | IChunk k => wf_chunk_item k
  | IAttach a data crc => wf_attach_item a data crc
  | IFooter ss sos crc => ss < two64 /\ sos < two64 /\ crc < two32 /\ len_ok 20
  end.

(* [IMagic]? ++ records ++ [IMagic]; the leading magic is absent exactly when the lexer is told
   not to expect it *)
Definition lead_magic : list item := if lo_skip_magic lo then [] else [IMagic].
Definition wf_file (items : list item) : Prop :=
  exists recs, items = lead_magic ++ recs ++ [IMagic] /\ Forall wf_item recs.

(* the observation of the attachment callback (CbFull) on an undamaged attachment *)
Definition attach_obs (a : attachment) (data : bytes) (crc : N) : attobs :=
  {| ao_log := a_log a; ao_create := a_create a; ao_name := a_name a; ao_media := a_media a;
     ao_size := a_size a; ao_data := data; ao_data_end := None;
     ao_computed := Ok (if lo_compute_acrc lo then crc32 (enc_attachment_fields a ++ data) else 0);
     ao_parsed := Ok crc |}.

Definition item_events (it : item) : list event :=
  match it with
  | IMagic => []
  | IRec op body => rec_events (op, body)
  | IChunk k =>
    if lo_emit_chunks lo then [EvToken OpChunk (enc_chunk k)]
    else concat (map rec_events (chunk_inner k))
  | IAttach a data crc =>
    match lo_cb lo with
    | CbFull => [EvAttachment (attach_obs a data crc)]
    | _ => []
    end
  | IFooter ss sos crc =>
    [EvToken OpFooter (enc_footer {| f_summary_start := ss; f_summary_offset_start := sos; f_crc := crc |})]
  end.

Definition file_events (items : list item) : list event := concat (map item_events items).

(* number of iterations of the loop in Lexer.Next an item costs: an explicit fuel bound *)
Definition item_steps (it : item) : nat :=
  match it with
  | IChunk k => if lo_emit_chunks lo then 1 else 2 + length (chunk_inner k)
  | _ => 1
  end.
Definition file_steps (items : list item) : nat := fold_right (fun it n => item_steps it + n)%nat 0%nat items.

End Spec.

(* ---------- truncation (C09) ---------- *)
(* the decoder, fed a proper prefix of a payload it can decode completely, delivers a prefix of the
   plaintext and then ends in any way (EOF, unexpected EOF, a decoder error), but it does not
   produce the lexer's private CRC error *)
Definition codec_prefix_ok (dstream : doracle) : Prop :=
  forall comp payload plain j,
    dstream comp payload None = (plain, None) -> (j < length payload)%nat ->
    exists n pe, dstream comp (firstn j payload) None = (firstn n plain, pe)
                 /\ pe <> Some EInvalidChunkCrc.

(* a truncated attachment observation: same header fields, a prefix of the data, and ParsedCRC
   fails, so the consumer can tell *)
Definition att_cut (cut full : attobs) : Prop :=
  ao_log cut = ao_log full /\ ao_create cut = ao_create full /\ ao_name cut = ao_name full
  /\ ao_media cut = ao_media full /\ ao_size cut = ao_size full
  /\ (exists more, ao_data full = ao_data cut ++ more)
  /\ (exists e, ao_parsed cut = Err e).

(* evs is a prefix of full, except that a last attachment event may be a cut version *)
Definition event_prefix (evs full : list event) : Prop :=
  (exists more, full = evs ++ more)
  \/ (exists common c f more, evs = common ++ [EvAttachment c]
        /\ full = common ++ EvAttachment f :: more /\ att_cut c f).

Definition is_prefix {A} (a b : list A) : Prop := exists more, b = a ++ more.

(* ---------- damage (C07) ---------- *)
(* the chunk k with its stored payload replaced; every header field is unchanged *)
Definition with_records (k : chunk) (r : bytes) : chunk :=
  {| k_start := k_start k; k_end := k_end k; k_usize := k_usize k; k_crc := k_crc k;
     k_comp := k_comp k; k_records := r |}.

(* what a 32-bit checksum cannot exclude: the decoder turns the damaged payload into different
   bytes of the same length and the same CRC-32 *)
Definition crc_collision (lo : lopts) (dstream : doracle) (k : chunk) (recs' : bytes) : Prop :=
  exists data extra,
    fst (chunk_stream lo dstream (k_comp k) recs' None) = data ++ extra
    /\ data <> chunk_plain lo dstream k
    /\ blen data = blen (chunk_plain lo dstream k)
    /\ crc32 data = crc32 (chunk_plain lo dstream k).

(* one content byte of an attachment replaced by a different byte: a data byte, a byte of the
   name or the media type, or one of the 8 bytes of the log time / create time.  The three
   length prefixes (name length, media-type length, data size) are NOT covered: a change there
   re-frames the record. *)
Definition att_with (a : attachment) (lt ct : N) (name media : bytes) : attachment :=
  {| a_log := lt; a_create := ct; a_name := name; a_media := media; a_size := a_size a; a_data := a_data a |}.

Inductive att_content_flip (a : attachment) (data : bytes) : attachment -> bytes -> Prop :=
| ACF_data d1 x y d2 :
    data = d1 ++ x :: d2 -> x <> y ->
    att_content_flip a data (att_with a (a_log a) (a_create a) (a_name a) (a_media a)) (d1 ++ y :: d2)
| ACF_name n1 x y n2 :
    a_name a = n1 ++ x :: n2 -> x <> y ->
    att_content_flip a data (att_with a (a_log a) (a_create a) (n1 ++ y :: n2) (a_media a)) data
| ACF_media m1 x y m2 :
    a_media a = m1 ++ x :: m2 -> x <> y ->
    att_content_flip a data (att_with a (a_log a) (a_create a) (a_name a) (m1 ++ y :: m2)) data
| ACF_log q1 x y q2 :
    u64 (a_log a) = q1 ++ x :: q2 -> x <> y ->
    att_content_flip a data (att_with a (unle (q1 ++ y :: q2)) (a_create a) (a_name a) (a_media a)) data
| ACF_create q1 x y q2 :
    u64 (a_create a) = q1 ++ x :: q2 -> x <> y ->
    att_content_flip a data (att_with a (a_log a) (unle (q1 ++ y :: q2)) (a_name a) (a_media a)) data.

(* the one way a damaged chunk can end the read with io.EOF: the decoder itself reports a clean end
   (or io.EOF as its error) without having delivered a single byte *)
Definition codec_reports_eof (lo : lopts) (dstream : doracle) (k : chunk) (recs' : bytes) : Prop :=
  let cs := chunk_stream lo dstream (k_comp k) recs' None in
  snd cs = Some EEOF \/ (snd cs = None /\ fst cs = []).
