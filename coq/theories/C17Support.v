(* C17Support.v - decidable comparisons and a hex decoder used by the generated conformance vectors. *)
From Coq Require Import List NArith ZArith Bool String Ascii.
From Coq.Strings Require Import Byte.
From Mcap Require Import Bytes GoSem Records Writer Lexer.
Import ListNotations.
Open Scope N_scope.

Definition hexval (a : ascii) : N :=
  let n := N_of_ascii a in
  if (48 <=? n) && (n <=? 57) then n - 48
  else if (97 <=? n) && (n <=? 102) then n - 87
  else if (65 <=? n) && (n <=? 70) then n - 55 else 0.

Fixpoint unhex (s : string) : bytes :=
  match s with
  | String a (String b r) => byte_of_N (16 * hexval a + hexval b) :: unhex r
  | _ => []
  end.

Definition outcomeN_eqb (a b : outcome N) : bool :=
  match a, b with
  | Ok x, Ok y => x =? y
  | Err x, Err y => err_eqb x y
  | _, _ => false
  end.
Definition opterr_eqb (a b : option err) : bool :=
  match a, b with None, None => true | Some x, Some y => err_eqb x y | _, _ => false end.

Definition attobs_eqb (a b : attobs) : bool :=
  (ao_log a =? ao_log b) && (ao_create a =? ao_create b) && bytes_eqb (ao_name a) (ao_name b)
  && bytes_eqb (ao_media a) (ao_media b) && (ao_size a =? ao_size b) && bytes_eqb (ao_data a) (ao_data b)
  && opterr_eqb (ao_data_end a) (ao_data_end b) && outcomeN_eqb (ao_computed a) (ao_computed b)
  && outcomeN_eqb (ao_parsed a) (ao_parsed b).

Definition event_eqb (a b : event) : bool :=
  match a, b with
  | EvToken o1 b1, EvToken o2 b2 => Byte.eqb o1 o2 && bytes_eqb b1 b2
  | EvInvalidChunk, EvInvalidChunk => true
  | EvAttachment x, EvAttachment y => attobs_eqb x y
  | _, _ => false
  end.
Fixpoint events_eqb (a b : list event) : bool :=
  match a, b with
  | [], [] => true
  | x :: a', y :: b' => event_eqb x y && events_eqb a' b'
  | _, _ => false
  end.

(* the lexer configuration of the streamed read-conformance tool: attachment callback reading all data *)
Definition conf_lopts : lopts :=
  {| lo_skip_magic := false; lo_validate := false; lo_compute_acrc := true; lo_emit_chunks := false;
     lo_emit_invalid := false; lo_max_record := 0; lo_max_chunk := 0; lo_cb := CbFull; lo_custom := [] |}.
Definition id_oracle : doracle := fun _ a e => (a, e).

Definition lex_ok (file : bytes) (expected : list event) : bool :=
  match lex_all conf_lopts id_oracle (S (List.length file)) {| r_buf := file; r_end := None; r_seek := true |} with
  | Ok (evs, e, _) => events_eqb evs expected && err_eqb e EEOF
  | _ => false
  end.

(* options of the write-conformance tool for a feature set *)
Definition conf_wopts (ch mx st rsh rch ax mdx chx sum : bool) : wopts :=
  {| o_crc := true; o_chunked := ch; o_chunksize := 0; o_comp := []; o_custom := false;
     o_skip_mi := negb mx; o_skip_stats := negb st; o_skip_rsh := negb rsh; o_skip_rch := negb rch;
     o_skip_ai := negb ax; o_skip_mdi := negb mdx; o_skip_ci := negb chx; o_skip_so := negb sum;
     o_override_lib := true; o_skip_magic := false |}.

Definition write_ok (o : wopts) (cs : list wcall) (expected : bytes) : bool :=
  let R := W o [] (fun _ x => x) None cs in
  match r_new R with
  | None => forallb (fun r => match fst r with None => true | Some _ => false end) (r_calls R)
            && bytes_eqb (file_of R) expected
  | Some _ => false
  end.
