(* BytesFacts.v — facts about the little-endian codecs. *)
From Coq Require Import List NArith ZArith Lia ZifyN ZifyNat Bool.
From Coq.Strings Require Import Byte.
From Mcap Require Import Bytes.
Import ListNotations.
Open Scope N_scope.
Ltac Zify.zify_post_hook ::= Z.div_mod_to_equations.

Lemma to_N_byte_of_N n : Byte.to_N (byte_of_N n) = n mod 256.
Proof.
  unfold byte_of_N.
  destruct (Byte.of_N (n mod 256)) eqn:E.
  - apply Byte.to_of_N in E. exact E.
  - exfalso. apply Byte.of_N_None_iff in E.
    pose proof (N.mod_lt n 256). lia.
Qed.

Lemma byte_of_N_to_N b : byte_of_N (Byte.to_N b) = b.
Proof.
  unfold byte_of_N. pose proof (Byte.to_N_bounded b).
  rewrite N.mod_small by lia. rewrite Byte.of_to_N. reflexivity.
Qed.

Lemma to_N_inj a b : Byte.to_N a = Byte.to_N b -> a = b.
Proof. intro H. rewrite <- (byte_of_N_to_N a), <- (byte_of_N_to_N b), H. reflexivity. Qed.

Lemma le_length n x : length (le n x) = n.
Proof. revert x; induction n; simpl; auto. Qed.

Lemma unle_le n x : unle (le n x) = x mod 2 ^ (8 * N.of_nat n).
Proof.
  revert x. induction n as [|n IH]; intro x.
  - simpl. rewrite N.mod_1_r. reflexivity.
  - cbn [le unle]. rewrite IH, to_N_byte_of_N.
    replace (8 * N.of_nat (S n)) with (8 + 8 * N.of_nat n) by lia.
    rewrite N.pow_add_r. change (2^8) with 256.
    rewrite N.mod_mul_r by (try lia; apply N.pow_nonzero; lia).
    lia.
Qed.

Lemma unle_bound bs : unle bs < 2 ^ (8 * N.of_nat (length bs)).
Proof.
  induction bs as [|b bs IH]; simpl length.
  - simpl. lia.
  - cbn [unle]. pose proof (Byte.to_N_bounded b).
    replace (8 * N.of_nat (S (length bs))) with (8 + 8 * N.of_nat (length bs)) by lia.
    rewrite N.pow_add_r. change (2^8) with 256. nia.
Qed.

Lemma byte_of_N_mod n : byte_of_N (n mod 256) = byte_of_N n.
Proof. unfold byte_of_N. rewrite N.mod_mod by lia. reflexivity. Qed.

Lemma le_unle bs : le (length bs) (unle bs) = bs.
Proof.
  induction bs as [|b bs IH]; cbn [length le unle]; auto.
  pose proof (Byte.to_N_bounded b).
  f_equal.
  - rewrite <- byte_of_N_mod.
    replace ((Byte.to_N b + 256 * unle bs) mod 256) with (Byte.to_N b).
    + apply byte_of_N_to_N.
    + lia.
  - replace ((Byte.to_N b + 256 * unle bs) / 256) with (unle bs); auto.
    lia.
Qed.

Lemma unle_u16 x : x < two16 -> unle (u16 x) = x.
Proof. intro H. unfold u16. rewrite unle_le. change (2 ^ (8 * N.of_nat 2)) with two16. apply N.mod_small, H. Qed.
Lemma unle_u32 x : x < two32 -> unle (u32 x) = x.
Proof. intro H. unfold u32. rewrite unle_le. change (2 ^ (8 * N.of_nat 4)) with two32. apply N.mod_small, H. Qed.
Lemma unle_u64 x : x < two64 -> unle (u64 x) = x.
Proof. intro H. unfold u64. rewrite unle_le. change (2 ^ (8 * N.of_nat 8)) with two64. apply N.mod_small, H. Qed.

Lemma u16_length x : length (u16 x) = 2%nat. Proof. apply le_length. Qed.
Lemma u32_length x : length (u32 x) = 4%nat. Proof. apply le_length. Qed.
Lemma u64_length x : length (u64 x) = 8%nat. Proof. apply le_length. Qed.

Lemma pstr_length s : length (pstr s) = (4 + length s)%nat.
Proof. unfold pstr. rewrite app_length, u32_length. reflexivity. Qed.

Lemma byte_eqb_eq a b : Byte.eqb a b = true <-> a = b.
Proof. apply Byte.byte_dec_bl || (split; [apply Byte.byte_dec_bl | apply Byte.byte_dec_lb]). Qed.

Lemma bytes_eqb_eq a : forall b, bytes_eqb a b = true <-> a = b.
Proof.
  induction a as [|x a IH]; intros [|y b]; cbn [bytes_eqb]; split; intro H; try congruence; try discriminate.
  - apply andb_true_iff in H. destruct H as [H1 H2].
    apply byte_eqb_eq in H1. apply IH in H2. congruence.
  - inversion H; subst. apply andb_true_iff. split; [apply byte_eqb_eq; reflexivity | apply IH; reflexivity].
Qed.

Lemma bytes_eqb_refl a : bytes_eqb a a = true.
Proof. apply bytes_eqb_eq. reflexivity. Qed.

(* firstn/skipn helpers used everywhere *)
Lemma firstn_app_exact {A} (a b : list A) : firstn (length a) (a ++ b) = a.
Proof. rewrite firstn_app, Nat.sub_diag, firstn_O, app_nil_r, firstn_all. reflexivity. Qed.
Lemma skipn_app_exact {A} (a b : list A) : skipn (length a) (a ++ b) = b.
Proof. rewrite skipn_app, Nat.sub_diag, skipn_all. reflexivity. Qed.
Lemma firstn_app_exact' {A} n (a b : list A) : n = length a -> firstn n (a ++ b) = a.
Proof. intros ->. apply firstn_app_exact. Qed.
Lemma skipn_app_exact' {A} n (a b : list A) : n = length a -> skipn n (a ++ b) = b.
Proof. intros ->. apply skipn_app_exact. Qed.

(* lexicographic order facts (sort.Strings) *)
Lemma bytes_ltb_irrefl a : bytes_ltb a a = false.
Proof. induction a as [|x a IH]; cbn [bytes_ltb]; auto. rewrite N.ltb_irrefl. exact IH. Qed.

Lemma bytes_ltb_trans a : forall b c, bytes_ltb a b = true -> bytes_ltb b c = true -> bytes_ltb a c = true.
Proof.
  induction a as [|x a IH]; intros [|y b] [|z c]; cbn [bytes_ltb]; try congruence; auto.
  destruct (N.ltb_spec (to_N x) (to_N y)), (N.ltb_spec (to_N y) (to_N x)),
           (N.ltb_spec (to_N y) (to_N z)), (N.ltb_spec (to_N z) (to_N y)),
           (N.ltb_spec (to_N x) (to_N z)), (N.ltb_spec (to_N z) (to_N x)); try congruence; try lia.
  apply IH.
Qed.

Lemma bytes_ltb_total a : forall b, bytes_ltb a b = false -> bytes_ltb b a = false -> a = b.
Proof.
  induction a as [|x a IH]; intros [|y b]; cbn [bytes_ltb]; try congruence; auto.
  destruct (N.ltb_spec (to_N x) (to_N y)), (N.ltb_spec (to_N y) (to_N x)); try congruence; try lia.
  intros H1 H2. f_equal; [apply to_N_inj; lia | apply IH; assumption].
Qed.

Lemma bytes_ltb_asym a b : bytes_ltb a b = true -> bytes_ltb b a = false.
Proof.
  intro H. destruct (bytes_ltb b a) eqn:E; auto.
  pose proof (bytes_ltb_trans _ _ _ H E) as T. rewrite bytes_ltb_irrefl in T. discriminate.
Qed.
