(* DecisionsW_gen.v - GENERATED on every run by tools/gen_decisions.py from the Go AST of /repo/go/mcap
   (writer.go) through tools/gotrans.
   Do not edit. Each definition is one boolean decision of the code, over the model's state. *)
From Coq Require Import List NArith ZArith Bool.
From Mcap Require Import Bytes GoSem Records Lexer Writer Reader.
Import ListNotations.

Definition go_notnil {A} (x : option A) : bool := match x with Some _ => true | None => false end.
Definition go_isnil {A} (x : option A) : bool := match x with Some _ => false | None => true end.

Definition go_w_unknown_channel (s : wstate) (m : message) : bool :=
  (go_isnil (assoc_get (m_chan m) (w_channels s))).
Definition go_w_in_chunk (o : wopts) (s : wstate) : bool :=
  (andb (o_chunked o) (negb (w_closed s))).
Definition go_w_cur_end_upd (s : wstate) (m : message) : bool :=
  (N.ltb (w_cur_end s) (m_log m)).
Definition go_w_cur_start_upd (s : wstate) (m : message) : bool :=
  (N.ltb (m_log m) (w_cur_start s)).
Definition go_w_flush (o : wopts) (s : wstate) : bool :=
  (Z.ltb (o_chunksize o) (Z.of_N (blen (w_cbuf s)))).
Definition go_w_st_end_upd (s : wstate) (m : message) : bool :=
  (N.ltb (w_st_end s) (m_log m)).
Definition go_w_st_start_upd (s : wstate) (m : message) : bool :=
  (orb (N.ltb (m_log m) (w_st_start s)) (N.leb (w_st_messages s) 1%N)).
