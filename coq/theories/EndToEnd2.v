(* EndToEnd2.v - C03 / C04 / C20 end to end over the writer model.

   EndToEnd.v relates the index-based read of a writer-produced file to the abstract iterator of
   Iter.v for the option lists without window and topics, and keeps only the permutation.  Here
     1. (section 2) the chunk descriptions the abstract theorems need are DERIVED from the writer
        facts (C05): every chunk's [start, end] bounds the log times of its messages (chunks_wf),
        start <= end (ranges_ok), the chunk offsets are pairwise different, and - unless message
        indexes are skipped - the message index offsets of a chunk index name every channel with a
        message in the chunk.  WriterFactsC.chunk_ok describes a chunk by SOME record list; it is
        tied to the records the reader decodes by the injectivity of framing (frames_inj) and the
        wire-format bounds of e2e_bounds (log times and channel ids are compared modulo 2^64 / 2^16);
     2. (section 5) the index-based read is unfolded for EVERY option list the dispatch sends to the
        indexed iterator (windows, topics, the three orders; no metadata callback): the summary prunes
        the chunk indexes by time and by topic (sm_fields_gen), the pruned list is loaded in ci_sort
        order, and the run refines the abstract run over the kept chunks (indexed_read_A, through
        EndToEnd.indexed_read_x_backward / forward); pruning drops no selected message
        (dropped_empty, kept_selection);
     3. (sections 5, 6) hence read_spec: the result is the selected (window /\ topic) part of the
        forced scan - equal to it in file order, sorted by log time with in-chunk ties in file order
        (reverse file order) in the two time orders -, and the number of chunk slots never exceeds
        max 1 (max_overlap of the file's chunk time ranges) (1 in file order); with the channel and
        schema records in the summary the read ends with io.EOF (indexed_read_A_eof);
     4. (section 8) the sequential scan with the same options returns the same selection
        (ascan_consistent_gen, scan_opts_filter), so in file order the result is identical with and
        without the index;
     5. (section 7) a run whose chunks overlap in time, with all hypotheses discharged and the reads
        computed by vm_compute.
   Nothing was found false of the model. *)
From Coq Require Import List NArith ZArith Bool Lia ZifyN ZifyNat ZifyBool Permutation Sorted PeanoNat.
From Coq.Strings Require Import Byte.
From RecordUpdate Require Import RecordSet.
From Mcap Require Import Bytes BytesFacts GoSem Crc32 Crc32Facts Records RecordsFacts Writer
  WriterFactsA WriterFactsB WriterFactsC.
From Mcap Require Import Lexer LexSpec LexerFactsB ComposeFacts Reader Iter ReaderFacts ReaderFacts2 EndToEnd.
From McapProps Require Import C02.
Import ListNotations RecordSetNotations.
Import E2E_Indexed E2E_Writer E2E_Scan.
Open Scope N_scope.
Ltac Zify.zify_post_hook ::= Z.div_mod_to_equations.

(* ====================================================================================== *)
(** * 0. small list facts *)

Lemma app_eq_len {A} (a a' b b' : list A) : length a = length a' -> a ++ b = a' ++ b' -> a = a' /\ b = b'.
Proof.
  revert a'. induction a as [|x a IH]; intros [|x' a'] HL H; try discriminate; cbn [app] in *.
  - auto.
  - injection H as -> H. injection HL as HL. destruct (IH a' HL H) as [-> ->]. auto.
Qed.

Lemma Forall2_concat_split {A B} (R : A -> B -> Prop) : forall (Ls : list (list B)) (l : list A),
  Forall2 R l (concat Ls) -> exists segs, l = concat segs /\ Forall2 (Forall2 R) segs Ls.
Proof.
  induction Ls as [|L Ls IH]; intros l H; cbn [concat] in H.
  - inversion H; subst. exists []. split; [reflexivity|constructor].
  - apply Forall2_app_inv_r in H. destruct H as (l1 & l2 & H1 & H2 & ->).
    destruct (IH l2 H2) as (segs & -> & HF). exists (l1 :: segs). split; [reflexivity|constructor; assumption].
Qed.

Lemma before_map {A B} (f : A -> B) a b l : before a b l -> before (f a) (f b) (map f l).
Proof.
  induction 1 as [l Hin|x l H IH]; cbn [map].
  - constructor. apply in_map. exact Hin.
  - apply bf_later, IH.
Qed.

(* `before` through a functional Forall2 *)
Lemma before_Forall2 {A B} (R : A -> B -> Prop) l m : Forall2 R l m ->
  forall a b, before a b l -> exists x y, R a x /\ R b y /\ before x y m.
Proof.
  induction 1 as [|t x l m Htx HF IH]; intros a b Hb; [inversion Hb|].
  inversion Hb as [l' Hin|t' l' Hb']; subst.
  - destruct (Forall2_in_l _ _ _ _ HF Hin) as (y & Hy & Rby). exists x, y. split; [exact Htx|]. split; [exact Rby|].
    constructor. exact Hy.
  - destruct (IH a b Hb') as (x' & y' & R1 & R2 & Hb2). exists x', y'. split; [exact R1|]. split; [exact R2|].
    apply bf_later, Hb2.
Qed.

Lemma Forall2_in_r {A B} (R : A -> B -> Prop) l l' b : Forall2 R l l' -> In b l' -> exists a, In a l /\ R a b.
Proof.
  induction 1 as [|x y l l' Hxy _ IH]; intro Hin; [destruct Hin|].
  destruct Hin as [->|Hin]; [exists x; split; [left; reflexivity|exact Hxy]|].
  destruct (IH Hin) as (a & Ha & Hr). exists a. split; [right; exact Ha|exact Hr].
Qed.

Lemma before_Forall2_r {A B} (R : A -> B -> Prop) l m : Forall2 R l m ->
  forall x y, before x y m -> exists a b, R a x /\ R b y /\ before a b l.
Proof.
  induction 1 as [|t x0 l m Htx HF IH]; intros x y Hb; [inversion Hb|].
  inversion Hb as [m' Hin|x' m' Hb']; subst.
  - destruct (Forall2_in_r _ _ _ _ HF Hin) as (b & Hbin & Rby). exists t, b. split; [exact Htx|]. split; [exact Rby|].
    constructor. exact Hbin.
  - destruct (IH x y Hb') as (a & b & R1 & R2 & Hb2). exists a, b. split; [exact R1|]. split; [exact R2|].
    apply bf_later, Hb2.
Qed.

Lemma Forall2_filter_fun {A B} (R : A -> B -> Prop) (p : A -> bool) (q : B -> bool) l m :
  Forall2 R l m -> (forall a b, R a b -> p a = q b) -> Forall2 R (filter p l) (filter q m).
Proof.
  intros H Hpq. induction H as [|a b l m Hab _ IH]; [constructor|]. cbn [filter].
  rewrite (Hpq a b Hab). destruct (q b); [constructor; assumption|exact IH].
Qed.

Lemma filter_map_swap {A B} (f : A -> B) (p : B -> bool) l : filter p (map f l) = map f (filter (fun x => p (f x)) l).
Proof. apply filter_map_comm. Qed.

(* ====================================================================================== *)
(** * 1. framed record lists are determined by their bytes *)

Lemma frames_inj a b :
  Forall (fun r : byte * bytes => blen (snd r) < two64) a -> Forall (fun r : byte * bytes => blen (snd r) < two64) b ->
  frames a = frames b -> a = b.
Proof.
  intros Ha Hb E.
  rewrite <- (split_records_frames a (length (frames a)) Ha (le_n _)).
  rewrite <- (split_records_frames b (length (frames a)) Hb) by (rewrite E; apply le_n).
  rewrite E. reflexivity.
Qed.

Lemma frames_small inner : blen (frames inner) < two64 -> Forall (fun r : byte * bytes => blen (snd r) < two64) inner.
Proof.
  intro H. apply Forall_forall. intros r Hr. pose proof (frames_body_le r inner Hr). lia.
Qed.

(* the messages among the records the writer put into a chunk *)
Definition cmsgs (recs : list WriterFactsC.crec) : list message :=
  flat_map (fun r => match r with CRMessage m => [m] | _ => [] end) recs.

Lemma msg_times_cmsgs recs : msg_times recs = map m_log (cmsgs recs).
Proof.
  unfold msg_times, cmsgs. induction recs as [|r recs IH]; [reflexivity|].
  cbn [flat_map]. rewrite map_app, IH. destruct r; reflexivity.
Qed.
Lemma in_cmsgs m recs : In m (cmsgs recs) <-> In (CRMessage m) recs.
Proof.
  unfold cmsgs. rewrite in_flat_map. split.
  - intros (r & Hr & Hm). destruct r; cbn in Hm; try contradiction. destruct Hm as [->|[]]. exact Hr.
  - intro H. exists (CRMessage m). split; [exact H|left; reflexivity].
Qed.

Lemma pairs_msgs_link : forall (A : list arec) (recs : list WriterFactsC.crec),
  map cpair recs = map apair A ->
  Forall2 (fun m m' => enc_message m = enc_message m') (amsgs A) (cmsgs recs).
Proof.
  induction A as [|a A IH]; intros [|r recs] H; try discriminate; [constructor|].
  cbn [map] in H. injection H as H1 H2. specialize (IH recs H2).
  destruct a, r; cbn [apair cpair] in H1;
    try (apply (f_equal fst) in H1; cbn [fst] in H1; discriminate); try exact IH.
  apply (f_equal snd) in H1. cbn [snd] in H1. cbn [amsgs cmsgs flat_map app]. constructor; [symmetry; exact H1|exact IH].
Qed.

Lemma u16_eq_mod a b : u16 a = u16 b -> a mod two16 = b mod two16.
Proof.
  intro H. pose proof (le_mod 2 a) as Ea. pose proof (le_mod 2 b) as Eb.
  change (2 ^ (8 * N.of_nat 2)) with two16 in *. fold (u16 a) (u16 (a mod two16)) in Ea. fold (u16 b) (u16 (b mod two16)) in Eb.
  rewrite <- (unle_u16 (a mod two16)), <- (unle_u16 (b mod two16)) by (apply N.mod_lt; discriminate).
  rewrite Ea, Eb, H. reflexivity.
Qed.
Lemma u64_eq_mod a b : u64 a = u64 b -> a mod two64 = b mod two64.
Proof.
  intro H. rewrite <- (unle_u64 (a mod two64)), <- (unle_u64 (b mod two64)) by (apply N.mod_lt; discriminate).
  rewrite !u64_mod, H. reflexivity.
Qed.

Lemma enc_message_fields m m' : enc_message m = enc_message m' ->
  m_chan m mod two16 = m_chan m' mod two16 /\ m_log m mod two64 = m_log m' mod two64.
Proof.
  unfold enc_message. intro H.
  apply app_eq_len in H; [|rewrite !u16_length; reflexivity]. destruct H as [H1 H].
  apply app_eq_len in H; [|rewrite !u32_length; reflexivity]. destruct H as [_ H].
  apply app_eq_len in H; [|rewrite !u64_length; reflexivity]. destruct H as [H3 _].
  split; [apply u16_eq_mod, H1|apply u64_eq_mod, H3].
Qed.

Lemma in_number base l a : In a (number base l) -> exists m, In m l /\ am_ts a = m_log m /\ am_chan a = m_chan m.
Proof.
  revert base. induction l as [|m l IH]; intros base H; [destruct H|]. cbn [number] in H.
  destruct H as [<-|H].
  - exists m. split; [left; reflexivity|split; reflexivity].
  - destruct (IH _ H) as (m' & Hm & E1 & E2). exists m'. split; [right; exact Hm|auto].
Qed.

(* keys survive the rebuilding of a uint16 -> uint64 map *)
Lemma nn_set_keys k v l k' : In k' (map fst (nn_set k v l)) <-> k' = k \/ In k' (map fst l).
Proof.
  induction l as [|x l IH]; cbn [nn_set map In fst].
  - intuition.
  - destruct (N.eqb_spec (fst x) k) as [E|E].
    + cbn [map In fst]. rewrite E. intuition.
    + destruct (k <? fst x); cbn [map In fst]; [intuition|]. rewrite IH. intuition.
Qed.
Lemma nn_build_from_keys l : forall acc k', In k' (map fst (nn_build_from acc l)) <-> In k' (map fst acc) \/ In k' (map fst l).
Proof.
  unfold nn_build_from. induction l as [|x l IH]; intros acc k'; cbn [fold_left map In].
  - intuition.
  - rewrite IH, nn_set_keys. intuition.
Qed.
Lemma nn_build_keys l k' : In k' (map fst (nn_build l)) <-> In k' (map fst l).
Proof. unfold nn_build. rewrite nn_build_from_keys. cbn [map In]. intuition. Qed.

(* ====================================================================================== *)
(** * 2. the chunks of a written file, described (C05 -> chunks_wf, ranges_ok, message index keys) *)

Section Described.
Variable ds : doracle.
Variable dall : dalloracle.
Variable o : wopts.
Variable lib : bytes.
Variable compress : nat -> bytes -> bytes.
Variable hd : header.
Variable cs : list wcall.

Let eo := effective_opts o.
Let w := W o lib compress None (CHeader hd :: cs ++ [CClose]).
Let s := r_final w.
Let F := file_of w.

Hypothesis Hwf : Forall call_wf cs.
Hypothesis Hnh : no_header cs.
Hypothesis Hok : all_ok w.
Hypothesis Hcodec : codec_ok ds dall (o_comp o) compress.
Hypothesis Hcomp : comp_ok o compress.
Hypothesis Hsmall : Forall call_small cs.
Hypothesis Hsize : blen F < two63.
Hypothesis Hbounds : e2e_bounds w.

Variable D : list sitem.
Variable de : bytes.
Variables ss sos crc : N.
Hypothesis HS : Shape o lib compress hd cs D de ss sos crc.

Let CK := schunks (offset_of (file_prefix eo lib hd)) D.

Variable As : list (list arec).
Hypothesis HA1 : concat As = auto_recs cs.
Hypothesis HA2 : Forall2 (fun ck Ak => chunk_decodes ds dall (snd (fst ck)) (map apair Ak)) CK As.
Hypothesis Hch : o_chunked eo = true.

Let ZL := zipb 0 CK As.

Lemma z_recs z : In z ZL ->
  exists recs, map cpair recs = map apair (cd_A z) /\
    (k_start (cd_k z), k_end (cd_k z)) = chunk_times (msg_times recs) /\
    mis_ok eo recs (cd_mis z).
Proof.
  intro Hz.
  destruct (ZL_props ds dall o lib hd cs D As HA1 HA2 z Hz) as (Hin & Hdec & _).
  destruct (chunk_fits ds dall o lib compress hd cs Hbounds D de ss sos crc HS As HA1 HA2 z Hz) as [Wk Hlt].
  destruct (in_schunks _ _ _ Hin) as (Sa & Sb & ED & _). cbn [cd_ck fst snd] in ED.
  destruct (shape_data_ok o lib compress hd cs D de ss sos crc HS) as (_ & HK & _).
  pose proof (chunks_ok_split eo compress D 0%nat Sa _ _ Sb HK ED) as (recs & R1 & R2 & _ & R4 & _ & R6 & R7).
  exists recs. split; [|split; assumption].
  destruct Hdec as (Hs & _ & Hu & _).
  rewrite R4, R1 in Hs.
  rewrite (stream_decodes ds dall eo compress (Hcodec_eff ds dall o compress Hcodec)
             (fun _ => Hcomp_eff o compress Hcomp Hch) Hch) in Hs.
  injection Hs as Hs. rewrite plain_of_frames in Hs.
  apply frames_inj; [| |exact Hs].
  - apply frames_small. rewrite <- plain_of_frames, <- R2. unfold max_int32, two64 in *. lia.
  - apply frames_small. rewrite <- Hu. unfold max_int32, two64 in *. lia.
Qed.

Lemma z_msgs_wf z : In z ZL -> Forall wf_message (amsgs (cd_A z)).
Proof.
  intro Hz. pose proof (zipb_A_in CK As 0%nat z Hz) as HA.
  pose proof (wf_auto_recs cs Hwf) as W. rewrite <- HA1 in W.
  apply Forall_forall. intros m Hm. unfold amsgs in Hm. apply in_flat_map in Hm.
  destruct Hm as (a & Ha & Hm). destruct a; cbn in Hm; try contradiction. destruct Hm as [<-|[]].
  rewrite Forall_forall in W. apply (W (AMessage m0)). apply in_concat. exists (cd_A z). split; assumption.
Qed.

Lemma z_ci_wf z : In z ZL -> wf_chunkindex (mk_ci (cd_k z) (cd_mis z) (cd_off z)).
Proof.
  intro Hz. destruct (ZL_props ds dall o lib hd cs D As HA1 HA2 z Hz) as (Hin & _).
  assert (HB : Forall wf_chunkindex (w_chunk_indexes (r_final (W o lib compress None (CHeader hd :: cs ++ [CClose])))))
    by apply Hbounds.
  rewrite (cis_w_eq o lib compress hd cs D de ss sos crc HS) in HB. rewrite Forall_forall in HB.
  apply (HB (mk_ci (cd_k z) (cd_mis z) (cd_off z))). apply in_map_iff. exists (cd_ck z). split; [reflexivity|exact Hin].
Qed.

(* every message of the chunk: its log time lies in the chunk's time range, and (unless message indexes
   are skipped) its channel has a message index offset in the chunk index *)
Lemma z_described z : In z ZL ->
  chunk_wf (cd_ac z) /\ ac_start (cd_ac z) <= ac_end (cd_ac z) /\
  (ci_mioffsets (cd_ci z) = [] \/
   forall a, In a (ac_msgs (cd_ac z)) -> exists kv, In kv (ci_mioffsets (cd_ci z)) /\ fst kv = am_chan a).
Proof.
  intro Hz. destruct (z_recs z Hz) as (recs & Hp & Ht & Hm).
  pose proof (pairs_msgs_link _ _ Hp) as HL. pose proof (z_msgs_wf z Hz) as HW.
  destruct (chunk_fits ds dall o lib compress hd cs Hbounds D de ss sos crc HS As HA1 HA2 z Hz) as [(Ws & We & _) _].
  rewrite msg_times_cmsgs in Ht.
  assert (Hlog : forall m, In m (amsgs (cd_A z)) ->
            k_start (cd_k z) <= m_log m <= k_end (cd_k z) /\
            exists m', In m' (cmsgs recs) /\ m_log m' = m_log m /\ m_chan m' mod two16 = m_chan m).
  { intros m Hin. destruct (Forall2_in_l _ _ _ _ HL Hin) as (m' & Hm' & He).
    apply enc_message_fields in He. destruct He as [Ec El].
    rewrite Forall_forall in HW. destruct (HW m Hin) as (W1 & _ & W3 & _).
    unfold chunk_times in Ht. destruct (map m_log (cmsgs recs)) as [|t0 ts] eqn:E.
    { destruct (cmsgs recs); [destruct Hm'|discriminate]. }
    rewrite <- E in Ht. injection Ht as Hs He.
    destruct (fold_min_spec (map m_log (cmsgs recs)) max_u64) as (_ & A2 & _).
    destruct (fold_max_spec (map m_log (cmsgs recs)) 0) as (_ & B2 & _). cbv zeta in A2, B2.
    rewrite <- Hs in A2. rewrite <- He in B2. rewrite Forall_forall in A2, B2.
    pose proof (A2 _ (in_map m_log _ _ Hm')) as L1. pose proof (B2 _ (in_map m_log _ _ Hm')) as L2.
    assert (El' : m_log m' = m_log m).
    { rewrite (N.mod_small (m_log m)) in El by exact W3. rewrite N.mod_small in El by lia. symmetry. exact El. }
    split; [rewrite <- El'; split; assumption|]. exists m'. split; [exact Hm'|]. split; [exact El'|].
    rewrite (N.mod_small (m_chan m)) in Ec by exact W1. symmetry. exact Ec. }
  split; [|split].
  - unfold chunk_wf. apply Forall_forall. intros a Ha. cbn [cd_ac ac_msgs ac_start ac_end] in *.
    destruct (in_number _ _ _ Ha) as (m & Hin & E1 & _). rewrite E1. apply Hlog, Hin.
  - cbn [cd_ac ac_start ac_end]. destruct (amsgs (cd_A z)) as [|m l] eqn:E.
    + assert (E' : cmsgs recs = []) by (inversion HL; reflexivity).
      rewrite E' in Ht. cbn [map chunk_times] in Ht. injection Ht as -> ->. lia.
    + destruct (Hlog m (or_introl eq_refl)) as [L _]. lia.
  - unfold mis_ok in Hm. destruct (o_skip_mi eo) eqn:Esk.
    + left. unfold cd_ci. rewrite Hm. reflexivity.
    + right. destruct Hm as (_ & _ & Hcov). intros a Ha. cbn [cd_ac ac_msgs] in Ha.
      destruct (in_number _ _ _ Ha) as (m & Hin & _ & E2). rewrite E2.
      destruct (Hlog m Hin) as (_ & m' & Hm' & _ & Ec).
      pose proof (Hcov m' (proj1 (in_cmsgs m' recs) Hm')) as Hk.
      destruct (z_ci_wf z Hz) as (_ & _ & _ & _ & Wnn & _). cbn [mk_ci ci_mioffsets] in Wnn.
      rewrite <- (mi_offsets_chans (cd_mis z) (cd_off z + blen (render_item (IChunk (cd_k z))))) in Hk.
      assert (Hlt : m_chan m' < two16).
      { apply in_map_iff in Hk. destruct Hk as (kv & Ekv & Hkv). rewrite Forall_forall in Wnn.
        destruct (Wnn kv Hkv) as [Wk _]. rewrite Ekv in Wk. exact Wk. }
      rewrite N.mod_small in Ec by exact Hlt. rewrite Ec in Hk.
      assert (Hk' : In (m_chan m) (map fst (ci_mioffsets (cd_ci z)))).
      { unfold cd_ci, chunkindex_norm. cbn [ci_mioffsets mk_ci]. apply nn_build_keys. exact Hk. }
      apply in_map_iff in Hk'. destruct Hk' as (kv & E & Hkv). exists kv. auto.
Qed.

Lemma cks_wf : chunks_wf (map cd_ac ZL).
Proof. apply Forall_forall. intros c Hc. apply in_map_iff in Hc. destruct Hc as (z & <- & Hz). apply z_described, Hz. Qed.
Lemma cks_ranges : ranges_ok (map cd_ac ZL).
Proof. apply Forall_forall. intros c Hc. apply in_map_iff in Hc. destruct Hc as (z & <- & Hz). apply z_described, Hz. Qed.
Lemma cks_offsets : NoDup (map ac_off (map cd_ac ZL)).
Proof. apply file_ordered_nodup. exact (cks_file_ordered ds dall o lib compress hd cs D de ss sos crc HS As HA2). Qed.

End Described.

(* ====================================================================================== *)
(** * 3. a kept sublist of described chunks *)

Lemma zl_match (ZL : list cdesc) : forall L, incl L ZL ->
  Forall2 (ci_match (map (fun z => (cd_ci z, cd_ac z)) ZL)) (map cd_ci L) (map cd_ac L).
Proof.
  induction L as [|z L IH]; intro Hincl; [constructor|]. cbn [map]. constructor.
  - split; [|repeat split]. apply in_map_iff. exists z. split; [reflexivity|]. apply Hincl. left. reflexivity.
  - apply IH. intros x Hx. apply Hincl. right. exact Hx.
Qed.

Lemma file_ordered_kept (keep : cdesc -> bool) ZL :
  file_ordered (map cd_ac ZL) -> file_ordered (map cd_ac (filter keep ZL)).
Proof.
  unfold file_ordered. induction ZL as [|z ZL IH]; intro H; [constructor|].
  cbn [map] in H. inversion H as [|? ? H1 H2]; subst. cbn [filter].
  destruct (keep z); [|apply IH, H1]. cbn [map]. constructor; [apply IH, H1|].
  rewrite Forall_forall in *. intros c Hc. apply H2. apply in_map_iff in Hc. destruct Hc as (y & <- & Hy).
  apply in_map. apply filter_In in Hy. apply Hy.
Qed.

Lemma max_overlap_le (l l' : list achunk) :
  (forall p, (overlap_at l' p <= overlap_at l p)%nat) -> (max_overlap l' <= max_overlap l)%nat.
Proof.
  intro H. destruct (max_overlap_attained l') as [E|(p & E)]; [lia|].
  rewrite <- E. etransitivity; [apply H|apply overlap_at_le_max].
Qed.

Lemma max_overlap_kept (keep : cdesc -> bool) ZL :
  (max_overlap (map cd_ac (filter keep ZL)) <= max_overlap (map cd_ac ZL))%nat.
Proof.
  apply max_overlap_le. intro p. unfold overlap_at.
  induction ZL as [|z ZL IH]; [apply le_n|]. cbn [filter map].
  destruct (keep z); cbn [map filter]; destruct (contains p (cd_ac z)); cbn [length]; lia.
Qed.

Lemma kept_selection (sel : amsg -> bool) (keep : cdesc -> bool) ZL :
  (forall z, In z ZL -> keep z = false -> filter sel (ac_msgs (cd_ac z)) = []) ->
  filter sel (all_msgs (map cd_ac (filter keep ZL))) = filter sel (all_msgs (map cd_ac ZL)).
Proof.
  intro H. unfold all_msgs. induction ZL as [|z ZL IH]; [reflexivity|].
  assert (IH' : filter sel (concat (map ac_msgs (map cd_ac (filter keep ZL))))
                = filter sel (concat (map ac_msgs (map cd_ac ZL)))).
  { apply IH. intros y Hy. apply H. right. exact Hy. }
  cbn [filter map concat]. rewrite filter_app. destruct (keep z) eqn:K.
  - cbn [map concat]. rewrite filter_app, IH'. reflexivity.
  - rewrite (H z (or_introl eq_refl) K), IH'. reflexivity.
Qed.

(* the overlap count depends on the time ranges only *)
Definition ci_range (ci : chunkindex) : achunk :=
  {| ac_start := ci_start ci; ac_end := ci_end ci; ac_off := ci_offset ci; ac_msgs := [] |}.

Lemma max_overlap_ranges (l l' : list achunk) :
  map (fun c => (ac_start c, ac_end c)) l = map (fun c => (ac_start c, ac_end c)) l' ->
  max_overlap l = max_overlap l'.
Proof.
  intro H.
  assert (Hov : forall p, overlap_at l p = overlap_at l' p).
  { intro p. unfold overlap_at. revert l' H. induction l as [|c l IH]; intros [|c' l'] H; try discriminate; [reflexivity|].
    cbn [map] in H. injection H as H1 H2 H3. cbn [filter]. specialize (IH l' H3).
    assert (Ec : contains p c = contains p c') by (unfold contains; rewrite H1, H2; reflexivity).
    rewrite Ec. destruct (contains p c'); cbn [length]; rewrite IH; reflexivity. }
  assert (He : endpoints l = endpoints l').
  { assert (E1 : forall k, map ac_start k = map fst (map (fun c => (ac_start c, ac_end c)) k))
      by (intro k; rewrite map_map; reflexivity).
    assert (E2 : forall k, map ac_end k = map snd (map (fun c => (ac_start c, ac_end c)) k))
      by (intro k; rewrite map_map; reflexivity).
    unfold endpoints. rewrite !E1, !E2, H. reflexivity. }
  unfold max_overlap. rewrite He. f_equal. apply map_ext. exact Hov.
Qed.

(* ====================================================================================== *)
(** * 4. the channel table of a summary read with a topic filter *)

Lemma find_filter_nodup {A} (key : A -> N) (p : A -> bool) id (l : list A) : NoDup (map key l) ->
  find (fun y => key y =? id) (filter p l)
  = match find (fun y => key y =? id) l with Some x => if p x then Some x else None | None => None end.
Proof.
  induction l as [|y l IH]; intro Hn; [reflexivity|]. cbn [map] in Hn. inversion Hn as [|? ? Hy Hn']; subst.
  specialize (IH Hn'). cbn [filter find]. destruct (N.eqb_spec (key y) id) as [E|E].
  - destruct (p y) eqn:P; [cbn [find]; rewrite E, N.eqb_refl; reflexivity|].
    destruct (find (fun y0 => key y0 =? id) (filter p l)) as [x|] eqn:Ef; [|reflexivity].
    apply find_some in Ef. destruct Ef as [Hin Hk]. apply filter_In in Hin. destruct Hin as [Hin _].
    apply N.eqb_eq in Hk. exfalso. apply Hy. rewrite E, <- Hk. apply in_map, Hin.
  - destruct (p y); [cbn [find]; destruct (N.eqb_spec (key y) id); [contradiction|]|]; exact IH.
Qed.

Lemma tab_lookup_filter {A} (key : A -> N) (norm : A -> A) (p : A -> bool) (T : list (N * A)) id :
  (forall x, key (norm x) = key x) -> NoDup (map fst T) -> Forall (fun q => fst q = key (snd q)) T ->
  tab_get id (tab_of key (filter p (map norm (map snd T))) [])
  = match assoc_get id T with Some x => if p (norm x) then Some (norm x) else None | None => None end.
Proof.
  intros Hk Hn Hkeyed.
  assert (Hkeys : map key (map norm (map snd T)) = map fst T).
  { rewrite !map_map. apply map_ext_in. intros q Hq. rewrite Forall_forall in Hkeyed. rewrite Hk. symmetry. apply Hkeyed, Hq. }
  assert (Hnd : NoDup (map key (map norm (map snd T)))) by (rewrite Hkeys; exact Hn).
  pose proof (tab_lookup key norm T id Hk Hn Hkeyed) as H0.
  rewrite tab_get_tab_of, find_rev_nodup in H0 by exact Hnd. cbn [tab_get] in H0.
  rewrite tab_get_tab_of, find_rev_nodup by (apply NoDup_map_filter, Hnd). cbn [tab_get].
  rewrite find_filter_nodup by exact Hnd.
  destruct (find (fun x => key x =? id) (map norm (map snd T))) as [x|]; destruct (assoc_get id T) as [x0|];
    cbn [option_map] in H0; try discriminate; [|reflexivity].
  injection H0 as ->. destruct (p (norm x0)); reflexivity.
Qed.

(* ====================================================================================== *)
(** * 5. the index-based read of a written file, for every option list *)

(* parseSummarySection keeps a chunk index when its time range meets the window and, if topics were
   given, when one of its message index offsets belongs to a selected channel *)
Definition prune_cis (r : ropts) (chans : list (N * channel)) (l : list chunkindex) : list chunkindex :=
  match ro_topics r with
  | [] => filter (ci_time_ok r false) l
  | _ => filter (ci_topic_ok chans) (filter (ci_time_ok r false) l)
  end.
Definition keep_ci (r : ropts) (chans : list (N * channel)) (ci : chunkindex) : bool :=
  ci_time_ok r false ci && match ro_topics r with [] => true | _ => ci_topic_ok chans ci end.
Lemma prune_cis_filter r chans l : prune_cis r chans l = filter (keep_ci r chans) l.
Proof.
  unfold prune_cis, keep_ci. destruct (ro_topics r).
  - apply filter_ext. intro ci. rewrite andb_true_r. reflexivity.
  - induction l as [|ci l IH]; [reflexivity|]. cbn [filter]. destruct (ci_time_ok r false ci); cbn [filter andb]; rewrite IH; reflexivity.
Qed.

(* selection of a yielded triple: the topic of its channel and its log time *)
Definition tsel (r : ropts) (t : triple) : bool :=
  topic_selected (ro_topics r) (c_topic (snd (fst t))) && in_window r (m_log (snd t)).

(* what a complete index-based read (result ri, options r) returns, relative to the forced scan rs of the
   same file and to the chunk indexes cis of its summary *)
Definition read_spec (cis : list chunkindex) (r : ropts) (ri rs : readres) : Prop :=
  (* none missing, none extra, each once *)
  Permutation (rr_msgs ri) (filter (tsel r) (rr_msgs rs)) /\
  (* file order: the same list; one chunk slot *)
  (ro_order r = FileOrder ->
     rr_msgs ri = filter (tsel r) (rr_msgs rs) /\
     (fst (rr_slots ri) <= 1)%nat /\ (snd (rr_slots ri) <= 1)%nat) /\
  (* log-time order (d = true) and reverse log-time order (d = false) *)
  (forall d, ro_order r = order_of d ->
     StronglySorted (fun a b => led d (log_of a) (log_of b)) (rr_msgs ri) /\
     (exists segs : list (list triple),
        concat segs = rr_msgs rs /\
        Forall2 (fun seg ci => Forall (fun t => ci_start ci <= log_of t <= ci_end ci) seg) segs cis /\
        forall seg t1 t2, In seg segs -> before t1 t2 seg -> log_of t1 = log_of t2 ->
          tsel r t1 = true -> tsel r t2 = true ->
          if d then before t1 t2 (rr_msgs ri) else before t2 t1 (rr_msgs ri)) /\
     (fst (rr_slots ri) <= Nat.max 1 (max_overlap (map ci_range cis)))%nat /\
     (snd (rr_slots ri) <= Nat.max 1 (max_overlap (map ci_range cis)))%nat).

(* ---------- generic helpers ---------- *)
Lemma Forall2_map_r_inv {A B C} (R : A -> C -> Prop) (g : B -> C) l : forall l',
  Forall2 R l (map g l') -> Forall2 (fun a b => R a (g b)) l l'.
Proof.
  induction l as [|a l IH]; intros [|b l'] H; inversion H; subst; constructor; auto.
Qed.

Lemma number_M (Mf : nat -> message) : forall l base a, In a (number base l) ->
  (forall j m, nth_error l j = Some m -> Mf (base + j)%nat = m) ->
  In (Mf (am_uid a)) l /\ am_ts a = m_log (Mf (am_uid a)) /\ am_chan a = m_chan (Mf (am_uid a)).
Proof.
  induction l as [|m l IH]; intros base a Ha HM; [destruct Ha|]. cbn [number] in Ha. destruct Ha as [<-|Ha].
  - cbn [am_uid am_ts am_chan]. pose proof (HM O m eq_refl) as E. rewrite Nat.add_0_r in E. rewrite E.
    split; [left; reflexivity|split; reflexivity].
  - destruct (IH (S base) a Ha) as (I1 & I2 & I3).
    + intros j m' Hj. replace (S base + j)%nat with (base + S j)%nat by lia. apply HM. exact Hj.
    + split; [right; exact I1|split; assumption].
Qed.

Lemma sorted_transport {A B} (P : A -> B -> Prop) (RA : A -> A -> Prop) (RB : B -> B -> Prop) l m :
  Forall2 P l m -> (forall a b a' b', P a b -> P a' b' -> RB b b' -> RA a a') ->
  StronglySorted RB m -> StronglySorted RA l.
Proof.
  intros HF Himp. induction HF as [|a b l m Hab HF IH]; intro Hst; [constructor|].
  inversion Hst as [|? ? Hst' Hb]; subst. constructor; [apply IH, Hst'|].
  apply Forall_forall. intros a' Ha'. destruct (Forall2_in_l _ _ _ _ HF Ha') as (b' & Hb' & Pab').
  rewrite Forall_forall in Hb. eapply Himp; eauto.
Qed.

Lemma mk_summary_fields_if sch chs sts cis ais mxs (sk : bool) (offs : list sumoffset) :
  let rs := map fst (mk_summary sch chs sts cis ais mxs ++
                     (if sk then [] else map (fun so => (so_srec so, [])) offs)) in
  schemas_of rs = sch /\ channels_of rs = map channel_norm chs /\ stats_of rs = map statistics_norm sts /\
  cis_of rs = map chunkindex_norm cis /\ ais_of rs = ais /\ mxs_of rs = mxs.
Proof.
  destruct sk; [exact (mk_summary_fields sch chs sts cis ais mxs [])|exact (mk_summary_fields sch chs sts cis ais mxs offs)].
Qed.

Section Read.
Variable ds : doracle.
Variable dall : dalloracle.
Variable o : wopts.
Variable lib : bytes.
Variable compress : nat -> bytes -> bytes.
Variable hd : header.
Variable cs : list wcall.

Let eo := effective_opts o.
Let w := W o lib compress None (CHeader hd :: cs ++ [CClose]).
Let s := r_final w.
Let F := file_of w.

Hypothesis Hwf : Forall call_wf cs.
Hypothesis Hnh : no_header cs.
Hypothesis Hok : all_ok w.
Hypothesis Hcodec : codec_ok ds dall (o_comp o) compress.
Hypothesis Hcomp : comp_ok o compress.
Hypothesis Hsmall : Forall call_small cs.
Hypothesis Hcons : ids_consistent cs.
Hypothesis Hsize : blen F < two63.
Hypothesis Hbounds : e2e_bounds w.
Hypothesis Hfuel : e2e_fuel ds w.

Variable D : list sitem.
Variable de : bytes.
Variables ss sos crc : N.
Hypothesis HS : Shape o lib compress hd cs D de ss sos crc.

Let sch' := if o_skip_rsh eo then [] else map snd (w_schemas s).
Let chs' := if o_skip_rch eo then [] else map snd (w_channels s).
Let cis' := if o_skip_ci eo then [] else w_chunk_indexes s.
Let smr (r : ropts) : summ := sm_of o lib compress hd cs D de ss sos crc r false.
Let L_all := auto_recs cs ++ map ASchema sch' ++ map AChannel chs'.
Let M (uid : nat) : message := nth uid (messages_of cs) dmsg.

Lemma sm_fields_gen r :
  sm_schemas (smr r) = tab_of s_id sch' [] /\
  sm_channels (smr r) = tab_of c_id (filter (chan_sel r) (map channel_norm chs')) [] /\
  sm_cis (smr r) = ci_sort (ro_order r) (prune_cis r (sm_channels (smr r)) (map chunkindex_norm cis')).
Proof.
  unfold smr, sm_of.
  match goal with |- context[summ_finish r (fold_left (summ_step r false) ?rs (empty_summ <| sm_footer := Some ?ft |>))] =>
    destruct (summ_result_fields r false rs ft) as (F1 & F2 & _ & F4 & _) end.
  rewrite F2 at 2. rewrite F1, F2, F4. clear F1 F2 F4.
  match goal with |- context[mk_summary ?a ?b ?c ?d ?e ?f ++ (if ?sk then [] else map _ ?offs)] =>
    destruct (mk_summary_fields_if a b c d e f sk offs) as (M1 & M2 & _ & M4 & _)
  end.
  cbv zeta in M1, M2, M4. rewrite M1, M2, M4. unfold prune_cis. repeat split; reflexivity.
Qed.

(* the channel table of the summary, with the topic filter *)
Lemma sm_chan_lookup_gen r id : o_skip_rch eo = false ->
  tab_get id (sm_channels (smr r)) =
  match call_chan cs id with
  | Some c => if topic_selected (ro_topics r) (c_topic c) then Some (channel_norm c) else None
  | None => None
  end.
Proof.
  intro Hk. destruct (sm_fields_gen r) as (_ & Fc & _). rewrite Fc. unfold chs'. rewrite Hk.
  rewrite <- (w_chan_lookup o lib compress hd cs Hwf Hnh Hok id).
  destruct (EndToEnd.run_tables o lib compress hd cs Hwf Hnh Hok) as (_ & _ & _ & (_ & K2) & _).
  rewrite (tab_lookup_filter c_id channel_norm (chan_sel r) _ id);
    [|reflexivity|exact (w_channels_nodup o lib compress hd cs Hwf Hnh Hok)|exact K2].
  destruct (assoc_get id _); reflexivity.
Qed.

(* a triple the indexed iterator hands out is the triple the scan hands out for the same message *)
Lemma tr_opt_triple_gen r m t : o_skip_rch eo = false ->
  tr_opt (smr r) m = Some t -> triple_of L_all m = Some t.
Proof.
  intros Hk. unfold tr_opt, triple_of. rewrite (sm_chan_lookup_gen r _ Hk).
  unfold L_all, sch', chs'. rewrite (chan_of_L_all o lib compress hd cs Hwf Hnh Hok).
  destruct (call_chan cs (m_chan m)) as [c|]; [|discriminate].
  destruct (topic_selected (ro_topics r) (c_topic c)); [|discriminate].
  destruct (sm_fields_gen r) as (Fs & _).
  rewrite (sm_schema_lookup o lib compress hd cs Hwf Hnh Hok (smr r) _ Fs),
          (schema_of_L_all o lib compress hd cs Hwf Hnh Hok).
  change (c_schema (channel_norm c)) with (c_schema c). fold eo.
  destruct (o_skip_rsh eo); [|auto].
  destruct (N.eqb_spec (c_schema c) 0) as [E0|E0]; [|discriminate].
  rewrite E0, (call_schema_0 o lib compress hd cs Hwf Hnh Hok). auto.
Qed.

(* the selection test of the iterator, in terms of the triple *)
Lemma msel_tsel r m t : o_skip_rch eo = false -> In m (messages_of cs) ->
  triple_of L_all m = Some t -> msel (sm_channels (smr r)) r m = tsel r t.
Proof.
  intros Hk Hin. unfold msel, known_chan, tsel, triple_of. rewrite (sm_chan_lookup_gen r _ Hk).
  unfold L_all, sch', chs'. rewrite (chan_of_L_all o lib compress hd cs Hwf Hnh Hok).
  destruct (call_chan cs (m_chan m)) as [c|]; [|discriminate].
  intro Ht.
  assert (E : c_topic (snd (fst t)) = c_topic c /\ snd t = m).
  { destruct (schema_of _ (c_schema c)); [injection Ht as <-; auto|].
    destruct (c_schema c =? 0); [injection Ht as <-; auto|discriminate]. }
  destruct E as [-> ->]. destruct (topic_selected (ro_topics r) (c_topic c)); reflexivity.
Qed.

Lemma tr_opt_msg r m t : tr_opt (smr r) m = Some t -> snd t = m.
Proof.
  unfold tr_opt. destruct (tab_get _ _) as [c|]; [|discriminate].
  destruct (tab_get (c_schema c) _); [intro H; injection H as <-; reflexivity|].
  destruct (c_schema c =? 0); [intro H; injection H as <-; reflexivity|discriminate].
Qed.

Let sel (r : ropts) : amsg -> bool := tw_sel (sm_channels (smr r)) r.
Let size : nat := N.to_nat (fs_size (mem_file F)).
Let CK := schunks (offset_of (file_prefix eo lib hd)) D.

(* ---------- the file has chunk indexes ---------- *)
Section Chunked.
Variable As : list (list arec).
Hypothesis HA1 : concat As = auto_recs cs.
Hypothesis HA2 : Forall2 (fun ck Ak => chunk_decodes ds dall (snd (fst ck)) (map apair Ak)) CK As.
Hypothesis Hch : o_chunked eo = true.
Hypothesis Hci : cis' = w_chunk_indexes s.

Let ZL := zipb 0 CK As.
Let pairs := map (fun z => (cd_ci z, cd_ac z)) ZL.
Let keepz (r : ropts) (z : cdesc) : bool := keep_ci r (sm_channels (smr r)) (cd_ci z).

Lemma dropped_empty r z : In z ZL -> keepz r z = false -> filter (sel r) (ac_msgs (cd_ac z)) = [].
Proof.
  intros Hz K.
  destruct (z_described ds dall o lib compress hd cs Hwf Hcodec Hcomp Hsize Hbounds D de ss sos crc HS As HA1 HA2 Hch z Hz)
    as (Wc & _ & Hidx).
  apply filter_none. apply Forall_forall. intros a Ha. unfold sel, tw_sel.
  unfold keepz, keep_ci in K. apply andb_false_iff in K. destruct K as [K|K].
  - rewrite (C04_pruning_time_thm r (cd_ci z) (cd_ac z) eq_refl eq_refl Wc K a Ha). apply andb_false_r.
  - destruct (ro_topics r) as [|tp tps]; [discriminate|].
    destruct Hidx as [E0|Hidx]; [unfold ci_topic_ok in K; rewrite E0 in K; discriminate|].
    rewrite (C04_pruning_topic_thm (sm_channels (smr r)) (cd_ci z) (cd_ac z) Hidx K a Ha). reflexivity.
Qed.

Lemma indexed_read_A os r ri : o_skip_magic eo = false ->
  messages_dispatch ds (mem_file F) os = Ok (MIndexed, r) -> ro_md_cb r = false ->
  read_messages ds dall (mem_file F) os = Ok ri ->
  rr_mode ri = Some MIndexed /\
  (rr_end ri = EEOF ->
   exists out,
     a_read (sel r) (ro_order r) (S size + S size) (S size) (map cd_ac (filter (keepz r) ZL)) = Some (out, rr_slots ri) /\
     Forall2 (fun t a => tr_opt (smr r) (M (am_uid a)) = Some t) (rr_msgs ri) out).
Proof.
  intros Hm Hd Hcb Hr. unfold F, w in Hr.
  rewrite (read_indexed_unfold ds dall o lib compress hd cs Hwf Hnh Hok Hcodec Hcomp Hsmall Hsize Hbounds
             D de ss sos crc HS os r Hm Hd) in Hr.
  destruct (parse_header _) as [h0| | | |]; cbn [bind] in Hr; try discriminate.
  unfold indexed_result in Hr. rewrite Hcb in Hr. cbv beta iota zeta in Hr. fold w F size (smr r) in Hr.
  destruct (sm_fields_gen r) as (_ & _ & Fcis). rewrite Fcis in Hr.
  rewrite prune_cis_filter, Hci in Hr. unfold s, w in Hr.
  rewrite <- (cisN_eq ds dall o lib compress hd cs D de ss sos crc HS As HA2) in Hr.
  fold eo CK ZL in Hr. rewrite filter_map_comm in Hr.
  change (filter (fun x => keep_ci r (sm_channels (smr r)) (cd_ci x)) ZL) with (filter (keepz r) ZL) in Hr.
  match type of Hr with context[indexed_all ?xa ?xb ?xc ?xd ?xe ?xf ?st0 [] (O, O)] =>
    change st0 with (i_init r (map cd_ci (filter (keepz r) ZL))) in Hr;
    destruct (indexed_all xa xb xc xd xe xf (i_init r (map cd_ci (filter (keepz r) ZL))) [] (O, O)) as [[[ms e] st]| | | |] eqn:Ei
  end; cbn [bind] in Hr; try discriminate.
  injection Hr as <-. cbn [rr_mode rr_end rr_msgs rr_slots]. split; [reflexivity|]. intros ->.
  pose proof (loader_typed ds dall o lib compress hd cs Hwf Hok Hsize Hbounds D de ss sos crc HS As HA1 HA2 r (smr r)) as HL.
  fold eo CK ZL pairs M w F in HL.
  assert (Hmt : Forall2 (ci_match pairs) (map cd_ci (filter (keepz r) ZL)) (map cd_ac (filter (keepz r) ZL))).
  { apply zl_match. intros z Hz. apply filter_In in Hz. apply Hz. }
  destruct (indexed_read_x_backward dall r (smr r) (mem_file F) _ pairs M HL _ _ _ _ ms st Hmt Ei) as (out & Hrd & HF).
  exists out. split; [exact Hrd|exact HF].
Qed.

(* a selected message can be bound to its channel and schema when the summary repeats them *)
Lemma tr_opt_defined_gen r m : o_skip_rch eo = false -> o_skip_rsh eo = false -> In m (messages_of cs) ->
  msel (sm_channels (smr r)) r m = true -> tr_opt (smr r) m <> None.
Proof.
  intros Hk Hk2 Hm. unfold msel, known_chan, tr_opt. rewrite (sm_chan_lookup_gen r _ Hk).
  destruct (msg_chan_declared o lib compress hd cs Hwf Hnh Hok m Hm) as (c & Ec & Hcin). rewrite Ec.
  destruct (topic_selected (ro_topics r) (c_topic c)); [|discriminate]. intros _.
  destruct (sm_fields_gen r) as (Fs & _).
  rewrite (sm_schema_lookup o lib compress hd cs Hwf Hnh Hok (smr r) _ Fs). fold eo. rewrite Hk2.
  change (c_schema (channel_norm c)) with (c_schema c).
  destruct (EndToEnd.run_tables o lib compress hd cs Hwf Hnh Hok) as (_ & _ & _ & _ & HSC).
  destruct (call_scoped_chan_schema cs [] [] c HSC Hcin) as [A|[[]|(sc & A1 & A2)]].
  - rewrite A, (call_schema_0 o lib compress hd cs Hwf Hnh Hok). discriminate.
  - unfold call_schema. destruct (find (fun sc0 => s_id sc0 =? c_schema c) (schema_calls cs)) as [sc0|] eqn:E0; [discriminate|].
    apply in_schema_calls in A1. pose proof (find_none _ _ E0 sc A1) as Hn. cbv beta in Hn. rewrite A2, N.eqb_refl in Hn. discriminate.
Qed.

(* with the channel and schema records in the summary the read ends with io.EOF *)
Lemma indexed_read_A_eof os r ri : o_skip_magic eo = false ->
  messages_dispatch ds (mem_file F) os = Ok (MIndexed, r) -> ro_md_cb r = false ->
  read_messages ds dall (mem_file F) os = Ok ri ->
  o_skip_rch eo = false -> o_skip_rsh eo = false -> rr_end ri = EEOF.
Proof.
  intros Hm Hd Hcb Hr Hk Hk2. pose proof Hr as Hr0. unfold F, w in Hr.
  rewrite (read_indexed_unfold ds dall o lib compress hd cs Hwf Hnh Hok Hcodec Hcomp Hsmall Hsize Hbounds
             D de ss sos crc HS os r Hm Hd) in Hr.
  destruct (parse_header _) as [h0| | | |]; cbn [bind] in Hr; try discriminate.
  unfold indexed_result in Hr. rewrite Hcb in Hr. cbv beta iota zeta in Hr. fold w F size (smr r) in Hr.
  destruct (sm_fields_gen r) as (_ & _ & Fcis). rewrite Fcis in Hr.
  rewrite prune_cis_filter, Hci in Hr. unfold s, w in Hr.
  rewrite <- (cisN_eq ds dall o lib compress hd cs D de ss sos crc HS As HA2) in Hr.
  fold eo CK ZL in Hr. rewrite filter_map_comm in Hr.
  change (filter (fun x => keep_ci r (sm_channels (smr r)) (cd_ci x)) ZL) with (filter (keepz r) ZL) in Hr.
  match type of Hr with context[indexed_all ?xa ?xb ?xc ?xd ?xe ?xf ?st0 [] (O, O)] =>
    change st0 with (i_init r (map cd_ci (filter (keepz r) ZL))) in Hr end.
  pose proof (loader_typed ds dall o lib compress hd cs Hwf Hok Hsize Hbounds D de ss sos crc HS As HA1 HA2 r (smr r)) as HL.
  fold eo CK ZL pairs M w F in HL.
  assert (Hmt : Forall2 (ci_match pairs) (map cd_ci (filter (keepz r) ZL)) (map cd_ac (filter (keepz r) ZL))).
  { apply zl_match. intros z Hz. apply filter_In in Hz. apply Hz. }
  pose proof (fuel_bounds ds dall o lib compress hd cs Hsize Hbounds Hfuel D de ss sos crc HS Hch As HA1 HA2) as Hfb.
  fold eo CK w F size in Hfb.
  pose proof (cks_all_msgs ds dall o lib hd cs D As HA1 HA2) as Hall. fold eo CK ZL in Hall.
  assert (Hsel : filter (sel r) (all_msgs (map cd_ac (filter (keepz r) ZL))) = filter (sel r) (number 0 (messages_of cs))).
  { rewrite (kept_selection (sel r) (keepz r) ZL (dropped_empty r)), Hall. reflexivity. }
  assert (HlenZ : length ZL = length CK).
  { pose proof (ZL_ck ds dall o lib hd D As HA2) as E. fold eo CK ZL in E.
    transitivity (length (map cd_ck ZL)); [rewrite map_length; reflexivity|rewrite E; reflexivity]. }
  destruct (a_read_total (sel r) (ro_order r) (S size + S size) (S size) (map cd_ac (filter (keepz r) ZL))) as (out & st & Hrd).
  - rewrite map_length. pose proof (filter_length_le' (keepz r) ZL). lia.
  - rewrite Hsel. pose proof (filter_length_le' (sel r) (number 0 (messages_of cs))) as L. rewrite number_length in L. lia.
  - destruct (indexed_read_x_forward dall r (smr r) (mem_file F) _ pairs M HL _ _ _ _ out st Hmt Hrd) as (ms & Hi & _).
    + apply Forall_forall. intros a Ha. apply a_read_perm in Hrd. apply (Permutation_in _ Hrd) in Ha.
      rewrite Hsel in Ha. apply filter_In in Ha. destruct Ha as [Ha Hs].
      destruct (number_M M _ _ _ Ha (M_ok cs)) as (Hin & E1 & E2).
      apply tr_opt_defined_gen; try assumption. unfold msel. rewrite <- E1, <- E2. exact Hs.
    + rewrite Hi in Hr. cbn [bind] in Hr. injection Hr as <-. reflexivity.
Qed.

End Chunked.

(* ---------- the summary has no chunk index: the dispatch chose the index only if there is no message ---------- *)
Lemma dispatch_usable os r : messages_dispatch ds (mem_file F) os = Ok (MIndexed, r) ->
  (cis' <> [] /\ o_skip_rch eo = false) \/ messages_of cs = [].
Proof.
  intro Hd. destruct (C02_dispatch_thm ds (mem_file F) os) as (D1 & _).
  destruct (D1 r Hd) as (r0 & sm0 & _ & _ & _ & Hi & Hu).
  unfold F, w in Hi. rewrite (info_written ds dall o lib compress hd cs Hwf Hnh Hok Hcodec Hcomp Hsmall Hsize Hbounds D de ss sos crc HS) in Hi.
  injection Hi as <-.
  destruct (usable_cases o lib compress hd cs Hok Hsize D de ss sos crc Hu) as [[U1 U2]|U]; [left|right; exact U].
  split; [exact U1|]. fold eo in U2. destruct (o_skip_rch eo); [exfalso; apply U2; reflexivity|reflexivity].
Qed.

Lemma indexed_read_B os r ri : o_skip_magic eo = false ->
  messages_dispatch ds (mem_file F) os = Ok (MIndexed, r) -> ro_md_cb r = false ->
  read_messages ds dall (mem_file F) os = Ok ri -> cis' = [] ->
  rr_mode ri = Some MIndexed /\ rr_msgs ri = [] /\ rr_end ri = EEOF /\ rr_slots ri = (O, O) /\ messages_of cs = [].
Proof.
  intros Hm Hd Hcb Hr Hci. pose proof Hr as Hr0. unfold F, w in Hr.
  rewrite (read_indexed_unfold ds dall o lib compress hd cs Hwf Hnh Hok Hcodec Hcomp Hsmall Hsize Hbounds
             D de ss sos crc HS os r Hm Hd) in Hr.
  destruct (parse_header _) as [h0| | | |]; cbn [bind] in Hr; try discriminate.
  unfold indexed_result in Hr. rewrite Hcb in Hr. cbv beta iota zeta in Hr. fold w F size (smr r) in Hr.
  destruct (sm_fields_gen r) as (_ & _ & Fcis). rewrite Fcis in Hr.
  rewrite prune_cis_filter, Hci in Hr. cbn [map filter] in Hr.
  match type of Hr with context[indexed_all ?xa ?xb ?xc ?xd ?xe ?xf ?st0 [] (O, O)] =>
    change st0 with (i_init r []) in Hr end.
  cbn [Nat.add] in Hr. rewrite indexed_all_nil in Hr. cbn [bind] in Hr. injection Hr as <-.
  cbn [rr_mode rr_msgs rr_end rr_slots]. repeat split.
  destruct (dispatch_usable os r Hd) as [[U _]|U]; [contradiction|exact U].
Qed.

(* ---------- both cases in one statement ---------- *)
(* ZL describes the chunks of the file (offset, chunk index, abstract chunk with numbered messages);
   keep marks the chunks whose index survives the pruning of parseSummarySection *)
Definition core_facts (r : ropts) (ri : readres) (ZL : list cdesc) (keep : cdesc -> bool) : Prop :=
  all_msgs (map cd_ac ZL) = number 0 (messages_of cs) /\
  map cd_ci ZL = map chunkindex_norm cis' /\
  chunks_wf (map cd_ac ZL) /\ ranges_ok (map cd_ac ZL) /\ file_ordered (map cd_ac ZL) /\
  (forall z, In z ZL -> keep z = false -> filter (sel r) (ac_msgs (cd_ac z)) = []) /\
  (rr_end ri = EEOF ->
   exists out,
     a_read (sel r) (ro_order r) (S size + S size) (S size) (map cd_ac (filter keep ZL)) = Some (out, rr_slots ri) /\
     Forall2 (fun t a => tr_opt (smr r) (M (am_uid a)) = Some t) (rr_msgs ri) out).

Lemma indexed_read_core os r ri : o_skip_magic eo = false ->
  messages_dispatch ds (mem_file F) os = Ok (MIndexed, r) -> ro_md_cb r = false ->
  read_messages ds dall (mem_file F) os = Ok ri ->
  rr_mode ri = Some MIndexed /\ (o_skip_rch eo = false \/ messages_of cs = []) /\
  exists ZL keep, core_facts r ri ZL keep.
Proof.
  intros Hm Hd Hcb Hr.
  assert (Hrch : o_skip_rch eo = false \/ messages_of cs = []).
  { destruct (dispatch_usable os r Hd) as [[_ U]|U]; auto. }
  destruct (cis'_cases ds o lib compress hd cs D de ss sos crc HS) as [[Hch Ec]|Ec];
    change (cis' = w_chunk_indexes s) in Ec || change (cis' = []) in Ec; [change (o_chunked eo = true) in Hch|].
  - destruct (chunks_typed ds dall o lib compress hd cs Hwf Hok Hcodec Hcomp Hsmall Hbounds D de ss sos crc HS Hch)
      as (As & HA1 & HA2). fold eo CK in HA2.
    destruct (indexed_read_A As HA1 HA2 Ec os r ri Hm Hd Hcb Hr) as [Hmode Hrun].
    split; [exact Hmode|]. split; [exact Hrch|].
    exists (zipb 0 CK As), (fun z => keep_ci r (sm_channels (smr r)) (cd_ci z)).
    split; [exact (cks_all_msgs ds dall o lib hd cs D As HA1 HA2)|].
    split; [rewrite Ec; exact (cisN_eq ds dall o lib compress hd cs D de ss sos crc HS As HA2)|].
    split; [exact (cks_wf ds dall o lib compress hd cs Hwf Hcodec Hcomp Hsize Hbounds D de ss sos crc HS As HA1 HA2 Hch)|].
    split; [exact (cks_ranges ds dall o lib compress hd cs Hwf Hcodec Hcomp Hsize Hbounds D de ss sos crc HS As HA1 HA2 Hch)|].
    split; [exact (cks_file_ordered ds dall o lib compress hd cs D de ss sos crc HS As HA2)|].
    split; [intros z Hz K; exact (dropped_empty As HA1 HA2 Hch r z Hz K)|exact Hrun].
  - destruct (indexed_read_B os r ri Hm Hd Hcb Hr Ec) as (B1 & B2 & B3 & B4 & B5).
    split; [exact B1|]. split; [exact Hrch|].
    exists [], (fun _ => true). unfold core_facts. rewrite B5, Ec, B2, B4.
    split; [reflexivity|]. split; [reflexivity|]. split; [constructor|]. split; [constructor|]. split; [constructor|].
    split; [intros z []|]. intros _. exists []. split; [|constructor].
    cbn [filter map]. destruct (ro_order r); reflexivity.
Qed.

(* ---------- the forced scan ---------- *)
Let R (t : triple) (m : message) : Prop := triple_of L_all m = Some t.

Lemma forced_scan rs : read_messages ds dall (mem_file F) [OUsingIndex false] = Ok rs ->
  o_skip_magic eo = false /\ rr_mode rs = Some MScan /\ rr_end rs = EEOF /\ Forall2 R (rr_msgs rs) (messages_of cs).
Proof.
  intro Hr.
  pose proof (magic_cases ds dall o lib compress hd cs Hwf Hok Hsize D de ss sos crc HS _ _ Hr) as Hm.
  destruct (noindex_read ds dall o lib compress hd cs Hwf Hnh Hok Hcodec Hcomp Hsmall Hcons Hsize Hbounds Hfuel
              D de ss sos crc HS false rs Hm Hr) as (S1 & S2 & S3 & _).
  split; [exact Hm|]. split; [exact S1|]. split; [exact S2|exact S3].
Qed.

Lemma R_snd t m : R t m -> snd t = m.
Proof.
  unfold R, triple_of. destruct (chan_of L_all (m_chan m)) as [c|]; [|discriminate].
  destruct (schema_of L_all (c_schema c)); [intro H; injection H as <-; reflexivity|].
  destruct (c_schema c =? 0); [intro H; injection H as <-; reflexivity|discriminate].
Qed.

Lemma M_ok0 : forall j m, nth_error (messages_of cs) j = Some m -> M (0 + j)%nat = m.
Proof. exact (M_ok cs). Qed.

(* the relation between a triple and the abstract message that stands for it *)
Let Q (r : ropts) (t : triple) (a : amsg) : Prop :=
  R t (M (am_uid a)) /\ tsel r t = sel r a /\ log_of t = am_ts a.

Lemma sel_msel r a : In a (number 0 (messages_of cs)) -> sel r a = msel (sm_channels (smr r)) r (M (am_uid a)).
Proof.
  intro Ha. destruct (number_M M _ _ _ Ha M_ok0) as (_ & E1 & E2). unfold sel, tw_sel, msel. rewrite E1, E2. reflexivity.
Qed.

Lemma Q_scan r rs : o_skip_rch eo = false \/ messages_of cs = [] ->
  Forall2 R (rr_msgs rs) (messages_of cs) -> Forall2 (Q r) (rr_msgs rs) (number 0 (messages_of cs)).
Proof.
  intros [Hk|E] HF.
  - rewrite <- (number_map M (messages_of cs) 0%nat M_ok0) in HF at 1. apply Forall2_map_r_inv in HF.
    eapply Forall2_impl_in; [exact HF|]. intros t a _ Ha Ht. cbv beta in Ht.
    destruct (number_M M _ _ _ Ha M_ok0) as (Hin & E1 & _).
    split; [exact Ht|]. split.
    + rewrite (sel_msel r a Ha). symmetry. apply msel_tsel; assumption.
    + unfold log_of. rewrite (R_snd _ _ Ht). symmetry. exact E1.
  - rewrite E in *. inversion HF; subst. constructor.
Qed.

Lemma Q_out r ms out : o_skip_rch eo = false \/ messages_of cs = [] ->
  Forall2 (fun t a => tr_opt (smr r) (M (am_uid a)) = Some t) ms out ->
  Permutation out (filter (sel r) (number 0 (messages_of cs))) -> Forall2 (Q r) ms out.
Proof.
  intros [Hk|E] HF HP.
  - eapply Forall2_impl_in; [exact HF|]. intros t a _ Ha Ht. cbv beta in Ht.
    apply (Permutation_in _ HP) in Ha. apply filter_In in Ha. destruct Ha as [Ha Hs].
    destruct (number_M M _ _ _ Ha M_ok0) as (Hin & E1 & _).
    pose proof (tr_opt_triple_gen r _ _ Hk Ht) as HR.
    split; [exact HR|]. split.
    + rewrite (sel_msel r a Ha). symmetry. apply msel_tsel; assumption.
    + unfold log_of. rewrite (tr_opt_msg r _ _ Ht). symmetry. exact E1.
  - rewrite E in HP. cbn [number filter] in HP. apply Permutation_sym, Permutation_nil in HP. subst out.
    inversion HF; subst. constructor.
Qed.

Lemma kept_forall (P : achunk -> Prop) (keep : cdesc -> bool) ZL :
  Forall P (map cd_ac ZL) -> Forall P (map cd_ac (filter keep ZL)).
Proof.
  rewrite !Forall_forall. intros H c Hc. apply H. apply in_map_iff in Hc. destruct Hc as (z & <- & Hz).
  apply in_map. apply filter_In in Hz. apply Hz.
Qed.

(* ---------- what a complete index-based read returns ---------- *)
Section Results.
Variable r : ropts.
Variables ri rs : readres.
Variable ZL : list cdesc.
Variable keep : cdesc -> bool.
Hypothesis HC : core_facts r ri ZL keep.
Hypothesis Hrch : o_skip_rch eo = false \/ messages_of cs = [].
Hypothesis Hend : rr_end ri = EEOF.

Let cks := map cd_ac ZL.
Let cksP := map cd_ac (filter keep ZL).
Let nsel := filter (sel r) (number 0 (messages_of cs)).

Lemma core_out0 :
  exists out,
    a_read (sel r) (ro_order r) (S size + S size) (S size) cksP = Some (out, rr_slots ri) /\
    Permutation out nsel /\ Forall2 (Q r) (rr_msgs ri) out.
Proof.
  destruct HC as (B1 & _ & _ & _ & _ & B4 & Hrun). destruct (Hrun Hend) as (out & Hrd & HF).
  assert (HP : Permutation out nsel).
  { unfold nsel. rewrite <- B1, <- (kept_selection (sel r) keep ZL B4). eapply a_read_perm. exact Hrd. }
  exists out. split; [exact Hrd|]. split; [exact HP|exact (Q_out r _ _ Hrch HF HP)].
Qed.

Hypothesis Hscan : Forall2 R (rr_msgs rs) (messages_of cs).

Lemma core_out :
  exists out,
    a_read (sel r) (ro_order r) (S size + S size) (S size) cksP = Some (out, rr_slots ri) /\
    Permutation out nsel /\ Forall2 (Q r) (rr_msgs ri) out /\
    Forall2 (Q r) (filter (tsel r) (rr_msgs rs)) nsel.
Proof.
  destruct core_out0 as (out & Hrd & HP & Q1).
  exists out. split; [exact Hrd|]. split; [exact HP|]. split; [exact Q1|].
  apply Forall2_filter_fun; [exact (Q_scan r rs Hrch Hscan)|]. intros t a (_ & E & _). exact E.
Qed.

Let fQ (a : amsg) : option triple := triple_of L_all (M (am_uid a)).
Lemma Q_fun l m : Forall2 (Q r) l m -> Forall2 (fun t a => fQ a = Some t) l m.
Proof. apply Forall2_impl'. intros t a (H & _). exact H. Qed.

(* none missing, none extra, each once *)
Lemma res_perm : Permutation (rr_msgs ri) (filter (tsel r) (rr_msgs rs)).
Proof.
  destruct core_out as (out & _ & HP & Q1 & Q2).
  exact (Forall2_fun_perm fQ _ _ _ _ (Q_fun _ _ Q1) (Q_fun _ _ Q2) HP).
Qed.

(* file order: the same list *)
Lemma res_file : ro_order r = FileOrder -> rr_msgs ri = filter (tsel r) (rr_msgs rs).
Proof.
  intro Ho. destruct core_out as (out & Hrd & _ & Q1 & Q2).
  destruct HC as (B1 & _ & _ & _ & B3 & B4 & _).
  rewrite Ho in Hrd. apply a_read_file in Hrd.
  rewrite (ac_sort_file_id cksP (file_ordered_kept keep ZL B3)) in Hrd.
  unfold cksP in Hrd. rewrite (kept_selection (sel r) keep ZL B4), B1 in Hrd. fold nsel in Hrd. subst out.
  exact (Forall2_fun_eq fQ _ _ _ (Q_fun _ _ Q1) (Q_fun _ _ Q2)).
Qed.

(* the two time orders: sorted by log time *)
Lemma res_sorted d : ro_order r = order_of d ->
  StronglySorted (fun a b => led d (log_of a) (log_of b)) (rr_msgs ri).
Proof.
  intro Ho. destruct core_out as (out & Hrd & _ & Q1 & _).
  destruct HC as (_ & _ & W & _). rewrite Ho in Hrd.
  destruct (a_read_time (sel r) d _ _ _ _ _ (kept_forall _ keep ZL W) Hrd) as (Hs & _).
  eapply (sorted_transport (Q r)); [exact Q1| |exact Hs].
  intros a b a' b' (_ & _ & E1) (_ & _ & E2) Hk. unfold kle in Hk. rewrite E1, E2. exact Hk.
Qed.

(* the two time orders: the forced scan splits into the chunks of the file (one segment per chunk
   index, its log times inside the chunk index's range); two selected messages of one segment with
   equal log time come out in file order (in reverse file order when reading in reverse) *)
Lemma res_stable d : ro_order r = order_of d ->
  exists segs : list (list triple),
    concat segs = rr_msgs rs /\
    Forall2 (fun seg ci => Forall (fun t => ci_start ci <= log_of t <= ci_end ci) seg) segs cis' /\
    forall seg t1 t2, In seg segs -> before t1 t2 seg -> log_of t1 = log_of t2 ->
      tsel r t1 = true -> tsel r t2 = true ->
      if d then before t1 t2 (rr_msgs ri) else before t2 t1 (rr_msgs ri).
Proof.
  intro Ho. destruct core_out as (out & Hrd & _ & Q1 & _).
  destruct HC as (B1 & B2 & W & _ & _ & B4 & _). rewrite Ho in Hrd.
  pose proof (Q_scan r rs Hrch Hscan) as QS. rewrite <- B1 in QS. unfold all_msgs in QS.
  destruct (Forall2_concat_split _ _ _ QS) as (segs & Es & HF).
  rewrite map_map in HF. apply Forall2_map_r_inv in HF.
  assert (HF' : Forall2 (fun seg z => In z ZL /\ Forall2 (Q r) seg (ac_msgs (cd_ac z))) segs ZL).
  { eapply Forall2_impl_in; [exact HF|]. intros seg z _ Hz H. split; [exact Hz|exact H]. }
  assert (Wp : chunks_wf cksP) by exact (kept_forall _ keep ZL W).
  exists segs. split; [symmetry; exact Es|]. split.
  - apply (Forall2_compose (fun seg z => In z ZL /\ Forall2 (Q r) seg (ac_msgs (cd_ac z)))
                           (fun z ci => cd_ci z = chunkindex_norm ci) _ segs ZL cis');
      [|exact HF'|apply map_eq_Forall2, B2].
    intros seg z ci (Hin & Hseg) Ez.
    assert (Wz : chunk_wf (cd_ac z)).
    { unfold chunks_wf in W. rewrite Forall_forall in W. apply W, in_map, Hin. }
    unfold chunk_wf in Wz. rewrite Forall_forall in Wz.
    apply Forall_forall. intros t Ht.
    destruct (Forall2_in_l _ _ _ _ Hseg Ht) as (a & Ha & (_ & _ & E)).
    change (ci_start ci) with (ci_start (chunkindex_norm ci)). change (ci_end ci) with (ci_end (chunkindex_norm ci)).
    rewrite <- Ez, E. exact (Wz a Ha).
  - intros seg t1 t2 Hseg Hb Hl S1 S2.
    destruct (Forall2_in_l _ _ _ _ HF' Hseg) as (z & Hz & Hin & HQ).
    destruct (before_Forall2 _ _ _ HQ _ _ Hb) as (a1 & a2 & (R1 & E1 & L1) & (R2 & E2 & L2) & Hba).
    assert (s1 : sel r a1 = true) by (rewrite <- E1; exact S1).
    assert (s2 : sel r a2 = true) by (rewrite <- E2; exact S2).
    assert (K : keep z = true).
    { destruct (keep z) eqn:K; [reflexivity|exfalso]. pose proof (B4 z Hin K) as E0.
      destruct (before_in _ _ _ Hba) as [Ha1 _].
      assert (Hf : In a1 (filter (sel r) (ac_msgs (cd_ac z)))) by (apply filter_In; split; assumption).
      rewrite E0 in Hf. destruct Hf. }
    assert (Hc : In (cd_ac z) cksP) by (apply in_map, filter_In; split; assumption).
    assert (Ht : am_ts a1 = am_ts a2) by (rewrite <- L1, <- L2; exact Hl).
    pose proof (a_read_stable (sel r) d _ _ _ _ _ Wp Hrd (cd_ac z) a1 a2 Hc Hba Ht s1 s2) as Hst.
    assert (Hfun : forall t a t', Q r t a -> R t' (M (am_uid a)) -> t = t').
    { intros t a t' (H1 & _) H2. unfold R in *. congruence. }
    destruct d.
    + destruct (before_Forall2_r _ _ _ Q1 _ _ Hst) as (t & t' & Qt & Qt' & Hbt).
      rewrite (Hfun _ _ _ Qt R1), (Hfun _ _ _ Qt' R2) in Hbt. exact Hbt.
    + destruct (before_Forall2_r _ _ _ Q1 _ _ Hst) as (t & t' & Qt & Qt' & Hbt).
      rewrite (Hfun _ _ _ Qt R2), (Hfun _ _ _ Qt' R1) in Hbt. exact Hbt.
Qed.

(* chunk slots: the overlap of the file's chunk time ranges bounds them *)
Lemma ranges_of_cis : max_overlap cks = max_overlap (map ci_range cis').
Proof.
  destruct HC as (_ & B2 & _). apply max_overlap_ranges. unfold cks. rewrite !map_map.
  transitivity (map (fun ci => (ci_start ci, ci_end ci)) (map cd_ci ZL)); [rewrite map_map; reflexivity|].
  rewrite B2, map_map. reflexivity.
Qed.

Lemma res_slots :
  (ro_order r = FileOrder -> (fst (rr_slots ri) <= 1)%nat /\ (snd (rr_slots ri) <= 1)%nat) /\
  (forall d, ro_order r = order_of d ->
     (fst (rr_slots ri) <= Nat.max 1 (max_overlap (map ci_range cis')))%nat /\
     (snd (rr_slots ri) <= Nat.max 1 (max_overlap (map ci_range cis')))%nat).
Proof.
  destruct core_out0 as (out & Hrd & _). split.
  - intro Ho. rewrite Ho in Hrd. exact (proj2 (C20_slots_file_thm (sel r) cksP) _ _ _ _ Hrd).
  - intros d Ho. rewrite Ho in Hrd. destruct HC as (_ & _ & W & Rg & Fo & _).
    pose proof (proj2 (C20_slots_time_thm (sel r) d cksP (kept_forall _ keep ZL W) (kept_forall _ keep ZL Rg)
                        (file_ordered_nodup _ (file_ordered_kept keep ZL Fo))) _ _ _ _ Hrd) as [H1 H2].
    pose proof (max_overlap_kept keep ZL) as Hle. fold cks cksP in Hle. rewrite ranges_of_cis in Hle. lia.
Qed.

End Results.

(* ---------- the read, for one option list sent to the indexed iterator ---------- *)
Lemma read_e2e os r ri rs :
  messages_dispatch ds (mem_file F) os = Ok (MIndexed, r) -> ro_md_cb r = false ->
  read_messages ds dall (mem_file F) os = Ok ri ->
  read_messages ds dall (mem_file F) [OUsingIndex false] = Ok rs ->
  rr_mode ri = Some MIndexed /\ rr_mode rs = Some MScan /\ rr_end rs = EEOF /\
  (rr_end ri = EEOF -> read_spec cis' r ri rs) /\
  (o_chunked eo = true -> o_skip_ci eo = false -> o_skip_rch eo = false -> o_skip_rsh eo = false -> rr_end ri = EEOF).
Proof.
  intros Hd Hcb Hri Hrs. destruct (forced_scan rs Hrs) as (Hm & S1 & S2 & S3).
  destruct (indexed_read_core os r ri Hm Hd Hcb Hri) as (Hmode & Hrch & ZL & keep & HC).
  split; [exact Hmode|]. split; [exact S1|]. split; [exact S2|]. split.
  - intro He. split; [exact (res_perm r ri rs ZL keep HC Hrch He S3)|]. split.
    + intro Ho. split; [exact (res_file r ri rs ZL keep HC Hrch He S3 Ho)|].
      exact (proj1 (res_slots r ri ZL keep HC Hrch He) Ho).
    + intros d Ho. split; [exact (res_sorted r ri rs ZL keep HC Hrch He S3 d Ho)|].
      split; [exact (res_stable r ri rs ZL keep HC Hrch He S3 d Ho)|].
      exact (proj2 (res_slots r ri ZL keep HC Hrch He) d Ho).
  - intros Hch Hsk Hk Hk2.
    assert (Ec : cis' = w_chunk_indexes s) by (unfold cis'; rewrite Hsk; reflexivity).
    destruct (chunks_typed ds dall o lib compress hd cs Hwf Hok Hcodec Hcomp Hsmall Hbounds D de ss sos crc HS Hch)
      as (As & HA1 & HA2). fold eo CK in HA2.
    exact (indexed_read_A_eof As HA1 HA2 Hch Ec os r ri Hm Hd Hcb Hri Hk Hk2).
Qed.

(* the chunk slots alone: no forced scan needed *)
Lemma read_slots_e2e os r ri :
  messages_dispatch ds (mem_file F) os = Ok (MIndexed, r) -> ro_md_cb r = false ->
  read_messages ds dall (mem_file F) os = Ok ri -> rr_end ri = EEOF ->
  (ro_order r = FileOrder -> (fst (rr_slots ri) <= 1)%nat /\ (snd (rr_slots ri) <= 1)%nat) /\
  (forall d, ro_order r = order_of d ->
     (fst (rr_slots ri) <= Nat.max 1 (max_overlap (map ci_range cis')))%nat /\
     (snd (rr_slots ri) <= Nat.max 1 (max_overlap (map ci_range cis')))%nat).
Proof.
  intros Hd Hcb Hri He.
  pose proof (magic_cases ds dall o lib compress hd cs Hwf Hok Hsize D de ss sos crc HS _ _ Hri) as Hm.
  destruct (indexed_read_core os r ri Hm Hd Hcb Hri) as (_ & Hrch & ZL & keep & HC).
  exact (res_slots r ri ZL keep HC Hrch He).
Qed.

End Read.

(* ====================================================================================== *)
(** * 6. the end-to-end theorems *)

Lemma finalize_md_cb r : ro_md_cb (finalize r) = ro_md_cb r.
Proof.
  unfold finalize.
  destruct ((ro_start_n r =? 0) && (0 <? ro_start r)%Z);
    match goal with |- context[if ?c then _ else _] => destruct c end; reflexivity.
Qed.
Lemma finalize_topics r : ro_topics (finalize r) = ro_topics r.
Proof.
  unfold finalize.
  destruct ((ro_start_n r =? 0) && (0 <? ro_start r)%Z);
    match goal with |- context[if ?c then _ else _] => destruct c end; reflexivity.
Qed.

(* every option list the dispatch sends to the indexed iterator (no metadata callback) *)
Theorem e2e_indexed_read_thm ds dall o lib compress hd cs : e2e_hyps ds dall o lib compress hd cs ->
  let w := W o lib compress None (CHeader hd :: cs ++ [CClose]) in
  let f := mem_file (file_of w) in
  let cis := if o_skip_ci (effective_opts o) then [] else w_chunk_indexes (r_final w) in
  forall os r ri rs,
    messages_dispatch ds f os = Ok (MIndexed, r) -> ro_md_cb r = false ->
    read_messages ds dall f os = Ok ri -> read_messages ds dall f [OUsingIndex false] = Ok rs ->
    rr_mode ri = Some MIndexed /\ rr_mode rs = Some MScan /\ rr_end rs = EEOF /\
    (rr_end ri = EEOF -> read_spec cis r ri rs).
Proof.
  intros (Hcodec & Hcomp & Hwf & Hsmall & Hnh & Hcons & Hok & Hsize & Hbounds & Hfuel) w f cis os r ri rs Hd Hcb Hri Hrs.
  destruct (run_shape o lib compress hd cs Hwf Hnh Hok) as (D & de & ss & sos & crc & HS).
  destruct (read_e2e ds dall o lib compress hd cs Hwf Hnh Hok Hcodec Hcomp Hsmall Hcons Hsize Hbounds Hfuel
              D de ss sos crc HS os r ri rs Hd Hcb Hri Hrs) as (H1 & H2 & H3 & H4 & _).
  auto.
Qed.

(* index enabled, and statistics or a channel: every accepted option list that keeps the index and
   installs no metadata callback is read through the index, ends with io.EOF, and meets read_spec *)
Theorem e2e_enabled_read_thm ds dall o lib compress hd cs : e2e_hyps ds dall o lib compress hd cs ->
  index_enabled (effective_opts o) -> o_skip_stats o = false \/ (exists c, In (CChannel c) cs) ->
  let w := W o lib compress None (CHeader hd :: cs ++ [CClose]) in
  let f := mem_file (file_of w) in
  forall os r0 ri rs,
    apply_opts os default_ropts = Ok r0 -> ro_use_index r0 = true -> ro_md_cb r0 = false ->
    read_messages ds dall f os = Ok ri -> read_messages ds dall f [OUsingIndex false] = Ok rs ->
    rr_mode ri = Some MIndexed /\ rr_end ri = EEOF /\ rr_mode rs = Some MScan /\ rr_end rs = EEOF /\
    read_spec (w_chunk_indexes (r_final w)) (finalize r0) ri rs.
Proof.
  intros (Hcodec & Hcomp & Hwf & Hsmall & Hnh & Hcons & Hok & Hsize & Hbounds & Hfuel) Hen Hx w f os r0 ri rs Ha Hu Hcb Hri Hrs.
  destruct (run_shape o lib compress hd cs Hwf Hnh Hok) as (D & de & ss & sos & crc & HS).
  pose proof (dispatch_enabled ds dall o lib compress hd cs Hwf Hnh Hok Hcodec Hcomp Hsmall Hsize Hbounds
                D de ss sos crc HS os r0 Hen Hx Ha Hu) as Hd.
  assert (Hcb' : ro_md_cb (finalize r0) = false) by (rewrite finalize_md_cb; exact Hcb).
  destruct (read_e2e ds dall o lib compress hd cs Hwf Hnh Hok Hcodec Hcomp Hsmall Hcons Hsize Hbounds Hfuel
              D de ss sos crc HS os (finalize r0) ri rs Hd Hcb' Hri Hrs) as (H1 & H2 & H3 & H4 & H5).
  destruct Hen as (E1 & E2 & E3 & E4). pose proof (H5 E1 E2 E3 E4) as He.
  specialize (H4 He). rewrite E2 in H4. auto 6.
Qed.

(* determinism: Reader.read_messages is a function of the file and the options *)
Theorem e2e_deterministic_thm ds dall (f : fsrc) os r1 r2 :
  read_messages ds dall f os = Ok r1 -> read_messages ds dall f os = Ok r2 -> r1 = r2.
Proof. intros H1 H2. rewrite H1 in H2. injection H2 as <-. reflexivity. Qed.

(* ---------- C03: the two time orders, without window and topics ---------- *)
Lemma tsel_plain r t : plain_ro r -> tsel r t = true.
Proof.
  intros Hp. unfold tsel. rewrite (plain_window r _ Hp). destruct Hp as (Ht & _). rewrite Ht. reflexivity.
Qed.
Lemma filter_tsel_plain r l : plain_ro r -> filter (tsel r) l = l.
Proof. intro Hp. apply filter_all_true. intros t _. apply tsel_plain, Hp. Qed.

(* the order options *)
Definition C03_e2e_statement : Prop :=
  forall ds dall o lib compress hd cs, e2e_hyps ds dall o lib compress hd cs ->
  let w := W o lib compress None (CHeader hd :: cs ++ [CClose]) in
  let f := mem_file (file_of w) in
  let cis := if o_skip_ci (effective_opts o) then [] else w_chunk_indexes (r_final w) in
  forall d ri rs,
    read_messages ds dall f [OInOrder (order_of d)] = Ok ri -> read_messages ds dall f [OUsingIndex false] = Ok rs ->
    rr_end ri = EEOF ->
    rr_mode ri = Some MIndexed /\
    Permutation (rr_msgs ri) (rr_msgs rs) /\
    StronglySorted (fun a b => led d (log_of a) (log_of b)) (rr_msgs ri) /\
    exists segs : list (list triple),
      concat segs = rr_msgs rs /\
      Forall2 (fun seg ci => Forall (fun t => ci_start ci <= log_of t <= ci_end ci) seg) segs cis /\
      forall seg t1 t2, In seg segs -> before t1 t2 seg -> log_of t1 = log_of t2 ->
        if d then before t1 t2 (rr_msgs ri) else before t2 t1 (rr_msgs ri).

Theorem C03_e2e_thm : C03_e2e_statement.
Proof.
  intros ds dall o lib compress hd cs Hh w f cis d ri rs Hri Hrs He. pose proof Hh as Hh0.
  destruct Hh as (Hcodec & Hcomp & Hwf & Hsmall & Hnh & Hcons & Hok & Hsize & Hbounds & Hfuel).
  destruct (run_shape o lib compress hd cs Hwf Hnh Hok) as (D & de & ss & sos & crc & HS).
  set (ord := order_of d) in *.
  assert (Hd : messages_dispatch ds f [OInOrder ord] = Ok (MIndexed, r_ord ord)).
  { destruct (dispatch_cases ds dall o lib compress hd cs Hwf Hnh Hok Hcodec Hcomp Hsmall Hsize Hbounds
                D de ss sos crc HS _ _ (apply_ord ord) eq_refl) as [[_ Hd]|[_ Hd]].
    - rewrite finalize_r_ord in Hd. exact Hd.
    - exfalso. cbn [r_ord ro_order] in Hd. change (RecordSet.set ro_order (fun _ => ord) default_ropts) with (r_ord ord) in Hd.
      assert (Hd' : messages_dispatch ds f [OInOrder ord] = Err EOther) by (unfold ord in *; destruct d; exact Hd).
      destruct (read_dispatch_err _ _ _ _ _ _ Hd' Hri) as [H1 _]. congruence. }
  destruct (e2e_indexed_read_thm ds dall o lib compress hd cs Hh0 [OInOrder ord] (r_ord ord) ri rs Hd eq_refl Hri Hrs)
    as (H1 & _ & _ & H4).
  destruct (H4 He) as (P & _ & HT). destruct (HT d eq_refl) as (S & (segs & G1 & G2 & G3) & _).
  rewrite (filter_tsel_plain _ _ (plain_r_ord ord)) in P.
  split; [exact H1|]. split; [exact P|]. split; [exact S|].
  exists segs. split; [exact G1|]. split; [exact G2|].
  intros seg t1 t2 Hseg Hb Hl. apply (G3 seg t1 t2 Hseg Hb Hl); apply tsel_plain, plain_r_ord.
Qed.

(* ---------- C04: windows and topics, in every order of the options ---------- *)
Definition C04_e2e_statement : Prop :=
  forall ds dall o lib compress hd cs, e2e_hyps ds dall o lib compress hd cs ->
  index_enabled (effective_opts o) -> o_skip_stats o = false \/ (exists c, In (CChannel c) cs) ->
  let f := mem_file (file_of (W o lib compress None (CHeader hd :: cs ++ [CClose]))) in
  forall os r0 ri rs,
    apply_opts os default_ropts = Ok r0 -> ro_use_index r0 = true -> ro_md_cb r0 = false ->
    read_messages ds dall f os = Ok ri -> read_messages ds dall f [OUsingIndex false] = Ok rs ->
    let r := finalize r0 in
    rr_mode ri = Some MIndexed /\ rr_end ri = EEOF /\ rr_mode rs = Some MScan /\ rr_end rs = EEOF /\
    Permutation (rr_msgs ri) (filter (tsel r) (rr_msgs rs)) /\
    (ro_order r0 = FileOrder -> rr_msgs ri = filter (tsel r) (rr_msgs rs)) /\
    (forall d, ro_order r0 = order_of d ->
       StronglySorted (fun a b => led d (log_of a) (log_of b)) (rr_msgs ri)).

Theorem C04_e2e_thm : C04_e2e_statement.
Proof.
  intros ds dall o lib compress hd cs Hh Hen Hx f os r0 ri rs Ha Hu Hcb Hri Hrs r.
  destruct (e2e_enabled_read_thm ds dall o lib compress hd cs Hh Hen Hx os r0 ri rs Ha Hu Hcb Hri Hrs)
    as (H1 & H2 & H3 & H4 & (P & HF & HT)).
  split; [exact H1|]. split; [exact H2|]. split; [exact H3|]. split; [exact H4|]. split; [exact P|].
  split.
  - intro Ho. apply HF. rewrite finalize_order. exact Ho.
  - intros d Ho. apply (HT d). rewrite finalize_order. exact Ho.
Qed.

(* option lists made of the nanosecond window options, topics and an order: nothing is left for
   finalize to do, so the selection is read off the options directly - whatever their order *)
Definition wt_opt (x : ropt) : bool :=
  match x with OAfterNanos _ | OBeforeNanos _ | OTopics _ | OInOrder _ => true | _ => false end.

Lemma wt_opts_inv : forall os r r', forallb wt_opt os = true -> apply_opts os r = Ok r' ->
  ro_use_index r = true -> ro_md_cb r = false -> ro_start r = 0%Z -> ro_end r = 0%Z ->
  ro_use_index r' = true /\ ro_md_cb r' = false /\ ro_start r' = 0%Z /\ ro_end r' = 0%Z.
Proof.
  induction os as [|x os IH]; intros r r' Hw Ha H1 H2 H3 H4; cbn [apply_opts] in Ha.
  - injection Ha as <-. auto.
  - cbn [forallb] in Hw. apply andb_true_iff in Hw. destruct Hw as [Hx Hw].
    destruct (apply_opt x r) as [r1| | | |] eqn:E; cbn [bind] in Ha; try discriminate.
    apply (IH r1 r' Hw Ha); destruct x; try discriminate; cbn [apply_opt] in E;
      match type of E with (if ?c then _ else _) = _ => destruct c; try discriminate | _ => idtac end;
      injection E as <-; assumption.
Qed.

Lemma finalize_nanos r : ro_start r = 0%Z -> ro_end r = 0%Z -> finalize r = r.
Proof.
  intros H1 H2. unfold finalize. rewrite H1. change (0 <? 0)%Z with false. rewrite andb_false_r. cbv zeta.
  rewrite H2. change (0 <? 0)%Z with false. rewrite andb_false_r. reflexivity.
Qed.

Theorem C04_e2e_nanos_thm :
  forall ds dall o lib compress hd cs, e2e_hyps ds dall o lib compress hd cs ->
  index_enabled (effective_opts o) -> o_skip_stats o = false \/ (exists c, In (CChannel c) cs) ->
  let f := mem_file (file_of (W o lib compress None (CHeader hd :: cs ++ [CClose]))) in
  forall os r0 ri rs,
    forallb wt_opt os = true -> apply_opts os default_ropts = Ok r0 ->
    read_messages ds dall f os = Ok ri -> read_messages ds dall f [OUsingIndex false] = Ok rs ->
    let keep (t : triple) := topic_selected (ro_topics r0) (c_topic (snd (fst t))) &&
                             ((ro_start_n r0 <=? log_of t) && ((log_of t <? ro_end_n r0) || ro_unbounded r0)) in
    rr_mode ri = Some MIndexed /\ rr_end ri = EEOF /\
    Permutation (rr_msgs ri) (filter keep (rr_msgs rs)) /\
    (ro_order r0 = FileOrder -> rr_msgs ri = filter keep (rr_msgs rs)) /\
    (forall d, ro_order r0 = order_of d ->
       StronglySorted (fun a b => led d (log_of a) (log_of b)) (rr_msgs ri)).
Proof.
  intros ds dall o lib compress hd cs Hh Hen Hx f os r0 ri rs Hw Ha Hri Hrs keep.
  destruct (wt_opts_inv os default_ropts r0 Hw Ha eq_refl eq_refl eq_refl eq_refl) as (U1 & U2 & U3 & U4).
  destruct (C04_e2e_thm ds dall o lib compress hd cs Hh Hen Hx os r0 ri rs Ha U1 U2 Hri Hrs)
    as (H1 & H2 & _ & _ & P & HF & HT).
  rewrite (finalize_nanos r0 U3 U4) in P, HF.
  split; [exact H1|]. split; [exact H2|]. split; [exact P|]. split; [exact HF|exact HT].
Qed.

(* ---------- C20: chunk slots of a read through the index ---------- *)
Definition C20_e2e_statement : Prop :=
  forall ds dall o lib compress hd cs, e2e_hyps ds dall o lib compress hd cs ->
  let w := W o lib compress None (CHeader hd :: cs ++ [CClose]) in
  let f := mem_file (file_of w) in
  let cis := if o_skip_ci (effective_opts o) then [] else w_chunk_indexes (r_final w) in
  forall os r ri,
    messages_dispatch ds f os = Ok (MIndexed, r) -> ro_md_cb r = false ->
    read_messages ds dall f os = Ok ri -> rr_end ri = EEOF ->
    (ro_order r = FileOrder -> (fst (rr_slots ri) <= 1)%nat /\ (snd (rr_slots ri) <= 1)%nat) /\
    (ro_order r <> FileOrder ->
       (fst (rr_slots ri) <= Nat.max 1 (max_overlap (map ci_range cis)))%nat /\
       (snd (rr_slots ri) <= Nat.max 1 (max_overlap (map ci_range cis)))%nat).

Theorem C20_e2e_thm : C20_e2e_statement.
Proof.
  intros ds dall o lib compress hd cs (Hcodec & Hcomp & Hwf & Hsmall & Hnh & Hcons & Hok & Hsize & Hbounds & Hfuel)
    w f cis os r ri Hd Hcb Hri He.
  destruct (run_shape o lib compress hd cs Hwf Hnh Hok) as (D & de & ss & sos & crc & HS).
  destruct (read_slots_e2e ds dall o lib compress hd cs Hwf Hnh Hok Hcodec Hcomp Hsmall Hsize Hbounds
              D de ss sos crc HS os r ri Hd Hcb Hri He) as [H1 H2].
  split; [exact H1|]. intro Hne. destruct (ro_order r) eqn:Eo; [contradiction| |].
  - exact (H2 true eq_refl).
  - exact (H2 false eq_refl).
Qed.

(* with the index enabled: every accepted option list *)
Theorem C20_e2e_enabled_thm :
  forall ds dall o lib compress hd cs, e2e_hyps ds dall o lib compress hd cs ->
  index_enabled (effective_opts o) -> o_skip_stats o = false \/ (exists c, In (CChannel c) cs) ->
  let w := W o lib compress None (CHeader hd :: cs ++ [CClose]) in
  let f := mem_file (file_of w) in
  forall os r0 ri,
    apply_opts os default_ropts = Ok r0 -> ro_use_index r0 = true -> ro_md_cb r0 = false ->
    read_messages ds dall f os = Ok ri ->
    rr_mode ri = Some MIndexed /\ rr_end ri = EEOF /\
    (ro_order r0 = FileOrder -> (fst (rr_slots ri) <= 1)%nat /\ (snd (rr_slots ri) <= 1)%nat) /\
    (fst (rr_slots ri) <= Nat.max 1 (max_overlap (map ci_range (w_chunk_indexes (r_final w)))))%nat /\
    (snd (rr_slots ri) <= Nat.max 1 (max_overlap (map ci_range (w_chunk_indexes (r_final w)))))%nat.
Proof.
  intros ds dall o lib compress hd cs Hh Hen Hx w f os r0 ri Ha Hu Hcb Hri. pose proof Hh as Hh0.
  destruct Hh as (Hcodec & Hcomp & Hwf & Hsmall & Hnh & Hcons & Hok & Hsize & Hbounds & Hfuel).
  destruct (run_shape o lib compress hd cs Hwf Hnh Hok) as (D & de & ss & sos & crc & HS).
  pose proof (dispatch_enabled ds dall o lib compress hd cs Hwf Hnh Hok Hcodec Hcomp Hsmall Hsize Hbounds
                D de ss sos crc HS os r0 Hen Hx Ha Hu) as Hd.
  assert (Hcb' : ro_md_cb (finalize r0) = false) by (rewrite finalize_md_cb; exact Hcb).
  pose proof (magic_cases ds dall o lib compress hd cs Hwf Hok Hsize D de ss sos crc HS _ _ Hri) as Hm.
  destruct Hen as (E1 & E2 & E3 & E4).
  destruct (indexed_read_core ds dall o lib compress hd cs Hwf Hnh Hok Hcodec Hcomp Hsmall Hsize Hbounds
              D de ss sos crc HS os (finalize r0) ri Hm Hd Hcb' Hri) as (Hmode & _).
  assert (He : rr_end ri = EEOF).
  { destruct (chunks_typed ds dall o lib compress hd cs Hwf Hok Hcodec Hcomp Hsmall Hbounds D de ss sos crc HS E1)
      as (As & HA1 & HA2).
    apply (indexed_read_A_eof ds dall o lib compress hd cs Hwf Hnh Hok Hcodec Hcomp Hsmall Hsize Hbounds Hfuel
             D de ss sos crc HS As HA1 HA2 E1) with (os := os) (r := finalize r0); try assumption.
    rewrite E2. reflexivity. }
  destruct (C20_e2e_thm ds dall o lib compress hd cs Hh0 os (finalize r0) ri Hd Hcb' Hri He) as [S1 S2].
  rewrite E2, finalize_order in *.
  split; [exact Hmode|]. split; [exact He|]. split; [exact S1|].
  destruct (ro_order r0) eqn:Eo; [|apply S2; discriminate|apply S2; discriminate].
  destruct (S1 eq_refl) as [A B]. lia.
Qed.

(* ====================================================================================== *)
(** * 7. examples: a run whose chunks overlap in time *)
(* chunk size 70: the first chunk holds the schema, the channels and one message, the following
   chunks three messages each (the last one the rest).  Time ranges of the four chunks:
   [50,50] [10,40] [20,60] [5,5]; chunks 2 and 3 overlap, chunk 3 also covers chunk 1; chunks 2
   and 3 each contain two messages with the same log time. *)
Definition ov_o : wopts :=
  {| o_crc := true; o_chunked := true; o_chunksize := 70; o_comp := []; o_custom := false;
     o_skip_mi := false; o_skip_stats := false; o_skip_rsh := false; o_skip_rch := false;
     o_skip_ai := false; o_skip_mdi := false; o_skip_ci := false; o_skip_so := false;
     o_override_lib := false; o_skip_magic := false |}.
Definition ov_msg (ch sq lg : N) : message := {| m_chan := ch; m_seq := sq; m_log := lg; m_pub := lg; m_data := [] |}.
Definition ov_cs : list wcall :=
  [CSchema EndToEnd.ex_sc; CChannel EndToEnd.ex_c1; CChannel EndToEnd.ex_c2;
   CMessage (ov_msg 1 1 50);
   CMessage (ov_msg 1 2 10); CMessage (ov_msg 2 3 40); CMessage (ov_msg 1 4 40);
   CMessage (ov_msg 2 5 20); CMessage (ov_msg 1 6 60); CMessage (ov_msg 2 7 20);
   CMessage (ov_msg 1 8 5)].
Notation ov_w := (W ov_o [x6c] ce_id None (CHeader ex_hd :: ov_cs ++ [CClose])) (only parsing).
Notation ov_f := (mem_file (file_of ov_w)) (only parsing).
(* (mode, (channel id, sequence number, log time) of every message, slot statistics, final error) *)
Definition ov_view (r : outcome readres) :=
  match r with
  | Ok r => Some (rr_mode r, map (fun t : triple => (c_id (snd (fst t)), m_seq (snd t), m_log (snd t))) (rr_msgs r),
                  rr_slots r, rr_end r)
  | _ => None
  end.

Lemma ov_cs_consistent : ids_consistent ov_cs.
Proof.
  split.
  - intros c c' H1 H2 E0. unfold ov_cs in H1, H2. cbn [In] in H1, H2.
    repeat (destruct H1 as [H1|H1]; try discriminate); try contradiction;
    repeat (destruct H2 as [H2|H2]; try discriminate); try contradiction;
    injection H1 as <-; injection H2 as <-; try reflexivity; discriminate.
  - intros sc sc' H1 H2 E0. unfold ov_cs in H1, H2. cbn [In] in H1, H2.
    repeat (destruct H1 as [H1|H1]; try discriminate); try contradiction;
    repeat (destruct H2 as [H2|H2]; try discriminate); try contradiction;
    injection H1 as <-; injection H2 as <-; reflexivity.
Qed.

Lemma ov_cs_hyps : Forall call_wf ov_cs /\ Forall call_small ov_cs /\ no_header ov_cs.
Proof.
  split; [apply (forallb_Forall' call_wfb); [exact call_wfb_ok|vm_compute; reflexivity]|].
  split; [apply (forallb_Forall' call_smallb); [exact call_smallb_ok|vm_compute; reflexivity]|].
  unfold no_header, ov_cs. repeat constructor.
Qed.

Example ov_hyps : e2e_hyps ds_id ce_dall ov_o [x6c] ce_id ex_hd ov_cs.
Proof.
  destruct ov_cs_hyps as (H1 & H2 & H3).
  split; [apply ce_codec_id|]. split; [intros _; left; split; [reflexivity|intros; reflexivity]|].
  split; [exact H1|]. split; [exact H2|]. split; [exact H3|]. split; [exact ov_cs_consistent|].
  split; [split; [vm_compute; reflexivity|vm_compute; repeat constructor]|].
  split; [vm_compute; reflexivity|].
  split; [apply e2e_boundsb_ok; vm_compute; reflexivity|].
  unfold e2e_fuel. apply Nat.leb_le. vm_compute. reflexivity.
Qed.

Example ov_enabled :
  index_enabled (effective_opts ov_o) /\ (exists c, In (CChannel c) ov_cs) /\
  index_enabled (effective_opts y_o) /\ (exists c, In (CChannel c) ex_cs).
Proof.
  split; [repeat split|]. split; [exists EndToEnd.ex_c1; right; left; reflexivity|].
  split; [repeat split|exists EndToEnd.ex_c1; right; left; reflexivity].
Qed.

(* the chunk indexes of the two runs: (start, end, offset); the largest number of chunks whose time
   ranges share a point *)
Example ov_layout :
  map (fun ci => (ci_start ci, ci_end ci, ci_offset ci)) (w_chunk_indexes (r_final ov_w))
    = [(50, 50, 26); (10, 40, 224); (20, 60, 444); (5, 5, 664)] /\
  max_overlap (map ci_range (w_chunk_indexes (r_final ov_w))) = 2%nat /\
  map (fun ci => (ci_start ci, ci_end ci)) (w_chunk_indexes (r_final (W y_o [x6c] ce_id None (CHeader ex_hd :: ex_cs ++ [CClose]))))
    = [(10, 10); (7, 7); (12, 12); (3, 3)] /\
  max_overlap (map ci_range (w_chunk_indexes (r_final (W y_o [x6c] ce_id None (CHeader ex_hd :: ex_cs ++ [CClose]))))) = 1%nat.
Proof. vm_compute. repeat split. Qed.

(* what the reader returns on the overlapping run, computed independently of the theorems *)
Example ov_reads :
  ov_view (read_messages ds_id ce_dall ov_f [OUsingIndex false])
    = Some (Some MScan, [(1, 1, 50); (1, 2, 10); (2, 3, 40); (1, 4, 40); (2, 5, 20); (1, 6, 60); (2, 7, 20); (1, 8, 5)], (0, 0)%nat, EEOF) /\
  ov_view (read_messages ds_id ce_dall ov_f [])
    = Some (Some MIndexed, [(1, 1, 50); (1, 2, 10); (2, 3, 40); (1, 4, 40); (2, 5, 20); (1, 6, 60); (2, 7, 20); (1, 8, 5)], (1, 1)%nat, EEOF) /\
  ov_view (read_messages ds_id ce_dall ov_f [OInOrder LogTimeOrder])
    = Some (Some MIndexed, [(1, 8, 5); (1, 2, 10); (2, 5, 20); (2, 7, 20); (2, 3, 40); (1, 4, 40); (1, 1, 50); (1, 6, 60)], (2, 2)%nat, EEOF) /\
  ov_view (read_messages ds_id ce_dall ov_f [OInOrder ReverseLogTimeOrder])
    = Some (Some MIndexed, [(1, 6, 60); (1, 1, 50); (1, 4, 40); (2, 3, 40); (2, 7, 20); (2, 5, 20); (1, 2, 10); (1, 8, 5)], (2, 2)%nat, EEOF).
Proof. vm_compute. repeat split. Qed.

(* the window [10, 50) and the topic of channel 2, the options in several orders and both spellings *)
Example ov_reads_window :
  let win := [(1, 2, 10); (2, 3, 40); (1, 4, 40); (2, 5, 20); (2, 7, 20)] in
  let wint := [(2, 3, 40); (2, 5, 20); (2, 7, 20)] in
  ov_view (read_messages ds_id ce_dall ov_f [OAfterNanos 10; OBeforeNanos 50]) = Some (Some MIndexed, win, (1, 1)%nat, EEOF) /\
  ov_view (read_messages ds_id ce_dall ov_f [OBeforeNanos 50; OAfterNanos 10]) = Some (Some MIndexed, win, (1, 1)%nat, EEOF) /\
  ov_view (read_messages ds_id ce_dall ov_f [OAfter 10; OBefore 50]) = Some (Some MIndexed, win, (1, 1)%nat, EEOF) /\
  ov_view (read_messages ds_id ce_dall ov_f [OBefore 50; OAfter 10]) = Some (Some MIndexed, win, (1, 1)%nat, EEOF) /\
  ov_view (read_messages ds_id ce_dall ov_f [OTopics [[x75]]; OAfterNanos 10; OBeforeNanos 50]) = Some (Some MIndexed, wint, (1, 1)%nat, EEOF) /\
  ov_view (read_messages ds_id ce_dall ov_f [OAfterNanos 10; OTopics [[x75]]; OBeforeNanos 50]) = Some (Some MIndexed, wint, (1, 1)%nat, EEOF) /\
  ov_view (read_messages ds_id ce_dall ov_f [OBeforeNanos 50; OAfterNanos 10; OTopics [[x75]]]) = Some (Some MIndexed, wint, (1, 1)%nat, EEOF) /\
  ov_view (read_messages ds_id ce_dall ov_f [OInOrder LogTimeOrder; OTopics [[x75]]; OBeforeNanos 50; OAfterNanos 10])
    = Some (Some MIndexed, [(2, 5, 20); (2, 7, 20); (2, 3, 40)], (2, 2)%nat, EEOF) /\
  ov_view (read_messages ds_id ce_dall ov_f [OAfterNanos 10; OBeforeNanos 50; OInOrder ReverseLogTimeOrder])
    = Some (Some MIndexed, [(1, 4, 40); (2, 3, 40); (2, 7, 20); (2, 5, 20); (1, 2, 10)], (2, 2)%nat, EEOF) /\
  (* the selection applied to the forced scan gives the same list *)
  option_map (fun v => filter (fun x : N * N * N => (10 <=? snd x) && (snd x <? 50)) (snd (fst (fst v))))
             (ov_view (read_messages ds_id ce_dall ov_f [OUsingIndex false])) = Some win /\
  (* and so does the scan with the same options *)
  ov_view (read_messages ds_id ce_dall ov_f [OAfterNanos 10; OBeforeNanos 50; OUsingIndex false]) = Some (Some MScan, win, (0, 0)%nat, EEOF) /\
  ov_view (read_messages ds_id ce_dall ov_f [OTopics [[x75]]; OAfterNanos 10; OBeforeNanos 50; OUsingIndex false]) = Some (Some MScan, wint, (0, 0)%nat, EEOF).
Proof. vm_compute. repeat split. Qed.

(* hypotheses of the theorems on concrete reads: the read succeeds and ends with io.EOF *)
Definition ov_read (os : list ropt) : readres := ce_get (read_messages ds_id ce_dall ov_f os).
Example ov_read_ok :
  Forall (fun os => read_messages ds_id ce_dall ov_f os = Ok (ov_read os) /\ rr_end (ov_read os) = EEOF)
    [[OUsingIndex false]; []; [OInOrder LogTimeOrder]; [OInOrder ReverseLogTimeOrder];
     [OAfterNanos 10; OBeforeNanos 50]; [OTopics [[x75]]; OBeforeNanos 50; OAfterNanos 10];
     [OInOrder LogTimeOrder; OTopics [[x75]]; OBeforeNanos 50; OAfterNanos 10]].
Proof. repeat (apply Forall_cons; [split; vm_compute; reflexivity|]). apply Forall_nil. Qed.

(* the theorems on the run *)
Example ov_C03_applies : forall d ri rs,
  read_messages ds_id ce_dall ov_f [OInOrder (order_of d)] = Ok ri -> read_messages ds_id ce_dall ov_f [OUsingIndex false] = Ok rs ->
  rr_end ri = EEOF ->
  rr_mode ri = Some MIndexed /\ Permutation (rr_msgs ri) (rr_msgs rs) /\
  StronglySorted (fun a b => led d (log_of a) (log_of b)) (rr_msgs ri).
Proof.
  intros d ri rs H1 H2 H3.
  destruct (C03_e2e_thm ds_id ce_dall ov_o [x6c] ce_id ex_hd ov_cs ov_hyps d ri rs H1 H2 H3) as (A & B & C & _). auto.
Qed.

Example ov_C04_applies : forall os r0 ri rs,
  forallb wt_opt os = true -> apply_opts os default_ropts = Ok r0 ->
  read_messages ds_id ce_dall ov_f os = Ok ri -> read_messages ds_id ce_dall ov_f [OUsingIndex false] = Ok rs ->
  ro_order r0 = FileOrder ->
  rr_msgs ri = filter (fun t : triple => topic_selected (ro_topics r0) (c_topic (snd (fst t))) &&
                        ((ro_start_n r0 <=? log_of t) && ((log_of t <? ro_end_n r0) || ro_unbounded r0))) (rr_msgs rs).
Proof.
  intros os r0 ri rs Hw Ha H1 H2 Ho. destruct ov_enabled as (E1 & E2 & _).
  destruct (C04_e2e_nanos_thm ds_id ce_dall ov_o [x6c] ce_id ex_hd ov_cs ov_hyps E1 (or_intror E2) os r0 ri rs Hw Ha H1 H2) as (_ & _ & _ & HF & _).
  exact (HF Ho).
Qed.

Example ov_C20_applies : forall os r0 ri,
  apply_opts os default_ropts = Ok r0 -> ro_use_index r0 = true -> ro_md_cb r0 = false ->
  read_messages ds_id ce_dall ov_f os = Ok ri ->
  (fst (rr_slots ri) <= 2)%nat /\ (snd (rr_slots ri) <= 2)%nat.
Proof.
  intros os r0 ri Ha Hu Hcb Hri. destruct ov_enabled as (E1 & E2 & _).
  destruct (C20_e2e_enabled_thm ds_id ce_dall ov_o [x6c] ce_id ex_hd ov_cs ov_hyps E1 (or_intror E2) os r0 ri Ha Hu Hcb Hri) as (_ & _ & _ & S1 & S2).
  destruct ov_layout as (_ & K & _). rewrite K in S1, S2. exact (conj S1 S2).
Qed.

(* ---------- the statements as the property files give them ---------- *)
Theorem C03_e2e_logtime_thm :
  forall ds dall o lib compress hd cs, e2e_hyps ds dall o lib compress hd cs ->
  let w := W o lib compress None (CHeader hd :: cs ++ [CClose]) in
  let f := mem_file (file_of w) in
  let cis := if o_skip_ci (effective_opts o) then [] else w_chunk_indexes (r_final w) in
  forall ri rs,
    read_messages ds dall f [OInOrder LogTimeOrder] = Ok ri -> read_messages ds dall f [OUsingIndex false] = Ok rs ->
    rr_end ri = EEOF ->
    rr_mode ri = Some MIndexed /\
    Permutation (rr_msgs ri) (rr_msgs rs) /\
    StronglySorted (fun a b : triple => m_log (snd a) <= m_log (snd b)) (rr_msgs ri) /\
    exists segs : list (list triple),
      concat segs = rr_msgs rs /\
      Forall2 (fun seg ci => Forall (fun t : triple => ci_start ci <= m_log (snd t) <= ci_end ci) seg) segs cis /\
      forall seg t1 t2, In seg segs -> before t1 t2 seg -> m_log (snd t1) = m_log (snd t2) ->
        before t1 t2 (rr_msgs ri).
Proof. intros ds dall o lib compress hd cs H w f cis ri rs. exact (C03_e2e_thm ds dall o lib compress hd cs H true ri rs). Qed.

Theorem C03_e2e_reverse_thm :
  forall ds dall o lib compress hd cs, e2e_hyps ds dall o lib compress hd cs ->
  let w := W o lib compress None (CHeader hd :: cs ++ [CClose]) in
  let f := mem_file (file_of w) in
  let cis := if o_skip_ci (effective_opts o) then [] else w_chunk_indexes (r_final w) in
  forall ri rs,
    read_messages ds dall f [OInOrder ReverseLogTimeOrder] = Ok ri -> read_messages ds dall f [OUsingIndex false] = Ok rs ->
    rr_end ri = EEOF ->
    rr_mode ri = Some MIndexed /\
    Permutation (rr_msgs ri) (rr_msgs rs) /\
    StronglySorted (fun a b : triple => m_log (snd b) <= m_log (snd a)) (rr_msgs ri) /\
    exists segs : list (list triple),
      concat segs = rr_msgs rs /\
      Forall2 (fun seg ci => Forall (fun t : triple => ci_start ci <= m_log (snd t) <= ci_end ci) seg) segs cis /\
      forall seg t1 t2, In seg segs -> before t1 t2 seg -> m_log (snd t1) = m_log (snd t2) ->
        before t2 t1 (rr_msgs ri).
Proof. intros ds dall o lib compress hd cs H w f cis ri rs. exact (C03_e2e_thm ds dall o lib compress hd cs H false ri rs). Qed.

(* ====================================================================================== *)
(** * 8. the sequential scan with a window and topics *)
(* EndToEnd.ascan_consistent covers the scan without window and topics; the scan with options returns
   the selected part of it *)

Definition csel (ro : ropts) (L : list arec) (m : message) : bool :=
  match chan_of L (m_chan m) with
  | Some c => topic_selected (ro_topics ro) (c_topic c) && in_window ro (m_log m)
  | None => false
  end.

Lemma ascan_inv_gen ro L :
  (forall c c', In (AChannel c) L -> In (AChannel c') L -> c_id c = c_id c' -> c = c') ->
  (forall s s', In (ASchema s) L -> In (ASchema s') L -> s_id s = s_id s' -> s = s') ->
  (forall s, In (ASchema s) L -> s_id s <> 0) ->
  forall L2 sch chs chids schids,
  incl L2 L -> scoped chids schids L2 ->
  (forall id, In id chids -> exists c, In (AChannel c) L /\ c_id c = id /\
      tab_get id chs = (if topic_selected (ro_topics ro) (c_topic c) then Some (channel_norm c) else None) /\
      (c_schema c = 0 \/ In (c_schema c) schids)) ->
  (forall id, ~ In id chids -> tab_get id chs = None) ->
  (forall id, In id schids -> exists s, In (ASchema s) L /\ s_id s = id /\ tab_get id sch = Some s) ->
  tab_get 0 sch = None ->
  exists ts, ascan ro sch chs L2 = Some ts /\
             Forall2 (fun t m => triple_of L m = Some t) ts (filter (csel ro L) (amsgs L2)).
Proof.
  intros HcC HcS Hs0.
  induction L2 as [|a L2 IH]; intros sch chs chids schids Hincl Hsc HC HN HS H0.
  - exists []. split; [reflexivity|constructor].
  - assert (Hin : In a L) by (apply Hincl; left; reflexivity).
    assert (Hincl' : incl L2 L) by (intros x Hx; apply Hincl; right; exact Hx).
    destruct a as [s|c|m]; cbn [scoped] in Hsc; cbn [ascan].
    + rewrite amsgs_schema.
      apply IH with (chids := chids) (schids := s_id s :: schids); try assumption.
      * intros id Hid. destruct (HC id Hid) as (c & Hc & Hcid & Hget & Hsch).
        exists c. repeat split; try assumption.
        destruct Hsch as [Hz|Hi]; [left; exact Hz|right; right; exact Hi].
      * intros id Hid.
        destruct (N.eq_dec (s_id s) id) as [E|E].
        { exists s. repeat split; try assumption. rewrite <- E. apply tab_get_set_same. }
        destruct Hid as [Hid|Hid]; [contradiction|].
        destruct (HS id Hid) as (s' & Hs' & Hsid & Hget).
        exists s'. repeat split; try assumption.
        rewrite tab_get_set_other by exact E. exact Hget.
      * rewrite tab_get_set_other by (apply Hs0; exact Hin). exact H0.
    + rewrite amsgs_channel. destruct Hsc as [Hsch Hsc].
      assert (Hold : forall id, In id chids -> id <> c_id c -> forall chs',
                (forall id', id' <> c_id c -> tab_get id' chs' = tab_get id' chs) ->
                exists c0, In (AChannel c0) L /\ c_id c0 = id /\
                  tab_get id chs' = (if topic_selected (ro_topics ro) (c_topic c0) then Some (channel_norm c0) else None) /\
                  (c_schema c0 = 0 \/ In (c_schema c0) schids)).
      { intros id Hid Hne chs' Hsame. destruct (HC id Hid) as (c' & Hc' & Hcid & Hget & Hsch').
        exists c'. repeat split; try assumption. rewrite Hsame by exact Hne. exact Hget. }
      destruct (topic_selected (ro_topics ro) (c_topic c)) eqn:Et.
      * apply IH with (chids := c_id c :: chids) (schids := schids); try assumption.
        -- intros id Hid. destruct (N.eq_dec id (c_id c)) as [E|E].
           ++ exists c. repeat split; try assumption; [symmetry; exact E|]. rewrite Et, E. apply tab_get_set_same.
           ++ destruct Hid as [Hid|Hid]; [congruence|].
              apply (Hold id Hid E). intros id' Hne. apply tab_get_set_other. congruence.
        -- intros id Hid. rewrite tab_get_set_other by (intro E; apply Hid; left; exact E).
           apply HN. intro Hi. apply Hid. right. exact Hi.
      * apply IH with (chids := c_id c :: chids) (schids := schids); try assumption.
        -- intros id Hid. destruct (N.eq_dec id (c_id c)) as [E|E].
           ++ exists c. repeat split; try assumption; [symmetry; exact E|]. rewrite Et, E.
              destruct (in_dec N.eq_dec (c_id c) chids) as [Hi|Hi].
              ** destruct (HC _ Hi) as (c' & Hc' & Hcid & Hget & _). rewrite (HcC c' c Hc' Hin Hcid) in Hget.
                 rewrite Et in Hget. exact Hget.
              ** apply HN, Hi.
           ++ destruct Hid as [Hid|Hid]; [congruence|]. apply (Hold id Hid E). reflexivity.
        -- intros id Hid. apply HN. intro Hi. apply Hid. right. exact Hi.
    + rewrite amsgs_message. destruct Hsc as [Hch Hsc].
      destruct (HC _ Hch) as (c & Hc & Hcid & Hget & Hsch).
      destruct (IH sch chs chids schids Hincl' Hsc HC HN HS H0) as (ts & Hts & HF).
      assert (Hco : chan_of L (m_chan m) = Some c) by (rewrite <- Hcid; apply chan_of_in; assumption).
      cbn [filter]. unfold csel at 1. rewrite Hco, Hget.
      destruct (topic_selected (ro_topics ro) (c_topic c)); cbn [andb]; [|exists ts; split; assumption].
      destruct (in_window ro (m_log m)); [|exists ts; split; assumption].
      change (c_schema (channel_norm c)) with (c_schema c). rewrite Hts. cbn [option_map].
      destruct (N.eq_dec (c_schema c) 0) as [Ez|Ez].
      * rewrite Ez, H0. change (0 =? 0) with true. cbv iota.
        eexists. split; [reflexivity|]. constructor; [|exact HF].
        unfold triple_of. rewrite Hco, Ez, (schema_of_0 L Hs0). reflexivity.
      * destruct Hsch as [Hz|Hi]; [contradiction|].
        destruct (HS _ Hi) as (s & Hs & Hsid & Hgs). rewrite Hgs.
        eexists. split; [reflexivity|]. constructor; [|exact HF].
        unfold triple_of. rewrite Hco, <- Hsid, (schema_of_in L s HcS Hs). reflexivity.
Qed.

Theorem ascan_consistent_gen ro L :
  scoped [] [] L ->
  (forall c c', In (AChannel c) L -> In (AChannel c') L -> c_id c = c_id c' -> c = c') ->
  (forall s s', In (ASchema s) L -> In (ASchema s') L -> s_id s = s_id s' -> s = s') ->
  (forall s, In (ASchema s) L -> s_id s <> 0) ->
  exists ts, ascan ro [] [] L = Some ts /\
             Forall2 (fun t m => triple_of L m = Some t) ts (filter (csel ro L) (amsgs L)).
Proof.
  intros Hsc HcC HcS Hs0.
  apply (ascan_inv_gen ro L HcC HcS Hs0 L [] [] [] []).
  - apply incl_refl.
  - exact Hsc.
  - intros id [].
  - reflexivity.
  - intros id [].
  - reflexivity.
Qed.

Section ScanOpts.
Variable ds : doracle.
Variable dall : dalloracle.
Variable o : wopts.
Variable lib : bytes.
Variable compress : nat -> bytes -> bytes.
Variable hd : header.
Variable cs : list wcall.

Let eo := effective_opts o.
Let w := W o lib compress None (CHeader hd :: cs ++ [CClose]).
Let s := r_final w.
Let F := file_of w.

Hypothesis Hwf : Forall call_wf cs.
Hypothesis Hnh : no_header cs.
Hypothesis Hok : all_ok w.
Hypothesis Hcodec : codec_ok ds dall (o_comp o) compress.
Hypothesis Hcomp : comp_ok o compress.
Hypothesis Hsmall : Forall call_small cs.
Hypothesis Hcons : ids_consistent cs.
Hypothesis Hsize : blen F < two63.
Hypothesis Hbounds : e2e_bounds w.
Hypothesis Hfuel : e2e_fuel ds w.

Variable D : list sitem.
Variable de : bytes.
Variables ss sos crc : N.
Hypothesis HS : Shape o lib compress hd cs D de ss sos crc.

Let sch' := if o_skip_rsh eo then [] else map snd (w_schemas s).
Let chs' := if o_skip_rch eo then [] else map snd (w_channels s).
Let L_all := auto_recs cs ++ map ASchema sch' ++ map AChannel chs'.
Let R (t : triple) (m : message) : Prop := triple_of L_all m = Some t.

Lemma L_all_scan_gen ro :
  exists ts, ascan ro [] [] L_all = Some ts /\ Forall2 R ts (filter (csel ro L_all) (messages_of cs)).
Proof.
  unfold R. rewrite <- (L_all_msgs o lib compress hd cs). fold eo w s sch' chs' L_all. apply ascan_consistent_gen.
  - exact (L_all_scoped o lib compress hd cs Hwf Hnh Hok).
  - intros c c' H1 H2. apply (proj1 Hcons); apply (L_all_channel o lib compress hd cs Hwf Hnh Hok); assumption.
  - intros sc sc' H1 H2. apply (proj2 Hcons); apply (L_all_schema o lib compress hd cs Hwf Hnh Hok); assumption.
  - intros sc H. destruct (EndToEnd.run_tables o lib compress hd cs Hwf Hnh Hok) as (_ & _ & _ & _ & HSC).
    exact (call_scoped_schema_nz cs [] [] sc HSC (L_all_schema o lib compress hd cs Hwf Hnh Hok sc H)).
Qed.

(* the sequential read of the written file, any options *)
Let hbX : bytes := enc_header {| h_profile := h_profile hd; h_library := header_library eo lib hd |}.

Lemma scan_eq os r : o_skip_magic eo = false ->
  messages_dispatch ds (mem_file F) os = Ok (MScan, r) ->
  exists ts mds, Forall2 R ts (filter (csel r L_all) (messages_of cs)) /\
    read_messages ds dall (mem_file F) os =
    bind (parse_header hbX)
      (fun _ => Ok {| rr_mode := Some MScan; rr_msgs := ts; rr_mds := mds; rr_end := EEOF; rr_slots := (O, O) |}).
Proof.
  intros Hm Hd.
  pose proof (E_auto ds dall o lib compress hd cs Hwf Hok Hcodec Hcomp Hsmall Hbounds D de ss sos crc HS) as EA.
  match type of EA with filter _ (file_events _ _ ?rc) = _ => set (recs := rc) in * end.
  pose proof (tr_data_file o lib compress hd cs D de ss sos crc HS Hm) as ET. fold eo hbX recs in ET.
  assert (EF : F = render (data_file hbX recs)).
  { unfold F, w. rewrite (run_file_is_trace o lib compress hd cs Hwf Hok), ET. reflexivity. }
  rewrite EF in Hd. rewrite EF.
  rewrite (C02_read_scan_thm ds dall hbX recs os r
             (hb_small o lib compress hd cs Hbounds D de ss sos crc HS)
             (recs_wf ds dall o lib compress hd cs Hwf Hok Hcodec Hcomp Hsmall Hsize Hbounds D de ss sos crc HS)
             Hd (scan_fuel ds o lib compress hd cs Hwf Hok Hsize Hfuel D de ss sos crc HS Hm)).
  destruct (L_all_scan_gen r) as (ts & Hts & HF2).
  rewrite (scan_spec_auto r _ [] [] EEOF L_all ts EA
             (L_all_wf o lib compress hd cs Hwf Hnh Hok)
             (E_benign ds dall o lib compress hd cs Hwf Hok Hcodec Hcomp Hsmall Hbounds D de ss sos crc HS r) Hts).
  eexists ts, _. split; [exact HF2|]. destruct (parse_header hbX); reflexivity.
Qed.

(* a read that returns at all has parsed the header *)
Lemma header_parses os ri : read_messages ds dall (mem_file F) os = Ok ri -> exists h, parse_header hbX = Ok h.
Proof.
  intro Hr. pose proof (magic_cases ds dall o lib compress hd cs Hwf Hok Hsize D de ss sos crc HS _ _ Hr) as Hm.
  pose proof (tr_data_file o lib compress hd cs D de ss sos crc HS Hm) as ET. fold eo hbX in ET.
  match type of ET with _ = data_file _ ?rc => set (recs := rc) in * end.
  assert (EF : F = render (IMagic :: IRec OpHeader hbX :: recs ++ [IMagic])).
  { unfold F, w. rewrite (run_file_is_trace o lib compress hd cs Hwf Hok), ET. reflexivity. }
  rewrite EF in Hr. unfold read_messages in Hr.
  destruct (new_reader_ok ds hbX (recs ++ [IMagic]) true (hb_small o lib compress hd cs Hbounds D de ss sos crc HS))
    as (l0 & _ & E0).
  rewrite E0 in Hr. destruct (parse_header hbX) as [h| | | |]; cbn [bind] in Hr; try discriminate.
  exists h. reflexivity.
Qed.

Lemma scan_read_gen os r rs : o_skip_magic eo = false ->
  messages_dispatch ds (mem_file F) os = Ok (MScan, r) ->
  read_messages ds dall (mem_file F) os = Ok rs ->
  rr_mode rs = Some MScan /\ rr_end rs = EEOF /\
  Forall2 R (rr_msgs rs) (filter (csel r L_all) (messages_of cs)).
Proof.
  intros Hm Hd Hr. destruct (scan_eq os r Hm Hd) as (ts & mds & HF & E). rewrite E in Hr.
  destruct (parse_header hbX) as [h| | | |]; cbn [bind] in Hr; try discriminate.
  injection Hr as <-. cbn [rr_mode rr_end rr_msgs]. auto.
Qed.

(* the forced scan returns whenever some read of the file returns *)
Lemma forced_scan_exists os ri : read_messages ds dall (mem_file F) os = Ok ri ->
  exists rs, read_messages ds dall (mem_file F) [OUsingIndex false] = Ok rs.
Proof.
  intro Hr. pose proof (magic_cases ds dall o lib compress hd cs Hwf Hok Hsize D de ss sos crc HS _ _ Hr) as Hm.
  destruct (header_parses os ri Hr) as (h & Hh).
  assert (Hd : messages_dispatch ds (mem_file F) ([] ++ [OUsingIndex false])
               = Ok (MScan, finalize (default_ropts <| ro_use_index := false |>))).
  { apply C02_dispatch_no_index_thm; reflexivity. }
  destruct (scan_eq _ _ Hm Hd) as (ts & mds & _ & E). cbn [app] in E. rewrite E, Hh. cbn [bind]. eexists. reflexivity.
Qed.

(* a triple of the scan is selected exactly when its message is *)
Lemma R_csel ro t m : R t m -> tsel ro t = csel ro L_all m.
Proof.
  unfold R, triple_of, tsel, csel. destruct (chan_of L_all (m_chan m)) as [c|]; [|discriminate].
  intro Ht.
  assert (E : c_topic (snd (fst t)) = c_topic c /\ snd t = m).
  { destruct (schema_of _ (c_schema c)); [injection Ht as <-; auto|].
    destruct (c_schema c =? 0); [injection Ht as <-; auto|discriminate]. }
  destruct E as [-> ->]. reflexivity.
Qed.

(* the scan with options returns the selected part of the forced scan *)
Lemma scan_opts_filter os r0 rs' rs :
  apply_opts os default_ropts = Ok r0 -> ro_order r0 = FileOrder ->
  read_messages ds dall (mem_file F) (os ++ [OUsingIndex false]) = Ok rs' ->
  read_messages ds dall (mem_file F) [OUsingIndex false] = Ok rs ->
  rr_mode rs' = Some MScan /\ rr_end rs' = EEOF /\ rr_msgs rs' = filter (tsel (finalize r0)) (rr_msgs rs).
Proof.
  intros Ha Ho Hr' Hr.
  pose proof (magic_cases ds dall o lib compress hd cs Hwf Hok Hsize D de ss sos crc HS _ _ Hr) as Hm.
  pose proof (C02_dispatch_no_index_thm ds (mem_file F) os r0 Ha Ho) as Hd'.
  destruct (scan_read_gen _ _ rs' Hm Hd' Hr') as (S1 & S2 & S3).
  destruct (noindex_read ds dall o lib compress hd cs Hwf Hnh Hok Hcodec Hcomp Hsmall Hcons Hsize Hbounds Hfuel
              D de ss sos crc HS false rs Hm Hr) as (_ & _ & T3 & _).
  fold eo w s sch' chs' L_all in T3. change (Forall2 R (rr_msgs rs) (messages_of cs)) in T3.
  split; [exact S1|]. split; [exact S2|].
  assert (Ec : forall m, csel (finalize (r0 <| ro_use_index := false |>)) L_all m = csel (finalize r0) L_all m).
  { intro m. unfold csel, in_window, finalize. destruct r0 as [st en tp ui od mc sn enn ub]. cbn.
    destruct ((sn =? 0) && (0 <? st)%Z); cbn; destruct ((_ || _) && (0 <? en)%Z); reflexivity. }
  rewrite (filter_ext _ _ Ec) in S3.
  assert (HF : Forall2 R (filter (tsel (finalize r0)) (rr_msgs rs)) (filter (csel (finalize r0) L_all) (messages_of cs))).
  { apply Forall2_filter_fun; [exact T3|]. intros t m. apply R_csel. }
  exact (Forall2_fun_eq (triple_of L_all) _ _ _ S3 HF).
Qed.


End ScanOpts.

(* the scan with options, against the forced scan *)
Theorem C04_e2e_scan_thm :
  forall ds dall o lib compress hd cs, e2e_hyps ds dall o lib compress hd cs ->
  let f := mem_file (file_of (W o lib compress None (CHeader hd :: cs ++ [CClose]))) in
  forall os r0 rs' rs,
    apply_opts os default_ropts = Ok r0 -> ro_order r0 = FileOrder ->
    read_messages ds dall f (os ++ [OUsingIndex false]) = Ok rs' -> read_messages ds dall f [OUsingIndex false] = Ok rs ->
    rr_mode rs' = Some MScan /\ rr_end rs' = EEOF /\ rr_msgs rs' = filter (tsel (finalize r0)) (rr_msgs rs).
Proof.
  intros ds dall o lib compress hd cs (Hcodec & Hcomp & Hwf & Hsmall & Hnh & Hcons & Hok & Hsize & Hbounds & Hfuel)
    f os r0 rs' rs Ha Ho Hr' Hr.
  destruct (run_shape o lib compress hd cs Hwf Hnh Hok) as (D & de & ss & sos & crc & HS).
  exact (scan_opts_filter ds dall o lib compress hd cs Hwf Hnh Hok Hcodec Hcomp Hsmall Hcons Hsize Hbounds Hfuel
           D de ss sos crc HS os r0 rs' rs Ha Ho Hr' Hr).
Qed.

(* file order: the same messages with and without the index *)
Theorem C04_e2e_same_thm :
  forall ds dall o lib compress hd cs, e2e_hyps ds dall o lib compress hd cs ->
  index_enabled (effective_opts o) -> o_skip_stats o = false \/ (exists c, In (CChannel c) cs) ->
  let f := mem_file (file_of (W o lib compress None (CHeader hd :: cs ++ [CClose]))) in
  forall os r0 ri rs',
    apply_opts os default_ropts = Ok r0 -> ro_use_index r0 = true -> ro_md_cb r0 = false -> ro_order r0 = FileOrder ->
    read_messages ds dall f os = Ok ri -> read_messages ds dall f (os ++ [OUsingIndex false]) = Ok rs' ->
    rr_mode ri = Some MIndexed /\ rr_mode rs' = Some MScan /\ rr_end ri = EEOF /\ rr_end rs' = EEOF /\
    rr_msgs ri = rr_msgs rs'.
Proof.
  intros ds dall o lib compress hd cs Hh Hen Hx f os r0 ri rs' Ha Hu Hcb Ho Hri Hr'. pose proof Hh as Hh0.
  destruct Hh as (Hcodec & Hcomp & Hwf & Hsmall & Hnh & Hcons & Hok & Hsize & Hbounds & Hfuel).
  destruct (run_shape o lib compress hd cs Hwf Hnh Hok) as (D & de & ss & sos & crc & HS).
  destruct (forced_scan_exists ds dall o lib compress hd cs Hwf Hnh Hok Hcodec Hcomp Hsmall Hcons Hsize Hbounds Hfuel
              D de ss sos crc HS os ri Hri) as (rs & Hrs).
  destruct (C04_e2e_thm ds dall o lib compress hd cs Hh0 Hen Hx os r0 ri rs Ha Hu Hcb Hri Hrs) as (A1 & A2 & _ & _ & _ & A6 & _).
  destruct (C04_e2e_scan_thm ds dall o lib compress hd cs Hh0 os r0 rs' rs Ha Ho Hr' Hrs) as (B1 & B2 & B3).
  split; [exact A1|]. split; [exact B1|]. split; [exact A2|]. split; [exact B2|].
  rewrite (A6 Ho), B3. reflexivity.
Qed.

(* the bound in terms of the chunk indexes Reader.Info returns *)
Lemma max_overlap_info cis :
  max_overlap (map ci_range (ci_sort FileOrder (map chunkindex_norm cis))) = max_overlap (map ci_range cis).
Proof.
  rewrite ci_sort_gsort.
  rewrite (max_overlap_perm _ _ (Permutation_map ci_range (gsort_perm (ci_before FileOrder) (map chunkindex_norm cis)))).
  apply max_overlap_ranges. rewrite !map_map. reflexivity.
Qed.

Theorem C20_e2e_info_thm :
  forall ds dall o lib compress hd cs, e2e_hyps ds dall o lib compress hd cs ->
  let f := mem_file (file_of (W o lib compress None (CHeader hd :: cs ++ [CClose]))) in
  forall sm os r ri,
    info ds f = Ok sm ->
    messages_dispatch ds f os = Ok (MIndexed, r) -> ro_md_cb r = false ->
    read_messages ds dall f os = Ok ri -> rr_end ri = EEOF ->
    (ro_order r = FileOrder -> (fst (rr_slots ri) <= 1)%nat /\ (snd (rr_slots ri) <= 1)%nat) /\
    (fst (rr_slots ri) <= Nat.max 1 (max_overlap (map ci_range (sm_cis sm))))%nat /\
    (snd (rr_slots ri) <= Nat.max 1 (max_overlap (map ci_range (sm_cis sm))))%nat.
Proof.
  intros ds dall o lib compress hd cs Hh f sm os r ri Hi Hd Hcb Hri He.
  destruct (C02_e2e_info_thm ds dall o lib compress hd cs Hh) as (sm' & Hi' & _ & _ & Hc & _).
  fold f in Hi'. rewrite Hi in Hi'. injection Hi' as <-.
  rewrite Hc, max_overlap_info.
  destruct (C20_e2e_thm ds dall o lib compress hd cs Hh os r ri Hd Hcb Hri He) as [S1 S2].
  destruct (eff_skips2 o) as (K & _). rewrite K in S2.
  split; [exact S1|].
  destruct (ro_order r) eqn:Eo; [|apply S2; discriminate|apply S2; discriminate].
  destruct (S1 eq_refl) as [A B]. lia.
Qed.

(* examples: the scan theorems and the Info form of the bound on the overlapping run *)
Example ov_same_applies : forall os r0 ri rs',
  apply_opts os default_ropts = Ok r0 -> ro_use_index r0 = true -> ro_md_cb r0 = false -> ro_order r0 = FileOrder ->
  read_messages ds_id ce_dall ov_f os = Ok ri -> read_messages ds_id ce_dall ov_f (os ++ [OUsingIndex false]) = Ok rs' ->
  rr_msgs ri = rr_msgs rs'.
Proof.
  intros os r0 ri rs' Ha Hu Hcb Ho H1 H2. destruct ov_enabled as (E1 & E2 & _).
  destruct (C04_e2e_same_thm ds_id ce_dall ov_o [x6c] ce_id ex_hd ov_cs ov_hyps E1 (or_intror E2) os r0 ri rs' Ha Hu Hcb Ho H1 H2)
    as (_ & _ & _ & _ & E). exact E.
Qed.

Example ov_info_overlap :
  option_map (fun sm => max_overlap (map ci_range (sm_cis sm))) (match info ds_id ov_f with Ok sm => Some sm | _ => None end) = Some 2%nat.
Proof. vm_compute. reflexivity. Qed.

(* the chunk-size-1 run of C02_full (four chunks of one message): the time-ordered reads *)
Example ex1_time_reads :
  let f1 := mem_file (file_of (W y_o [x6c] ce_id None (CHeader ex_hd :: ex_cs ++ [CClose]))) in
  ex_view (read_messages ds_id ce_dall f1 [OUsingIndex false]) = Some (Some MScan, [(1, 10); (2, 7); (1, 12); (2, 3)], 0%nat, EEOF) /\
  ex_view (read_messages ds_id ce_dall f1 [OInOrder LogTimeOrder]) = Some (Some MIndexed, [(2, 3); (2, 7); (1, 10); (1, 12)], 0%nat, EEOF) /\
  ex_view (read_messages ds_id ce_dall f1 [OInOrder ReverseLogTimeOrder]) = Some (Some MIndexed, [(1, 12); (1, 10); (2, 7); (2, 3)], 0%nat, EEOF) /\
  ex_view (read_messages ds_id ce_dall f1 [OAfterNanos 7; OBeforeNanos 12]) = Some (Some MIndexed, [(1, 10); (2, 7)], 0%nat, EEOF) /\
  ex_view (read_messages ds_id ce_dall f1 [OTopics [[x74]]]) = Some (Some MIndexed, [(1, 10); (1, 12)], 0%nat, EEOF) /\
  option_map (fun r => rr_slots r) (match read_messages ds_id ce_dall f1 [OInOrder LogTimeOrder] with Ok r => Some r | _ => None end)
    = Some (1, 0)%nat.
Proof. vm_compute. repeat split. Qed.

(* the dispatch hypothesis of e2e_indexed_read_thm / C20_e2e_thm on the overlapping run *)
Definition ov_disp (os : list ropt) : option (mode * bool * rorder) :=
  match messages_dispatch ds_id ov_f os with Ok (m, r) => Some (m, ro_md_cb r, ro_order r) | _ => None end.
Example ov_dispatch :
  ov_disp [] = Some (MIndexed, false, FileOrder) /\
  ov_disp [OAfterNanos 10; OBeforeNanos 50] = Some (MIndexed, false, FileOrder) /\
  ov_disp [OInOrder LogTimeOrder; OTopics [[x75]]; OBeforeNanos 50; OAfterNanos 10] = Some (MIndexed, false, LogTimeOrder) /\
  ov_disp [OAfter 10; OBefore 50; OInOrder ReverseLogTimeOrder] = Some (MIndexed, false, ReverseLogTimeOrder).
Proof. vm_compute. repeat split. Qed.
