(* DecisionTieR.v - the boolean decisions of go/mcap's readers, read options and writer bookkeeping, as regenerated
   on every run from the Go AST (DecisionsR_gen.v), are the decisions the model takes.

   Each `tie_*` lemma equates one generated definition with the corresponding piece of Reader.v / Writer.v; the proofs
   are semantic (case analysis on the comparisons, then linear arithmetic), so an equivalent rewriting of the Go
   expression (a > b for b < a, reordered disjuncts) still checks, while a changed decision (< for <=, a dropped
   disjunct, swapped operands of a comparator) does not.  The `*_unfold` lemmas show that the model's step functions
   use exactly these decisions at the corresponding program points. *)
From Coq Require Import List NArith ZArith Bool Lia ZifyBool ZifyN.
From RecordUpdate Require Import RecordSet.
From Mcap Require Import Bytes GoSem Records Lexer Writer Reader DecisionsR_gen.
Import ListNotations RecordSetNotations.
Open Scope N_scope.

(* case analysis on every comparison in the goal, then arithmetic *)
Ltac cmp_cases :=
  repeat match goal with
  | |- context [N.ltb ?x ?y] => destruct (N.ltb_spec x y)
  | |- context [N.leb ?x ?y] => destruct (N.leb_spec x y)
  | |- context [N.eqb ?x ?y] => destruct (N.eqb_spec x y)
  | |- context [Z.ltb ?x ?y] => destruct (Z.ltb_spec x y)
  | |- context [Z.leb ?x ?y] => destruct (Z.leb_spec x y)
  | |- context [Z.eqb ?x ?y] => destruct (Z.eqb_spec x y)
  end.
Ltac bool_cases :=
  repeat match goal with
  | |- context [negb ?b] => is_var b; destruct b
  | |- context [andb ?b _] => is_var b; destruct b
  | |- context [orb ?b _] => is_var b; destruct b
  | |- context [andb _ ?b] => is_var b; destruct b
  | |- context [orb _ ?b] => is_var b; destruct b
  end.
Ltac decide_tie := cmp_cases; bool_cases; cbn; try reflexivity; try (exfalso; lia); try lia.

(* ------------------------------------------------------------------ indexed reader: order of chunks *)
Lemma tie_ci_less (o : rorder) (a b : chunkindex) :
  ci_before o a b = match o with
                    | FileOrder => go_ci_less_FileOrder a b
                    | LogTimeOrder => go_ci_less_LogTimeOrder a b
                    | ReverseLogTimeOrder => go_ci_less_ReverseLogTimeOrder a b
                    end.
Proof.
  destruct o; unfold ci_before, go_ci_less_FileOrder, go_ci_less_LogTimeOrder, go_ci_less_ReverseLogTimeOrder; decide_tie.
Qed.

(* the insertion used by the model's sort places x before y exactly when the Go comparator says less(x, y) *)
Lemma ci_insert_unfold (o : rorder) (x y : chunkindex) (r : list chunkindex) :
  ci_insert o x (y :: r) =
  if match o with
     | FileOrder => go_ci_less_FileOrder x y
     | LogTimeOrder => go_ci_less_LogTimeOrder x y
     | ReverseLogTimeOrder => go_ci_less_ReverseLogTimeOrder x y
     end then x :: y :: r else y :: ci_insert o x r.
Proof. cbn [ci_insert]. rewrite tie_ci_less. reflexivity. Qed.

(* which chunk indexes survive the time window *)
Lemma tie_ci_overlap (ro : ropts) (ci : chunkindex) :
  ci_time_ok ro false ci = go_ci_overlap ro ci.
Proof.
  unfold ci_time_ok, go_ci_overlap. generalize (ro_unbounded ro). intros u. decide_tie.
Qed.
(* Info runs the same code with start = end = 0, which keeps every chunk index *)
Lemma tie_ci_overlap_info (ro : ropts) (ci : chunkindex) :
  ro_start_n ro = 0 -> ro_end_n ro = 0 -> go_ci_overlap ro ci = true /\ ci_time_ok ro true ci = true.
Proof.
  intros Hs He. unfold ci_time_ok, go_ci_overlap. rewrite Hs, He. split; reflexivity.
Qed.

Lemma existsb_ext' {A} (f g : A -> bool) l : (forall x, f x = g x) -> existsb f l = existsb g l.
Proof. intros H. induction l as [|x l IH]; cbn; [reflexivity|]. rewrite H, IH. reflexivity. Qed.

(* pruning by topic *)
Lemma tie_prune (chans : list (N * channel)) (ci : chunkindex) :
  ci_topic_ok chans ci = go_prune_init ci || existsb (fun kv => go_prune_hit chans (fst kv)) (ci_mioffsets ci).
Proof.
  unfold ci_topic_ok, go_prune_init, go_prune_hit, go_notnil.
  destruct (ci_mioffsets ci) as [|kv l]; [reflexivity|].
  cbn [List.length]. replace (N.of_nat (S (List.length l)) =? 0) with false by lia.
  cbn [orb]. apply existsb_ext'. intros x. destruct (tab_get (fst x) chans); reflexivity.
Qed.

(* ------------------------------------------------------------------ indexed reader: messages of a chunk *)
Lemma tie_msg_select (ro : ropts) (chans : list (N * channel)) (m : message) :
  go_msg_select_indexed ro chans true m =
  match tab_get (m_chan m) chans with Some _ => in_window ro (m_log m) | None => false end.
Proof.
  unfold go_msg_select_indexed, go_notnil, in_window. generalize (ro_unbounded ro). intros u.
  destruct (tab_get (m_chan m) chans); decide_tie.
Qed.
Lemma tie_msg_select_other (ro : ropts) (chans : list (N * channel)) (m : message) :
  go_msg_select_indexed ro chans false m = false.
Proof. unfold go_msg_select_indexed. generalize (ro_unbounded ro). intros u. destruct (go_notnil _); decide_tie. Qed.

(* stable sorts of the pending queue: x (the later element) goes before y exactly when less(x, y) *)
Lemma en_insert_asc_unfold (x y : entry) (r : list entry) :
  en_insert_asc x (y :: r) = if go_en_less_LogTimeOrder x y then x :: y :: r else y :: en_insert_asc x r.
Proof.
  cbn [en_insert_asc]. unfold go_en_less_LogTimeOrder.
  replace (en_ts x <? en_ts y) with (N.ltb (en_ts x) (en_ts y)) by reflexivity. decide_tie.
Qed.
Lemma en_insert_desc_unfold (x y : entry) (r : list entry) :
  en_insert_desc x (y :: r) = if go_en_less_ReverseLogTimeOrder x y then x :: y :: r else y :: en_insert_desc x r.
Proof.
  cbn [en_insert_desc]. unfold go_en_less_ReverseLogTimeOrder. decide_tie.
Qed.

(* "load the next chunk before yielding" *)
Lemma tie_load_first (ro : ropts) (ci : chunkindex) (e : entry) :
  go_load_first ro ci e = match ro_order ro with
                          | LogTimeOrder => ci_start ci <? en_ts e
                          | ReverseLogTimeOrder => en_ts e <? ci_end ci
                          | FileOrder => false
                          end.
Proof. unfold go_load_first. destruct (ro_order ro); cbn; decide_tie. Qed.

Lemma i_next_unfold_yield dall ro sm f fu s e q ci rest :
  i_queue s = e :: q -> i_cis s = ci :: rest -> go_load_first ro ci e = false ->
  i_next dall ro sm f (S fu) s = Ok (yield sm e s).
Proof.
  intros Hq Hc Hl. rewrite tie_load_first in Hl. cbn [i_next]. rewrite Hq, Hc. rewrite Hl. reflexivity.
Qed.
Lemma i_next_unfold_load dall ro sm f fu s e q ci rest :
  i_queue s = e :: q -> i_cis s = ci :: rest -> go_load_first ro ci e = true ->
  i_next dall ro sm f (S fu) s =
  match load_chunk_i dall ro sm f ci s with
  | Ok s' => i_next dall ro sm f fu (s' <| i_cis := rest |>)
  | Err er => Ok (IEnd er, s)
  | Panic p => Panic p | Exit p => Exit p | OutOfFuel => OutOfFuel
  end.
Proof.
  intros Hq Hc Hl. rewrite tie_load_first in Hl. cbn [i_next]. rewrite Hq, Hc. rewrite Hl. reflexivity.
Qed.
Lemma i_next_unfold_last dall ro sm f fu s e q :
  i_queue s = e :: q -> i_cis s = [] -> i_next dall ro sm f (S fu) s = Ok (yield sm e s).
Proof. intros Hq Hc. cbn [i_next]. rewrite Hq, Hc. reflexivity. Qed.

(* ------------------------------------------------------------------ unindexed reader *)
Lemma tie_u_chan_select (ro : ropts) (t : bytes) : topic_selected (ro_topics ro) t = go_u_chan_select ro t.
Proof.
  unfold topic_selected, go_u_chan_select. destruct (ro_topics ro) as [|x l]; [reflexivity|].
  cbn [List.length]. replace (N.of_nat (S (List.length l)) =? 0) with false by lia. reflexivity.
Qed.
Lemma tie_u_msg_window (ro : ropts) (m : message) : in_window ro (m_log m) = go_u_msg_window ro m.
Proof. unfold in_window, go_u_msg_window. generalize (ro_unbounded ro). intros u. decide_tie. Qed.

(* ------------------------------------------------------------------ read options *)
(* the model tracks "no upper bound requested" explicitly; the code keeps EndNanos = MaxUint64 in that state *)
Definition ro_inv (r : ropts) : Prop := ro_unbounded r = true -> ro_end_n r = max_u64.
Lemma ro_inv_default : ro_inv default_ropts.
Proof. intros _. reflexivity. Qed.
Lemma ro_inv_apply_opt o r r' : ro_inv r -> apply_opt o r = Ok r' -> ro_inv r'.
Proof.
  unfold ro_inv. intros Hi H. destruct o; cbn in H;
    repeat match type of H with
    | (if ?c then _ else _) = _ => destruct c
    end; inversion H; subst; cbn; try assumption; intros Hu; try discriminate; auto.
Qed.

Lemma tie_opt_After r x :
  apply_opt (OAfter x) r = if go_opt_After_err r x then Err EOther else Ok (r <| ro_start := x |>).
Proof. cbn [apply_opt]. unfold go_opt_After_err. decide_tie. Qed.
Lemma tie_opt_Before r x :
  apply_opt (OBefore x) r = if go_opt_Before_err r x then Err EOther else Ok (r <| ro_end := x |>).
Proof. cbn [apply_opt]. unfold go_opt_Before_err. decide_tie. Qed.
Lemma tie_opt_AfterNanos r x :
  ro_inv r -> x <= max_u64 ->
  apply_opt (OAfterNanos x) r = if go_opt_AfterNanos_err r x then Err EOther else Ok (r <| ro_start_n := x |>).
Proof.
  unfold ro_inv. intros Hi Hx. cbn [apply_opt]. unfold go_opt_AfterNanos_err.
  destruct (ro_unbounded r) eqn:Hu; cbn [negb andb].
  - rewrite (Hi eq_refl). replace (max_u64 <? x) with false by lia. reflexivity.
  - reflexivity.
Qed.
Lemma tie_opt_BeforeNanos r x :
  apply_opt (OBeforeNanos x) r =
  if go_opt_BeforeNanos_err r x then Err EOther else Ok (r <| ro_end_n := x |> <| ro_unbounded := false |>).
Proof. cbn [apply_opt]. unfold go_opt_BeforeNanos_err. decide_tie. Qed.
Lemma tie_opt_InOrder r x :
  apply_opt (OInOrder x) r = if go_opt_InOrder_err r x then Err EOther else Ok (r <| ro_order := x |>).
Proof.
  cbn [apply_opt]. unfold go_opt_InOrder_err.
  destruct (ro_use_index r), (rorder_eqb x FileOrder); reflexivity.
Qed.
Lemma tie_opt_UsingIndex r x :
  apply_opt (OUsingIndex x) r = if go_opt_UsingIndex_err r x then Err EOther else Ok (r <| ro_use_index := x |>).
Proof.
  cbn [apply_opt]. unfold go_opt_UsingIndex_err.
  destruct x, (rorder_eqb (ro_order r) FileOrder); reflexivity.
Qed.

Lemma tie_finalize r :
  finalize r =
  let r1 := if go_finalize_start r then r <| ro_start_n := Z.to_N (ro_start r) |> else r in
  if go_finalize_end r1 then r1 <| ro_end_n := Z.to_N (ro_end r1) |> <| ro_unbounded := false |> else r1.
Proof.
  unfold finalize, go_finalize_start, go_finalize_end.
  assert (H1 : ((ro_start_n r =? 0) && (0 <? ro_start r)%Z) = (N.eqb (ro_start_n r) 0 && Z.ltb 0 (ro_start r))) by reflexivity.
  destruct ((ro_start_n r =? 0) && (0 <? ro_start r)%Z) eqn:E1.
  - replace (N.eqb (ro_start_n r) 0 && Z.ltb 0 (ro_start r)) with true by (rewrite <- E1; decide_tie). cbv zeta.
    generalize (r <| ro_start_n := Z.to_N (ro_start r) |>). intros r1.
    generalize (ro_unbounded r1). intros u.
    destruct (((ro_end_n r1 =? 0) || u) && (0 <? ro_end r1)%Z) eqn:E2;
      [ replace (((N.eqb (ro_end_n r1) 0) || u) && Z.ltb 0 (ro_end r1)) with true by (rewrite <- E2; decide_tie)
      | replace (((N.eqb (ro_end_n r1) 0) || u) && Z.ltb 0 (ro_end r1)) with false by (rewrite <- E2; decide_tie) ];
      reflexivity.
  - replace (N.eqb (ro_start_n r) 0 && Z.ltb 0 (ro_start r)) with false by (rewrite <- E1; decide_tie). cbv zeta.
    generalize (ro_unbounded r). intros u.
    destruct (((ro_end_n r =? 0) || u) && (0 <? ro_end r)%Z) eqn:E2;
      [ replace (((N.eqb (ro_end_n r) 0) || u) && Z.ltb 0 (ro_end r)) with true by (rewrite <- E2; decide_tie)
      | replace (((N.eqb (ro_end_n r) 0) || u) && Z.ltb 0 (ro_end r)) with false by (rewrite <- E2; decide_tie) ];
      reflexivity.
Qed.

(* ------------------------------------------------------------------ Info *)
Lemma tie_can_use_index (sm : summ) : can_use_index sm = go_can_use_index sm.
Proof.
  unfold can_use_index, go_can_use_index, go_notnil.
  destruct (sm_cis sm) as [|c cs]; destruct (sm_channels sm) as [|ch chs]; destruct (sm_stats sm) as [st|];
    cbn [List.length negb andb orb];
    repeat match goal with
    | |- context [N.of_nat (S ?n)] => replace (N.ltb 0 (N.of_nat (S n))) with true by lia
    end; cbn; try reflexivity; decide_tie.
Qed.

