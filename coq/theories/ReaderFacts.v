(* ReaderFacts.v - facts about the reader model (Reader.v) used by property C02:
   1. which iterator Reader.Messages chooses (messages_dispatch),
   2. random access to attachments and metadata records at the offsets the indexes give,
   3. the sequential scan (unindexed iterator) over a rendered file,
   4. the file-order indexed read against the scan at the abstract level (Iter.v). *)
From Coq Require Import List NArith ZArith Lia ZifyN ZifyNat ZifyBool Bool Permutation Sorted.
From Coq.Strings Require Import Byte.
From RecordUpdate Require Import RecordSet.
From Mcap Require Import Bytes BytesFacts GoSem Crc32 Crc32Facts Records RecordsFacts Writer Lexer LexSpec
  LexerFactsB Reader Iter.
Import ListNotations RecordSetNotations.
Open Scope N_scope.
Ltac Zify.zify_post_hook ::= Z.div_mod_to_equations.

(* ====================================================================== *)
(** * 1. Reader.Messages: which iterator is used *)

Lemma finalize_use_index r : ro_use_index (finalize r) = ro_use_index r.
Proof.
  unfold finalize.
  destruct ((ro_start_n r =? 0) && (0 <? ro_start r)%Z);
    match goal with |- context[if ?c then _ else _] => destruct c end; reflexivity.
Qed.
Lemma finalize_order r : ro_order (finalize r) = ro_order r.
Proof.
  unfold finalize.
  destruct ((ro_start_n r =? 0) && (0 <? ro_start r)%Z);
    match goal with |- context[if ?c then _ else _] => destruct c end; reflexivity.
Qed.

(* options never reach "no index" together with a time order *)
Definition order_inv (r : ropts) : Prop := ro_use_index r = false -> ro_order r = FileOrder.

Lemma rorder_eqb_eq a b : rorder_eqb a b = true <-> a = b.
Proof. destruct a, b; cbn; split; intro H; try reflexivity; discriminate. Qed.

Lemma apply_opt_inv o r r' : order_inv r -> apply_opt o r = Ok r' -> order_inv r'.
Proof.
  unfold order_inv. intros I H. destruct o; cbn [apply_opt] in H;
    try (match type of H with (if ?c then _ else _) = _ => destruct c eqn:E end; [discriminate|]);
    inversion H; subst r'; clear H; cbn; auto.
  - intro U. rewrite U in E. cbn in E. apply negb_false_iff in E. apply rorder_eqb_eq, E.
  - intro U. subst b. rewrite andb_true_r in E. apply negb_false_iff in E. apply rorder_eqb_eq, E.
Qed.

Lemma apply_opts_inv os : forall r r', order_inv r -> apply_opts os r = Ok r' -> order_inv r'.
Proof.
  induction os as [|o os IH]; intros r r' I H; cbn [apply_opts] in H.
  - inversion H; subst; exact I.
  - destruct (apply_opt o r) as [r1| | | |] eqn:E; try discriminate. cbn [bind] in H.
    eapply IH; [|exact H]. eapply apply_opt_inv; eassumption.
Qed.

Lemma apply_opt_no_crash o r : no_crash (apply_opt o r) = true.
Proof.
  destruct o; cbn [apply_opt]; try reflexivity;
    match goal with |- context[if ?c then _ else _] => destruct c end; reflexivity.
Qed.
Lemma apply_opts_no_crash os : forall r, no_crash (apply_opts os r) = true.
Proof.
  induction os as [|o os IH]; intro r; cbn [apply_opts]; [reflexivity|].
  pose proof (apply_opt_no_crash o r) as H. destruct (apply_opt o r); try discriminate; cbn [bind]; auto.
Qed.

Lemma default_order_inv : order_inv default_ropts.
Proof. intro H. discriminate. Qed.

Definition index_usable (sm : summ) : Prop :=
  (sm_cis sm <> [] /\ sm_channels sm <> []) \/ (exists st, sm_stats sm = Some st /\ st_messages st = 0).

Lemma can_use_index_iff sm : can_use_index sm = true <-> index_usable sm.
Proof.
  unfold can_use_index, index_usable. split.
  - intro H. apply orb_true_iff in H. destruct H as [H|H].
    + left. apply andb_true_iff in H. destruct H as [H1 H2].
      destruct (sm_cis sm); [discriminate|]. destruct (sm_channels sm); [discriminate|]. split; discriminate.
    + right. destruct (sm_stats sm) as [st|]; [|discriminate]. exists st. split; [reflexivity|]. lia.
  - intros [[H1 H2]|(st & E & H)].
    + destruct (sm_cis sm); [contradiction|]. destruct (sm_channels sm); [contradiction|]. reflexivity.
    + rewrite E. apply orb_true_iff. right. lia.
Qed.

Section Dispatch.
Variable ds : doracle.

Theorem C02_dispatch_thm : forall f os,
  (* an index-based read is chosen only when Info succeeds and says the index is usable *)
  (forall r, messages_dispatch ds f os = Ok (MIndexed, r) ->
     exists r0 sm, apply_opts os default_ropts = Ok r0 /\ r = finalize r0 /\ ro_use_index r = true /\
                   info ds f = Ok sm /\ index_usable sm) /\
  (* the index is wanted and usable: index-based read *)
  (forall r0 sm, apply_opts os default_ropts = Ok r0 -> ro_use_index r0 = true ->
     info ds f = Ok sm -> index_usable sm ->
     messages_dispatch ds f os = Ok (MIndexed, finalize r0)) /\
  (* the index is wanted but the summary lacks what is needed: scan in file order, else an error *)
  (forall r0 sm, apply_opts os default_ropts = Ok r0 -> ro_use_index r0 = true ->
     info ds f = Ok sm -> ~ index_usable sm ->
     messages_dispatch ds f os =
       match ro_order r0 with FileOrder => Ok (MScan, finalize r0) | _ => Err EOther end) /\
  (* the index is wanted and the summary cannot be read: an error *)
  (forall r0 e, apply_opts os default_ropts = Ok r0 -> ro_use_index r0 = true ->
     info ds f = Err e -> messages_dispatch ds f os = Err e) /\
  (* the index is not wanted: scan, and the order is file order *)
  (forall r0, apply_opts os default_ropts = Ok r0 -> ro_use_index r0 = false ->
     messages_dispatch ds f os = Ok (MScan, finalize r0) /\ ro_order (finalize r0) = FileOrder) /\
  (* rejected options: an error *)
  (forall e, apply_opts os default_ropts = Err e -> messages_dispatch ds f os = Err e) /\
  (* whenever a scan is chosen the order is file order *)
  (forall r, messages_dispatch ds f os = Ok (MScan, r) -> ro_order r = FileOrder).
Proof.
  intros f os. unfold messages_dispatch.
  destruct (apply_opts os default_ropts) as [r0| | | |] eqn:EO; cbn [bind].
  2-5: repeat split; intros; try discriminate; try congruence.
  pose proof (apply_opts_inv os _ _ default_order_inv EO) as Inv.
  rewrite finalize_use_index, finalize_order.
  destruct (ro_use_index r0) eqn:EU.
  - destruct (info ds f) as [sm| | | |] eqn:EI; cbn [bind].
    2-5: repeat split; intros; try discriminate; try congruence.
    destruct (can_use_index sm) eqn:EC.
    + apply can_use_index_iff in EC.
      repeat split; intros; try discriminate; try congruence.
      inversion H; subst r. exists r0, sm. rewrite finalize_use_index. auto.
    + assert (NU : ~ index_usable sm) by (intro U; apply can_use_index_iff in U; congruence).
      repeat split; intros; try discriminate; try congruence.
      * destruct (ro_order r0); cbn in H; discriminate.
      * inversion H; subst. destruct (ro_order r1); reflexivity.
      * destruct (ro_order r0) eqn:EOr; cbn in H; try discriminate.
        inversion H; subst. rewrite finalize_order. exact EOr.
  - repeat split; intros; try discriminate; try congruence.
    + inversion H; subst. rewrite finalize_order. apply Inv, EU.
    + inversion H; subst. rewrite finalize_order. apply Inv, EU.
Qed.

(* UsingIndex(false) as the last option after options that keep file order *)
Theorem C02_dispatch_no_index_thm : forall f os r1,
  apply_opts os default_ropts = Ok r1 -> ro_order r1 = FileOrder ->
  messages_dispatch ds f (os ++ [OUsingIndex false]) = Ok (MScan, finalize (r1 <| ro_use_index := false |>)).
Proof.
  intros f os r1 H Ho.
  assert (E : apply_opts (os ++ [OUsingIndex false]) default_ropts = Ok (r1 <| ro_use_index := false |>)).
  { revert H. generalize default_ropts. induction os as [|o os IH]; intros r H; cbn [app apply_opts] in *.
    - inversion H; subst. cbn [apply_opt]. rewrite Ho. reflexivity.
    - destruct (apply_opt o r) as [r2| | | |]; try discriminate. cbn [bind] in *. apply IH, H. }
  destruct (C02_dispatch_thm f (os ++ [OUsingIndex false])) as (_ & _ & _ & _ & H5 & _).
  apply (H5 _ E). reflexivity.
Qed.

(* a summary without channel records never leads to an index-based read, unless the statistics
   say that the file holds no message *)
Theorem C02_no_channels_no_index_thm : forall f os r sm,
  info ds f = Ok sm -> sm_channels sm = [] ->
  messages_dispatch ds f os = Ok (MIndexed, r) ->
  exists st, sm_stats sm = Some st /\ st_messages st = 0.
Proof.
  intros f os r sm HI HC H.
  destruct (C02_dispatch_thm f os) as (H1 & _). destruct (H1 r H) as (r0 & sm' & _ & _ & _ & HI' & U).
  rewrite HI in HI'. inversion HI'; subst sm'.
  destruct U as [[_ U]|U]; [contradiction|exact U].
Qed.

(* ... and then the read is a scan (file order) or an error *)
Theorem C02_no_channels_fallback_thm : forall f os sm,
  info ds f = Ok sm -> sm_channels sm = [] ->
  (forall st, sm_stats sm = Some st -> st_messages st <> 0) ->
  match messages_dispatch ds f os with
  | Ok (MScan, r) => ro_order r = FileOrder
  | Ok (MIndexed, _) => False
  | Err _ => True
  | _ => False
  end.
Proof.
  intros f os sm HI HC HS.
  destruct (C02_dispatch_thm f os) as (H1 & _ & H3 & _ & H5 & H6 & H7).
  assert (NU : ~ index_usable sm).
  { intros [[_ U]|(st & E & U)]; [contradiction|]. apply (HS st E U). }
  destruct (apply_opts os default_ropts) as [r0| | | |] eqn:EO.
  - destruct (ro_use_index r0) eqn:EU.
    + rewrite (H3 r0 sm eq_refl EU HI NU).
      destruct (ro_order r0) eqn:EOr; auto. rewrite finalize_order. exact EOr.
    + destruct (H5 r0 eq_refl EU) as [-> Ho]. exact Ho.
  - rewrite (H6 e eq_refl). exact I.
  - pose proof (apply_opts_no_crash os default_ropts) as C. rewrite EO in C. discriminate.
  - pose proof (apply_opts_no_crash os default_ropts) as C. rewrite EO in C. discriminate.
  - pose proof (apply_opts_no_crash os default_ropts) as C. rewrite EO in C. discriminate.
Qed.

End Dispatch.

(* ====================================================================== *)
(** * 2. random access: GetAttachmentReader / GetMetadata at an indexed offset *)

(* what is required of an attachment record for random access (implied by wf_attach_item for
   every lexer configuration) *)
Definition wf_attach_ra (a : attachment) (data : bytes) (crc : N) : Prop :=
  a_log a < two64 /\ a_create a < two64 /\ blen (a_name a) < two32 /\ blen (a_media a) < two32
  /\ a_size a = blen data /\ crc < two32 /\ blen (attach_body a data crc) < two63.

Lemma wf_attach_item_ra lo a data crc : wf_attach_item lo a data crc -> wf_attach_ra a data crc.
Proof. intros (W1 & W2 & W3 & W4 & W5 & W6 & W7 & _). repeat split; assumption. Qed.

Definition mem_file (b : bytes) : fsrc := {| fs_data := b; fs_fail := None |}.

Lemma fs_stream_at pre x sk : fs_stream (mem_file (pre ++ x)) (blen pre) sk = rd x None sk.
Proof. unfold fs_stream, mem_file, rd. cbn [fs_fail fs_data]. rewrite drop_app_exact. reflexivity. Qed.

Lemma render_split pre it post : render (pre ++ it :: post) = render pre ++ render_item it ++ render post.
Proof. rewrite render_app. unfold render at 2. cbn [map concat]. reflexivity. Qed.

(* the observation made through the attachment reader on the undamaged record *)
Definition attach_obs_ra (a : attachment) (data : bytes) (crc : N) : attobs :=
  {| ao_log := a_log a; ao_create := a_create a; ao_name := a_name a; ao_media := a_media a;
     ao_size := a_size a; ao_data := data; ao_data_end := None;
     ao_computed := Ok (crc32 (enc_attachment_fields a ++ data));
     ao_parsed := Ok crc |}.

Theorem C02_get_attachment_thm : forall pre a data crc post,
  wf_attach_ra a data crc ->
  blen (render (pre ++ IAttach a data crc :: post)) < two63 ->
  get_attachment (mem_file (render (pre ++ IAttach a data crc :: post))) (blen (render pre))
  = Ok (attach_obs_ra a data crc).
Proof.
  intros pre a data crc post (W1 & W2 & W3 & W4 & W5 & W6 & W7) Hsz.
  rewrite render_split in *. cbn [render_item] in *. fold (attach_body a data crc) in *.
  set (body := attach_body a data crc) in *. set (rpost := render post) in *.
  unfold frame in *. rewrite <- app_assoc in *.
  assert (Hoff : (blen (render pre) + 9) mod two64 = blen (render pre ++ frame_head OpAttachment (blen body))).
  { rewrite blen_app, frame_head_blen. rewrite !blen_app, frame_head_blen in Hsz.
    apply N.mod_small. unfold two63, two64 in *. clear - Hsz. lia. }
  unfold get_attachment. rewrite Hoff.
  destruct (N.ltb_spec 9223372036854775807 (blen (render pre ++ frame_head OpAttachment (blen body)))) as [L|_].
  { rewrite !blen_app in Hsz. rewrite !blen_app in L. rewrite frame_head_blen in Hsz. rewrite frame_head_blen in L. unfold two63 in Hsz. clear - Hsz L. lia. }
  rewrite (app_assoc (render pre)), fs_stream_at. cbn [rd r_buf r_end].
  set (buf := body ++ rpost).
  assert (H : skipn 0 buf = u64 (a_log a) ++ u64 (a_create a) ++ pstr (a_name a) ++ pstr (a_media a)
                             ++ u64 (a_size a) ++ data ++ u32 crc ++ rpost).
  { unfold buf, body, attach_body, enc_attachment_fields. rewrite <- !app_assoc. reflexivity. }
  destruct (lim_read_step 8 buf None _ _ _ H (u64_length _)) as [E1 S1]; [lia|]. rewrite E1. cbn [bind].
  destruct (lim_read_step 8 buf None _ _ _ S1 (u64_length _)) as [E2 S2]; [lia|]. rewrite E2. cbn [bind].
  destruct (lim_pstr_step buf None _ _ _ S2 W3) as [E3 S3]. rewrite E3. cbn [bind].
  destruct (lim_pstr_step buf None _ _ _ S3 W4) as [E4 S4]. rewrite E4. cbn [bind].
  destruct (lim_read_step 8 buf None _ _ _ S4 (u64_length _)) as [E5 S5]; [lia|]. rewrite E5. cbn [bind].
  set (o5 := (0 + 8 + 8 + 4 + length (a_name a) + 4 + length (a_media a) + 8)%nat) in *.
  assert (Hsize : a_size a < two63).
  { rewrite W5. unfold body, attach_body in W7. rewrite !blen_app in W7. lia. }
  rewrite !unle_u64 by (try assumption; unfold two63, two64 in *; lia).
  destruct (N.ltb_spec 9223372036854775807 (a_size a)); [unfold two63 in Hsize; lia|].
  cbn [fst snd]. rewrite S5. rewrite W5, take_app_exact.
  rewrite N.ltb_irrefl.
  assert (Ho5 : (o5 + length data)%nat = length (enc_attachment_fields a ++ data)).
  { pose proof (skipn_length_sub _ _ _ S5) as L. rewrite !app_length, u32_length in L.
    unfold buf, body, attach_body in L. rewrite !app_length, u32_length in L. rewrite app_length. lia. }
  rewrite Ho5.
  assert (S6 : skipn (length (enc_attachment_fields a ++ data)) buf = u32 crc ++ rpost).
  { unfold buf, body, attach_body. rewrite <- !app_assoc. rewrite (app_assoc _ data). apply skipn_app_exact. }
  destruct (lim_read_step 4 buf None _ _ _ S6 (u32_length _)) as [E6 _]; [lia|]. rewrite E6.
  rewrite unle_u32 by exact W6.
  replace (firstn (length (enc_attachment_fields a ++ data)) buf) with (enc_attachment_fields a ++ data)
    by (unfold buf, body, attach_body; rewrite <- !app_assoc; rewrite (app_assoc _ data), firstn_app_exact; reflexivity).
  unfold attach_obs_ra. rewrite <- W5. reflexivity.
Qed.

Section RandomAccess.
Variable ds : doracle.

Theorem C02_get_metadata_thm : forall pre m post,
  wf_metadata m -> blen (enc_metadata m) < max_int32 ->
  blen (render (pre ++ IRec OpMetadata (enc_metadata m) :: post)) < two63 ->
  get_metadata ds (mem_file (render (pre ++ IRec OpMetadata (enc_metadata m) :: post))) (blen (render pre))
  = Ok (metadata_norm m).
Proof.
  intros pre m post Wm Hlen Hsz. rewrite render_split in *. cbn [render_item] in *.
  unfold get_metadata.
  destruct (N.ltb_spec 9223372036854775807 (blen (render pre))) as [L|_].
  { rewrite !blen_app in Hsz. unfold two63 in Hsz. lia. }
  rewrite fs_stream_at.
  set (l := {| lx_base := _; lx_chunk := None; lx_ubuf := 0; lx_bufcap := 32; lx_allocs := [] |}).
  destruct (lex_next_plain reader_lopts ds 0 l OpMetadata (enc_metadata m) (render post) None true)
    as (s2 & _ & Heq); try reflexivity; try discriminate; try assumption.
  rewrite Heq. change (known_op OpMetadata) with true. cbv beta iota.
  change (Byte.eqb OpMetadata OpMetadata) with true. cbv beta iota.
  rewrite <- (app_nil_r (enc_metadata m)). apply parse_enc_metadata, Wm.
Qed.

End RandomAccess.

(* ====================================================================== *)
(** * 3. the token stream of a lexer state, for any buffer capacity handed to Next *)

(* [delivers R s evs fin]: successive calls of Lexer.Next from state s return the tokens evs and
   then the error fin, whatever cap(p) the caller passes at each call, within R iterations of the
   loop in Next. *)
Section Delivers.
Variable lo : lopts.
Variable ds : doracle.

Fixpoint delivers (R : nat) (s : lstate) (evs : list event) (fin : err) : Prop :=
  match R with
  | O => False
  | S R' =>
      (evs = [] /\ forall pcap, exists s', forall f acc,
          lex_next lo ds (S f) pcap s acc = Ok (acc, NErr fin, s'))
   \/ (exists ev rest, evs = ev :: rest /\ forall pcap, exists s',
          (forall f acc, lex_next lo ds (S f) pcap s acc = Ok (acc, NTok ev, s')) /\ delivers R' s' rest fin)
   \/ (forall pcap, exists s',
          (forall f acc, lex_next lo ds (S f) pcap s acc = lex_next lo ds f pcap s' acc) /\ delivers R' s' evs fin)
  end.

Lemma delivers_mono : forall R R' s evs fin, delivers R s evs fin -> (R <= R')%nat -> delivers R' s evs fin.
Proof.
  induction R as [|R IH]; intros R' s evs fin H L; [destruct H|].
  destruct R' as [|R']; [lia|]. cbn [delivers] in *.
  destruct H as [H|[(ev & rest & E & H)|H]].
  - left. exact H.
  - right; left. exists ev, rest. split; [exact E|]. intro pcap. destruct (H pcap) as (s' & H1 & H2).
    exists s'. split; [exact H1|]. apply (IH R'); [exact H2|lia].
  - right; right. intro pcap. destruct (H pcap) as (s' & H1 & H2).
    exists s'. split; [exact H1|]. apply (IH R'); [exact H2|lia].
Qed.

Lemma dl_plain R s evs fin op body rest e sk :
  cur s = rd (frame op body ++ rest) e sk ->
  Byte.eqb op OpChunk && negb (lo_emit_chunks lo) = false ->
  op <> OpAttachment -> op <> x00 ->
  blen body < max_int32 -> len_ok lo (blen body) ->
  (forall s', moved s (rd rest e sk) s' -> delivers R s' evs fin) ->
  delivers (S R) s (rec_events (op, body) ++ evs) fin.
Proof.
  intros Hcur Hck Hat H0 Hlen Hlim Hk. unfold rec_events. cbn [fst snd delivers].
  destruct (known_op op) eqn:K.
  - right; left. exists (EvToken op body), evs. split; [reflexivity|]. intro pcap.
    destruct (lex_next_plain lo ds pcap s op body rest e sk) as (s2 & Hm & Heq); try assumption.
    exists s2. split; [|apply Hk, Hm]. intros f acc. rewrite Heq, K. reflexivity.
  - right; right. intro pcap.
    destruct (lex_next_plain lo ds pcap s op body rest e sk) as (s2 & Hm & Heq); try assumption.
    exists s2. split; [|apply Hk, Hm]. intros f acc. rewrite Heq, K. reflexivity.
Qed.

Lemma dl_inner fin base ce csk crest evs : forall inner R s,
  Forall (plain_rec_ok lo) inner ->
  in_chunk s (rd (frames inner ++ crest) ce csk) base ->
  (forall s', in_chunk s' (rd crest ce csk) base -> delivers R s' evs fin) ->
  delivers (length inner + R) s (concat (map rec_events inner) ++ evs) fin.
Proof.
  induction inner as [|[op body] inner IH]; intros R s Hwf Hin Hk.
  - cbn [length Nat.add map concat app]. apply Hk. exact Hin.
  - inversion Hwf as [|x l (Hc & Ha & H0 & Hl & Hlim) Hwf']; subst x l. cbn [fst snd] in *.
    cbn [length Nat.add map concat]. rewrite <- app_assoc.
    rewrite frames_cons in Hin. cbn [fst snd] in Hin. rewrite <- app_assoc in Hin.
    eapply dl_plain; try eassumption.
    + destruct Hin as [Hc' _]. unfold cur. rewrite Hc'. reflexivity.
    + rewrite (byte_eqb_neq _ _ Hc). reflexivity.
    + intros s' Hm. apply IH; try assumption. eapply moved_in_chunk; eassumption.
Qed.

Lemma dl_chunk R s evs fin k rest e sk :
  at_top s (rd (frame OpChunk (enc_chunk k) ++ rest) e sk) ->
  wf_chunk_item lo ds k -> lo_emit_chunks lo = false ->
  (forall s', at_top s' (rd rest e sk) -> delivers R s' evs fin) ->
  delivers (item_steps lo ds (IChunk k) + R) s (item_events lo ds (IChunk k) ++ evs) fin.
Proof.
  intros Htop (Wk & Wlen & W) Hemit Hk. rewrite Hemit in W.
  destruct W as (Wsup & Wneed & Wrecs & inner & Wstream & Wus & Winner & Wcrc & Wval).
  cbn [item_steps item_events]. rewrite Hemit.
  rewrite (chunk_inner_eq lo ds k inner Wstream Winner).
  assert (Hb64 : blen (enc_chunk k) < two64).
  { rewrite enc_chunk_blen. destruct Wk as (_ & _ & _ & _ & Wc & _). unfold two63, two32, two64 in *. lia. }
  set (s1 := set_cur (rd (enc_chunk k ++ rest) e sk) s).
  assert (Htop1 : at_top s1 (rd (enc_chunk k ++ rest) e sk)) by (eapply at_top_set_cur; exact Htop).
  destruct (load_chunk_ok lo ds s1 k inner rest e sk Htop1 Wk Wrecs Wsup Wneed Wstream Wus Wcrc Wval) as (s2 & Hin2 & Hload).
  change (2 + length inner + R)%nat with (S (S (length inner) + R)).
  cbn [delivers]. right; right. intro pcap. exists s2. split.
  { intros f acc. unfold frame in Htop. rewrite <- app_assoc in Htop.
    rewrite (lex_next_head lo ds f pcap s acc OpChunk (blen (enc_chunk k)) _ e sk (at_top_cur _ _ Htop) Hb64).
    fold s1. unfold after_head. unfold len_ok in Wlen. rewrite Wlen, Hemit, byte_eqb_refl, Hload. reflexivity. }
  replace (S (length inner) + R)%nat with (length inner + S R)%nat by lia.
  eapply (dl_inner fin (rd rest e sk) None (lo_validate lo) []); try eassumption.
  - rewrite app_nil_r. exact Hin2.
  - intros s3 Hin3. cbn [delivers]. right; right. intro pcap'.
    destruct (lex_next_pop lo ds pcap' s3 _ _ Hin3) as (s4 & Htop4 & Hpop).
    exists s4. split; [exact Hpop|]. apply Hk, Htop4.
Qed.

Lemma dl_attach R s evs fin a data crc rest e sk :
  lo_cb lo = CbNone ->
  at_top s (rd (frame OpAttachment (attach_body a data crc) ++ rest) e sk) ->
  wf_attach_item lo a data crc ->
  (forall s', at_top s' (rd rest e sk) -> delivers R s' evs fin) ->
  delivers (S R) s evs fin.
Proof.
  intros Hcb Htop W Hk.
  pose proof W as (_ & _ & _ & _ & _ & _ & W7 & Wlen & _).
  set (body := attach_body a data crc) in *.
  set (s1 := set_cur (rd (body ++ rest) e sk) s).
  assert (Htop1 : at_top s1 (rd (body ++ rest) e sk)) by (eapply at_top_set_cur; exact Htop).
  set (s2 := set_cur (rd rest e sk) s1).
  cbn [delivers]. right; right. intro pcap. exists s2. split.
  - intros f acc. unfold frame in Htop. rewrite <- app_assoc in Htop.
    rewrite (lex_next_head lo ds f pcap s acc OpAttachment (blen body) _ e sk (at_top_cur _ _ Htop))
      by (clear - W7; unfold two63, two64 in *; lia).
    fold s1. unfold after_head. unfold len_ok in Wlen. rewrite Wlen.
    change (Byte.eqb OpAttachment OpChunk) with false. cbn [andb]. rewrite byte_eqb_refl.
    destruct (N.ltb_spec 9223372036854775807 (blen body)) as [L|_]; [clear - W7 L; unfold two63 in W7; lia|].
    rewrite (at_top_cur _ _ Htop1). unfold body. rewrite do_attachment_ok by exact W.
    rewrite Hcb. cbv beta iota zeta. reflexivity.
  - apply Hk. eapply at_top_set_cur; exact Htop1.
Qed.

Lemma item_events_attach_none a data crc : lo_cb lo = CbNone -> item_events lo ds (IAttach a data crc) = [].
Proof. intro H. cbn [item_events]. rewrite H. reflexivity. Qed.

Lemma dl_item R s evs fin it rest e sk :
  lo_cb lo = CbNone ->
  at_top s (rd (render_item it ++ rest) e sk) ->
  wf_item lo ds it ->
  (forall s', at_top s' (rd rest e sk) -> delivers R s' evs fin) ->
  delivers (item_steps lo ds it + R) s (item_events lo ds it ++ evs) fin.
Proof.
  intros Hcb Htop W Hk. destruct it as [|op body|k|a data crc|ss sos crc]; cbn [render_item] in Htop.
  - destruct W.
  - destruct W as (Hc & Ha & H0 & Hl & Hlim). cbn [fst snd] in *. cbn [item_steps item_events Nat.add].
    eapply dl_plain; try eassumption.
    + apply at_top_cur, Htop.
    + rewrite (byte_eqb_neq _ _ Hc). reflexivity.
    + intros s' Hm. apply Hk. eapply moved_top; eassumption.
  - destruct (lo_emit_chunks lo) eqn:Hemit.
    + destruct W as (Wk & Wlen & W). rewrite Hemit in W.
      cbn [item_steps item_events]. rewrite Hemit. cbn [Nat.add].
      change [EvToken OpChunk (enc_chunk k)] with (rec_events (OpChunk, enc_chunk k)).
      eapply dl_plain; try eassumption.
      * apply at_top_cur, Htop.
      * rewrite Hemit. apply andb_false_r.
      * discriminate.
      * discriminate.
      * intros s' Hm. apply Hk. eapply moved_top; eassumption.
    + apply dl_chunk with (rest := rest) (e := e) (sk := sk); assumption.
  - rewrite item_events_attach_none by exact Hcb. cbn [item_steps Nat.add app].
    eapply dl_attach; eassumption.
  - destruct W as (W1 & W2 & W3 & Wlim). cbn [item_steps item_events Nat.add].
    set (body := enc_footer _) in *.
    assert (Hb : blen body = 20).
    { unfold body, enc_footer, blen. rewrite !app_length, !u64_length, u32_length. reflexivity. }
    change [EvToken OpFooter body] with (rec_events (OpFooter, body)).
    eapply dl_plain; try eassumption.
    + apply at_top_cur, Htop.
    + reflexivity.
    + discriminate.
    + discriminate.
    + rewrite Hb. reflexivity.
    + intros s' Hm. apply Hk. eapply moved_top; eassumption.
Qed.

Lemma dl_items fin e sk evs : lo_cb lo = CbNone -> forall items R s rest,
  Forall (wf_item lo ds) items ->
  at_top s (rd (render items ++ rest) e sk) ->
  (forall s', at_top s' (rd rest e sk) -> delivers R s' evs fin) ->
  delivers (file_steps lo ds items + R) s (file_events lo ds items ++ evs) fin.
Proof.
  intro Hcb. induction items as [|it items IH]; intros R s rest Hwf Htop Hk.
  - cbn in *. apply Hk, Htop.
  - inversion Hwf as [|x l W Hwf']; subst x l.
    unfold render in Htop. cbn [map concat] in Htop. rewrite <- app_assoc in Htop. fold (render items) in Htop.
    cbn [file_steps fold_right]. fold (file_steps lo ds items).
    unfold file_events. cbn [map concat]. fold (file_events lo ds items).
    rewrite <- Nat.add_assoc, <- app_assoc. eapply dl_item; try eassumption.
    intros s' Htop'. apply IH with (rest := rest); assumption.
Qed.

(* the trailing magic is the clean end *)
Lemma dl_magic s sk : at_top s (rd magic None sk) -> delivers 1 s [] EEOF.
Proof.
  intro Htop. cbn [delivers]. left. split; [reflexivity|]. intro pcap.
  destruct (lex_next_magic lo ds pcap s sk Htop) as (s' & H). exists s'. exact H.
Qed.

(* the records of a well-formed data file, read from the state reached after the header *)
Theorem delivers_file recs s sk :
  lo_cb lo = CbNone -> Forall (wf_item lo ds) recs ->
  at_top s (rd (render (recs ++ [IMagic])) None sk) ->
  delivers (file_steps lo ds recs + 1) s (file_events lo ds recs) EEOF.
Proof.
  intros Hcb Hwf Htop. rewrite render_app in Htop.
  rewrite <- (app_nil_r (file_events lo ds recs)).
  eapply dl_items; try eassumption.
  intros s' Htop'. apply dl_magic with (sk := sk).
  unfold render in Htop'. cbn [map concat render_item] in Htop'. rewrite app_nil_r in Htop'. exact Htop'.
Qed.

End Delivers.

(* ====================================================================== *)
(** * 4. the sequential scan (unindexed iterator) *)

(* what the scan makes of a token stream evs that is followed by the lexer error fin: the yielded
   (schema, channel, message) triples, the metadata records handed to the callback, and the error
   that ends the iteration (fin = io.EOF is the normal end).  The body parsers are the model's. *)
Definition cons_msg (t : triple) (r : outcome (list triple * list metadata * err))
  : outcome (list triple * list metadata * err) :=
  match r with
  | Ok (ms, cbs, e) => Ok (t :: ms, cbs, e)
  | Err e => Err e | Panic p => Panic p | Exit p => Exit p | OutOfFuel => OutOfFuel
  end.
Definition cons_md (m : metadata) (r : outcome (list triple * list metadata * err))
  : outcome (list triple * list metadata * err) :=
  match r with
  | Ok (ms, cbs, e) => Ok (ms, m :: cbs, e)
  | Err e => Err e | Panic p => Panic p | Exit p => Exit p | OutOfFuel => OutOfFuel
  end.

Fixpoint scan_spec (ro : ropts) (sch : list (N * schema)) (chs : list (N * channel))
         (evs : list event) (fin : err) : outcome (list triple * list metadata * err) :=
  match evs with
  | [] => Ok ([], [], fin)
  | EvInvalidChunk :: _ => Ok ([], [], EInvalidChunkCrc)
  | EvAttachment _ :: _ => Ok ([], [], EOther)
  | EvToken op body :: rest =>
    if Byte.eqb op OpSchema then
      match parse_schema body with
      | Ok sc => scan_spec ro (tab_set (s_id sc) sc sch) chs rest fin
      | Err e => Ok ([], [], e)
      | Panic p => Panic p | Exit p => Exit p | OutOfFuel => OutOfFuel
      end
    else if Byte.eqb op OpChannel then
      match parse_channel body with
      | Ok c =>
        if topic_selected (ro_topics ro) (c_topic c)
        then scan_spec ro sch (tab_set (c_id c) c chs) rest fin
        else scan_spec ro sch chs rest fin
      | Err e => Ok ([], [], e)
      | Panic p => Panic p | Exit p => Exit p | OutOfFuel => OutOfFuel
      end
    else if Byte.eqb op OpMessage then
      match parse_message body with
      | Ok m =>
        match tab_get (m_chan m) chs with
        | None => scan_spec ro sch chs rest fin
        | Some c =>
          if in_window ro (m_log m) then
            match tab_get (c_schema c) sch with
            | Some sc => cons_msg (Some sc, c, m) (scan_spec ro sch chs rest fin)
            | None => if c_schema c =? 0 then cons_msg (None, c, m) (scan_spec ro sch chs rest fin)
                      else Ok ([], [], EOther)
            end
          else scan_spec ro sch chs rest fin
        end
      | Err e => Ok ([], [], e)
      | Panic p => Panic p | Exit p => Exit p | OutOfFuel => OutOfFuel
      end
    else if Byte.eqb op OpMetadata && ro_md_cb ro then
      match parse_metadata body with
      | Ok md => cons_md md (scan_spec ro sch chs rest fin)
      | Err e => Ok ([], [], e)
      | Panic p => Panic p | Exit p => Exit p | OutOfFuel => OutOfFuel
      end
    else scan_spec ro sch chs rest fin
  end.

(* a result with the triples and callbacks collected before it *)
Definition lift (acc : list triple) (mds : list metadata) (r : outcome (list triple * list metadata * err))
  : outcome (list triple * list metadata * err) :=
  match r with
  | Ok (ms, cbs, e) => Ok (acc ++ ms, mds ++ cbs, e)
  | Err e => Err e | Panic p => Panic p | Exit p => Exit p | OutOfFuel => OutOfFuel
  end.

Lemma lift_nil r : lift [] [] r = r.
Proof. destruct r as [[[ms cbs] e]| | | |]; reflexivity. Qed.
Lemma lift_cons_msg acc mds t r : lift acc mds (cons_msg t r) = lift (acc ++ [t]) mds r.
Proof. destruct r as [[[ms cbs] e]| | | |]; cbn [lift cons_msg]; try reflexivity. rewrite <- app_assoc. reflexivity. Qed.
Lemma lift_cons_md acc mds m r : lift acc mds (cons_md m r) = lift acc (mds ++ [m]) r.
Proof. destruct r as [[[ms cbs] e]| | | |]; cbn [lift cons_md]; try reflexivity. rewrite <- app_assoc. reflexivity. Qed.

Section Scan.
Variable ds : doracle.
Variable ro : ropts.

(* the part of NextInto after the call of Lexer.Next *)
Definition u_cont (lo : lopts) (f : nat) (s : ustate) (mds : list metadata)
           (r : outcome (list event * nres * lstate)) : outcome (list metadata * ures * ustate) :=
  match r with
  | Ok (_, NErr e, l') => Ok (mds, UEnd e, {| u_lex := l'; u_schemas := u_schemas s; u_channels := u_channels s; u_reccap := u_reccap s |})
  | Ok (_, NTok EvInvalidChunk, l') => Ok (mds, UEnd EInvalidChunkCrc, {| u_lex := l'; u_schemas := u_schemas s; u_channels := u_channels s; u_reccap := u_reccap s |})
  | Ok (_, NTok (EvAttachment _), l') => Ok (mds, UEnd EOther, {| u_lex := l'; u_schemas := u_schemas s; u_channels := u_channels s; u_reccap := u_reccap s |})
  | Ok (_, NTok (EvToken op body), l') =>
    let cap' := N.max (u_reccap s) (blen body) in
    let s1 := {| u_lex := l'; u_schemas := u_schemas s; u_channels := u_channels s; u_reccap := cap' |} in
    if Byte.eqb op OpSchema then
      match parse_schema body with
      | Ok sc => u_next lo ds ro f {| u_lex := l'; u_schemas := tab_set (s_id sc) sc (u_schemas s); u_channels := u_channels s; u_reccap := cap' |} mds
      | Err e => Ok (mds, UEnd e, s1)
      | Panic p => Panic p | Exit p => Exit p | OutOfFuel => OutOfFuel
      end
    else if Byte.eqb op OpChannel then
      match parse_channel body with
      | Ok c =>
        if topic_selected (ro_topics ro) (c_topic c)
        then u_next lo ds ro f {| u_lex := l'; u_schemas := u_schemas s; u_channels := tab_set (c_id c) c (u_channels s); u_reccap := cap' |} mds
        else u_next lo ds ro f s1 mds
      | Err e => Ok (mds, UEnd e, s1)
      | Panic p => Panic p | Exit p => Exit p | OutOfFuel => OutOfFuel
      end
    else if Byte.eqb op OpMessage then
      match parse_message body with
      | Ok m =>
        match tab_get (m_chan m) (u_channels s) with
        | None => u_next lo ds ro f s1 mds
        | Some c =>
          if in_window ro (m_log m) then
            match tab_get (c_schema c) (u_schemas s) with
            | Some sc => Ok (mds, UMsg (Some sc, c, m), s1)
            | None => if c_schema c =? 0 then Ok (mds, UMsg (None, c, m), s1) else Ok (mds, UEnd EOther, s1)
            end
          else u_next lo ds ro f s1 mds
        end
      | Err e => Ok (mds, UEnd e, s1)
      | Panic p => Panic p | Exit p => Exit p | OutOfFuel => OutOfFuel
      end
    else if Byte.eqb op OpMetadata && ro_md_cb ro then
      match parse_metadata body with
      | Ok md => u_next lo ds ro f s1 (mds ++ [md])
      | Err e => Ok (mds, UEnd e, s1)
      | Panic p => Panic p | Exit p => Exit p | OutOfFuel => OutOfFuel
      end
    else u_next lo ds ro f s1 mds
  | Err e => Err e
  | Panic p => Panic p | Exit p => Exit p | OutOfFuel => OutOfFuel
  end.

Lemma u_next_S lo f s mds :
  u_next lo ds ro (S f) s mds = u_cont lo f s mds (lex_next lo ds (S f) (u_reccap s) (u_lex s) []).
Proof. reflexivity. Qed.

(* the part of the driving loop after a call of NextInto *)
Definition scan_cont (fuel n : nat) (acc : list triple) (mds : list metadata)
           (r : outcome (list metadata * ures * ustate)) : outcome (list triple * list metadata * err) :=
  match r with
  | Ok (md, UMsg t, s') => scan_all ds fuel n ro s' (acc ++ [t]) (mds ++ md)
  | Ok (md, UMeta _, s') => scan_all ds fuel n ro s' acc (mds ++ md)
  | Ok (md, UEnd e, _) => Ok (acc, mds ++ md, e)
  | Err e => Err e
  | Panic p => Panic p | Exit p => Exit p | OutOfFuel => OutOfFuel
  end.

Lemma scan_all_S fuel n s acc mds :
  scan_all ds fuel (S n) ro s acc mds = scan_cont fuel n acc mds (u_next scan_lopts ds ro fuel s []).
Proof. reflexivity. Qed.

Lemma scan_delivers : forall R l evs fin, delivers scan_lopts ds R l evs fin ->
  forall n fuel f lf s cbs acc mds,
  (R < lf)%nat -> (R <= f)%nat -> (R <= n)%nat -> (R < fuel)%nat ->
  scan_cont fuel n acc mds (u_cont scan_lopts f s cbs (lex_next scan_lopts ds lf (u_reccap s) l []))
  = lift acc (mds ++ cbs) (scan_spec ro (u_schemas s) (u_channels s) evs fin).
Proof.
  induction R as [|R IH]; intros l evs fin D n fuel f lf s cbs acc mds Hlf Hf Hn Hfuel; [destruct D|].
  destruct lf as [|lf]; [lia|].
  cbn [delivers] in D. destruct D as [[-> D]|[(ev & rest & -> & D)|D]].
  - destruct (D (u_reccap s)) as (l' & E). rewrite E.
    cbn [u_cont scan_cont scan_spec lift]. rewrite !app_nil_r. reflexivity.
  - destruct (D (u_reccap s)) as (l' & E & D'). rewrite E. clear E D.
    destruct f as [|f]; [lia|]. destruct n as [|n]; [lia|]. destruct fuel as [|fuel]; [lia|].
    (* a continuing call of NextInto *)
    assert (K : forall s1 cbs1, u_lex s1 = l' ->
              scan_cont (S fuel) (S n) acc mds (u_next scan_lopts ds ro (S f) s1 cbs1)
              = lift acc (mds ++ cbs1) (scan_spec ro (u_schemas s1) (u_channels s1) rest fin)).
    { intros s1 cbs1 E1. rewrite u_next_S, E1. apply IH; [exact D'|lia..]. }
    (* a yielded message: the next call of NextInto *)
    assert (Y : forall s1 t, u_lex s1 = l' ->
              scan_all ds (S fuel) (S n) ro s1 (acc ++ [t]) (mds ++ cbs)
              = lift acc (mds ++ cbs) (cons_msg t (scan_spec ro (u_schemas s1) (u_channels s1) rest fin))).
    { intros s1 t E1. rewrite scan_all_S, u_next_S, E1, lift_cons_msg.
      rewrite <- (app_nil_r (mds ++ cbs)) at 2. apply IH; [exact D'|lia..]. }
    destruct ev as [op body| |a].
    + cbn [u_cont scan_spec]. cbv zeta.
      destruct (Byte.eqb op OpSchema).
      { destruct (parse_schema body) as [sc|e| | |]; try reflexivity.
        - rewrite K by reflexivity. reflexivity.
        - cbn [scan_cont lift]. rewrite !app_nil_r. reflexivity. }
      destruct (Byte.eqb op OpChannel).
      { destruct (parse_channel body) as [c|e| | |]; try reflexivity.
        - destruct (topic_selected (ro_topics ro) (c_topic c)); rewrite K by reflexivity; reflexivity.
        - cbn [scan_cont lift]. rewrite !app_nil_r. reflexivity. }
      destruct (Byte.eqb op OpMessage).
      { destruct (parse_message body) as [m|e| | |]; try reflexivity.
        - destruct (tab_get (m_chan m) (u_channels s)) as [c|]; [|rewrite K by reflexivity; reflexivity].
          destruct (in_window ro (m_log m)); [|rewrite K by reflexivity; reflexivity].
          destruct (tab_get (c_schema c) (u_schemas s)) as [sc|].
          + cbn [scan_cont]. rewrite Y by reflexivity. reflexivity.
          + destruct (c_schema c =? 0).
            * cbn [scan_cont]. rewrite Y by reflexivity. reflexivity.
            * cbn [scan_cont lift]. rewrite !app_nil_r. reflexivity.
        - cbn [scan_cont lift]. rewrite !app_nil_r. reflexivity. }
      destruct (Byte.eqb op OpMetadata && ro_md_cb ro).
      { destruct (parse_metadata body) as [md|e| | |]; try reflexivity.
        - rewrite K by reflexivity. rewrite lift_cons_md, app_assoc. reflexivity.
        - cbn [scan_cont lift]. rewrite !app_nil_r. reflexivity. }
      rewrite K by reflexivity. reflexivity.
    + cbn [u_cont scan_cont scan_spec lift]. rewrite !app_nil_r. reflexivity.
    + cbn [u_cont scan_cont scan_spec lift]. rewrite !app_nil_r. reflexivity.
  - destruct (D (u_reccap s)) as (l' & E & D'). rewrite E. apply IH; [exact D'|lia..].
Qed.

(* a complete read by the unindexed iterator, from any iterator state *)
Theorem scan_all_delivers R s evs fin fuel n acc mds :
  delivers scan_lopts ds R (u_lex s) evs fin -> (R < fuel)%nat -> (R <= n)%nat ->
  scan_all ds fuel (S n) ro s acc mds = lift acc mds (scan_spec ro (u_schemas s) (u_channels s) evs fin).
Proof.
  intros D Hfuel Hn. destruct fuel as [|fuel]; [lia|].
  rewrite scan_all_S, u_next_S. rewrite <- (app_nil_r mds) at 2.
  apply (scan_delivers R _ _ _ D); lia.
Qed.

End Scan.

(* ====================================================================== *)
(** * 5. the scan of a rendered file *)

(* a data file: magic, header, records, magic *)
Definition data_file (hb : bytes) (recs : list item) : list item :=
  IMagic :: IRec OpHeader hb :: recs ++ [IMagic].

Section ScanFile.
Variable ds : doracle.

Lemma fs_stream_0 b sk : fs_stream (mem_file b) 0 sk = rd b None sk.
Proof. unfold fs_stream, mem_file, rd. cbn [fs_fail fs_data]. rewrite drop_0. reflexivity. Qed.

(* NewReader on a file that starts with magic and a header record *)
Lemma new_reader_ok hb rest sk :
  blen hb < max_int32 ->
  exists l, at_top l (rd (render rest) None sk) /\
            new_reader ds (mem_file (render (IMagic :: IRec OpHeader hb :: rest))) sk
            = bind (parse_header hb) (fun h => Ok (h, l)).
Proof.
  intro Hlen. unfold new_reader. rewrite fs_stream_0.
  destruct (new_lexer_ok reader_lopts (render (IRec OpHeader hb :: rest)) sk) as (s & Htop & Hnew).
  change (render (lead_magic reader_lopts) ++ render (IRec OpHeader hb :: rest))
    with (render (IMagic :: IRec OpHeader hb :: rest)) in Hnew.
  rewrite Hnew. cbn [bind].
  change (render (IRec OpHeader hb :: rest)) with (frame OpHeader hb ++ render rest) in Htop.
  destruct (lex_next_plain reader_lopts ds 0 s OpHeader hb (render rest) None sk)
    as (s2 & Hm & Heq); try reflexivity; try discriminate; try assumption.
  { apply at_top_cur, Htop. }
  exists s2. split; [eapply moved_top; eassumption|].
  rewrite Heq. change (known_op OpHeader) with true. cbv beta iota.
  change (Byte.eqb OpHeader OpHeader) with true. cbv beta iota. reflexivity.
Qed.

(* C02, sequential scan: from the state NewReader leaves, the unindexed iterator returns what
   scan_spec computes from the records of the file, and ends with io.EOF *)
Theorem C02_scan_thm : forall hb recs sk ro h l fuel n,
  blen hb < max_int32 ->
  Forall (wf_item scan_lopts ds) recs ->
  new_reader ds (mem_file (render (data_file hb recs))) sk = Ok (h, l) ->
  (file_steps scan_lopts ds recs + 1 < fuel)%nat -> (file_steps scan_lopts ds recs + 1 <= n)%nat ->
  scan_all ds fuel (S n) ro {| u_lex := l; u_schemas := []; u_channels := []; u_reccap := 0 |} [] []
  = scan_spec ro [] [] (file_events scan_lopts ds recs) EEOF.
Proof.
  intros hb recs sk ro h l fuel n Hlen Hwf Hnew Hfuel Hn. unfold data_file in Hnew.
  destruct (new_reader_ok hb (recs ++ [IMagic]) sk Hlen) as (l0 & Htop & E).
  rewrite E in Hnew. destruct (parse_header hb) as [h0| | | |]; try discriminate.
  cbn [bind] in Hnew. inversion Hnew; subst h0 l0.
  rewrite (scan_all_delivers ds ro (file_steps scan_lopts ds recs + 1) _ (file_events scan_lopts ds recs) EEOF);
    [apply lift_nil| |exact Hfuel|exact Hn].
  cbn [u_lex]. apply delivers_file with (sk := sk); [reflexivity|exact Hwf|exact Htop].
Qed.

(* the same for the complete API call when the scan is chosen *)
Theorem C02_read_scan_thm : forall dall hb recs os r,
  blen hb < max_int32 ->
  Forall (wf_item scan_lopts ds) recs ->
  let f := mem_file (render (data_file hb recs)) in
  messages_dispatch ds f os = Ok (MScan, r) ->
  (file_steps scan_lopts ds recs + 1 <= N.to_nat (fs_size f))%nat ->
  read_messages ds dall f os =
    bind (parse_header hb) (fun _ =>
    bind (scan_spec r [] [] (file_events scan_lopts ds recs) EEOF) (fun '(ms, mds, e) =>
      Ok {| rr_mode := Some MScan; rr_msgs := ms; rr_mds := mds; rr_end := e; rr_slots := (O, O) |})).
Proof.
  intros dall hb recs os r Hlen Hwf f Hd Hsz. unfold read_messages. fold f. rewrite Hd.
  unfold f at 1, data_file.
  destruct (new_reader_ok hb (recs ++ [IMagic]) true Hlen) as (l0 & Htop & E). rewrite E.
  destruct (parse_header hb) as [h0| | | |]; try reflexivity. cbn [bind].
  rewrite (scan_all_delivers ds r (file_steps scan_lopts ds recs + 1) _ (file_events scan_lopts ds recs) EEOF);
    [rewrite lift_nil; reflexivity| |lia|lia].
  cbn [u_lex]. apply delivers_file with (sk := true); [reflexivity|exact Hwf|exact Htop].
Qed.

End ScanFile.

(* ---- metadata callback of the scan ---- *)
(* the metadata records of a token stream, parsed, in order *)
Fixpoint md_list (evs : list event) : list metadata :=
  match evs with
  | [] => []
  | EvToken op body :: rest =>
    if Byte.eqb op OpMetadata
    then match parse_metadata body with Ok md => md :: md_list rest | _ => md_list rest end
    else md_list rest
  | _ :: rest => md_list rest
  end.

(* the scan reaches the end of the token stream (no record fails to parse, no message refers to an
   unknown schema, no invalid-chunk or attachment token) *)
Fixpoint scan_complete (ro : ropts) (sch : list (N * schema)) (chs : list (N * channel))
         (evs : list event) : bool :=
  match evs with
  | [] => true
  | EvInvalidChunk :: _ => false
  | EvAttachment _ :: _ => false
  | EvToken op body :: rest =>
    if Byte.eqb op OpSchema then
      match parse_schema body with
      | Ok sc => scan_complete ro (tab_set (s_id sc) sc sch) chs rest
      | _ => false
      end
    else if Byte.eqb op OpChannel then
      match parse_channel body with
      | Ok c =>
        if topic_selected (ro_topics ro) (c_topic c)
        then scan_complete ro sch (tab_set (c_id c) c chs) rest
        else scan_complete ro sch chs rest
      | _ => false
      end
    else if Byte.eqb op OpMessage then
      match parse_message body with
      | Ok m =>
        match tab_get (m_chan m) chs with
        | None => scan_complete ro sch chs rest
        | Some c =>
          if in_window ro (m_log m) then
            match tab_get (c_schema c) sch with
            | Some sc => scan_complete ro sch chs rest
            | None => if c_schema c =? 0 then scan_complete ro sch chs rest else false
            end
          else scan_complete ro sch chs rest
        end
      | _ => false
      end
    else if Byte.eqb op OpMetadata && ro_md_cb ro then
      match parse_metadata body with
      | Ok md => scan_complete ro sch chs rest
      | _ => false
      end
    else scan_complete ro sch chs rest
  end.

Lemma cons_msg_ok t r ms cbs e : cons_msg t r = Ok (ms, cbs, e) ->
  exists ms', r = Ok (ms', cbs, e) /\ ms = t :: ms'.
Proof. destruct r as [[[ms0 cbs0] e0]| | | |]; cbn [cons_msg]; intro H; inversion H; subst. eauto. Qed.
Lemma cons_md_ok m r ms cbs e : cons_md m r = Ok (ms, cbs, e) ->
  exists cbs', r = Ok (ms, cbs', e) /\ cbs = m :: cbs'.
Proof. destruct r as [[[ms0 cbs0] e0]| | | |]; cbn [cons_md]; intro H; inversion H; subst. eauto. Qed.

Lemma is_prefix_nil {A} (l : list A) : is_prefix [] l.
Proof. exists l. reflexivity. Qed.
Lemma is_prefix_cons {A} (x : A) a b : is_prefix a b -> is_prefix (x :: a) (x :: b).
Proof. intros [m ->]. exists m. reflexivity. Qed.

(* with a metadata callback installed, the callback receives the metadata records of the file in
   file order: always a prefix of them, and all of them when the scan reaches the end *)
Theorem C02_scan_metadata_thm : forall ro, ro_md_cb ro = true ->
  forall evs sch chs fin ms cbs e,
  scan_spec ro sch chs evs fin = Ok (ms, cbs, e) ->
  is_prefix cbs (md_list evs) /\
  (scan_complete ro sch chs evs = true -> cbs = md_list evs /\ e = fin).
Proof.
  intros ro Hcb. induction evs as [|ev evs IH]; intros sch chs fin ms cbs e H.
  - cbn in H. inversion H; subst. split; [apply is_prefix_nil|]. auto.
  - destruct ev as [op body| |a]; cbn [scan_spec scan_complete md_list] in *.
    2,3: inversion H; subst; split; [apply is_prefix_nil|discriminate].
    destruct (Byte.eqb op OpSchema) eqn:E1.
    { assert (Byte.eqb op OpMetadata = false) as ->.
      { apply byte_eqb_eq in E1. subst op. reflexivity. }
      destruct (parse_schema body) as [sc|e0| | |]; try discriminate.
      - apply IH in H. exact H.
      - inversion H; subst. split; [apply is_prefix_nil|discriminate]. }
    destruct (Byte.eqb op OpChannel) eqn:E2.
    { assert (Byte.eqb op OpMetadata = false) as ->.
      { apply byte_eqb_eq in E2. subst op. reflexivity. }
      destruct (parse_channel body) as [c|e0| | |]; try discriminate.
      - destruct (topic_selected (ro_topics ro) (c_topic c)); apply IH in H; exact H.
      - inversion H; subst. split; [apply is_prefix_nil|discriminate]. }
    destruct (Byte.eqb op OpMessage) eqn:E3.
    { assert (Byte.eqb op OpMetadata = false) as ->.
      { apply byte_eqb_eq in E3. subst op. reflexivity. }
      destruct (parse_message body) as [m|e0| | |]; try discriminate.
      - destruct (tab_get (m_chan m) chs) as [c|]; [|apply IH in H; exact H].
        destruct (in_window ro (m_log m)); [|apply IH in H; exact H].
        destruct (tab_get (c_schema c) sch) as [sc|].
        + apply cons_msg_ok in H. destruct H as (ms' & H & _). apply IH in H. exact H.
        + destruct (c_schema c =? 0).
          * apply cons_msg_ok in H. destruct H as (ms' & H & _). apply IH in H. exact H.
          * inversion H; subst. split; [apply is_prefix_nil|discriminate].
      - inversion H; subst. split; [apply is_prefix_nil|discriminate]. }
    rewrite Hcb, andb_true_r in *.
    destruct (Byte.eqb op OpMetadata) eqn:E4.
    { destruct (parse_metadata body) as [md|e0| | |]; try discriminate.
      - apply cons_md_ok in H. destruct H as (cbs' & H & ->). apply IH in H. destruct H as [P C].
        split; [apply is_prefix_cons, P|]. intro SC. destruct (C SC) as [-> ->]. auto.
      - inversion H; subst. split; [apply is_prefix_nil|discriminate]. }
    apply IH in H. exact H.
Qed.

(* ====================================================================== *)
(** * 6. metadata callback of the index-based read *)

(* the metadata record m is stored at offset off of the byte string b *)
Definition md_at (b : bytes) (off : N) (m : metadata) : Prop :=
  exists pre post, b = pre ++ frame OpMetadata (enc_metadata m) ++ post /\ blen pre = off.

Lemma read_record_at_ok pre op body post :
  blen (pre ++ frame op body ++ post) < two63 -> blen body < max_int32 ->
  read_record_at (mem_file (pre ++ frame op body ++ post)) (blen pre) = Ok (op, body).
Proof.
  intros Hsz Hlen. unfold read_record_at.
  assert (Hseek : seek_ok (fs_size (mem_file (pre ++ frame op body ++ post))) (blen pre) = Ok tt).
  { unfold seek_ok, fs_size, mem_file. cbn [fs_data].
    rewrite !blen_app in *. unfold frame in *. rewrite blen_app, frame_head_blen in *.
    destruct (N.ltb_spec 9223372036854775807 (blen pre)); [unfold two63 in Hsz; lia|].
    destruct (N.leb_spec (blen pre + (9 + blen body + blen post)) (blen pre)); [lia|]. reflexivity. }
  rewrite Hseek. cbn [bind]. rewrite fs_stream_at.
  unfold frame. rewrite <- app_assoc.
  rewrite (rd_full_exact 9 (frame_head op (blen body))) by (symmetry; apply frame_head_blen).
  unfold frame_head. cbv beta iota zeta. cbn [skipn].
  rewrite unle_u64 by (apply max_int32_lt_two64, Hlen).
  destruct (N.leb_spec max_int32 (blen body)); [lia|].
  rewrite (rd_full_exact (blen body) body) by reflexivity. reflexivity.
Qed.

(* every metadata index entry that points at a metadata record leads to a callback with that
   record, in index order *)
Theorem C02_indexed_metadata_thm : forall b, blen b < two63 ->
  forall mxs ms acc,
  Forall2 (fun x m => md_at b (mx_offset x) m /\ wf_metadata m /\ blen (enc_metadata m) < max_int32) mxs ms ->
  md_callbacks (mem_file b) mxs acc = (acc ++ map metadata_norm ms, None).
Proof.
  intros b Hsz mxs ms acc H. revert acc. induction H as [|x m mxs ms (Hat & Wm & Hlen) _ IH]; intro acc.
  - cbn. rewrite app_nil_r. reflexivity.
  - cbn [md_callbacks map]. destruct Hat as (pre & post & Eb & Eoff). rewrite <- Eoff.
    rewrite Eb at 1. rewrite read_record_at_ok by (try assumption; rewrite <- Eb; exact Hsz).
    change (Byte.eqb OpMetadata OpMetadata) with true. cbn [negb].
    rewrite <- (app_nil_r (enc_metadata m)) at 1. rewrite parse_enc_metadata by exact Wm.
    rewrite IH, <- app_assoc. reflexivity.
Qed.

(* ====================================================================== *)
(** * 7. the file-order indexed read against the scan, over abstract chunks *)

Lemma gsort_sorted_id {A} (bf : A -> A -> bool) l :
  StronglySorted (fun a b => bf a b = true) l -> gsort bf l = l.
Proof.
  induction 1 as [|x l Hs IH Hx]; [reflexivity|].
  unfold gsort in *. cbn [fold_right]. rewrite IH.
  destruct l as [|y r]; [reflexivity|]. cbn [gins].
  inversion Hx as [|? ? Hy _]; subst. rewrite Hy. reflexivity.
Qed.

(* chunks listed in file order: strictly increasing offsets *)
Definition file_ordered (cks : list achunk) : Prop :=
  StronglySorted (fun a b => ac_off a < ac_off b) cks.

Lemma ac_sort_file_id cks : file_ordered cks -> ac_sort FileOrder cks = cks.
Proof.
  intro H. apply gsort_sorted_id. eapply StronglySorted_weaken; [|exact H].
  intros a b L. unfold ac_before. cbv beta iota. apply N.ltb_lt, L.
Qed.

Lemma file_ordered_nodup cks : file_ordered cks -> NoDup (map ac_off cks).
Proof.
  induction 1 as [|x l Hs IH Hx]; cbn [map]; constructor; [|exact IH].
  intro Hin. apply in_map_iff in Hin. destruct Hin as (y & E & Hy).
  rewrite Forall_forall in Hx. specialize (Hx y Hy). lia.
Qed.

(* the messages a sequential scan meets, in file order, restricted to the selected ones *)
Definition scan_msgs (sel : amsg -> bool) (cks : list achunk) : list amsg := filter sel (all_msgs cks).

(* The summary lists the chunk indexes in any order (summary); in the file the chunks lie in the
   order cks.  The file-order indexed read returns exactly the selected messages in file order:
   the sequence a scan yields. *)
Theorem C02_indexed_eq_scan_abstract_thm : forall channels ro cks summary fuel n,
  let sel := tw_sel channels ro in
  file_ordered cks -> Permutation summary cks ->
  (length cks + 1 <= fuel)%nat -> (length (scan_msgs sel cks) + 1 <= n)%nat ->
  exists st, a_read sel FileOrder fuel n summary = Some (scan_msgs sel cks, st).
Proof.
  intros channels ro cks summary fuel n sel Hfo HP Hf Hn. unfold scan_msgs in *.
  assert (Hs : ac_sort FileOrder summary = cks).
  { rewrite <- (ac_sort_deterministic FileOrder cks summary); [apply ac_sort_file_id, Hfo| |apply file_ordered_nodup, Hfo].
    symmetry. exact HP. }
  assert (Hall : Permutation (filter sel (all_msgs summary)) (filter sel (all_msgs cks))).
  { unfold all_msgs. rewrite <- !selall_filter. apply selall_perm, HP. }
  destruct (C04_exact_abstract_thm channels ro FileOrder summary fuel n) as (out & st & Hr & _ & Ho).
  - rewrite (Permutation_length HP). exact Hf.
  - fold sel. rewrite (Permutation_length Hall). exact Hn.
  - exists st. fold sel in Hr. rewrite Hr, (Ho eq_refl), Hs. reflexivity.
Qed.

(* in every order, an indexed read that ends normally returned a permutation of the selected
   messages: never a strict sub-multiset, never fewer *)
Theorem C02_never_fewer_abstract_thm : forall (sel : amsg -> bool) o fuel n cks out st,
  a_read sel o fuel n cks = Some (out, st) ->
  Permutation out (scan_msgs sel cks) /\ length out = length (scan_msgs sel cks).
Proof.
  intros sel o fuel n cks out st H. pose proof (a_read_perm sel o fuel n cks out st H) as P.
  split; [exact P|apply Permutation_length, P].
Qed.

(* byte level, under the loader hypothesis of Iter.v: the log times of the messages the file-order
   indexed read of the byte-level reader returns are those of the selected messages in file order *)
Theorem C02_indexed_file_order_bytes_thm : forall dall ro sm f sel pairs fuel n cis summary cks ms st,
  loader_ok dall ro sm f sel pairs -> ro_order ro = FileOrder ->
  Forall2 (ci_match pairs) cis summary -> file_ordered cks -> Permutation summary cks ->
  indexed_all dall fuel n ro sm f (i_init ro cis) [] (O, O) = Ok (ms, EEOF, st) ->
  map log_of ms = map am_ts (scan_msgs sel cks).
Proof.
  intros dall ro sm f sel pairs fuel n cis summary cks ms st HL Ho Hm Hfo HP H.
  destruct (indexed_read_refines_thm dall ro sm f sel pairs HL fuel n cis summary ms st Hm H) as (out & Hr & Hl).
  rewrite Ho in Hr. rewrite Hl. f_equal. rewrite (a_read_file sel _ _ _ _ _ Hr).
  rewrite <- (ac_sort_deterministic FileOrder cks summary); [|symmetry; exact HP|apply file_ordered_nodup, Hfo].
  rewrite ac_sort_file_id by exact Hfo. reflexivity.
Qed.

(* ====================================================================== *)
(** * 8. a concrete file produced by the writer model (non-vacuity of the theorems above) *)

(* chunked, indexed, uncompressed; one schema, one channel, two messages (log times 10 then 5),
   one attachment and one metadata record.  Layout: magic, header, attachment (offset 26),
   metadata (offset 77), chunk (offset 115: schema, channel, two messages), message index,
   data end, summary, summary offsets, footer, magic. *)
Definition x2_opts : wopts :=
  {| o_crc := true; o_chunked := true; o_chunksize := 1000; o_comp := []; o_custom := false;
     o_skip_mi := false; o_skip_stats := false; o_skip_rsh := false; o_skip_rch := false;
     o_skip_ai := false; o_skip_mdi := false; o_skip_ci := false; o_skip_so := false;
     o_override_lib := false; o_skip_magic := false |}.
Definition x2_schema : schema := {| s_id := 1; s_name := [x73]; s_encoding := [x65]; s_data := [x01; x02] |}.
Definition x2_chan : channel := {| c_id := 1; c_schema := 1; c_topic := [x74]; c_menc := [x6d]; c_meta := [] |}.
Definition x2_m1 : message := {| m_chan := 1; m_seq := 1; m_log := 10; m_pub := 10; m_data := [x61; x62] |}.
Definition x2_m2 : message := {| m_chan := 1; m_seq := 2; m_log := 5; m_pub := 5; m_data := [] |}.
Definition x2_att : attachment :=
  {| a_log := 7; a_create := 8; a_name := [x6e]; a_media := [x6d; x6d]; a_size := 3; a_data := [] |}.
Definition x2_adata : bytes := [x01; x02; x03].
Definition x2_acrc : N := crc32 (enc_attachment_fields x2_att ++ x2_adata).
Definition x2_md : metadata := {| md_name := [x6b]; md_meta := [([x62], [x31]); ([x61], [x32])] |}.
Definition x2_calls : list wcall :=
  [CHeader {| h_profile := []; h_library := [] |}; CSchema x2_schema; CChannel x2_chan; CMessage x2_m1;
   CAttachment x2_att {| as_frags := [x2_adata]; as_fail := false |}; CMetadata x2_md; CMessage x2_m2; CClose].
Definition x2_res (o : wopts) : wresult := W o [x6c] (fun _ b => b) None x2_calls.
Definition x2_items : list item := rev (w_trace (r_final (x2_res x2_opts))).
Definition x2_bytes : bytes := file_of (x2_res x2_opts).
Definition x2_file : fsrc := mem_file x2_bytes.
Definition x2_dall : dalloracle := fun _ _ _ => None.

Definition x2_hb : bytes := match nth 1 x2_items IMagic with IRec _ b => b | _ => [] end.
Definition x2_recs : list item := removelast (skipn 2 x2_items).
Definition x2_pre_att : list item := firstn 2 x2_items.
Definition x2_post_att : list item := skipn 3 x2_items.
Definition x2_pre_md : list item := firstn 3 x2_items.
Definition x2_post_md : list item := skipn 4 x2_items.
Definition x2_k : chunk :=
  match nth 4 x2_items IMagic with
  | IChunk k => k
  | _ => {| k_start := 0; k_end := 0; k_usize := 0; k_crc := 0; k_comp := []; k_records := [] |}
  end.
Definition x2_sm : summ := match info ds_id x2_file with Ok sm => sm | _ => empty_summ end.
Definition x2_ro : ropts := finalize default_ropts.
Definition x2_ro_cb : ropts := finalize (default_ropts <| ro_md_cb := true |>).

(* every call succeeded, and the file is the rendering of the writer's trace *)
Example x2_written :
  r_new (x2_res x2_opts) = None /\ forallb (fun x => match fst x with None => true | _ => false end) (r_calls (x2_res x2_opts)) = true
  /\ x2_bytes = render x2_items /\ x2_items = data_file x2_hb x2_recs.
Proof. vm_compute. repeat split; reflexivity. Qed.

(* --- dispatch --- *)
(* the same calls with SkipRepeatedChannelInfos: the summary has chunk indexes but no channels *)
Definition x2_file_norch : fsrc :=
  mem_file (file_of (x2_res {| o_crc := true; o_chunked := true; o_chunksize := 1000; o_comp := []; o_custom := false;
     o_skip_mi := true; o_skip_stats := false; o_skip_rsh := false; o_skip_rch := true;
     o_skip_ai := false; o_skip_mdi := false; o_skip_ci := false; o_skip_so := false;
     o_override_lib := false; o_skip_magic := false |})).
Definition x2_sm_norch : summ := match info ds_id x2_file_norch with Ok sm => sm | _ => empty_summ end.
(* a file cut in the middle of the summary *)
Definition x2_file_cut : fsrc := mem_file (firstn 500 x2_bytes).

Example x2_dispatch_indexed :
  info ds_id x2_file = Ok x2_sm /\ index_usable x2_sm /\
  apply_opts [] default_ropts = Ok default_ropts /\ ro_use_index default_ropts = true /\
  messages_dispatch ds_id x2_file [] = Ok (MIndexed, x2_ro).
Proof.
  split; [vm_compute; reflexivity|]. split; [apply can_use_index_iff; vm_compute; reflexivity|].
  split; [reflexivity|]. split; [reflexivity|]. vm_compute. reflexivity.
Qed.

Example x2_dispatch_fallback :
  info ds_id x2_file_norch = Ok x2_sm_norch /\ ~ index_usable x2_sm_norch /\
  sm_channels x2_sm_norch = [] /\ sm_cis x2_sm_norch <> [] /\
  (forall st, sm_stats x2_sm_norch = Some st -> st_messages st <> 0) /\
  messages_dispatch ds_id x2_file_norch [] = Ok (MScan, x2_ro) /\
  messages_dispatch ds_id x2_file_norch [OInOrder LogTimeOrder] = Err EOther /\
  (exists r0, apply_opts [OInOrder LogTimeOrder] default_ropts = Ok r0 /\ ro_use_index r0 = true).
Proof.
  split; [vm_compute; reflexivity|].
  split; [intro U; apply can_use_index_iff in U; vm_compute in U; discriminate|].
  split; [vm_compute; reflexivity|]. split; [vm_compute; discriminate|].
  split; [intros st E; vm_compute in E; inversion E; subst st; vm_compute; discriminate|].
  split; [vm_compute; reflexivity|]. split; [vm_compute; reflexivity|].
  eexists. split; [vm_compute; reflexivity|reflexivity].
Qed.

Example x2_dispatch_info_fails :
  info ds_id x2_file_cut = Err EBadMagic /\ messages_dispatch ds_id x2_file_cut [] = Err EBadMagic.
Proof. vm_compute. split; reflexivity. Qed.

Example x2_dispatch_no_index :
  (exists r0, apply_opts [OUsingIndex false] default_ropts = Ok r0 /\ ro_use_index r0 = false) /\
  apply_opts [OMetadataCb] default_ropts = Ok (default_ropts <| ro_md_cb := true |>) /\
  ro_order (default_ropts <| ro_md_cb := true |>) = FileOrder /\
  messages_dispatch ds_id x2_file [OMetadataCb; OUsingIndex false]
    = Ok (MScan, finalize (default_ropts <| ro_md_cb := true |> <| ro_use_index := false |>)).
Proof.
  split; [eexists; split; [vm_compute; reflexivity|reflexivity]|].
  split; [reflexivity|]. split; [reflexivity|]. vm_compute. reflexivity.
Qed.

Example x2_dispatch_bad_options :
  apply_opts [OUsingIndex false; OInOrder LogTimeOrder] default_ropts = Err EOther /\
  messages_dispatch ds_id x2_file [OUsingIndex false; OInOrder LogTimeOrder] = Err EOther.
Proof. vm_compute. split; reflexivity. Qed.

(* --- random access --- *)
(* the attachment index entry of Info points at the attachment item, the metadata index entry at the
   metadata item *)
Example x2_get_attachment_hyps :
  x2_items = x2_pre_att ++ IAttach x2_att x2_adata x2_acrc :: x2_post_att /\
  wf_attach_ra x2_att x2_adata x2_acrc /\
  blen (render (x2_pre_att ++ IAttach x2_att x2_adata x2_acrc :: x2_post_att)) < two63 /\
  map ai_offset (sm_ais x2_sm) = [blen (render x2_pre_att)] /\
  get_attachment x2_file 26 = Ok (attach_obs_ra x2_att x2_adata x2_acrc).
Proof.
  split; [vm_compute; reflexivity|]. split; [repeat split; reflexivity|].
  split; [vm_compute; reflexivity|]. split; vm_compute; reflexivity.
Qed.

Example x2_get_metadata_hyps :
  x2_items = x2_pre_md ++ IRec OpMetadata (enc_metadata x2_md) :: x2_post_md /\
  wf_metadata x2_md /\ blen (enc_metadata x2_md) < max_int32 /\
  blen (render (x2_pre_md ++ IRec OpMetadata (enc_metadata x2_md) :: x2_post_md)) < two63 /\
  map mx_offset (sm_mxs x2_sm) = [blen (render x2_pre_md)] /\
  get_metadata ds_id x2_file 77 = Ok (metadata_norm x2_md).
Proof.
  split; [vm_compute; reflexivity|]. split; [apply wf_metadatab_iff; vm_compute; reflexivity|].
  split; [vm_compute; reflexivity|]. split; [vm_compute; reflexivity|]. split; vm_compute; reflexivity.
Qed.

Example x2_indexed_metadata_hyps :
  blen x2_bytes < two63 /\
  Forall2 (fun x m => md_at x2_bytes (mx_offset x) m /\ wf_metadata m /\ blen (enc_metadata m) < max_int32)
          (sm_mxs x2_sm) [x2_md] /\
  md_callbacks x2_file (sm_mxs x2_sm) [] = ([metadata_norm x2_md], None).
Proof.
  split; [vm_compute; reflexivity|]. split; [|vm_compute; reflexivity].
  replace (sm_mxs x2_sm) with [{| mx_offset := 77; mx_length := 38; mx_name := [x6b] |}] by (vm_compute; reflexivity).
  constructor; [|constructor]. split; [|split].
  - exists (render x2_pre_md), (render x2_post_md). split; vm_compute; reflexivity.
  - apply wf_metadatab_iff. vm_compute. reflexivity.
  - vm_compute. reflexivity.
Qed.

(* --- scan --- *)
Lemma x2_recs_wf : Forall (wf_item scan_lopts ds_id) x2_recs.
Proof.
  let l := eval vm_compute in x2_recs in replace x2_recs with l by (vm_compute; reflexivity).
  repeat apply Forall_cons; try apply Forall_nil;
    try (cbn [wf_item]; repeat split; try discriminate; reflexivity).
  - (* attachment *)
    cbn [wf_item]. unfold wf_attach_item. repeat split; try reflexivity. left. reflexivity.
  - (* chunk *)
    cbn [wf_item]. split; [repeat split; reflexivity|]. split; [reflexivity|].
    cbn [lo_emit_chunks scan_lopts]. split; [reflexivity|]. split; [reflexivity|]. split; [reflexivity|].
    match goal with |- exists inner, chunk_stream _ _ (k_comp ?k) _ _ = _ /\ _ =>
      let i := eval vm_compute in (chunk_inner scan_lopts ds_id k) in exists i end.
    split; [vm_compute; reflexivity|]. split; [vm_compute; reflexivity|]. split.
    + repeat apply Forall_cons; try apply Forall_nil; (repeat split; try discriminate; reflexivity).
    + split; [right; vm_compute; reflexivity|]. intro H. discriminate H.
Qed.

Example x2_scan_hyps :
  blen x2_hb < max_int32 /\ Forall (wf_item scan_lopts ds_id) x2_recs /\
  (exists h l, new_reader ds_id (mem_file (render (data_file x2_hb x2_recs))) true = Ok (h, l)) /\
  (file_steps scan_lopts ds_id x2_recs + 1 < 40)%nat /\ (file_steps scan_lopts ds_id x2_recs + 1 <= 39)%nat /\
  scan_spec x2_ro_cb [] [] (file_events scan_lopts ds_id x2_recs) EEOF
  = Ok ([(Some x2_schema, x2_chan, x2_m1); (Some x2_schema, x2_chan, x2_m2)], [metadata_norm x2_md], EEOF).
Proof.
  split; [vm_compute; reflexivity|]. split; [exact x2_recs_wf|]. split.
  - destruct (new_reader ds_id (mem_file (render (data_file x2_hb x2_recs))) true) as [[h l]| | | |] eqn:E;
      try (vm_compute in E; discriminate). exists h, l. reflexivity.
  - split; [vm_compute; lia|]. split; [vm_compute; lia|]. vm_compute. reflexivity.
Qed.

Example x2_read_scan_hyps :
  messages_dispatch ds_id (mem_file (render (data_file x2_hb x2_recs))) [OMetadataCb; OUsingIndex false]
    = Ok (MScan, finalize (default_ropts <| ro_md_cb := true |> <| ro_use_index := false |>)) /\
  (file_steps scan_lopts ds_id x2_recs + 1 <= N.to_nat (fs_size (mem_file (render (data_file x2_hb x2_recs)))))%nat.
Proof. split; [vm_compute; reflexivity|vm_compute; lia]. Qed.

Example x2_scan_metadata_hyps :
  ro_md_cb x2_ro_cb = true /\
  scan_complete x2_ro_cb [] [] (file_events scan_lopts ds_id x2_recs) = true /\
  md_list (file_events scan_lopts ds_id x2_recs) = [metadata_norm x2_md].
Proof. vm_compute. repeat split; reflexivity. Qed.

(* --- indexed read against the scan --- *)
Example x2_abstract_hyps :
  file_ordered ex_cks /\ Permutation [exA; exB; exC] ex_cks /\
  (length ex_cks + 1 <= 4)%nat /\ (length (scan_msgs (tw_sel ex_channels x2_ro) ex_cks) + 1 <= 12)%nat /\
  uids (a_read sel_all FileOrder 4 12 [exA; exB; exC]) = Some (map am_uid (all_msgs ex_cks), (1, 1)%nat).
Proof.
  split; [repeat constructor|]. split.
  - unfold ex_cks. apply (Permutation_cons_app [exB; exC] [] exA). apply Permutation_refl.
  - split; [vm_compute; lia|]. split; [vm_compute; lia|]. vm_compute. reflexivity.
Qed.

(* byte level: the loader hypothesis holds for the chunk of the example file *)
Definition x2_ci : chunkindex := hd x_ci (sm_cis x2_sm).
Definition x2_ac : achunk := {| ac_start := 5; ac_end := 10; ac_off := 115; ac_msgs := [mk_msg 10 1 0; mk_msg 5 1 1] |}.
Definition x2_sel : amsg -> bool := tw_sel (sm_channels x2_sm) x2_ro.
Definition x2_pairs : list (chunkindex * achunk) := [(x2_ci, x2_ac)].

Example x2_loader_ok : loader_ok x2_dall x2_ro x2_sm x2_file x2_sel x2_pairs.
Proof.
  intros ci c s Hin.
  assert (E : ci = x2_ci /\ c = x2_ac) by (destruct Hin as [E|[]]; split; congruence).
  destruct E as [-> ->]. clear Hin.
  destruct (load_chunk_i_ok x2_dall x2_ro x2_sm x2_file x2_ci s
              (take 167 (drop 115 (fs_data x2_file)))
              {| r_buf := drop 167 (drop 115 (fs_data x2_file)); r_end := None; r_seek := true |}
              x2_k (k_records x2_k)
              [ {| en_ts := 10; en_off := 54; en_slot := islot s |};
                {| en_ts := 5; en_off := 87; en_slot := islot s |} ]) as (s' & Hl & Hs & Hq);
    try (vm_compute; reflexivity).
  exists s', [ {| en_ts := 10; en_off := 54; en_slot := islot s |}; {| en_ts := 5; en_off := 87; en_slot := islot s |} ].
  split; [exact Hl|]. split.
  - vm_compute. repeat constructor.
  - split; [exact Hq|]. rewrite Hs, slot_set_map. reflexivity.
Qed.

Example x2_indexed_bytes_hyps :
  loader_ok x2_dall x2_ro x2_sm x2_file x2_sel x2_pairs /\ ro_order x2_ro = FileOrder /\
  Forall2 (ci_match x2_pairs) (sm_cis x2_sm) [x2_ac] /\ file_ordered [x2_ac] /\ Permutation [x2_ac] [x2_ac] /\
  (exists ms st, indexed_all x2_dall 10 10 x2_ro x2_sm x2_file (i_init x2_ro (sm_cis x2_sm)) [] (O, O) = Ok (ms, EEOF, st)) /\
  map am_ts (scan_msgs x2_sel [x2_ac]) = [10; 5].
Proof.
  split; [exact x2_loader_ok|]. split; [reflexivity|]. split.
  { replace (sm_cis x2_sm) with [x2_ci] by (vm_compute; reflexivity).
    constructor; [|constructor]. split; [left; reflexivity|]. vm_compute. repeat split; reflexivity. }
  split; [repeat constructor|]. split; [apply Permutation_refl|]. split; [|vm_compute; reflexivity].
  destruct (indexed_all x2_dall 10 10 x2_ro x2_sm x2_file (i_init x2_ro (sm_cis x2_sm)) [] (O, O)) as [[[ms e] st]| | | |] eqn:E;
    try (vm_compute in E; discriminate).
  exists ms, st. assert (e = EEOF) as ->; [|reflexivity]. vm_compute in E. inversion E. reflexivity.
Qed.

(* end to end on the example: the index-based read and the scan of the same file agree, triples,
   metadata callbacks and end of iteration *)
Example x2_indexed_eq_scan :
  match read_messages ds_id x2_dall x2_file [OMetadataCb], read_messages ds_id x2_dall x2_file [OMetadataCb; OUsingIndex false] with
  | Ok ri, Ok rs =>
    rr_mode ri = Some MIndexed /\ rr_mode rs = Some MScan /\ rr_msgs ri = rr_msgs rs /\ rr_mds ri = rr_mds rs /\
    rr_end ri = EEOF /\ rr_end rs = EEOF /\ length (rr_msgs rs) = 2%nat
  | _, _ => False
  end.
Proof. vm_compute. repeat split; reflexivity. Qed.

(* C02 as literally stated fails for a writer call sequence that registers a channel id twice with
   different content: the summary keeps the first definition (Writer.AddChannel), the scan uses
   the latest one (slicemap Set in the unindexed iterator) *)
Definition x3_c1 : channel := {| c_id := 1; c_schema := 0; c_topic := [x74]; c_menc := [x6d]; c_meta := [] |}.
Definition x3_c1' : channel := {| c_id := 1; c_schema := 0; c_topic := [x75]; c_menc := [x6d]; c_meta := [] |}.
Definition x3_m2 : message := {| m_chan := 1; m_seq := 2; m_log := 15; m_pub := 15; m_data := [] |}.
Definition x3_calls : list wcall :=
  [CHeader {| h_profile := []; h_library := [] |}; CChannel x3_c1; CMessage x2_m1; CChannel x3_c1'; CMessage x3_m2; CClose].
Definition x3_res : wresult := W x2_opts [x6c] (fun _ b => b) None x3_calls.
Definition x3_file : fsrc := mem_file (file_of x3_res).
Definition topics_of (r : outcome readres) : option (option mode * list (bytes * N) * err) :=
  match r with
  | Ok r => Some (rr_mode r, map (fun t : triple => (c_topic (snd (fst t)), m_log (snd t))) (rr_msgs r), rr_end r)
  | _ => None
  end.
Example x3_channel_redefinition_refutes :
  r_new x3_res = None /\ forallb (fun x => match fst x with None => true | _ => false end) (r_calls x3_res) = true /\
  topics_of (read_messages ds_id x2_dall x3_file []) = Some (Some MIndexed, [([x74], 10); ([x74], 15)], EEOF) /\
  topics_of (read_messages ds_id x2_dall x3_file [OUsingIndex false]) = Some (Some MScan, [([x74], 10); ([x75], 15)], EEOF).
Proof. vm_compute. repeat split; reflexivity. Qed.

(* ====================================================================== *)
(** * 9. packaged statements used by properties/C02.v *)

Theorem C02_random_access_thm : forall ds : doracle,
  (forall lo pre a data crc post,
     wf_attach_item lo a data crc ->
     blen (render (pre ++ IAttach a data crc :: post)) < two63 ->
     exists ob,
       get_attachment (mem_file (render (pre ++ IAttach a data crc :: post))) (blen (render pre)) = Ok ob /\
       ao_log ob = a_log a /\ ao_create ob = a_create a /\ ao_name ob = a_name a /\ ao_media ob = a_media a /\
       ao_size ob = a_size a /\ ao_data ob = data /\ ao_data_end ob = None /\
       ao_computed ob = Ok (crc32 (enc_attachment_fields a ++ data)) /\ ao_parsed ob = Ok crc) /\
  (forall pre m post,
     wf_metadata m -> wf_item reader_lopts ds (IRec OpMetadata (enc_metadata m)) ->
     blen (render (pre ++ IRec OpMetadata (enc_metadata m) :: post)) < two63 ->
     get_metadata ds (mem_file (render (pre ++ IRec OpMetadata (enc_metadata m) :: post))) (blen (render pre))
     = Ok (metadata_norm m)).
Proof.
  intro ds. split.
  - intros lo pre a data crc post W Hsz. exists (attach_obs_ra a data crc).
    split; [apply C02_get_attachment_thm; [eapply wf_attach_item_ra; exact W|exact Hsz]|].
    repeat split; reflexivity.
  - intros pre m post Wm (_ & _ & _ & Hlen & _) Hsz. apply C02_get_metadata_thm; assumption.
Qed.

Example x2_random_access_hyps :
  wf_attach_item reader_lopts x2_att x2_adata x2_acrc /\
  wf_item reader_lopts ds_id (IRec OpMetadata (enc_metadata x2_md)).
Proof.
  split.
  - unfold wf_attach_item. repeat split; try reflexivity. left. reflexivity.
  - cbn [wf_item]. repeat split; try discriminate; reflexivity.
Qed.

(* a file without messages: no channel records in the summary, statistics say "0 messages" *)
Definition x4_file : fsrc :=
  mem_file (file_of (W x2_opts [x6c] (fun _ b => b) None [CHeader {| h_profile := []; h_library := [] |}; CClose])).
Definition x4_sm : summ := match info ds_id x4_file with Ok sm => sm | _ => empty_summ end.
Example x4_dispatch_empty :
  info ds_id x4_file = Ok x4_sm /\ sm_channels x4_sm = [] /\
  messages_dispatch ds_id x4_file [] = Ok (MIndexed, x2_ro) /\
  (exists st, sm_stats x4_sm = Some st /\ st_messages st = 0).
Proof.
  split; [vm_compute; reflexivity|]. split; [vm_compute; reflexivity|]. split; [vm_compute; reflexivity|].
  eexists. split; vm_compute; reflexivity.
Qed.

(* the lexer state after the header of the example file, and its token stream *)
Definition x2_s0 : lstate :=
  {| lx_base := rd (render (x2_recs ++ [IMagic])) None true; lx_chunk := None; lx_ubuf := 0; lx_bufcap := 32;
     lx_allocs := [] |}.
Example x2_token_stream_hyps :
  lo_cb scan_lopts = CbNone /\ Forall (wf_item scan_lopts ds_id) x2_recs /\
  at_top x2_s0 (rd (render (x2_recs ++ [IMagic])) None true) /\
  delivers scan_lopts ds_id (file_steps scan_lopts ds_id x2_recs + 1)
    (u_lex {| u_lex := x2_s0; u_schemas := []; u_channels := []; u_reccap := 0 |})
    (file_events scan_lopts ds_id x2_recs) EEOF.
Proof.
  split; [reflexivity|]. split; [exact x2_recs_wf|]. split; [split; reflexivity|].
  apply delivers_file with (sk := true); [reflexivity|exact x2_recs_wf|split; reflexivity].
Qed.
