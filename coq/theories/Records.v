(* Records.v - MCAP record types, body encoders (mirroring go/mcap/writer.go) and
   Go-faithful body parsers (mirroring go/mcap/parse.go, reader.go getPrefixed*, utils.go). *)
From Coq Require Import List NArith ZArith Bool.
From Coq.Strings Require Import Byte.
From Mcap Require Import Bytes GoSem.
Import ListNotations.
Open Scope N_scope.
Open Scope go_scope.

(* ---------- opcodes ---------- *)
Definition OpHeader : byte := x01.
Definition OpFooter : byte := x02.
Definition OpSchema : byte := x03.
Definition OpChannel : byte := x04.
Definition OpMessage : byte := x05.
Definition OpChunk : byte := x06.
Definition OpMessageIndex : byte := x07.
Definition OpChunkIndex : byte := x08.
Definition OpAttachment : byte := x09.
Definition OpAttachmentIndex : byte := x0a.
Definition OpStatistics : byte := x0b.
Definition OpMetadata : byte := x0c.
Definition OpMetadataIndex : byte := x0d.
Definition OpSummaryOffset : byte := x0e.
Definition OpDataEnd : byte := x0f.

(* ---------- record types ---------- *)
Definition kvs := list (bytes * bytes).

Record header := { h_profile : bytes; h_library : bytes }.
Record footer := { f_summary_start : N; f_summary_offset_start : N; f_crc : N }.
Record schema := { s_id : N; s_name : bytes; s_encoding : bytes; s_data : bytes }.
Record channel := { c_id : N; c_schema : N; c_topic : bytes; c_menc : bytes; c_meta : kvs }.
Record message := { m_chan : N; m_seq : N; m_log : N; m_pub : N; m_data : bytes }.
Record chunk := { k_start : N; k_end : N; k_usize : N; k_crc : N; k_comp : bytes; k_records : bytes }.
Record msgindex := { mi_chan : N; mi_entries : list (N * N) }.
Record chunkindex := { ci_start : N; ci_end : N; ci_offset : N; ci_length : N;
                       ci_mioffsets : list (N * N); ci_milength : N; ci_comp : bytes;
                       ci_csize : N; ci_usize : N }.
Record attachment := { a_log : N; a_create : N; a_name : bytes; a_media : bytes;
                       a_size : N; a_data : bytes }.
Record attindex := { ai_offset : N; ai_length : N; ai_log : N; ai_create : N; ai_size : N;
                     ai_name : bytes; ai_media : bytes }.
Record statistics := { st_messages : N; st_schemas : N; st_channels : N; st_attachments : N;
                       st_metadata : N; st_chunks : N; st_start : N; st_end : N;
                       st_counts : list (N * N) }.
Record metadata := { md_name : bytes; md_meta : kvs }.
Record mdindex := { mx_offset : N; mx_length : N; mx_name : bytes }.
Record sumoffset := { so_op : byte; so_start : N; so_length : N }.
Record dataend := { de_crc : N }.

(* ---------- maps ---------- *)
(* sort.Strings on the keys: insertion sort, lexicographic byte order *)
Fixpoint kv_insert (kv : bytes * bytes) (l : kvs) : kvs :=
  match l with
  | [] => [kv]
  | x :: r => if bytes_ltb (fst x) (fst kv) then x :: kv_insert kv r else kv :: l
  end.
Definition kv_sort (l : kvs) : kvs := fold_right kv_insert [] l.

(* Go map assignment m[k] = v on an association list kept sorted by key *)
Fixpoint kv_set (k v : bytes) (l : kvs) : kvs :=
  match l with
  | [] => [(k, v)]
  | x :: r => if bytes_eqb (fst x) k then (k, v) :: r
              else if bytes_ltb k (fst x) then (k, v) :: l
              else x :: kv_set k v r
  end.

Definition enc_kv (kv : bytes * bytes) : bytes := pstr (fst kv) ++ pstr (snd kv).
Definition enc_kvs_body (l : kvs) : bytes := concat (map enc_kv l).
(* makePrefixedMap *)
Definition enc_map (m : kvs) : bytes :=
  let body := enc_kvs_body (kv_sort m) in u32 (blen body) ++ body.

(* same for uint16 -> uint64 maps (sorted by key) *)
Fixpoint nn_set (k v : N) (l : list (N * N)) : list (N * N) :=
  match l with
  | [] => [(k, v)]
  | x :: r => if fst x =? k then (k, v) :: r
              else if k <? fst x then (k, v) :: l
              else x :: nn_set k v r
  end.
Fixpoint nn_get (k : N) (l : list (N * N)) : option N :=
  match l with
  | [] => None
  | x :: r => if fst x =? k then Some (snd x) else nn_get k r
  end.

(* ---------- body encoders ---------- *)
Definition enc_header (h : header) : bytes := pstr (h_profile h) ++ pstr (h_library h).
Definition enc_footer (f : footer) : bytes :=
  u64 (f_summary_start f) ++ u64 (f_summary_offset_start f) ++ u32 (f_crc f).
Definition enc_schema (s : schema) : bytes :=
  u16 (s_id s) ++ pstr (s_name s) ++ pstr (s_encoding s) ++ pstr (s_data s).
Definition enc_channel (c : channel) : bytes :=
  u16 (c_id c) ++ u16 (c_schema c) ++ pstr (c_topic c) ++ pstr (c_menc c) ++ enc_map (c_meta c).
Definition enc_message (m : message) : bytes :=
  u16 (m_chan m) ++ u32 (m_seq m) ++ u64 (m_log m) ++ u64 (m_pub m) ++ m_data m.
Definition enc_chunk_top (k : chunk) : bytes :=
  u64 (k_start k) ++ u64 (k_end k) ++ u64 (k_usize k) ++ u32 (k_crc k) ++ pstr (k_comp k)
  ++ u64 (blen (k_records k)).
Definition enc_chunk (k : chunk) : bytes := enc_chunk_top k ++ k_records k.
Definition enc_mi_entry (e : N * N) : bytes := u64 (fst e) ++ u64 (snd e).
Definition enc_msgindex (mi : msgindex) : bytes :=
  let body := concat (map enc_mi_entry (mi_entries mi)) in
  u16 (mi_chan mi) ++ u32 (blen body) ++ body.
Definition enc_nn (e : N * N) : bytes := u16 (fst e) ++ u64 (snd e).
Definition enc_chunkindex (ci : chunkindex) : bytes :=
  let offs := concat (map enc_nn (ci_mioffsets ci)) in
  u64 (ci_start ci) ++ u64 (ci_end ci) ++ u64 (ci_offset ci) ++ u64 (ci_length ci)
  ++ u32 (blen offs) ++ offs ++ u64 (ci_milength ci) ++ pstr (ci_comp ci)
  ++ u64 (ci_csize ci) ++ u64 (ci_usize ci).
(* attachment body without the trailing crc: the bytes the attachment CRC covers *)
Definition enc_attachment_fields (a : attachment) : bytes :=
  u64 (a_log a) ++ u64 (a_create a) ++ pstr (a_name a) ++ pstr (a_media a) ++ u64 (a_size a).
Definition enc_attindex (ai : attindex) : bytes :=
  u64 (ai_offset ai) ++ u64 (ai_length ai) ++ u64 (ai_log ai) ++ u64 (ai_create ai)
  ++ u64 (ai_size ai) ++ pstr (ai_name ai) ++ pstr (ai_media ai).
Definition enc_statistics (s : statistics) : bytes :=
  let cnt := concat (map enc_nn (st_counts s)) in
  u64 (st_messages s) ++ u16 (st_schemas s) ++ u32 (st_channels s) ++ u32 (st_attachments s)
  ++ u32 (st_metadata s) ++ u32 (st_chunks s) ++ u64 (st_start s) ++ u64 (st_end s)
  ++ u32 (blen cnt) ++ cnt.
Definition enc_metadata (m : metadata) : bytes := pstr (md_name m) ++ enc_map (md_meta m).
Definition enc_mdindex (x : mdindex) : bytes :=
  u64 (mx_offset x) ++ u64 (mx_length x) ++ pstr (mx_name x).
Definition enc_sumoffset (s : sumoffset) : bytes := so_op s :: u64 (so_start s) ++ u64 (so_length s).
Definition enc_dataend (d : dataend) : bytes := u32 (de_crc d).

(* record framing: opcode, uint64 length, body *)
Definition frame_head (op : byte) (n : N) : bytes := op :: u64 n.
Definition frame (op : byte) (body : bytes) : bytes := frame_head op (blen body) ++ body.

(* ---------- Go-faithful primitive readers (utils.go, reader.go) ---------- *)
(* getUintN(buf, offset): `offset > len(buf)-N` -> io.ErrShortBuffer *)
Definition get_u (n : nat) (buf : bytes) (off : nat) : outcome (N * nat) :=
  if Nat.ltb (length buf) (off + n) then Err EShortBuffer
  else Ok (unle (sub buf off n), (off + n)%nat).
Definition get_u16 := get_u 2.
Definition get_u32 := get_u 4.
Definition get_u64 := get_u 8.

(* getPrefixedString / getPrefixedBytes.  data[offset:] panics when offset > len(data);
   all call sites pass offsets obtained from earlier successes, the panic branch is kept. *)
Definition site_getPrefixed : N := 1.
Definition get_pstr (buf : bytes) (off : nat) : outcome (bytes * nat) :=
  if Nat.ltb (length buf) off then Panic site_getPrefixed
  else if Nat.ltb (length buf - off) 4 then Err EShortBuffer
  else
    (* compare in N first: a hostile 32-bit length must never become a unary number *)
    let nN := unle (sub buf off 4) in
    if N.of_nat (length buf - (off + 4)) <? nN then Err EShortBuffer
    else let n := N.to_nat nN in Ok (sub buf (off + 4) n, (off + 4 + n)%nat).

(* getPrefixedMap: loop `for uint32(offset+inset) < uint32(offset)+maplen` with uint32
   wrap-around, keys/values read relative to data[offset:] *)
Fixpoint get_map_loop (fuel : nat) (buf : bytes) (off inset : nat) (maplen : N) (acc : kvs)
  : outcome (kvs * nat) :=
  match fuel with
  | O => OutOfFuel
  | S f =>
    if (N.of_nat (off + inset) mod two32) <? ((N.of_nat off mod two32 + maplen) mod two32) then
      let rest := skipn off buf in
      let* (k, i1) := get_pstr rest inset in
      let* (v, i2) := get_pstr rest i1 in
      get_map_loop f buf off i2 maplen (kv_set k v acc)
    else Ok (acc, (off + inset)%nat)
  end.
Definition get_map (buf : bytes) (off : nat) : outcome (kvs * nat) :=
  let* (maplen, off1) := get_u32 buf off in
  get_map_loop (S (length buf)) buf off1 0 maplen [].

(* ---------- body parsers (parse.go) ---------- *)
Definition parse_header (buf : bytes) : outcome header :=
  let* (p, o) := get_pstr buf 0 in
  let* (l, _) := get_pstr buf o in
  Ok {| h_profile := p; h_library := l |}.

Definition parse_footer (buf : bytes) : outcome footer :=
  let* (a, o) := get_u64 buf 0 in
  let* (b, o) := get_u64 buf o in
  let* (c, _) := get_u32 buf o in
  Ok {| f_summary_start := a; f_summary_offset_start := b; f_crc := c |}.

Definition parse_schema (buf : bytes) : outcome schema :=
  let* (id, o) := get_u16 buf 0 in
  let* (name, o) := get_pstr buf o in
  let* (enc, o) := get_pstr buf o in
  let* (data, _) := get_pstr buf o in
  Ok {| s_id := id; s_name := name; s_encoding := enc; s_data := data |}.

Definition parse_channel (buf : bytes) : outcome channel :=
  let* (id, o) := get_u16 buf 0 in
  let* (sid, o) := get_u16 buf o in
  let* (topic, o) := get_pstr buf o in
  let* (menc, o) := get_pstr buf o in
  let* (meta, _) := get_map buf o in
  Ok {| c_id := id; c_schema := sid; c_topic := topic; c_menc := menc; c_meta := meta |}.

Definition parse_message (buf : bytes) : outcome message :=
  let* (ch, o) := get_u16 buf 0 in
  let* (seq, o) := get_u32 buf o in
  let* (lt, o) := get_u64 buf o in
  let* (pt, o) := get_u64 buf o in
  Ok {| m_chan := ch; m_seq := seq; m_log := lt; m_pub := pt; m_data := skipn o buf |}.

(* int(x) for a uint64 x on a 64-bit platform: two's complement *)
Definition int_of_u64 (x : N) : Z :=
  if x <? 9223372036854775808 then Z.of_N x else (Z.of_N x - 18446744073709551616)%Z.

Definition site_parseChunk_records : N := 2.
(* ParseChunk: `records := buf[offset : offset+int(recordsLength)]`.
   After the fix the bounds are checked and a short buffer is an error. *)
Definition parse_chunk (buf : bytes) : outcome chunk :=
  let* (st, o) := get_u64 buf 0 in
  let* (en, o) := get_u64 buf o in
  let* (us, o) := get_u64 buf o in
  let* (crc, o) := get_u32 buf o in
  let* (comp, o) := get_pstr buf o in
  let* (rl, o) := get_u64 buf o in
  if (N.of_nat (length buf - o)) <? rl then Err EShortBuffer
  else Ok {| k_start := st; k_end := en; k_usize := us; k_crc := crc; k_comp := comp;
             k_records := sub buf o (N.to_nat rl) |}.

Fixpoint parse_mi_loop (fuel : nat) (buf : bytes) (start off : nat) (blen_ : N) (acc : list (N * N))
  : outcome (list (N * N)) :=
  match fuel with
  | O => OutOfFuel
  | S f =>
    if (N.of_nat off mod two32) <? ((N.of_nat start mod two32 + blen_) mod two32) then
      let* (t, o) := get_u64 buf off in
      let* (v, o) := get_u64 buf o in
      parse_mi_loop f buf start o blen_ (acc ++ [(t, v)])
    else Ok acc
  end.
Definition parse_msgindex (buf : bytes) : outcome msgindex :=
  let* (ch, o) := get_u16 buf 0 in
  let* (bl, o) := get_u32 buf o in
  let* es := parse_mi_loop (S (length buf)) buf o o bl [] in
  Ok {| mi_chan := ch; mi_entries := es |}.

Fixpoint parse_cio_loop (fuel : nat) (rest : bytes) (inset : nat) (total : N) (acc : list (N * N))
  : outcome (list (N * N) * nat) :=
  match fuel with
  | O => OutOfFuel
  | S f =>
    if N.of_nat inset <? total then
      let* (ch, i) := get_u16 rest inset in
      let* (v, i) := get_u64 rest i in
      parse_cio_loop f rest i total (nn_set ch v acc)
    else Ok (acc, inset)
  end.
Definition parse_chunkindex (buf : bytes) : outcome chunkindex :=
  let* (st, o) := get_u64 buf 0 in
  let* (en, o) := get_u64 buf o in
  let* (cso, o) := get_u64 buf o in
  let* (cl, o) := get_u64 buf o in
  let* (mol, o) := get_u32 buf o in
  let* (offs, inset) := parse_cio_loop (S (length buf)) (skipn o buf) 0 mol [] in
  let o := (o + inset)%nat in
  let* (mil, o) := get_u64 buf o in
  let* (comp, o) := get_pstr buf o in
  let* (cs, o) := get_u64 buf o in
  let* (us, _) := get_u64 buf o in
  Ok {| ci_start := st; ci_end := en; ci_offset := cso; ci_length := cl; ci_mioffsets := offs;
        ci_milength := mil; ci_comp := comp; ci_csize := cs; ci_usize := us |}.

Definition parse_attindex (buf : bytes) : outcome attindex :=
  let* (off, o) := get_u64 buf 0 in
  let* (len, o) := get_u64 buf o in
  let* (lt, o) := get_u64 buf o in
  let* (ct, o) := get_u64 buf o in
  let* (ds, o) := get_u64 buf o in
  let* (name, o) := get_pstr buf o in
  let* (media, _) := get_pstr buf o in
  Ok {| ai_offset := off; ai_length := len; ai_log := lt; ai_create := ct; ai_size := ds;
        ai_name := name; ai_media := media |}.

Fixpoint parse_counts_loop (fuel : nat) (buf : bytes) (off stop : nat) (acc : list (N * N))
  : outcome (list (N * N)) :=
  match fuel with
  | O => OutOfFuel
  | S f =>
    if Nat.ltb off stop then
      let* (ch, o) := get_u16 buf off in
      let* (v, o) := get_u64 buf o in
      parse_counts_loop f buf o stop (nn_set ch v acc)
    else Ok acc
  end.
Definition parse_statistics (buf : bytes) : outcome statistics :=
  if Nat.ltb (length buf) 46 then Err EShortBuffer else
  let* (mc, o) := get_u64 buf 0 in
  let* (sc, o) := get_u16 buf o in
  let* (cc, o) := get_u32 buf o in
  let* (ac, o) := get_u32 buf o in
  let* (mdc, o) := get_u32 buf o in
  let* (kc, o) := get_u32 buf o in
  let* (st, o) := get_u64 buf o in
  let* (en, o) := get_u64 buf o in
  let* (cl, o) := get_u32 buf o in
  if N.of_nat (length buf) <? N.of_nat o + cl then Err EShortBuffer else
  let* cnt := parse_counts_loop (S (length buf)) buf o (o + N.to_nat cl) [] in
  Ok {| st_messages := mc; st_schemas := sc; st_channels := cc; st_attachments := ac;
        st_metadata := mdc; st_chunks := kc; st_start := st; st_end := en; st_counts := cnt |}.

Definition parse_metadata (buf : bytes) : outcome metadata :=
  let* (name, o) := get_pstr buf 0 in
  let* (m, _) := get_map buf o in
  Ok {| md_name := name; md_meta := m |}.

Definition parse_mdindex (buf : bytes) : outcome mdindex :=
  let* (off, o) := get_u64 buf 0 in
  let* (len, o) := get_u64 buf o in
  let* (name, _) := get_pstr buf o in
  Ok {| mx_offset := off; mx_length := len; mx_name := name |}.

Definition parse_sumoffset (buf : bytes) : outcome sumoffset :=
  if Nat.ltb (length buf) 17 then Err EShortBuffer else
  let op := match buf with b :: _ => b | [] => x00 end in
  let* (gs, o) := get_u64 buf 1 in
  let* (gl, _) := get_u64 buf o in
  Ok {| so_op := op; so_start := gs; so_length := gl |}.

Definition parse_dataend (buf : bytes) : outcome dataend :=
  let* (c, _) := get_u32 buf 0 in Ok {| de_crc := c |}.
