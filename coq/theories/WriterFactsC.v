(* WriterFactsC.v - property C05: files closed by the Go writer follow the MCAP grammar and every
   location / length / size / time field is exact.  Proofs about the model in Writer.v, fault-free runs.

   Structure:
     1. bytes written = rendered ghost trace (emit / Inv1), explicit state transformers of every
        writer function for flt = None;
     2. structured view of the data section (sitem: item | metadata | chunk + its message indexes),
        invariant G = Gout (emission side: trace, bytes, sizes, index lists, chunk contents)
                    /\ Gact (active chunk: buffered records, times, per-channel message index);
     3. every writer function preserves G; Close produces ClosedFile (grammar, summary groups,
        summary offsets, footer);
     4. statements about W and readings of the index lists at the level of plain items. *)
From Coq Require Import List NArith ZArith Bool Lia ZifyN ZifyNat ZifyBool.
From Coq.Strings Require Import Byte.
From RecordUpdate Require Import RecordSet.
From Mcap Require Import Bytes BytesFacts GoSem Crc32 Records Writer.
Import ListNotations RecordSetNotations.
Open Scope N_scope.
Ltac Zify.zify_post_hook ::= Z.div_mod_to_equations.
Set Default Proof Using "Type".


(* ================= part A ================= *)
Ltac wsimpl := cbn [set w_trace w_out w_nw w_failed w_size w_crc w_cbuf w_nchunks w_cur_start w_cur_end w_cur_count
    w_msgidx w_channel_ids w_schema_ids w_channels w_schemas w_chunk_indexes
    w_att_indexes w_md_indexes w_st_messages w_st_schemas w_st_channels w_st_attachments
    w_st_metadata w_st_chunks w_st_start w_st_end w_st_counts w_closed fst snd bindw].
Ltac wsimpl_in H := cbn [set w_trace w_out w_nw w_failed w_size w_crc w_cbuf w_nchunks w_cur_start w_cur_end w_cur_count
    w_msgidx w_channel_ids w_schema_ids w_channels w_schemas w_chunk_indexes
    w_att_indexes w_md_indexes w_st_messages w_st_schemas w_st_channels w_st_attachments
    w_st_metadata w_st_chunks w_st_start w_st_end w_st_counts w_closed fst snd bindw] in H.

(* ---------- generic byte / list facts ---------- *)
Lemma blen_nil : blen [] = 0. Proof. reflexivity. Qed.
Lemma blen_app a b : blen (a ++ b) = blen a + blen b.
Proof. unfold blen. rewrite app_length. lia. Qed.
Lemma blen_cons x a : blen (x :: a) = 1 + blen a.
Proof. unfold blen. cbn [length]. lia. Qed.
Lemma blen_zero a : blen a = 0 -> a = [].
Proof. destruct a; auto. rewrite blen_cons. lia. Qed.

Lemma le_mod n : forall x, le n (x mod 2 ^ (8 * N.of_nat n)) = le n x.
Proof.
  induction n as [|n IH]; intro x; [reflexivity|].
  cbn [le].
  replace (8 * N.of_nat (S n)) with (8 + 8 * N.of_nat n) by lia.
  rewrite N.pow_add_r. change (2 ^ 8) with 256.
  assert (HM : 2 ^ (8 * N.of_nat n) <> 0) by (apply N.pow_nonzero; lia).
  rewrite N.mod_mul_r by (try lia; exact HM).
  set (M := 2 ^ (8 * N.of_nat n)) in *.
  set (q := (x / 256) mod M).
  f_equal.
  - rewrite <- (byte_of_N_mod (x mod 256 + 256 * q)), <- (byte_of_N_mod x). f_equal. lia.
  - replace ((x mod 256 + 256 * q) / 256) with q by lia. apply IH.
Qed.

Lemma u64_mod x : u64 (x mod two64) = u64 x.
Proof. exact (le_mod 8 x). Qed.

Lemma blen_u16 x : blen (u16 x) = 2. Proof. unfold blen. rewrite u16_length. reflexivity. Qed.
Lemma blen_u32 x : blen (u32 x) = 4. Proof. unfold blen. rewrite u32_length. reflexivity. Qed.
Lemma blen_u64 x : blen (u64 x) = 8. Proof. unfold blen. rewrite u64_length. reflexivity. Qed.
Lemma blen_frame_head op n : blen (frame_head op n) = 9.
Proof. unfold frame_head. rewrite blen_cons, blen_u64. reflexivity. Qed.
Lemma blen_frame op body : blen (frame op body) = 9 + blen body.
Proof. unfold frame. rewrite blen_app, blen_frame_head. reflexivity. Qed.

Lemma concat_rev_cons {A} (p : list A) l : concat (rev (p :: l)) = concat (rev l) ++ p.
Proof. cbn [rev]. rewrite concat_app. cbn [concat]. rewrite app_nil_r. reflexivity. Qed.


(* ================= part B ================= *)
(* ---------- rendered traces ---------- *)
Definition rendered (l : list item) : bytes := concat (map render_item l).
Definition offset_of (pre : list item) : N := blen (rendered pre).

Lemma rendered_nil : rendered [] = []. Proof. reflexivity. Qed.
Lemma rendered_app a b : rendered (a ++ b) = rendered a ++ rendered b.
Proof. unfold rendered. rewrite map_app, concat_app. reflexivity. Qed.
Lemma rendered_cons x a : rendered (x :: a) = render_item x ++ rendered a.
Proof. reflexivity. Qed.
Lemma rendered_one x : rendered [x] = render_item x.
Proof. unfold rendered. cbn [map concat]. apply app_nil_r. Qed.
Lemma offset_of_app a b : offset_of (a ++ b) = offset_of a + offset_of b.
Proof. unfold offset_of. rewrite rendered_app, blen_app. reflexivity. Qed.
Lemma offset_of_nil : offset_of [] = 0. Proof. reflexivity. Qed.

Definition bytes_out (s : wstate) : bytes := concat (rev (w_out s)).

Lemma out_cons (p : bytes) (l : list bytes) : concat (rev (p :: l)) = concat (rev l) ++ p.
Proof. apply concat_rev_cons. Qed.

Definition Inv1 (s : wstate) : Prop :=
  bytes_out s = rendered (rev (w_trace s)) /\ w_size s = blen (bytes_out s).

(* s' is s after the complete emission of [items] *)
Definition emit (s s' : wstate) (items : list item) : Prop :=
  w_trace s' = rev items ++ w_trace s /\
  bytes_out s' = bytes_out s ++ rendered items /\
  w_size s' = w_size s + blen (rendered items).

Lemma emit_same s s' :
  w_trace s' = w_trace s -> w_out s' = w_out s -> w_size s' = w_size s -> emit s s' [].
Proof.
  intros H1 H2 H3. unfold emit, bytes_out. rewrite H1, H2, H3, rendered_nil, app_nil_r, blen_nil.
  repeat split; auto. lia.
Qed.
Lemma emit_refl s : emit s s [].
Proof. apply emit_same; reflexivity. Qed.
Lemma emit_trans s1 s2 s3 a b : emit s1 s2 a -> emit s2 s3 b -> emit s1 s3 (a ++ b).
Proof.
  intros (A1 & A2 & A3) (B1 & B2 & B3). unfold emit.
  rewrite B1, A1, B2, A2, B3, A3, rev_app_distr, rendered_app, blen_app, !app_assoc.
  repeat split; auto. lia.
Qed.
Lemma Inv1_emit s s' items : Inv1 s -> emit s s' items -> Inv1 s'.
Proof.
  intros (I1 & I2) (E1 & E2 & E3). unfold Inv1.
  rewrite E1, E2, E3, rev_app_distr, rev_involutive, rendered_app, blen_app, <- I1, <- I2.
  split; reflexivity.
Qed.
Lemma Inv1_size s : Inv1 s -> w_size s = offset_of (rev (w_trace s)).
Proof. intros (I1 & I2). unfold offset_of. rewrite <- I1. exact I2. Qed.

Section WithEnv.
Variable o : wopts.

Notation dst_write := (dst_write o None).
Notation write_record_dst := (write_record_dst o None).

(* ---------- explicit state transformers for the fault-free writer ---------- *)
Definition crc_w (s : wstate) (p : bytes) : N := if o_crc o then crc_update (w_crc s) p else w_crc s.
Definition dw (p : bytes) (s : wstate) : wstate :=
  s <| w_nw := S (w_nw s) |> <| w_size := w_size s + blen p |> <| w_crc := crc_w s p |>
    <| w_out := p :: w_out s |>.
Definition lg (it : item) (s : wstate) : wstate := s <| w_trace := it :: w_trace s |>.
Definition cw (p : bytes) (s : wstate) : wstate := s <| w_cbuf := w_cbuf s ++ p |>.
Definition rec_dst (op : byte) (body : bytes) (s : wstate) : wstate :=
  lg (IRec op body) (dw body (dw (frame_head op (blen body)) s)).
Definition rec_chunk (op : byte) (body : bytes) (s : wstate) : wstate :=
  cw body (cw (frame_head op (blen body)) s).

Lemma dst_write_none p s : dst_write p s = (dw p s, None).
Proof. reflexivity. Qed.
Lemma log_eq it s : log it s = (lg it s, None).
Proof. reflexivity. Qed.
Lemma wrd_eq op body s : write_record_dst op body s = (rec_dst op body s, None).
Proof.
  unfold Writer.write_record_dst. rewrite dst_write_none. cbn [bindw].
  rewrite dst_write_none. cbn [bindw]. rewrite log_eq. reflexivity.
Qed.
Lemma wrc_eq op body s : write_record_chunk op body s = (rec_chunk op body s, None).
Proof. reflexivity. Qed.

Ltac wunf := unfold rec_dst, rec_chunk, lg, dw, cw; wsimpl.

Lemma emit_rec_dst op body s : emit s (rec_dst op body s) [IRec op body].
Proof.
  unfold emit, bytes_out. wunf. rewrite rendered_one. cbn [render_item].
  rewrite !out_cons. unfold frame. rewrite blen_app, <- app_assoc.
  repeat split; auto. lia.
Qed.

End WithEnv.


(* ================= part C ================= *)
Definition mi_item (mi : msgindex) : item := IRec OpMessageIndex (enc_msgindex mi).
Fixpoint mi_offsets (off : N) (mis : list msgindex) : list (N * N) :=
  match mis with
  | [] => []
  | mi :: r => (mi_chan mi, off) :: mi_offsets (off + blen (render_item (mi_item mi))) r
  end.
Definition mi_nonempty (mi : msgindex) : Prop := mi_entries mi <> [].

Definition mk_ci (k : chunk) (mis : list msgindex) (off : N) : chunkindex :=
  {| ci_start := k_start k; ci_end := k_end k; ci_offset := off;
     ci_length := blen (render_item (IChunk k));
     ci_mioffsets := mi_offsets (off + blen (render_item (IChunk k))) mis;
     ci_milength := blen (rendered (map mi_item mis));
     ci_comp := k_comp k; ci_csize := blen (k_records k); ci_usize := k_usize k |}.

Definition mi_of (midx : list (N * list (N * N))) (ch : N) : list msgindex :=
  match assoc_get ch midx with
  | Some (e :: es) => [{| mi_chan := ch; mi_entries := e :: es |}]
  | _ => []
  end.

Section WithEnv.
Variable o : wopts.

Notation dw := (dw o).
Notation rec_dst := (rec_dst o).
Ltac wunf := unfold WriterFactsC.rec_dst, rec_chunk, lg, WriterFactsC.dw, cw; wsimpl.

Lemma size_rec_dst op body s : w_size (rec_dst op body s) = w_size s + blen (frame op body).
Proof. destruct (emit_rec_dst o op body s) as (_ & _ & E). rewrite E, rendered_one. reflexivity. Qed.

(* ----- chunk record ----- *)
Definition chunk_head (k : chunk) : bytes :=
  frame_head OpChunk (blen (enc_chunk_top k) + blen (k_records k)) ++ enc_chunk_top k.
Definition chunk_dst (k : chunk) (s : wstate) : wstate :=
  lg (IChunk k) (dw (k_records k) (dw (chunk_head k) s)).

Lemma emit_chunk_dst k s : emit s (chunk_dst k s) [IChunk k].
Proof.
  unfold emit, bytes_out, chunk_dst. wunf. rewrite rendered_one. cbn [render_item].
  rewrite !out_cons. unfold frame, enc_chunk, chunk_head. rewrite !blen_app, <- !app_assoc.
  repeat split; auto. lia.
Qed.
Lemma size_chunk_dst k s : w_size (chunk_dst k s) = w_size s + blen (render_item (IChunk k)).
Proof. destruct (emit_chunk_dst k s) as (_ & _ & E). rewrite E, rendered_one. reflexivity. Qed.

(* ----- message indexes ----- *)
Definition wmis (mis : list msgindex) (s : wstate) : wstate :=
  fold_left (fun s mi => rec_dst OpMessageIndex (enc_msgindex mi) s) mis s.

Lemma emit_wmis mis : forall s, emit s (wmis mis s) (map mi_item mis).
Proof.
  induction mis as [|mi r IH]; intro s; cbn [wmis fold_left map].
  - apply emit_refl.
  - change (mi_item mi :: map mi_item r) with ([mi_item mi] ++ map mi_item r).
    eapply emit_trans; [apply emit_rec_dst | apply IH].
Qed.
Lemma size_wmis mis s : w_size (wmis mis s) = w_size s + blen (rendered (map mi_item mis)).
Proof. destruct (emit_wmis mis s) as (_ & _ & E). exact E. Qed.

Lemma write_msgindexes_eq mis : Forall mi_nonempty mis -> forall offs s,
  write_msgindexes o None mis offs s = (wmis mis s, None, offs ++ mi_offsets (w_size s) mis).
Proof.
  induction 1 as [|mi r Hne _ IH]; intros offs s; cbn [write_msgindexes wmis fold_left mi_offsets].
  - rewrite app_nil_r. reflexivity.
  - unfold mi_nonempty in Hne. destruct (mi_entries mi) eqn:E; [congruence|].
    unfold write_msgindex. rewrite wrd_eq. rewrite IH. rewrite size_rec_dst, <- app_assoc. reflexivity.
Qed.

(* ----- WriteChunkWithIndexes ----- *)
Definition chunk_written (k : chunk) (mis : list msgindex) (s : wstate) : wstate :=
  let s2 := wmis mis (chunk_dst k s) in
  s2 <| w_chunk_indexes := w_chunk_indexes s2 ++ [mk_ci k mis (w_size s)] |>
     <| w_st_chunks := w_st_chunks s2 + 1 |>.

Lemma wcwi_eq k mis s :
  k_usize k <> 0 -> Forall mi_nonempty mis -> (o_skip_mi o = true -> mis = []) ->
  write_chunk_with_indexes o None k mis s = (chunk_written k mis s, None).
Proof.
  intros Hu Hne Hskip. unfold write_chunk_with_indexes.
  destruct (k_usize k =? 0) eqn:E; [apply N.eqb_eq in E; congruence|].
  rewrite dst_write_none. cbn [bindw]. rewrite dst_write_none. cbn [bindw]. rewrite log_eq. cbn [bindw].
  fold (chunk_head k). fold (chunk_dst k s).
  assert (HW : (if negb (o_skip_mi o) then write_msgindexes o None mis [] (chunk_dst k s)
                else (chunk_dst k s, None, [])) =
               (wmis mis (chunk_dst k s), None, mi_offsets (w_size (chunk_dst k s)) mis)).
  { destruct (o_skip_mi o); cbn [negb].
    - rewrite Hskip by reflexivity. reflexivity.
    - rewrite write_msgindexes_eq by assumption. reflexivity. }
  rewrite HW. unfold chunk_written. cbv zeta.
  rewrite size_wmis, size_chunk_dst.
  replace (w_size s + blen (render_item (IChunk k)) - w_size s) with (blen (render_item (IChunk k))) by lia.
  replace (w_size s + blen (render_item (IChunk k)) + blen (rendered (map mi_item mis)) -
           (w_size s + blen (render_item (IChunk k)))) with (blen (rendered (map mi_item mis))) by lia.
  reflexivity.
Qed.


(* ----- flushActiveChunk ----- *)
Definition fl_times (s : wstate) : N * N :=
  if w_cur_count s =? 0 then (0, 0) else (w_cur_start s, w_cur_end s).
Definition fl_chunk (compress : nat -> bytes -> bytes) (s : wstate) : chunk :=
  {| k_start := fst (fl_times s); k_end := snd (fl_times s); k_usize := blen (w_cbuf s);
     k_crc := if o_crc o then crc32 (w_cbuf s) else 0; k_comp := o_comp o;
     k_records := compress (w_nchunks s) (w_cbuf s) |}.
Definition fl_mis (s : wstate) : list msgindex :=
  if o_skip_mi o then [] else flat_map (mi_of (w_msgidx s)) (w_channel_ids s).
Definition flushed (compress : nat -> bytes -> bytes) (s : wstate) : wstate :=
  let s2 := chunk_written (fl_chunk compress s) (fl_mis s)
              (s <| w_cbuf := [] |> <| w_nchunks := S (w_nchunks s) |>) in
  s2 <| w_msgidx := mi_reset (w_msgidx s2) |> <| w_cur_start := max_u64 |> <| w_cur_end := 0 |>
     <| w_cur_count := 0 |>.

Lemma mi_of_nonempty midx chids : Forall mi_nonempty (flat_map (mi_of midx) chids).
Proof.
  induction chids as [|ch r IH]; cbn [flat_map]; [constructor|].
  apply Forall_app. split; [|exact IH].
  unfold mi_of. destruct (assoc_get ch midx) as [[|e es]|]; constructor; [|constructor].
  unfold mi_nonempty. cbn. discriminate.
Qed.
Lemma fl_mis_nonempty s : Forall mi_nonempty (fl_mis s).
Proof. unfold fl_mis. destruct (o_skip_mi o); [constructor | apply mi_of_nonempty]. Qed.
Lemma fl_mis_skip s : o_skip_mi o = true -> fl_mis s = [].
Proof. unfold fl_mis. intros ->. reflexivity. Qed.

Lemma flush_nil compress s : w_cbuf s = [] -> flush_active_chunk o compress None s = (s, None).
Proof. unfold flush_active_chunk. intros ->. reflexivity. Qed.

Lemma flush_eq compress s : w_cbuf s <> [] ->
  flush_active_chunk o compress None s = (flushed compress s, None).
Proof.
  intro Hne. unfold flush_active_chunk.
  destruct (w_cbuf s) as [|b l] eqn:E; [congruence|]. rewrite <- E. clear Hne.
  assert (Hu : k_usize (fl_chunk compress s) <> 0).
  { cbn [k_usize fl_chunk]. rewrite E, blen_cons. lia. }
  pose proof (wcwi_eq (fl_chunk compress s) (fl_mis s)
                (s <| w_cbuf := [] |> <| w_nchunks := S (w_nchunks s) |>) Hu (fl_mis_nonempty s) (fl_mis_skip s)) as W.
  unfold flushed. unfold fl_chunk, fl_mis, fl_times, mi_of in *.
  destruct (w_cur_count s =? 0); cbn [fst snd] in *; cbv zeta; wsimpl; rewrite W; reflexivity.
Qed.

(* ----- conditional field updates as unconditional ones ----- *)
Lemma cond_end s t :
  (if w_cur_end s <? t then s <| w_cur_end := t |> else s) = s <| w_cur_end := N.max (w_cur_end s) t |>.
Proof.
  destruct (N.ltb_spec (w_cur_end s) t).
  - rewrite N.max_r by lia. reflexivity.
  - rewrite N.max_l by lia. destruct s; reflexivity.
Qed.
Lemma cond_start s t :
  (if t <? w_cur_start s then s <| w_cur_start := t |> else s) = s <| w_cur_start := N.min (w_cur_start s) t |>.
Proof.
  destruct (N.ltb_spec t (w_cur_start s)).
  - rewrite N.min_r by lia. reflexivity.
  - rewrite N.min_l by lia. destruct s; reflexivity.
Qed.

(* the fields the C05 invariants talk about *)
Definition aux (s : wstate) :=
  (w_closed s,
   (w_cbuf s, w_nchunks s, w_cur_start s, w_cur_end s, w_cur_count s),
   (w_msgidx s, w_channel_ids s, w_channels s),
   (w_chunk_indexes s, w_att_indexes s, w_md_indexes s)).
Definition view (s : wstate) := (w_trace s, w_out s, w_size s, aux s).

Lemma aux_proj s s' : aux s = aux s' ->
  w_closed s = w_closed s' /\ w_cbuf s = w_cbuf s' /\ w_nchunks s = w_nchunks s' /\
  w_cur_start s = w_cur_start s' /\ w_cur_end s = w_cur_end s' /\ w_cur_count s = w_cur_count s' /\
  w_msgidx s = w_msgidx s' /\ w_channel_ids s = w_channel_ids s' /\ w_channels s = w_channels s' /\
  w_chunk_indexes s = w_chunk_indexes s' /\ w_att_indexes s = w_att_indexes s' /\
  w_md_indexes s = w_md_indexes s'.
Proof. unfold aux. intro H. injection H. intros. repeat split; assumption. Qed.
Lemma view_proj s s' : view s = view s' ->
  w_trace s = w_trace s' /\ w_out s = w_out s' /\ w_size s = w_size s' /\ aux s = aux s'.
Proof.
  unfold view. intro H. repeat split.
  - exact (f_equal (fun v => fst (fst (fst v))) H).
  - exact (f_equal (fun v => snd (fst (fst v))) H).
  - exact (f_equal (fun v => snd (fst v)) H).
  - exact (f_equal snd H).
Qed.

Lemma trace_dw p s : w_trace (dw p s) = w_trace s. Proof. reflexivity. Qed.
Lemma out_dw p s : bytes_out (dw p s) = bytes_out s ++ p.
Proof. unfold bytes_out, WriterFactsC.dw. wsimpl. apply out_cons. Qed.
Lemma size_dw p s : w_size (dw p s) = w_size s + blen p. Proof. reflexivity. Qed.
Lemma trace_lg it s : w_trace (lg it s) = it :: w_trace s. Proof. reflexivity. Qed.
Lemma out_lg it s : bytes_out (lg it s) = bytes_out s. Proof. reflexivity. Qed.
Lemma size_lg it s : w_size (lg it s) = w_size s. Proof. reflexivity. Qed.
Lemma aux_dw p s : aux (dw p s) = aux s. Proof. reflexivity. Qed.
Lemma aux_lg it s : aux (lg it s) = aux s. Proof. reflexivity. Qed.
Lemma aux_rec_dst op body s : aux (rec_dst op body s) = aux s. Proof. reflexivity. Qed.
Lemma aux_chunk_dst k s : aux (chunk_dst k s) = aux s. Proof. reflexivity. Qed.
Lemma aux_wmis mis : forall s, aux (wmis mis s) = aux s.
Proof.
  induction mis as [|mi r IH]; intro s; cbn [wmis fold_left]; [reflexivity|].
  etransitivity; [apply IH | apply aux_rec_dst].
Qed.

Lemma stats_time_view t s : view (stats_time t s) = view s.
Proof.
  unfold stats_time.
  destruct (w_st_end s <? t); wsimpl;
  match goal with |- context [if ?c then _ else _] => destruct c end; reflexivity.
Qed.
Lemma add_schema_view sc s : view (add_schema sc s) = view s.
Proof. unfold add_schema. destruct (assoc_get (s_id sc) (w_schemas s)); reflexivity. Qed.

(* ----- WriteSchema / WriteChannel ----- *)
Lemma write_schema_eq sc s s' : write_schema o None sc s = (s', None) ->
  s' = add_schema sc (if in_chunk o s then rec_chunk OpSchema (enc_schema sc) s
                      else rec_dst OpSchema (enc_schema sc) s).
Proof.
  unfold write_schema, write_record_auto. destruct (s_id sc =? 0); [discriminate|].
  destruct (in_chunk o s); [rewrite wrc_eq | rewrite wrd_eq]; cbn [bindw]; congruence.
Qed.
Lemma write_channel_eq c s s' : write_channel o None c s = (s', None) ->
  s' = add_channel c (if in_chunk o s then rec_chunk OpChannel (enc_channel c) s
                      else rec_dst OpChannel (enc_channel c) s).
Proof.
  unfold write_channel, write_record_auto.
  match goal with |- context [if ?c then (s, Some EUnknownSchema) else _] => destruct c end; [discriminate|].
  destruct (in_chunk o s); [rewrite wrc_eq | rewrite wrd_eq]; cbn [bindw]; congruence.
Qed.

(* ----- WriteMessage ----- *)
Definition msg_pre (m : message) (s : wstate) : wstate :=
  s <| w_st_counts := bump_count (m_chan m) (w_st_counts s) |> <| w_st_messages := w_st_messages s + 1 |>.
Definition msg_chunk_state (m : message) (s : wstate) : wstate :=
  msg_pre m s
    <| w_msgidx := mi_add (m_chan m) (m_log m, blen (w_cbuf s)) (w_msgidx s) |>
    <| w_cbuf := (w_cbuf s ++ frame_head OpMessage (blen (enc_message m))) ++ enc_message m |>
    <| w_cur_count := w_cur_count s + 1 |>
    <| w_cur_end := N.max (w_cur_end s) (m_log m) |>
    <| w_cur_start := N.min (w_cur_start s) (m_log m) |>.

Lemma write_message_eq compress m s s' : write_message o compress None m s = (s', None) ->
  exists c, assoc_get (m_chan m) (w_channels s) = Some c /\
  s' = stats_time (m_log m)
         (if in_chunk o s then
            (if (o_chunksize o <? Z.of_N (blen (w_cbuf (msg_chunk_state m s))))%Z
             then flushed compress (msg_chunk_state m s) else msg_chunk_state m s)
          else rec_dst OpMessage (enc_message m) (msg_pre m s)).
Proof.
  unfold write_message. destruct (assoc_get (m_chan m) (w_channels s)) as [c|] eqn:EC; [|discriminate].
  intro H. exists c. split; [reflexivity|]. cbv zeta in H. fold (msg_pre m s) in H.
  change (in_chunk o (msg_pre m s)) with (in_chunk o s) in H.
  destruct (in_chunk o s).
  - rewrite wrc_eq in H. cbn [bindw] in H. rewrite cond_end, cond_start in H.
    match type of H with context [if _ then flush_active_chunk _ _ _ ?X else _] =>
      change X with (msg_chunk_state m s) in H end.
    destruct (o_chunksize o <? Z.of_N (blen (w_cbuf (msg_chunk_state m s))))%Z.
    + rewrite flush_eq in H.
      * cbn [bindw] in H. congruence.
      * cbn [msg_chunk_state w_cbuf]. unfold msg_chunk_state. wsimpl. unfold frame_head.
        destruct (w_cbuf s); discriminate.
    + cbn [bindw] in H. congruence.
  - rewrite wrd_eq in H. cbn [bindw] in H. congruence.
Qed.

(* ----- WriteAttachment ----- *)
Definition frags (fr : list bytes) (s : wstate) : wstate := fold_left (fun s p => dw p s) fr s.
Lemma copy_frags_eq fr : forall n s, copy_frags o None fr n s = (frags fr s, None, n + blen (concat fr)).
Proof.
  induction fr as [|p r IH]; intros n s; cbn [copy_frags frags fold_left concat].
  - rewrite blen_nil, N.add_0_r. reflexivity.
  - rewrite dst_write_none, IH, blen_app, N.add_assoc. reflexivity.
Qed.
Lemma aux_frags fr : forall s, aux (frags fr s) = aux s.
Proof.
  induction fr as [|p r IH]; intro s; cbn [frags fold_left]; [reflexivity|].
  etransitivity; [apply IH | apply aux_dw].
Qed.
Lemma frags_out fr : forall s,
  w_trace (frags fr s) = w_trace s /\ bytes_out (frags fr s) = bytes_out s ++ concat fr /\
  w_size (frags fr s) = w_size s + blen (concat fr).
Proof.
  induction fr as [|p r IH]; intro s; cbn [frags fold_left concat].
  - rewrite app_nil_r, blen_nil, N.add_0_r. auto.
  - destruct (IH (dw p s)) as (I1 & I2 & I3). fold (frags r (dw p s)).
    rewrite I1, I2, I3, blen_app, trace_dw, out_dw, size_dw, <- app_assoc, N.add_assoc. auto.
Qed.
Definition att_len (a : attachment) : N := 9 + blen (enc_attachment_fields a) + a_size a + 4.
Definition att_state (a : attachment) (src : asrc) (s : wstate) : wstate :=
  let fields := enc_attachment_fields a in
  let data := concat (as_frags src) in
  let crc := crc32 (fields ++ data) in
  let s1 := lg (IAttach a data crc)
              (dw (u32 crc) (frags (as_frags src)
                 (dw fields (dw (frame_head OpAttachment ((blen fields + a_size a + 4) mod two64)) s)))) in
  s1 <| w_att_indexes := w_att_indexes s1 ++
          [{| ai_offset := w_size s; ai_length := att_len a mod two64;
              ai_log := a_log a; ai_create := a_create a; ai_size := a_size a;
              ai_name := a_name a; ai_media := a_media a |}] |>
     <| w_st_attachments := w_st_attachments s1 + 1 |>.
Lemma write_attachment_eq a src s s' : write_attachment o None a src s = (s', None) ->
  s' = att_state a src s /\ a_size a = blen (concat (as_frags src)).
Proof.
  unfold write_attachment. rewrite dst_write_none. cbn [bindw]. rewrite dst_write_none. cbn [bindw].
  rewrite copy_frags_eq. destruct (as_fail src); [discriminate|].
  rewrite N.add_0_l.
  destruct (blen (concat (as_frags src)) =? a_size a) eqn:E; cbn [negb]; [|discriminate].
  apply N.eqb_eq in E.
  rewrite dst_write_none. cbn [bindw]. rewrite log_eq. cbn [bindw].
  intro H. split; [|congruence]. unfold att_state, att_len. congruence.
Qed.

(* ----- WriteMetadata ----- *)
Definition md_state (m : metadata) (s : wstate) : wstate :=
  let s1 := rec_dst OpMetadata (enc_metadata m) s in
  s1 <| w_md_indexes := w_md_indexes s1 ++
          [{| mx_offset := w_size s; mx_length := 9 + blen (enc_metadata m); mx_name := md_name m |}] |>
     <| w_st_metadata := w_st_metadata s1 + 1 |>.
Lemma write_metadata_eq m s : write_metadata o None m s = (md_state m s, None).
Proof. unfold write_metadata. rewrite wrd_eq. reflexivity. Qed.

Lemma write_header_eq lib_id h s :
  write_header o lib_id None h s =
  (rec_dst OpHeader (enc_header {| h_profile := h_profile h; h_library := header_library o lib_id h |}) s, None).
Proof. unfold write_header. apply wrd_eq. Qed.

End WithEnv.


(* ================= part D ================= *)
(* ---------- records inside a chunk ---------- *)
Inductive crec := CRSchema (sc : schema) | CRChannel (c : channel) | CRMessage (m : message).
Definition crec_bytes (r : crec) : bytes :=
  match r with
  | CRSchema sc => frame OpSchema (enc_schema sc)
  | CRChannel c => frame OpChannel (enc_channel c)
  | CRMessage m => frame OpMessage (enc_message m)
  end.
Definition plain_of (recs : list crec) : bytes := concat (map crec_bytes recs).
Definition msg_times (recs : list crec) : list N :=
  flat_map (fun r => match r with CRMessage m => [m_log m] | _ => [] end) recs.
(* (log_time, offset) of the messages of channel ch, offsets counted from off *)
Definition entry_of (ch off : N) (r : crec) : list (N * N) :=
  match r with CRMessage m => if m_chan m =? ch then [(m_log m, off)] else [] | _ => [] end.
Fixpoint entries_for (ch off : N) (recs : list crec) : list (N * N) :=
  match recs with
  | [] => []
  | r :: rs => entry_of ch off r ++ entries_for ch (off + blen (crec_bytes r)) rs
  end.
Definition midx_get (ch : N) (midx : list (N * list (N * N))) : list (N * N) :=
  match assoc_get ch midx with Some l => l | None => [] end.

Lemma plain_of_app a b : plain_of (a ++ b) = plain_of a ++ plain_of b.
Proof. unfold plain_of. rewrite map_app, concat_app. reflexivity. Qed.
Lemma plain_of_one r : plain_of [r] = crec_bytes r.
Proof. unfold plain_of. cbn [map concat]. apply app_nil_r. Qed.
Lemma msg_times_app a b : msg_times (a ++ b) = msg_times a ++ msg_times b.
Proof. unfold msg_times. apply flat_map_app. Qed.
Lemma entries_for_app ch a : forall off b,
  entries_for ch off (a ++ b) = entries_for ch off a ++ entries_for ch (off + blen (plain_of a)) b.
Proof.
  induction a as [|r a IH]; intros off b; cbn [entries_for app].
  - unfold plain_of. cbn [map concat]. rewrite blen_nil, N.add_0_r. reflexivity.
  - rewrite IH, <- app_assoc. change (r :: a) with ([r] ++ a).
    rewrite plain_of_app, plain_of_one, blen_app, N.add_assoc. reflexivity.
Qed.
Lemma entries_for_nonempty m recs : In (CRMessage m) recs -> forall off, entries_for (m_chan m) off recs <> [].
Proof.
  induction recs as [|r rs IH]; intros HI off; [destruct HI|].
  cbn [entries_for]. destruct HI as [->|HI].
  - cbn [entry_of]. rewrite N.eqb_refl. discriminate.
  - specialize (IH HI (off + blen (crec_bytes r))).
    destruct (entry_of (m_chan m) off r); [exact IH | discriminate].
Qed.

Lemma midx_get_mi_add ch ch' e l :
  midx_get ch (mi_add ch' e l) = midx_get ch l ++ (if ch' =? ch then [e] else []).
Proof.
  unfold midx_get. induction l as [|x r IH]; cbn [mi_add assoc_get fst snd].
  - destruct (ch' =? ch); reflexivity.
  - destruct (fst x =? ch') eqn:E1.
    + apply N.eqb_eq in E1. cbn [assoc_get fst snd]. rewrite E1.
      destruct (ch' =? ch); [reflexivity|]. rewrite app_nil_r. reflexivity.
    + cbn [assoc_get]. destruct (fst x =? ch) eqn:E2; [|exact IH].
      apply N.eqb_eq in E2. apply N.eqb_neq in E1.
      destruct (N.eqb_spec ch' ch); [congruence|]. rewrite app_nil_r. reflexivity.
Qed.
Lemma midx_get_mi_reset ch l : midx_get ch (mi_reset l) = [].
Proof.
  unfold midx_get, mi_reset. induction l as [|x r IH]; cbn [map assoc_get fst snd]; [reflexivity|].
  destruct (fst x =? ch); [reflexivity | exact IH].
Qed.

Lemma assoc_get_Some_in {A} k (l : list (N * A)) v : assoc_get k l = Some v -> In k (map fst l).
Proof.
  induction l as [|x r IH]; cbn [assoc_get map]; [discriminate|].
  destruct (N.eqb_spec (fst x) k); [left; assumption | right; auto].
Qed.
Lemma assoc_get_None_notin {A} k (l : list (N * A)) : assoc_get k l = None -> ~ In k (map fst l).
Proof.
  induction l as [|x r IH]; cbn [assoc_get map]; [intros _ []|].
  destruct (N.eqb_spec (fst x) k); [discriminate|]. intros H [E|HI]; [congruence | exact (IH H HI)].
Qed.

(* ---------- structured view of the data section ---------- *)
Inductive sitem :=
| SItem (it : item)                               (* one item that is neither chunk, message index nor metadata *)
| SMeta (m : metadata)                            (* a metadata record *)
| SChunk (k : chunk) (mis : list msgindex).       (* a chunk record followed by its message index records *)
Definition flat1 (x : sitem) : list item :=
  match x with
  | SItem it => [it]
  | SMeta m => [IRec OpMetadata (enc_metadata m)]
  | SChunk k mis => IChunk k :: map mi_item mis
  end.
Definition flatten (S : list sitem) : list item := flat_map flat1 S.
Fixpoint slocated (off : N) (S : list sitem) : list (N * sitem) :=
  match S with
  | [] => []
  | x :: r => (off, x) :: slocated (off + offset_of (flat1 x)) r
  end.
Definition is_chunk (x : sitem) : bool := match x with SChunk _ _ => true | _ => false end.
Definition nchunks (S : list sitem) : nat := length (filter is_chunk S).

Definition exp_att (p : N * sitem) : list attindex :=
  match snd p with
  | SItem (IAttach a data crc) =>
      [{| ai_offset := fst p; ai_length := blen (render_item (IAttach a data crc));
          ai_log := a_log a; ai_create := a_create a; ai_size := blen data;
          ai_name := a_name a; ai_media := a_media a |}]
  | _ => []
  end.
Definition exp_md (p : N * sitem) : list mdindex :=
  match snd p with
  | SMeta m => [{| mx_offset := fst p; mx_length := blen (frame OpMetadata (enc_metadata m));
                   mx_name := md_name m |}]
  | _ => []
  end.
Definition exp_ci (p : N * sitem) : list chunkindex :=
  match snd p with
  | SChunk k mis => [mk_ci k mis (fst p)]
  | _ => []
  end.

Lemma flatten_app a b : flatten (a ++ b) = flatten a ++ flatten b.
Proof. apply flat_map_app. Qed.
Lemma flatten_one x : flatten [x] = flat1 x.
Proof. unfold flatten. cbn [flat_map]. apply app_nil_r. Qed.
Lemma slocated_app a : forall off b,
  slocated off (a ++ b) = slocated off a ++ slocated (off + offset_of (flatten a)) b.
Proof.
  induction a as [|x a IH]; intros off b; cbn [slocated app].
  - change (flatten []) with (@nil item). rewrite offset_of_nil, N.add_0_r. reflexivity.
  - rewrite IH. change (x :: a) with ([x] ++ a). rewrite flatten_app, flatten_one, offset_of_app, N.add_assoc.
    reflexivity.
Qed.
Lemma nchunks_app a b : nchunks (a ++ b) = (nchunks a + nchunks b)%nat.
Proof. unfold nchunks. rewrite filter_app, app_length. reflexivity. Qed.

Definition chunk_times (ts : list N) : N * N :=
  match ts with [] => (0, 0) | _ => (fold_left N.min ts max_u64, fold_left N.max ts 0) end.
Definition msg_chan_in (chids : list N) (r : crec) : Prop :=
  match r with CRMessage m => In (m_chan m) chids | _ => True end.

Section WithEnv.
Variable o : wopts.

Definition mis_ok (recs : list crec) (mis : list msgindex) : Prop :=
  if o_skip_mi o then mis = [] else
  NoDup (map mi_chan mis) /\
  (forall mi, In mi mis -> mi_entries mi = entries_for (mi_chan mi) 0 recs /\ mi_entries mi <> []) /\
  (forall m, In (CRMessage m) recs -> In (m_chan m) (map mi_chan mis)).

(* ----- active chunk side of the invariant ----- *)
Definition active_ok (recs : list crec) (cbuf : bytes) (cst cen ccnt : N)
  (midx : list (N * list (N * N))) (chids : list N) : Prop :=
  cbuf = plain_of recs /\
  ccnt = N.of_nat (length (msg_times recs)) /\
  cst = fold_left N.min (msg_times recs) max_u64 /\
  cen = fold_left N.max (msg_times recs) 0 /\
  (forall ch, midx_get ch midx = entries_for ch 0 recs) /\
  Forall (msg_chan_in chids) recs.

Definition Gact (cbuf : bytes) (cst cen ccnt : N) (midx : list (N * list (N * N)))
  (chids : list N) (chans : list (N * channel)) : Prop :=
  (exists recs, active_ok recs cbuf cst cen ccnt midx chids) /\
  (o_chunked o = false -> cbuf = []) /\
  NoDup chids /\ map fst chans = chids.

Lemma Gact_init : Gact [] max_u64 0 0 [] [] [].
Proof.
  unfold Gact. repeat split; auto; [|constructor].
  exists []. unfold active_ok. repeat split; auto.
Qed.

Definition nonmsg (r : crec) : Prop := match r with CRMessage _ => False | _ => True end.

Lemma Gact_rec r cbuf cbuf' cst cen ccnt midx chids chans :
  o_chunked o = true -> nonmsg r -> cbuf' = cbuf ++ crec_bytes r ->
  Gact cbuf cst cen ccnt midx chids chans -> Gact cbuf' cst cen ccnt midx chids chans.
Proof.
  intros Hc Hr -> ((recs & A1 & A2 & A3 & A4 & A5 & A6) & B & C1 & C2).
  assert (HT : msg_times (recs ++ [r]) = msg_times recs).
  { rewrite msg_times_app. destruct r; try destruct Hr; cbn; apply app_nil_r. }
  unfold Gact. repeat split; auto; [|congruence].
  exists (recs ++ [r]). unfold active_ok. rewrite HT, plain_of_app, plain_of_one, A1.
  repeat split; auto.
  - intro ch. rewrite A5, entries_for_app. cbn [entries_for].
    destruct r; try destruct Hr; cbn [entry_of]; rewrite !app_nil_r; reflexivity.
  - apply Forall_app. split; [exact A6|]. constructor; [|constructor]. destruct r; try destruct Hr; exact I.
Qed.

Lemma Gact_addchan id c cbuf cst cen ccnt midx chids chans :
  assoc_get id chans = None ->
  Gact cbuf cst cen ccnt midx chids chans -> Gact cbuf cst cen ccnt midx (chids ++ [id]) (chans ++ [(id, c)]).
Proof.
  intros Hn ((recs & A1 & A2 & A3 & A4 & A5 & A6) & B & C1 & C2).
  apply assoc_get_None_notin in Hn. rewrite C2 in Hn.
  unfold Gact. repeat split; auto.
  - exists recs. unfold active_ok. repeat split; auto.
    eapply Forall_impl; [|exact A6]. intros [| |m]; cbn [msg_chan_in]; auto.
    intro HI. apply in_or_app. left. exact HI.
  - apply NoDup_rev in C1. rewrite <- (rev_involutive (chids ++ [id])), rev_app_distr. apply NoDup_rev.
    cbn [rev app]. constructor; [|exact C1]. rewrite <- in_rev. exact Hn.
  - rewrite map_app, C2. reflexivity.
Qed.

Lemma Gact_msg m cbuf cbuf' cst cen ccnt midx chids chans :
  o_chunked o = true -> In (m_chan m) chids -> cbuf' = cbuf ++ crec_bytes (CRMessage m) ->
  Gact cbuf cst cen ccnt midx chids chans ->
  Gact cbuf' (N.min cst (m_log m)) (N.max cen (m_log m)) (ccnt + 1)
       (mi_add (m_chan m) (m_log m, blen cbuf) midx) chids chans.
Proof.
  intros Hc HI -> ((recs & A1 & A2 & A3 & A4 & A5 & A6) & B & C1 & C2).
  assert (HT : msg_times (recs ++ [CRMessage m]) = msg_times recs ++ [m_log m]).
  { rewrite msg_times_app. reflexivity. }
  unfold Gact. repeat split; auto; [|congruence].
  exists (recs ++ [CRMessage m]). unfold active_ok. rewrite HT, plain_of_app, plain_of_one, A1.
  rewrite !fold_left_app. cbn [fold_left]. rewrite <- A3, <- A4.
  repeat split; auto.
  - rewrite A2, app_length. cbn [length]. lia.
  - intro ch. rewrite midx_get_mi_add, A5, entries_for_app. cbn [entries_for entry_of].
    rewrite N.add_0_l, app_nil_r. reflexivity.
  - apply Forall_app. split; [exact A6|]. constructor; [exact HI | constructor].
Qed.

Variable compress : nat -> bytes -> bytes.

(* the n-th chunk of the file *)
Definition chunk_ok (n : nat) (k : chunk) (mis : list msgindex) : Prop :=
  exists recs,
    k_records k = compress n (plain_of recs) /\
    k_usize k = blen (plain_of recs) /\
    plain_of recs <> [] /\
    k_comp k = o_comp o /\
    k_crc k = (if o_crc o then crc32 (plain_of recs) else 0) /\
    (k_start k, k_end k) = chunk_times (msg_times recs) /\
    mis_ok recs mis.

Fixpoint chunks_ok (n : nat) (S : list sitem) : Prop :=
  match S with
  | [] => True
  | SChunk k mis :: r => chunk_ok n k mis /\ chunks_ok (Datatypes.S n) r
  | _ :: r => chunks_ok n r
  end.
Lemma chunks_ok_app a : forall n b, chunks_ok n (a ++ b) <-> chunks_ok n a /\ chunks_ok (n + nchunks a) b.
Proof.
  induction a as [|x a IH]; intros n b; cbn [app chunks_ok].
  - change (nchunks []) with 0%nat. rewrite Nat.add_0_r. tauto.
  - destruct x; cbn [chunks_ok];
    change (nchunks (?y :: a)) with (length (filter is_chunk (y :: a))); cbn [filter is_chunk length];
    fold (nchunks a); rewrite ?IH, ?Nat.add_succ_r; cbn [Nat.add]; tauto.
Qed.

Definition att_small (a : attachment) : Prop := att_len a < two64.
Definition data_sitem (x : sitem) : Prop :=
  match x with
  | SItem (IRec op _) => o_chunked o = false /\ (op = OpSchema \/ op = OpChannel \/ op = OpMessage)
  | SItem (IAttach a data crc) =>
      a_size a = blen data /\ crc = crc32 (enc_attachment_fields a ++ data) /\ att_small a
  | SItem _ => False
  | SMeta _ => True
  | SChunk _ _ => o_chunked o = true
  end.

(* ----- emission side of the invariant ----- *)
Definition Gout (pre : list item) (D : list sitem) (tr : list item) (out : list bytes) (sz : N)
  (closed : bool) (cis : list chunkindex) (ais : list attindex) (mds : list mdindex) (nch : nat) : Prop :=
  rev tr = pre ++ flatten D /\
  concat (rev out) = rendered (pre ++ flatten D) /\
  sz = blen (concat (rev out)) /\
  closed = false /\
  Forall data_sitem D /\
  ais = flat_map exp_att (slocated (offset_of pre) D) /\
  mds = flat_map exp_md (slocated (offset_of pre) D) /\
  cis = flat_map exp_ci (slocated (offset_of pre) D) /\
  nch = nchunks D /\
  chunks_ok 0 D.

Lemma Gout_snoc pre D tr out sz closed cis ais mds nch x tr' (out' : list bytes) sz' cis' ais' mds' nch' :
  Gout pre D tr out sz closed cis ais mds nch ->
  data_sitem x ->
  match x with SChunk k mis => chunk_ok nch k mis | _ => True end ->
  tr' = rev (flat1 x) ++ tr ->
  concat (rev out') = concat (rev out) ++ rendered (flat1 x) ->
  sz' = sz + blen (rendered (flat1 x)) ->
  cis' = cis ++ exp_ci (sz, x) -> ais' = ais ++ exp_att (sz, x) -> mds' = mds ++ exp_md (sz, x) ->
  nch' = (nch + (if is_chunk x then 1 else 0))%nat ->
  Gout pre (D ++ [x]) tr' out' sz' closed cis' ais' mds' nch'.
Proof.
  intros (G1 & G2 & G3 & G4 & G5 & G6 & G7 & G8 & G9 & G10) Hx Hk -> Ho -> -> -> -> ->.
  assert (Hsz : sz = offset_of pre + offset_of (flatten D)).
  { rewrite G3, G2, <- offset_of_app. reflexivity. }
  unfold Gout. rewrite flatten_app, flatten_one, slocated_app, !flat_map_app.
  cbn [slocated flat_map]. rewrite !app_nil_r, <- Hsz.
  repeat split.
  - rewrite rev_app_distr, rev_involutive, G1, app_assoc. reflexivity.
  - rewrite Ho, G2, app_assoc, !rendered_app. reflexivity.
  - rewrite Ho, blen_app, <- G3. reflexivity.
  - exact G4.
  - apply Forall_app. split; [exact G5 | constructor; [exact Hx | constructor]].
  - rewrite G6. reflexivity.
  - rewrite G7. reflexivity.
  - rewrite G8. reflexivity.
  - rewrite nchunks_app, G9. f_equal. unfold nchunks. cbn [filter]. destruct (is_chunk x); reflexivity.
  - apply chunks_ok_app. split; [exact G10|]. cbn [Nat.add]. rewrite <- G9.
    destruct x; cbn [chunks_ok]; auto.
Qed.

Definition fl_k (n : nat) (cbuf : bytes) (cst cen ccnt : N) : chunk :=
  {| k_start := fst (if ccnt =? 0 then (0, 0) else (cst, cen));
     k_end := snd (if ccnt =? 0 then (0, 0) else (cst, cen));
     k_usize := blen cbuf; k_crc := if o_crc o then crc32 cbuf else 0; k_comp := o_comp o;
     k_records := compress n cbuf |}.
Definition fl_m (midx : list (N * list (N * N))) (chids : list N) : list msgindex :=
  if o_skip_mi o then [] else flat_map (mi_of midx) chids.

Lemma mi_of_chans midx chids :
  map mi_chan (flat_map (mi_of midx) chids) =
  filter (fun ch => match midx_get ch midx with [] => false | _ => true end) chids.
Proof.
  induction chids as [|ch r IH]; cbn [flat_map filter]; [reflexivity|].
  rewrite map_app, IH. unfold mi_of, midx_get.
  destruct (assoc_get ch midx) as [[|e es]|]; reflexivity.
Qed.
Lemma mi_of_in midx chids mi : In mi (flat_map (mi_of midx) chids) ->
  mi_entries mi = midx_get (mi_chan mi) midx /\ mi_entries mi <> [].
Proof.
  intro HI. apply in_flat_map in HI. destruct HI as (ch & _ & HI).
  revert HI. unfold mi_of. destruct (assoc_get ch midx) as [[|e es]|] eqn:E; intro HI;
    [destruct HI | destruct HI as [<-|[]] | destruct HI].
  cbn [mi_entries mi_chan]. unfold midx_get. rewrite E. split; [reflexivity | discriminate].
Qed.

Lemma Gact_flush n cbuf cst cen ccnt midx chids chans :
  cbuf <> [] ->
  Gact cbuf cst cen ccnt midx chids chans ->
  chunk_ok n (fl_k n cbuf cst cen ccnt) (fl_m midx chids) /\
  Gact [] max_u64 0 0 (mi_reset midx) chids chans.
Proof.
  intros Hne ((recs & A1 & A2 & A3 & A4 & A5 & A6) & B & C1 & C2). split.
  - exists recs. unfold fl_k. cbn [k_records k_usize k_comp k_crc k_start k_end].
    rewrite <- A1. repeat split; auto.
    + rewrite <- surjective_pairing. unfold chunk_times.
      destruct (msg_times recs) as [|t ts] eqn:ET.
      * cbn [length] in A2. subst ccnt. reflexivity.
      * destruct (N.eqb_spec ccnt 0) as [E|E]; [cbn [length] in A2; lia|]. rewrite A3, A4. reflexivity.
    + unfold mis_ok, fl_m. destruct (o_skip_mi o); [reflexivity|]. repeat split.
      * rewrite mi_of_chans. apply NoDup_filter. exact C1.
      * apply mi_of_in in H. destruct H as [H _]. rewrite H. apply A5.
      * apply mi_of_in in H. apply H.
      * intros m HI. rewrite mi_of_chans. apply filter_In. split.
        -- rewrite Forall_forall in A6. exact (A6 _ HI).
        -- rewrite A5. pose proof (entries_for_nonempty m recs HI 0) as Hn.
           destruct (entries_for (m_chan m) 0 recs); [congruence | reflexivity].
  - unfold Gact. repeat split; auto. exists []. unfold active_ok. repeat split; auto.
    intro ch. apply midx_get_mi_reset.
Qed.

End WithEnv.


(* ================= part E ================= *)
Lemma emit_out s X s' items :
  emit s X items -> w_trace s' = w_trace X -> w_out s' = w_out X -> w_size s' = w_size X -> emit s s' items.
Proof. unfold emit, bytes_out. intros (E1 & E2 & E3) -> -> ->. auto. Qed.
Lemma emit_in s s1 s' items :
  w_trace s1 = w_trace s -> w_out s1 = w_out s -> w_size s1 = w_size s -> emit s1 s' items -> emit s s' items.
Proof. unfold emit, bytes_out. intros -> -> -> (E1 & E2 & E3). auto. Qed.

Section WithEnv.
Variable o : wopts.
Variable compress : nat -> bytes -> bytes.

Notation dw := (dw o).
Notation rec_dst := (rec_dst o).
Ltac wunf := unfold WriterFactsC.rec_dst, rec_chunk, lg, WriterFactsC.dw, cw; wsimpl.

Definition G (pre : list item) (s : wstate) (D : list sitem) : Prop :=
  Gout o compress pre D (w_trace s) (w_out s) (w_size s) (w_closed s)
       (w_chunk_indexes s) (w_att_indexes s) (w_md_indexes s) (w_nchunks s) /\
  Gact o (w_cbuf s) (w_cur_start s) (w_cur_end s) (w_cur_count s) (w_msgidx s)
       (w_channel_ids s) (w_channels s).

Lemma G_view pre s s' D : view s' = view s -> G pre s D -> G pre s' D.
Proof.
  intros HV. destruct (view_proj _ _ HV) as (V1 & V2 & V3 & VA).
  destruct (aux_proj _ _ VA) as (P1 & P2 & P3 & P4 & P5 & P6 & P7 & P8 & P9 & P10 & P11 & P12).
  unfold G. rewrite V1, V2, V3, P1, P2, P3, P4, P5, P6, P7, P8, P9, P10, P11, P12. auto.
Qed.

Lemma G_closed pre s D : G pre s D -> w_closed s = false.
Proof. intros [(_ & _ & _ & H & _) _]. exact H. Qed.
Lemma G_inv1 pre s D : G pre s D -> Inv1 s.
Proof.
  intros [(G1 & G2 & G3 & _) _]. unfold Inv1, bytes_out. rewrite G1. split; assumption.
Qed.

Lemma G_snoc pre s D x s' :
  G pre s D -> emit s s' (flat1 x) -> data_sitem o x ->
  match x with SChunk k mis => chunk_ok o compress (w_nchunks s) k mis | _ => True end ->
  w_closed s' = w_closed s ->
  w_chunk_indexes s' = w_chunk_indexes s ++ exp_ci (w_size s, x) ->
  w_att_indexes s' = w_att_indexes s ++ exp_att (w_size s, x) ->
  w_md_indexes s' = w_md_indexes s ++ exp_md (w_size s, x) ->
  w_nchunks s' = (w_nchunks s + (if is_chunk x then 1 else 0))%nat ->
  Gact o (w_cbuf s') (w_cur_start s') (w_cur_end s') (w_cur_count s') (w_msgidx s')
       (w_channel_ids s') (w_channels s') ->
  G pre s' (D ++ [x]).
Proof.
  intros [HO HA] (E1 & E2 & E3) Hx Hk Hc Hci Hai Hmd Hn HA'. split; [|exact HA'].
  rewrite Hc. eapply Gout_snoc; eauto.
Qed.

(* a top-level record that is not indexed (schema, channel, message in unchunked files) *)
Lemma G_snoc_rec pre s D op body s' :
  G pre s D -> emit s s' [IRec op body] ->
  o_chunked o = false -> (op = OpSchema \/ op = OpChannel \/ op = OpMessage) ->
  aux s' = aux s -> G pre s' (D ++ [SItem (IRec op body)]).
Proof.
  intros HG HE Hc Hop HX.
  destruct (aux_proj _ _ HX) as (P1 & P2 & P3 & P4 & P5 & P6 & P7 & P8 & P9 & P10 & P11 & P12).
  apply G_snoc with (s := s); auto.
  - split; assumption.
  - cbn [exp_ci snd]. rewrite app_nil_r. exact P10.
  - cbn [exp_att snd]. rewrite app_nil_r. exact P11.
  - cbn [exp_md snd]. rewrite app_nil_r. exact P12.
  - cbn [is_chunk]. rewrite Nat.add_0_r. exact P3.
  - rewrite P2, P4, P5, P6, P7, P8, P9. apply HG.
Qed.

(* ----- metadata ----- *)
Lemma md_G pre s D m : G pre s D -> G pre (md_state o m s) (D ++ [SMeta m]).
Proof.
  intro HG. apply G_snoc with (s := s).
  - exact HG.
  - cbn [flat1]. apply emit_out with (X := rec_dst OpMetadata (enc_metadata m) s);
      [apply emit_rec_dst | unfold md_state; wsimpl; reflexivity..].
  - exact I.
  - exact I.
  - reflexivity.
  - cbn [exp_ci snd]. rewrite app_nil_r. reflexivity.
  - cbn [exp_att snd]. rewrite app_nil_r. reflexivity.
  - cbn [exp_md snd fst]. unfold md_state. wunf. rewrite blen_frame. reflexivity.
  - cbn [is_chunk]. rewrite Nat.add_0_r. reflexivity.
  - apply HG.
Qed.

(* ----- attachments ----- *)
Lemma emit_att a src s : a_size a = blen (concat (as_frags src)) ->
  emit s (att_state o a src s)
    [IAttach a (concat (as_frags src)) (crc32 (enc_attachment_fields a ++ concat (as_frags src)))].
Proof.
  clear compress. intro Hsz. unfold att_state. cbv zeta.
  set (fields := enc_attachment_fields a). set (data := concat (as_frags src)).
  set (crc := crc32 (fields ++ data)).
  set (head := frame_head OpAttachment ((blen fields + a_size a + 4) mod two64)).
  destruct (frags_out o (as_frags src) (dw fields (dw head s))) as (F1 & F2 & F3).
  fold data in F2, F3.
  apply emit_out with (X := lg (IAttach a data crc) (dw (u32 crc) (frags o (as_frags src) (dw fields (dw head s)))));
    [| wsimpl; reflexivity..].
  unfold emit. rewrite trace_lg, out_lg, size_lg, trace_dw, out_dw, size_dw, F1, F2, F3,
    !trace_dw, !out_dw, !size_dw.
  rewrite rendered_one. cbn [render_item]. fold fields.
  assert (HH : head = frame_head OpAttachment (blen (fields ++ data ++ u32 crc))).
  { unfold head, frame_head. rewrite u64_mod, !blen_app, blen_u32, Hsz. fold data.
    rewrite N.add_assoc. reflexivity. }
  unfold frame. rewrite <- HH, !blen_app, <- !app_assoc.
  repeat split; auto. lia.
Qed.

Lemma att_G pre s D a src :
  G pre s D -> a_size a = blen (concat (as_frags src)) -> att_small a ->
  G pre (att_state o a src s)
    (D ++ [SItem (IAttach a (concat (as_frags src)) (crc32 (enc_attachment_fields a ++ concat (as_frags src))))]).
Proof.
  intros HG Hsz Hsm.
  assert (HE := emit_att a src s Hsz).
  revert HE. unfold att_state. cbv zeta.
  match goal with |- context [lg ?it ?Y] => set (X := lg it Y) end.
  intro HE.
  assert (HX : aux X = aux s).
  { unfold X. rewrite aux_lg, aux_dw, aux_frags, !aux_dw. reflexivity. }
  apply aux_proj in HX. destruct HX as (P1 & P2 & P3 & P4 & P5 & P6 & P7 & P8 & P9 & P10 & P11 & P12).
  apply G_snoc with (s := s).
  - exact HG.
  - exact HE.
  - cbn [data_sitem]. auto.
  - exact I.
  - wsimpl. exact P1.
  - wsimpl. rewrite P10. cbn [exp_ci snd]. rewrite app_nil_r. reflexivity.
  - wsimpl. rewrite P11. cbn [exp_att snd fst]. f_equal. f_equal. f_equal.
    + unfold att_small in Hsm. rewrite N.mod_small by exact Hsm.
      cbn [render_item]. unfold att_len. rewrite blen_frame, !blen_app, blen_u32, Hsz. lia.
    + exact Hsz.
  - wsimpl. rewrite P12. cbn [exp_md snd]. rewrite app_nil_r. reflexivity.
  - wsimpl. rewrite P3. cbn [is_chunk]. rewrite Nat.add_0_r. reflexivity.
  - wsimpl. rewrite P2, P4, P5, P6, P7, P8, P9. apply HG.
Qed.

Lemma in_chunk_G pre s D : G pre s D -> in_chunk o s = o_chunked o.
Proof. intro HG. unfold in_chunk. rewrite (G_closed _ _ _ HG). cbn [negb]. apply andb_true_r. Qed.

(* ----- records routed into the active chunk ----- *)
Lemma rec_chunk_G pre s D r op body :
  G pre s D -> o_chunked o = true -> nonmsg r -> crec_bytes r = frame op body ->
  G pre (rec_chunk op body s) D.
Proof.
  intros [HO HA] Hc Hr Hb. split.
  - unfold rec_chunk, cw. wsimpl. exact HO.
  - unfold rec_chunk, cw. wsimpl. eapply Gact_rec with (r := r); [exact Hc | exact Hr | | exact HA].
    rewrite Hb. unfold frame. rewrite app_assoc. reflexivity.
Qed.

Lemma add_channel_G pre s D c : G pre s D -> G pre (add_channel c s) D.
Proof.
  intros [HO HA]. unfold add_channel.
  destruct (assoc_get (c_id c) (w_channels s)) eqn:E; [split; assumption|].
  split; wsimpl; [exact HO|]. apply Gact_addchan; assumption.
Qed.

Lemma schema_G pre s D sc s' :
  G pre s D -> write_schema o None sc s = (s', None) -> exists D', G pre s' (D ++ D').
Proof.
  intros HG H. apply write_schema_eq in H. subst s'. rewrite (in_chunk_G _ _ _ HG).
  destruct (o_chunked o) eqn:Hc.
  - exists []. rewrite app_nil_r. eapply G_view; [apply add_schema_view|].
    apply rec_chunk_G with (r := CRSchema sc); auto. exact I.
  - exists [SItem (IRec OpSchema (enc_schema sc))]. eapply G_view; [apply add_schema_view|].
    apply G_snoc_rec with (s := s); auto. apply emit_rec_dst.
Qed.

Lemma channel_G pre s D c s' :
  G pre s D -> write_channel o None c s = (s', None) -> exists D', G pre s' (D ++ D').
Proof.
  intros HG H. apply write_channel_eq in H. subst s'. rewrite (in_chunk_G _ _ _ HG).
  destruct (o_chunked o) eqn:Hc.
  - exists []. rewrite app_nil_r. apply add_channel_G.
    apply rec_chunk_G with (r := CRChannel c); auto. exact I.
  - exists [SItem (IRec OpChannel (enc_channel c))]. apply add_channel_G.
    apply G_snoc_rec with (s := s); auto. apply emit_rec_dst.
Qed.

(* ----- flushing the active chunk ----- *)
Lemma emit_chunk_written k mis s : emit s (chunk_written o k mis s) (IChunk k :: map mi_item mis).
Proof.
  unfold chunk_written. cbv zeta.
  apply emit_out with (X := wmis o mis (chunk_dst o k s)); [| wsimpl; reflexivity..].
  change (IChunk k :: map mi_item mis) with ([IChunk k] ++ map mi_item mis).
  eapply emit_trans; [apply emit_chunk_dst | apply emit_wmis].
Qed.

Lemma flushed_G pre s D :
  G pre s D -> w_cbuf s <> [] -> o_chunked o = true ->
  G pre (flushed o compress s) (D ++ [SChunk (fl_chunk o compress s) (fl_mis o s)]).
Proof.
  intros HG Hne Hc. destruct HG as [HO HA].
  destruct (Gact_flush o compress (w_nchunks s) _ _ _ _ _ _ _ Hne HA) as [HK HA'].
  set (s1 := s <| w_cbuf := [] |> <| w_nchunks := S (w_nchunks s) |>).
  assert (HE : emit s (chunk_written o (fl_chunk o compress s) (fl_mis o s) s1)
                 (IChunk (fl_chunk o compress s) :: map mi_item (fl_mis o s))).
  { apply emit_in with (s1 := s1); [reflexivity..|]. apply emit_chunk_written. }
  revert HE. unfold flushed, chunk_written. cbv zeta. fold s1.
  set (X := wmis o (fl_mis o s) (chunk_dst o (fl_chunk o compress s) s1)). intro HE.
  assert (HX : aux X = aux s1).
  { unfold X. rewrite aux_wmis, aux_chunk_dst. reflexivity. }
  apply aux_proj in HX. destruct HX as (P1 & P2 & P3 & P4 & P5 & P6 & P7 & P8 & P9 & P10 & P11 & P12).
  unfold s1 in P1, P2, P3, P4, P5, P6, P7, P8, P9, P10, P11, P12.
  wsimpl_in P1. wsimpl_in P2. wsimpl_in P3. wsimpl_in P7. wsimpl_in P8. wsimpl_in P9. wsimpl_in P10.
  wsimpl_in P11. wsimpl_in P12.
  apply G_snoc with (s := s).
  - split; assumption.
  - cbn [flat1]. eapply emit_out; [exact HE | wsimpl; reflexivity..].
  - exact Hc.
  - exact HK.
  - wsimpl. exact P1.
  - wsimpl. rewrite P10. reflexivity.
  - wsimpl. rewrite P11. cbn [exp_att snd]. rewrite app_nil_r. reflexivity.
  - wsimpl. rewrite P12. cbn [exp_md snd]. rewrite app_nil_r. reflexivity.
  - wsimpl. rewrite P3. cbn [is_chunk]. rewrite Nat.add_1_r. reflexivity.
  - wsimpl. rewrite P2, P7, P8, P9. exact HA'.
Qed.

Lemma flush_G pre s D s' :
  G pre s D -> o_chunked o = true -> flush_active_chunk o compress None s = (s', None) ->
  exists D', G pre s' (D ++ D').
Proof.
  intros HG Hc H. destruct (w_cbuf s) eqn:E.
  - rewrite flush_nil in H by exact E. exists []. rewrite app_nil_r. congruence.
  - rewrite flush_eq in H by congruence. eexists. injection H as <-. apply flushed_G; auto. congruence.
Qed.

(* ----- messages ----- *)
Lemma msg_chunk_G pre s D m :
  G pre s D -> o_chunked o = true -> In (m_chan m) (w_channel_ids s) -> G pre (msg_chunk_state m s) D.
Proof.
  intros [HO HA] Hc HI. split.
  - unfold msg_chunk_state, msg_pre. wsimpl. exact HO.
  - unfold msg_chunk_state, msg_pre. wsimpl. apply Gact_msg; auto.
    cbn [crec_bytes]. unfold frame. rewrite app_assoc. reflexivity.
Qed.

Lemma message_G pre s D m s' :
  G pre s D -> write_message o compress None m s = (s', None) -> exists D', G pre s' (D ++ D').
Proof.
  intros HG H. apply write_message_eq in H. destruct H as (c & EC & ->).
  rewrite (in_chunk_G _ _ _ HG).
  assert (HI : In (m_chan m) (w_channel_ids s)).
  { destruct HG as [_ (_ & _ & _ & HM)]. rewrite <- HM. eapply assoc_get_Some_in. exact EC. }
  destruct (o_chunked o) eqn:Hc.
  - pose proof (msg_chunk_G _ _ _ m HG Hc HI) as HG1.
    destruct (o_chunksize o <? Z.of_N (blen (w_cbuf (msg_chunk_state m s))))%Z.
    + eexists. eapply G_view; [apply stats_time_view|]. apply flushed_G; auto.
      unfold msg_chunk_state. wsimpl. unfold frame_head. destruct (w_cbuf s); discriminate.
    + exists []. rewrite app_nil_r. eapply G_view; [apply stats_time_view|]. exact HG1.
  - exists [SItem (IRec OpMessage (enc_message m))]. eapply G_view; [apply stats_time_view|].
    apply G_snoc_rec with (s := s); auto.
    apply emit_in with (s1 := msg_pre m s); [reflexivity..|]. apply emit_rec_dst.
Qed.

End WithEnv.


(* ================= part F ================= *)
(* ---------- the summary section ---------- *)
Definition sgroup := (byte * list bytes)%type.       (* opcode, record bodies *)
Definition group_items (g : sgroup) : list item := map (IRec (fst g)) (snd g).
Definition sum_items (gs : list sgroup) : list item := flat_map group_items gs.
Fixpoint group_offsets (off : N) (gs : list sgroup) : list sumoffset :=
  match gs with
  | [] => []
  | g :: r => {| so_op := fst g; so_start := off; so_length := blen (rendered (group_items g)) |}
              :: group_offsets (off + blen (rendered (group_items g))) r
  end.
Definition nonempty_group (g : sgroup) : bool := match snd g with [] => false | _ => true end.
Definition so_item (so : sumoffset) : item := IRec OpSummaryOffset (enc_sumoffset so).

Lemma sum_items_app a b : sum_items (a ++ b) = sum_items a ++ sum_items b.
Proof. apply flat_map_app. Qed.
Lemma group_offsets_app a : forall off b,
  group_offsets off (a ++ b) = group_offsets off a ++ group_offsets (off + blen (rendered (sum_items a))) b.
Proof.
  induction a as [|g a IH]; intros off b; cbn [group_offsets app].
  - change (sum_items []) with (@nil item). rewrite rendered_nil, blen_nil, N.add_0_r. reflexivity.
  - rewrite IH. change (sum_items (g :: a)) with (group_items g ++ sum_items a).
    rewrite rendered_app, blen_app, N.add_assoc. reflexivity.
Qed.

(* what every post-data step preserves *)
Definition keeps (s s' : wstate) : Prop :=
  w_closed s' = w_closed s /\ w_chunk_indexes s' = w_chunk_indexes s /\
  w_att_indexes s' = w_att_indexes s /\ w_md_indexes s' = w_md_indexes s.
Definition step_rel (s s' : wstate) (items : list item) : Prop := emit s s' items /\ keeps s s'.

Lemma keeps_refl s : keeps s s. Proof. repeat split. Qed.
Lemma keeps_trans a b c : keeps a b -> keeps b c -> keeps a c.
Proof. unfold keeps. intros (A1 & A2 & A3 & A4) (B1 & B2 & B3 & B4). repeat split; congruence. Qed.
Lemma step_rel_refl s : step_rel s s [].
Proof. split; [apply emit_refl | apply keeps_refl]. Qed.
Lemma step_rel_trans a b c x y : step_rel a b x -> step_rel b c y -> step_rel a c (x ++ y).
Proof. intros [E1 K1] [E2 K2]. split; [eapply emit_trans | eapply keeps_trans]; eassumption. Qed.

Section WithEnv.
Variable o : wopts.

Notation dw := (dw o).
Notation rec_dst := (rec_dst o).
Ltac wunf := unfold WriterFactsC.rec_dst, rec_chunk, lg, WriterFactsC.dw, cw; wsimpl.

Lemma step_rel_rec_dst op body s : step_rel s (rec_dst op body s) [IRec op body].
Proof. split; [apply emit_rec_dst | repeat split]. Qed.

Lemma write_all_rel {A} (f : A -> wstate -> wres) (g : A -> item) l :
  (forall x s s', w_closed s = true -> f x s = (s', None) -> step_rel s s' [g x]) ->
  forall s s', w_closed s = true -> write_all f l s = (s', None) -> step_rel s s' (map g l).
Proof.
  intro Hf. induction l as [|x r IH]; intros s s' Hc H; cbn [write_all map] in *.
  - injection H as <-. apply step_rel_refl.
  - destruct (f x s) as [s1 [e|]] eqn:E; cbn [bindw] in H; [discriminate|].
    pose proof (Hf _ _ _ Hc E) as R1.
    assert (Hc1 : w_closed s1 = true) by (destruct R1 as [_ (K & _)]; congruence).
    change (g x :: map g r) with ([g x] ++ map g r).
    apply step_rel_trans with (b := s1); [exact R1 | apply IH; assumption].
Qed.

Lemma closed_schema sc s s' : w_closed s = true -> write_schema o None sc s = (s', None) ->
  step_rel s s' [IRec OpSchema (enc_schema sc)].
Proof.
  intros Hc H. apply write_schema_eq in H. unfold in_chunk in H. rewrite Hc, andb_false_r in H. subst s'.
  destruct (view_proj _ _ (add_schema_view sc (rec_dst OpSchema (enc_schema sc) s))) as (V1 & V2 & V3 & VA).
  destruct (aux_proj _ _ VA) as (P1 & _ & _ & _ & _ & _ & _ & _ & _ & P10 & P11 & P12).
  split.
  - apply emit_out with (X := rec_dst OpSchema (enc_schema sc) s); [apply emit_rec_dst | assumption..].
  - unfold keeps. rewrite P1, P10, P11, P12. repeat split.
Qed.
Lemma closed_channel c s s' : w_closed s = true -> write_channel o None c s = (s', None) ->
  step_rel s s' [IRec OpChannel (enc_channel c)].
Proof.
  intros Hc H. apply write_channel_eq in H. unfold in_chunk in H. rewrite Hc, andb_false_r in H. subst s'.
  pose proof (step_rel_rec_dst OpChannel (enc_channel c) s) as HR.
  set (X := rec_dst OpChannel (enc_channel c) s) in *. clearbody X.
  unfold add_channel.
  destruct (assoc_get (c_id c) (w_channels X)); [exact HR|].
  destruct HR as [HE HK]. split.
  - apply emit_out with (X := X); [exact HE | reflexivity..].
  - unfold keeps in *. wsimpl. exact HK.
Qed.

Definition SumInv (s0 s : wstate) (offs : list sumoffset) (gs : list sgroup) : Prop :=
  step_rel s0 s (sum_items gs) /\ w_closed s = true /\
  offs = group_offsets (w_size s0) gs /\ forallb nonempty_group gs = true.

Lemma stage_ok s0 s offs gs (cond : bool) (run : wstate -> wres) op bodies s1 offs1 :
  SumInv s0 s offs gs ->
  (forall s', run s = (s', None) -> step_rel s s' (map (IRec op) bodies)) ->
  (cond = true -> bodies <> []) ->
  (if cond then
     match run s with
     | (s', None) => (s', None, offs ++ [group op (w_size s) s'])
     | (s', Some e) => (s', Some e, offs)
     end
   else (s, None, offs)) = (s1, @None err, offs1) ->
  SumInv s0 s1 offs1 (gs ++ (if cond then [(op, bodies)] else [])).
Proof.
  intros (R & Hc & Ho & Hne) Hrun Hb H. destruct cond.
  - destruct (run s) as [s' [e|]] eqn:E; [discriminate|]. injection H as <- <-.
    pose proof (Hrun _ eq_refl) as R1. unfold SumInv.
    rewrite sum_items_app, group_offsets_app, forallb_app, Hne.
    cbn [sum_items flat_map group_offsets forallb]. rewrite app_nil_r. cbn [group_items fst snd].
    split; [|split; [|split]].
    + apply step_rel_trans with (b := s); [exact R | exact R1].
    + destruct R1 as [_ (K & _)]. congruence.
    + rewrite Ho. f_equal. f_equal. unfold group.
      destruct R as [(_ & _ & Z) _]. destruct R1 as [(_ & _ & Z1) _]. rewrite Z1, Z. unfold group_items. cbn [fst snd]. f_equal. lia.
    + unfold nonempty_group. cbn [snd]. destruct bodies; [exfalso; apply Hb; reflexivity | reflexivity].
  - injection H as <- <-. rewrite app_nil_r. split; [|split; [|split]]; assumption.
Qed.

Lemma SumInv_init s : w_closed s = true -> SumInv s s [] [].
Proof. intro Hc. split; [apply step_rel_refl|]. repeat split; auto. Qed.

Lemma isnil_map {A B} (f : A -> B) (l : list A) (skip : bool) :
  negb skip && negb (match l with [] => true | _ => false end) = true -> map f l <> [].
Proof. destruct l; [rewrite andb_false_r; discriminate | discriminate]. Qed.

Lemma stage_group {A} (skip : bool) (l : list A) (f : A -> bytes) op :
  (if negb skip && negb (match l with [] => true | _ => false end) then [(op, map f l)] else []) =
  filter nonempty_group [(op, if skip then [] else map f l)].
Proof. destruct skip; [reflexivity|]. destruct l; reflexivity. Qed.

Lemma stage_group1 (skip : bool) op (b : bytes) :
  (if negb skip then [(op, [b])] else []) = filter nonempty_group [(op, if skip then [] else [b])].
Proof. destruct skip; reflexivity. Qed.

Ltac stage_destruct H E s1 offs1 :=
  match type of H with (match ?X with _ => _ end) = _ =>
    let e1 := fresh "e" in
    destruct X as [[s1 e1] offs1] eqn:E; destruct e1; [discriminate|] end.

Lemma summary_ok s0 s' offs : w_closed s0 = true -> write_summary o None s0 = (s', None, offs) ->
  exists B1 B2 B3,
    SumInv s0 s' offs
      (filter nonempty_group
         [(OpSchema, B1); (OpChannel, B2); (OpStatistics, B3);
          (OpChunkIndex, if o_skip_ci o then [] else map enc_chunkindex (w_chunk_indexes s0));
          (OpAttachmentIndex, if o_skip_ai o then [] else map enc_attindex (w_att_indexes s0));
          (OpMetadataIndex, if o_skip_mdi o then [] else map enc_mdindex (w_md_indexes s0))]).
Proof.
  intros Hc H. unfold write_summary in H. cbv zeta in H.
  pose proof (SumInv_init s0 Hc) as I0.
  (* schemas *)
  stage_destruct H E1 s1 offs1.
  eapply (stage_ok _ _ _ _ _ _ _ (map enc_schema (map snd (w_schemas s0)))) in E1; [| exact I0 | |].
  2:{ intros s'' Hr. rewrite map_map. eapply write_all_rel; [| exact Hc | exact Hr].
      intros x s2 s3. apply closed_schema. }
  2:{ intro HH. rewrite map_map. revert HH. apply isnil_map. }
  rewrite map_map, stage_group in E1. cbn [app] in E1.
  assert (K1 : keeps s0 s1) by (apply E1). assert (Hc1 : w_closed s1 = true) by (apply E1).
  (* channels *)
  stage_destruct H E2 s2 offs2.
  eapply (stage_ok _ _ _ _ _ _ _ (map enc_channel (map snd (w_channels s1)))) in E2; [| exact E1 | |].
  2:{ intros s'' Hr. rewrite map_map. eapply write_all_rel; [| exact Hc1 | exact Hr].
      intros x s3 s4. apply closed_channel. }
  2:{ intro HH. rewrite map_map. revert HH. apply isnil_map. }
  rewrite map_map, stage_group, <- filter_app in E2. cbn [app] in E2.
  assert (K2 : keeps s0 s2) by (apply E2). assert (Hc2 : w_closed s2 = true) by (apply E2).
  (* statistics *)
  stage_destruct H E3 s3 offs3.
  eapply (stage_ok _ _ _ _ _ _ _ [enc_statistics (stats_record s2)]) in E3; [| exact E2 | |].
  2:{ intros s'' Hr. rewrite wrd_eq in Hr. injection Hr as <-. apply step_rel_rec_dst. }
  2:{ discriminate. }
  rewrite stage_group1, <- filter_app in E3. cbn [app] in E3.
  assert (K3 : keeps s0 s3) by (apply E3). assert (Hc3 : w_closed s3 = true) by (apply E3).
  (* chunk indexes *)
  stage_destruct H E4 s4 offs4.
  eapply (stage_ok _ _ _ _ _ _ _ (map enc_chunkindex (w_chunk_indexes s3))) in E4; [| exact E3 | |].
  2:{ intros s'' Hr. rewrite map_map. eapply write_all_rel; [| exact Hc3 | exact Hr].
      intros x s5 s6 _ Hw. cbv beta in Hw. rewrite wrd_eq in Hw. injection Hw as <-. apply step_rel_rec_dst. }
  2:{ apply isnil_map. }
  rewrite stage_group, <- filter_app in E4. cbn [app] in E4.
  assert (K4 : keeps s0 s4) by (apply E4). assert (Hc4 : w_closed s4 = true) by (apply E4).
  (* attachment indexes *)
  stage_destruct H E5 s5 offs5.
  eapply (stage_ok _ _ _ _ _ _ _ (map enc_attindex (w_att_indexes s4))) in E5; [| exact E4 | |].
  2:{ intros s'' Hr. rewrite map_map. eapply write_all_rel; [| exact Hc4 | exact Hr].
      intros x s6 s7 _ Hw. cbv beta in Hw. rewrite wrd_eq in Hw. injection Hw as <-. apply step_rel_rec_dst. }
  2:{ apply isnil_map. }
  rewrite stage_group, <- filter_app in E5. cbn [app] in E5.
  assert (K5 : keeps s0 s5) by (apply E5). assert (Hc5 : w_closed s5 = true) by (apply E5).
  (* metadata indexes *)
  eapply (stage_ok _ _ _ _ _ _ _ (map enc_mdindex (w_md_indexes s5))) in H; [| exact E5 | |].
  2:{ intros s'' Hr. rewrite map_map. eapply write_all_rel; [| exact Hc5 | exact Hr].
      intros x s6 s7 _ Hw. cbv beta in Hw. rewrite wrd_eq in Hw. injection Hw as <-. apply step_rel_rec_dst. }
  2:{ apply isnil_map. }
  rewrite stage_group, <- filter_app in H. cbn [app] in H.
  destruct K3 as (_ & K3c & _). destruct K4 as (_ & _ & K4a & _). destruct K5 as (_ & _ & _ & K5m).
  rewrite K3c, K4a, K5m in H.
  eexists _, _, _. exact H.
Qed.

(* ----- footer and closing magic ----- *)
Definition footer_state (ss sos : N) (s : wstate) : wstate :=
  let s1 := dw (frame_head OpFooter 20 ++ u64 ss ++ u64 sos) s in
  lg (IFooter ss sos (checksum o s1)) (dw (u32 (checksum o s1)) s1).
Lemma write_footer_eq ss sos s : write_footer o None ss sos s = (footer_state ss sos s, None).
Proof.
  unfold write_footer. rewrite dst_write_none. cbn [bindw]. rewrite dst_write_none. cbn [bindw].
  rewrite log_eq. reflexivity.
Qed.
Lemma step_rel_footer ss sos s : exists crc, step_rel s (footer_state ss sos s) [IFooter ss sos crc].
Proof.
  unfold footer_state. cbv zeta.
  set (s1 := dw (frame_head OpFooter 20 ++ u64 ss ++ u64 sos) s).
  exists (checksum o s1). split.
  - unfold emit. rewrite trace_lg, out_lg, size_lg, trace_dw, out_dw, size_dw. unfold s1.
    rewrite trace_dw, out_dw, size_dw, rendered_one. cbn [render_item]. unfold enc_footer. cbn [f_summary_start f_summary_offset_start f_crc].
    unfold frame. rewrite !blen_app, !blen_u64, blen_u32, blen_frame_head. change (8 + (8 + 4)) with 20.
    rewrite <- !app_assoc. repeat split; auto. rewrite !blen_frame_head. lia.
  - repeat split.
Qed.
Lemma step_rel_magic s : step_rel s (lg IMagic (dw magic s)) [IMagic].
Proof.
  split.
  - unfold emit. rewrite trace_lg, out_lg, size_lg, trace_dw, out_dw, size_dw, rendered_one. repeat split.
  - repeat split.
Qed.

(* ----- Close ----- *)
Definition close_tail (s : wstate) : wres :=
  let s := s <| w_closed := true |> in
  do* s := write_record_dst o None OpDataEnd (enc_dataend {| de_crc := checksum o s |}) s in
  let s := s <| w_crc := crc_init |> in
  let start := w_size s in
  let '(s, e, offs) := write_summary o None s in
  match e with
  | Some e => (s, Some e)
  | None =>
    let ss := match offs with [] => 0 | _ => start end in
    let write_offsets := negb (o_skip_so o) && negb (match offs with [] => true | _ => false end) in
    let sos := if write_offsets then w_size s else 0 in
    do* s := (if write_offsets
              then write_all (fun so => write_record_dst o None OpSummaryOffset (enc_sumoffset so)) offs s
              else (s, None)) in
    do* s := write_footer o None ss sos s in
    do* s := dst_write o None magic s in log IMagic s
  end.
Lemma close_split compress s :
  close o compress None s =
  bindw (if o_chunked o then flush_active_chunk o compress None s else (s, None)) close_tail.
Proof. reflexivity. Qed.

End WithEnv.


(* ================= part H ================= *)
Section WithEnv.
Variable o : wopts.
Variable compress : nat -> bytes -> bytes.

Notation dw := (dw o).
Notation rec_dst := (rec_dst o).
Notation G := (G o compress).

(* facts about the data section that survive Close *)
Definition DataOk (pre : list item) (D : list sitem)
  (cis : list chunkindex) (ais : list attindex) (mds : list mdindex) : Prop :=
  Forall (data_sitem o) D /\
  ais = flat_map exp_att (slocated (offset_of pre) D) /\
  mds = flat_map exp_md (slocated (offset_of pre) D) /\
  cis = flat_map exp_ci (slocated (offset_of pre) D) /\
  chunks_ok o compress 0 D.

Definition summary_groups (B1 B2 B3 : list bytes) (s : wstate) : list sgroup :=
  filter nonempty_group
    [(OpSchema, B1); (OpChannel, B2); (OpStatistics, B3);
     (OpChunkIndex, if o_skip_ci o then [] else map enc_chunkindex (w_chunk_indexes s));
     (OpAttachmentIndex, if o_skip_ai o then [] else map enc_attindex (w_att_indexes s));
     (OpMetadataIndex, if o_skip_mdi o then [] else map enc_mdindex (w_md_indexes s))].

Definition ClosedFile (pre : list item) (s' : wstate) : Prop :=
  exists D de B1 B2 B3 ss sos crc,
    let gs := summary_groups B1 B2 B3 s' in
    let data := pre ++ flatten D ++ [IRec OpDataEnd de] in
    let offs := group_offsets (offset_of data) gs in
    let off_items := if o_skip_so o then [] else map so_item offs in
    rev (w_trace s') = data ++ sum_items gs ++ off_items ++ [IFooter ss sos crc; IMagic] /\
    Inv1 s' /\
    DataOk pre D (w_chunk_indexes s') (w_att_indexes s') (w_md_indexes s') /\
    ss = match gs with [] => 0 | _ => offset_of data end /\
    sos = match off_items with [] => 0 | _ => offset_of (data ++ sum_items gs) end.

Lemma close_tail_spec s1 s' :
  Inv1 s1 -> close_tail o s1 = (s', None) ->
  exists de B1 B2 B3 ss sos crc,
    let gs := summary_groups B1 B2 B3 s' in
    let data := rev (w_trace s1) ++ [IRec OpDataEnd de] in
    let offs := group_offsets (offset_of data) gs in
    let off_items := if o_skip_so o then [] else map so_item offs in
    emit s1 s' (IRec OpDataEnd de :: sum_items gs ++ off_items ++ [IFooter ss sos crc; IMagic]) /\
    (w_chunk_indexes s' = w_chunk_indexes s1 /\ w_att_indexes s' = w_att_indexes s1 /\
     w_md_indexes s' = w_md_indexes s1) /\
    ss = match gs with [] => 0 | _ => offset_of data end /\
    sos = match off_items with [] => 0 | _ => offset_of (data ++ sum_items gs) end.
Proof using Type.
  clear compress.
  intros HI1 H.
  unfold close_tail in H. cbv zeta in H. rewrite wrd_eq in H. cbn [bindw] in H.
  set (s2 := s1 <| w_closed := true |>) in *.
  assert (E12 : emit s1 s2 []) by (apply emit_same; reflexivity).
  assert (K12 : w_chunk_indexes s2 = w_chunk_indexes s1 /\ w_att_indexes s2 = w_att_indexes s1 /\
                w_md_indexes s2 = w_md_indexes s1) by (repeat split).
  assert (Hc2 : w_closed s2 = true) by reflexivity.
  clearbody s2.
  set (de := enc_dataend {| de_crc := checksum o s2 |}) in *. clearbody de.
  pose proof (step_rel_rec_dst o OpDataEnd de s2) as R23.
  set (s3 := rec_dst OpDataEnd de s2) in *. clearbody s3.
  set (s4 := s3 <| w_crc := crc_init |>) in *.
  assert (R34 : step_rel s3 s4 []).
  { split; [apply emit_same; reflexivity | repeat split]. }
  clearbody s4.
  pose proof (step_rel_trans _ _ _ _ _ R23 R34) as R24. rewrite app_nil_r in R24. clear R23 R34 s3.
  assert (Hc4 : w_closed s4 = true) by (destruct R24 as [_ (K & _)]; congruence).
  destruct (write_summary o None s4) as [[s5 e5] offs] eqn:ES. destruct e5; [discriminate|].
  apply summary_ok in ES; [|exact Hc4]. destruct ES as (B1 & B2 & B3 & SI).
  match type of SI with SumInv _ _ _ ?g => set (gs := g) in * end.
  destruct SI as (R45 & Hc5 & Hoffs & Hne).
  set (wo := negb (o_skip_so o) && negb (match offs with [] => true | _ => false end)) in *.
  set (off_items := if o_skip_so o then [] else map so_item offs).
  destruct (if wo then write_all (fun so => write_record_dst o None OpSummaryOffset (enc_sumoffset so)) offs s5
            else (s5, None)) as [s6 [e|]] eqn:E6; cbn [bindw] in H; [discriminate|].
  assert (R56 : step_rel s5 s6 off_items /\ (wo = false -> off_items = [])).
  { unfold off_items. destruct wo eqn:Ewo.
    - unfold wo in Ewo. apply andb_true_iff in Ewo. destruct Ewo as [Es _].
      destruct (o_skip_so o); [discriminate|]. split; [|discriminate].
      eapply write_all_rel; [| exact Hc5 | exact E6].
      intros x sa sb _ Hw. cbv beta in Hw. rewrite wrd_eq in Hw. injection Hw as <-. apply step_rel_rec_dst.
    - injection E6 as <-. unfold wo in Ewo. destruct (o_skip_so o); cbn [negb andb] in Ewo.
      + split; [apply step_rel_refl | reflexivity].
      + destruct offs; [|discriminate]. split; [apply step_rel_refl | reflexivity]. }
  destruct R56 as [R56 Hwo].
  rewrite write_footer_eq in H. cbn [bindw] in H. rewrite dst_write_none in H. cbn [bindw] in H.
  rewrite log_eq in H.
  match type of H with context [footer_state o ?a ?b s6] => set (ss := a) in *; set (sos := b) in * end.
  destruct (step_rel_footer o ss sos s6) as (crc & R67).
  set (s7 := footer_state o ss sos s6) in *. clearbody s7.
  pose proof (step_rel_magic o s7) as R78.
  injection H as H. rewrite H in R78. clear H.
  pose proof (step_rel_trans _ _ _ _ _ R24
               (step_rel_trans _ _ _ _ _ R45
                 (step_rel_trans _ _ _ _ _ R56 (step_rel_trans _ _ _ _ _ R67 R78)))) as R2.
  destruct R2 as [E2 (_ & K2c & K2a & K2m)].
  pose proof (emit_trans _ _ _ _ _ E12 E2) as E1. cbn [app] in E1.
  destruct K12 as (K1c & K1a & K1m).
  destruct R24 as [E24 (_ & K4c & K4a & K4m)].
  assert (Hsz4 : w_size s4 = offset_of (rev (w_trace s1) ++ [IRec OpDataEnd de])).
  { destruct E24 as (_ & _ & Z). destruct E12 as (_ & _ & Z0).
    rewrite Z, Z0, (Inv1_size _ HI1), rendered_nil, blen_nil, N.add_0_r, offset_of_app. reflexivity. }
  assert (Hsz5 : w_size s5 = offset_of ((rev (w_trace s1) ++ [IRec OpDataEnd de]) ++ sum_items gs)).
  { destruct R45 as [(_ & _ & Z) _]. rewrite Z, Hsz4, (offset_of_app (rev (w_trace s1) ++ [IRec OpDataEnd de])).
    reflexivity. }
  exists de, B1, B2, B3, ss, sos, crc. cbv zeta.
  assert (Hgs : summary_groups B1 B2 B3 s' = gs).
  { unfold summary_groups, gs. rewrite K2c, K2a, K2m, K4c, K4a, K4m. reflexivity. }
  rewrite Hgs, <- Hsz4, <- Hoffs. fold off_items.
  split; [|split; [|split]].
  - exact E1.
  - rewrite K2c, K2a, K2m, K1c, K1a, K1m. repeat split.
  - unfold ss. rewrite Hoffs. destruct gs; reflexivity.
  - unfold sos. rewrite <- Hsz5.
    assert (Hw1 : wo = true -> off_items <> []).
    { unfold wo, off_items. destruct (o_skip_so o); [discriminate|]. destruct offs; discriminate. }
    destruct wo.
    + destruct off_items; [exfalso; apply Hw1; reflexivity | reflexivity].
    + rewrite Hwo by reflexivity. reflexivity.
Qed.

Lemma close_tail_ok pre s1 D s' :
  G pre s1 D -> close_tail o s1 = (s', None) -> ClosedFile pre s'.
Proof.
  intros HG H.
  pose proof (G_inv1 _ _ _ _ _ HG) as HI1.
  assert (HD : DataOk pre D (w_chunk_indexes s1) (w_att_indexes s1) (w_md_indexes s1)).
  { destruct HG as [(_ & _ & _ & _ & G5 & G6 & G7 & G8 & _ & G10) _]. repeat split; assumption. }
  assert (HT : rev (w_trace s1) = pre ++ flatten D) by apply HG.
  destruct (close_tail_spec _ _ HI1 H) as (de & B1 & B2 & B3 & ss & sos & crc & HS).
  cbv zeta in HS. destruct HS as (E1 & (Kc & Ka & Km) & Hss & Hsos).
  exists D, de, B1, B2, B3, ss, sos, crc. cbv zeta.
  rewrite HT, <- app_assoc in Hss, Hsos, E1.
  split; [|split; [|split; [|split]]].
  - destruct E1 as (T & _). rewrite T, rev_app_distr, rev_involutive, HT, <- !app_assoc. reflexivity.
  - eapply Inv1_emit; [exact HI1 | exact E1].
  - rewrite Kc, Ka, Km. exact HD.
  - exact Hss.
  - exact Hsos.
Qed.

End WithEnv.


(* ================= part I ================= *)
Definition is_close (c : wcall) : bool := match c with CClose => true | _ => false end.
Definition is_hdr (c : wcall) : bool := match c with CHeader _ => true | _ => false end.
(* CHeader h :: body ++ [CClose], body without CClose (and without a second CHeader) *)
Definition legal_shape (cs : list wcall) : bool :=
  match cs with
  | CHeader _ :: r =>
      match rev r with
      | CClose :: b => forallb (fun c => negb (is_close c) && negb (is_hdr c)) b
      | _ => false
      end
  | _ => false
  end.
Definition att_small_call (c : wcall) : Prop :=
  match c with CAttachment a _ => att_len a < two64 | _ => True end.
Definition att_small_callb (c : wcall) : bool :=
  match c with CAttachment a _ => att_len a <? two64 | _ => true end.

Lemma legal_shape_inv cs : legal_shape cs = true ->
  exists h body, cs = CHeader h :: body ++ [CClose] /\
                 Forall (fun c => is_close c = false /\ is_hdr c = false) body.
Proof.
  destruct cs as [|[h| | | | | |] r]; try discriminate. cbn [legal_shape].
  destruct (rev r) as [|[| | | | | |] b] eqn:E; try discriminate. intro H.
  exists h, (rev b). split.
  - f_equal. rewrite <- (rev_involutive r), E. reflexivity.
  - apply Forall_rev. rewrite forallb_forall in H. apply Forall_forall. intros c HI.
    specialize (H c HI). apply andb_true_iff in H. destruct H as [H1 H2].
    split; [destruct (is_close c) | destruct (is_hdr c)]; auto; discriminate.
Qed.

Section WithEnv.
Variable o : wopts.
Variable lib_id : bytes.
Variable compress : nat -> bytes -> bytes.

Notation dw := (dw o).
Notation rec_dst := (rec_dst o).
Notation G := (G o compress).
Notation step := (step o lib_id compress None).

(* ---------- every successful call emits a list of complete items ---------- *)
Lemma emit_flushed s : emit s (flushed o compress s) (IChunk (fl_chunk o compress s) :: map mi_item (fl_mis o s)).
Proof using Type.
  clear lib_id.
  set (s1 := s <| w_cbuf := [] |> <| w_nchunks := S (w_nchunks s) |>).
  assert (HE : emit s (chunk_written o (fl_chunk o compress s) (fl_mis o s) s1)
                 (IChunk (fl_chunk o compress s) :: map mi_item (fl_mis o s))).
  { apply emit_in with (s1 := s1); [reflexivity..|]. apply emit_chunk_written. }
  unfold flushed. cbv zeta. fold s1.
  set (X := chunk_written o (fl_chunk o compress s) (fl_mis o s) s1) in *. clearbody X.
  eapply emit_out; [exact HE | reflexivity..].
Qed.

Lemma emit_view s X s' items : emit s X items -> view s' = view X -> emit s s' items.
Proof.
  intros HE HV. destruct (view_proj _ _ HV) as (V1 & V2 & V3 & _). eapply emit_out; eassumption.
Qed.

Lemma emit_add_channel s X c items : emit s X items -> emit s (add_channel c X) items.
Proof.
  intro HE. unfold add_channel. destruct (assoc_get (c_id c) (w_channels X)); [exact HE|].
  eapply emit_out; [exact HE | reflexivity..].
Qed.

Lemma emit_rec_chunk op body s : emit s (rec_chunk op body s) [].
Proof. apply emit_same; reflexivity. Qed.

Lemma flush_emit s s' : flush_active_chunk o compress None s = (s', None) -> exists items, emit s s' items.
Proof using Type.
  clear lib_id. intro H. destruct (w_cbuf s) eqn:E.
  - rewrite flush_nil in H by exact E. injection H as <-. eexists. apply emit_refl.
  - rewrite flush_eq in H by congruence. injection H as <-. eexists. apply emit_flushed.
Qed.

Lemma bindw_ok s f : bindw (s, None) f = f s. Proof. reflexivity. Qed.
Lemma bindw_err s e f : bindw (s, Some e) f = (s, Some e). Proof. reflexivity. Qed.

Lemma close_emit s s' : Inv1 s -> close o compress None s = (s', None) -> exists items, emit s s' items.
Proof using Type.
  clear lib_id. intros HI H. rewrite close_split in H.
  assert (exists s1 it1, emit s s1 it1 /\ close_tail o s1 = (s', None)) as (s1 & it1 & E1 & HT).
  { destruct (o_chunked o).
    - destruct (flush_active_chunk o compress None s) as [s1 [e|]] eqn:EF;
        [rewrite bindw_err in H; discriminate | rewrite bindw_ok in H].
      destruct (flush_emit _ _ EF) as (it1 & E1). exists s1, it1. split; assumption.
    - rewrite bindw_ok in H. exists s, []. split; [apply emit_refl | exact H]. }
  pose proof (Inv1_emit _ _ _ HI E1) as HI1.
  destruct (close_tail_spec o _ _ HI1 HT) as (de & B1 & B2 & B3 & ss & sos & crc & HS).
  cbv zeta in HS. destruct HS as (E2 & _). eexists. eapply emit_trans; eassumption.
Qed.

Lemma step_emit c s s' : Inv1 s -> step c s = (s', None) -> exists items, emit s s' items.
Proof.
  intros HI H. destruct c as [h|sc|c|m|a src|m|]; cbn [Writer.step] in H.
  - rewrite write_header_eq in H. injection H as <-. eexists. apply emit_rec_dst.
  - apply write_schema_eq in H. subst s'. destruct (in_chunk o s); eexists;
      (eapply emit_view; [| apply add_schema_view]); [apply emit_rec_chunk | apply emit_rec_dst].
  - apply write_channel_eq in H. subst s'. destruct (in_chunk o s); eexists;
      apply emit_add_channel; [apply emit_rec_chunk | apply emit_rec_dst].
  - apply write_message_eq in H. destruct H as (ch & _ & ->).
    destruct (in_chunk o s).
    + destruct (o_chunksize o <? Z.of_N (blen (w_cbuf (msg_chunk_state m s))))%Z; eexists;
        (eapply emit_view; [| apply stats_time_view]).
      * apply emit_in with (s1 := msg_chunk_state m s); [reflexivity..|]. apply emit_flushed.
      * apply emit_same; reflexivity.
    + eexists. eapply emit_view; [| apply stats_time_view].
      apply emit_in with (s1 := msg_pre m s); [reflexivity..|]. apply emit_rec_dst.
  - apply write_attachment_eq in H. destruct H as [-> Hsz]. eexists. apply emit_att. exact Hsz.
  - rewrite write_metadata_eq in H. injection H as <-. eexists.
    unfold md_state. cbv zeta.
    apply emit_out with (X := rec_dst OpMetadata (enc_metadata m) s); [apply emit_rec_dst | reflexivity..].
  - apply close_emit; assumption.
Qed.

Lemma step_inv1 c s s' : Inv1 s -> step c s = (s', None) -> Inv1 s'.
Proof. intros HI H. destruct (step_emit _ _ _ HI H) as (items & HE). eapply Inv1_emit; eassumption. Qed.

(* ---------- running a call list ---------- *)
Fixpoint run_ok (cs : list wcall) (s : wstate) : option wstate :=
  match cs with
  | [] => Some s
  | c :: r => match step c s with (s', None) => run_ok r s' | (_, Some _) => None end
  end.

Definition all_ok (rs : list (option err * nat)) : Prop := Forall (fun r => fst r = None) rs.

Lemma run_calls_ok cs : forall s acc s' rs,
  run_calls o lib_id compress None cs s acc = (s', rs) ->
  exists rs', rs = rev acc ++ rs' /\ (all_ok rs' -> run_ok cs s = Some s').
Proof.
  induction cs as [|c r IH]; intros s acc s' rs H; cbn [run_calls run_ok] in *.
  - injection H as <- <-. exists []. rewrite app_nil_r. auto.
  - destruct (step c s) as [s1 e] eqn:E.
    destruct (IH _ _ _ _ H) as (rs' & -> & Hok).
    exists ((e, w_nw s1) :: rs'). split.
    + cbn [rev]. rewrite <- app_assoc. reflexivity.
    + intro HA. inversion HA as [|x l Hx Hl]; subst. cbn [fst] in Hx. subst e. apply Hok. exact Hl.
Qed.

Lemma run_ok_app a : forall b s s', run_ok (a ++ b) s = Some s' ->
  exists s1, run_ok a s = Some s1 /\ run_ok b s1 = Some s'.
Proof.
  induction a as [|c r IH]; intros b s s' H; cbn [app run_ok] in *.
  - eauto.
  - destruct (step c s) as [s1 [e|]]; [discriminate|]. apply IH. exact H.
Qed.

Lemma run_inv1 cs : forall s s', Inv1 s -> run_ok cs s = Some s' -> Inv1 s'.
Proof.
  induction cs as [|c r IH]; intros s s' HI H; cbn [run_ok] in H.
  - congruence.
  - destruct (step c s) as [s1 [e|]] eqn:E; [discriminate|]. eapply IH; [|exact H]. eapply step_inv1; eassumption.
Qed.

End WithEnv.


(* ================= part J ================= *)
Section WithEnv.
Variable o : wopts.
Variable lib_id : bytes.
Variable compress : nat -> bytes -> bytes.

Notation dw := (dw o).
Notation rec_dst := (rec_dst o).
Notation G := (G o compress).
Notation step := (step o lib_id compress None).
Notation run_ok := (run_ok o lib_id compress).

Definition data_call (c : wcall) : Prop :=
  is_close c = false /\ is_hdr c = false /\ att_small_call c.

Lemma step_G pre s D c s' :
  data_call c -> G pre s D -> step c s = (s', None) -> exists D', G pre s' D'.
Proof.
  intros (Hc & Hh & Hs) HG H. destruct c as [h|sc|c|m|a src|m|]; cbn [Writer.step] in H; try discriminate.
  - destruct (schema_G _ _ _ _ _ _ _ HG H) as (D' & HG'). eauto.
  - destruct (channel_G _ _ _ _ _ _ _ HG H) as (D' & HG'). eauto.
  - destruct (message_G _ _ _ _ _ _ _ HG H) as (D' & HG'). eauto.
  - apply write_attachment_eq in H. destruct H as [-> Hsz]. eexists. apply att_G; [exact HG | exact Hsz | exact Hs].
  - rewrite write_metadata_eq in H. injection H as <-. eexists. apply md_G. exact HG.
Qed.

Lemma run_G cs : forall pre s D s',
  Forall data_call cs -> G pre s D -> run_ok cs s = Some s' -> exists D', G pre s' D'.
Proof.
  induction cs as [|c r IH]; intros pre s D s' HF HG H; cbn [WriterFactsC.run_ok] in H.
  - injection H as <-. eauto.
  - inversion HF as [|x l Hx Hl]; subst.
    destruct (step c s) as [s1 [e|]] eqn:E; [discriminate|].
    destruct (step_G _ _ _ _ _ Hx HG E) as (D1 & HG1). eapply IH; eassumption.
Qed.

Lemma close_G pre s D s' :
  G pre s D -> close o compress None s = (s', None) -> ClosedFile o compress pre s'.
Proof using Type.
  clear lib_id. intros HG H. rewrite close_split in H.
  assert (exists s1 D1, G pre s1 D1 /\ close_tail o s1 = (s', None)) as (s1 & D1 & HG1 & HT).
  { destruct (o_chunked o) eqn:Hc.
    - destruct (flush_active_chunk o compress None s) as [s1 [e|]] eqn:EF;
        [rewrite bindw_err in H; discriminate | rewrite bindw_ok in H].
      destruct (flush_G _ _ _ _ _ _ HG Hc EF) as (D' & HG'). eauto.
    - rewrite bindw_ok in H. eauto. }
  eapply close_tail_ok; eassumption.
Qed.

(* ---------- start of the file ---------- *)
Lemma Inv1_init : Inv1 init_state.
Proof. split; reflexivity. Qed.

Lemma G_start pre s : Inv1 s -> rev (w_trace s) = pre -> aux s = aux init_state -> G pre s [].
Proof using Type.
  clear lib_id. intros (I1 & I2) HT HX.
  destruct (aux_proj _ _ HX) as (P1 & P2 & P3 & P4 & P5 & P6 & P7 & P8 & P9 & P10 & P11 & P12).
  unfold WriterFactsC.G. rewrite P1, P2, P3, P4, P5, P6, P7, P8, P9, P10, P11, P12.
  cbn [init_state w_closed w_cbuf w_nchunks w_cur_start w_cur_end w_cur_count w_msgidx w_channel_ids
       w_channels w_chunk_indexes w_att_indexes w_md_indexes].
  split; [|apply Gact_init].
  unfold Gout. change (flatten []) with (@nil item). rewrite app_nil_r.
  unfold bytes_out in *. rewrite HT in I1.
  repeat split; auto.
Qed.

Definition file_prefix (h : header) : list item :=
  (if o_skip_magic o then [] else [IMagic]) ++
  [IRec OpHeader (enc_header {| h_profile := h_profile h; h_library := header_library o lib_id h |})].

Lemma new_writer_ok s0 : new_writer o None = (s0, None) ->
  Inv1 s0 /\ rev (w_trace s0) = (if o_skip_magic o then [] else [IMagic]) /\ aux s0 = aux init_state.
Proof using Type.
  clear lib_id compress. unfold new_writer. destruct (o_skip_magic o).
  - rewrite bindw_ok. intro H.
    assert (s0 = init_state) as ->.
    { destruct (o_chunked o); [|congruence]. destruct (o_custom o).
      - destruct (bytes_eqb (o_comp o) []); congruence.
      - destruct (bytes_eqb (o_comp o) comp_zstd || bytes_eqb (o_comp o) comp_lz4 || bytes_eqb (o_comp o) []); congruence. }
    split; [apply Inv1_init | split; reflexivity].
  - rewrite dst_write_none, bindw_ok, log_eq, bindw_ok. intro H.
    assert (s0 = lg IMagic (dw magic init_state)) as ->.
    { destruct (o_chunked o); [|congruence]. destruct (o_custom o).
      - destruct (bytes_eqb (o_comp o) []); congruence.
      - destruct (bytes_eqb (o_comp o) comp_zstd || bytes_eqb (o_comp o) comp_lz4 || bytes_eqb (o_comp o) []); congruence. }
    split; [|split; reflexivity].
    eapply Inv1_emit; [apply Inv1_init | apply step_rel_magic].
Qed.

Lemma header_G s0 h s1 : new_writer o None = (s0, None) -> step (CHeader h) s0 = (s1, None) ->
  G (file_prefix h) s1 [].
Proof.
  intros HN H. destruct (new_writer_ok _ HN) as (HI & HT & HX).
  cbn [Writer.step] in H. rewrite write_header_eq in H. injection H as <-.
  apply G_start.
  - eapply Inv1_emit; [exact HI | apply emit_rec_dst].
  - unfold file_prefix. rewrite <- HT. reflexivity.
  - rewrite aux_rec_dst. exact HX.
Qed.

(* ---------- whole runs ---------- *)
Theorem run_closed_file s0 cs s' :
  new_writer o None = (s0, None) -> legal_shape cs = true -> Forall att_small_call cs ->
  run_ok cs s0 = Some s' ->
  exists h, (exists body, cs = CHeader h :: body ++ [CClose]) /\ ClosedFile o compress (file_prefix h) s'.
Proof.
  intros HN HL HA HR. destruct (legal_shape_inv _ HL) as (h & body & -> & HB).
  exists h. split; [eauto|].
  cbn [WriterFactsC.run_ok] in HR. destruct (step (CHeader h) s0) as [s1 [e|]] eqn:E1; [discriminate|].
  pose proof (header_G _ _ _ HN E1) as HG1.
  destruct (run_ok_app _ _ _ _ _ _ _ HR) as (s2 & HR2 & HR3).
  assert (HD : Forall data_call body).
  { inversion HA as [|x l _ HA']; subst. apply Forall_app in HA'. destruct HA' as [HA' _].
    rewrite Forall_forall in *. intros c HI. destruct (HB c HI). repeat split; auto. }
  destruct (run_G _ _ _ _ _ HD HG1 HR2) as (D2 & HG2).
  cbn [WriterFactsC.run_ok Writer.step] in HR3.
  destruct (close o compress None s2) as [s3 [e|]] eqn:E3; [discriminate|]. injection HR3 as <-.
  eapply close_G; eassumption.
Qed.

End WithEnv.

(* ---------- statements about W ---------- *)
Section Top.
Variable o : wopts.
Variable lib_id : bytes.
Variable compress : nat -> bytes -> bytes.
Variable cs : list wcall.

Let R := W o lib_id compress None cs.
Let eo := effective_opts o.

Lemma W_run : r_new R = None -> all_ok (r_calls R) ->
  exists s0, new_writer eo None = (s0, None) /\ run_ok eo lib_id compress cs s0 = Some (r_final R) /\
             file_of R = bytes_out (r_final R).
Proof.
  unfold R, W, eo. destruct (new_writer (effective_opts o) None) as [s0 [e|]] eqn:EN; [discriminate|].
  destruct (run_calls (effective_opts o) lib_id compress None cs s0 []) as [s' rs] eqn:ER.
  cbn [r_new r_calls r_final]. intros _ HA.
  destruct (run_calls_ok _ _ _ _ _ _ _ _ ER) as (rs' & -> & Hok). cbn [rev app] in *.
  exists s0. split; [reflexivity|]. split; [apply Hok; exact HA | reflexivity].
Qed.

(* item 1: the bytes of the file are the rendered trace, sizes are exact (any successful run) *)
Theorem C05_bytes_are_trace : r_new R = None -> all_ok (r_calls R) ->
  file_of R = rendered (rev (w_trace (r_final R))) /\ w_size (r_final R) = blen (file_of R).
Proof.
  intros HN HA. destruct (W_run HN HA) as (s0 & HN0 & HR & ->).
  destruct (new_writer_ok _ _ HN0) as (HI & _).
  exact (run_inv1 _ _ _ _ _ _ HI HR).
Qed.

Theorem C05_closed_file : r_new R = None -> all_ok (r_calls R) ->
  legal_shape cs = true -> Forall att_small_call cs ->
  exists h, (exists body, cs = CHeader h :: body ++ [CClose]) /\
            ClosedFile eo compress (file_prefix eo lib_id h) (r_final R).
Proof.
  intros HN HA HL HS. destruct (W_run HN HA) as (s0 & HN0 & HR & _).
  eapply run_closed_file; eassumption.
Qed.

End Top.


(* ================= part L ================= *)
(* ---------- items with their file offsets ---------- *)
Fixpoint located (off : N) (T : list item) : list (N * item) :=
  match T with
  | [] => []
  | it :: r => (off, it) :: located (off + blen (render_item it)) r
  end.

Lemma located_app a : forall off b, located off (a ++ b) = located off a ++ located (off + offset_of a) b.
Proof.
  induction a as [|x a IH]; intros off b; cbn [located app].
  - rewrite offset_of_nil, N.add_0_r. reflexivity.
  - rewrite IH. change (x :: a) with ([x] ++ a). rewrite offset_of_app. unfold offset_of at 2.
    rewrite rendered_one, N.add_assoc. reflexivity.
Qed.
Lemma In_located T : forall off p, In p (located off T) ->
  exists pre post, T = pre ++ snd p :: post /\ fst p = off + offset_of pre.
Proof.
  induction T as [|x T IH]; intros off p HI; cbn [located] in HI; [destruct HI|].
  destruct HI as [<-|HI].
  - exists [], T. cbn [fst snd app]. rewrite offset_of_nil, N.add_0_r. auto.
  - destruct (IH _ _ HI) as (pre & post & -> & E). exists (x :: pre), post. split; [reflexivity|].
    rewrite E. change (x :: pre) with ([x] ++ pre). rewrite offset_of_app. unfold offset_of at 2.
    rewrite rendered_one. lia.
Qed.
Lemma In_slocated S : forall off p, In p (slocated off S) ->
  exists Sa Sb, S = Sa ++ snd p :: Sb /\ fst p = off + offset_of (flatten Sa).
Proof.
  induction S as [|x S IH]; intros off p HI; cbn [slocated] in HI; [destruct HI|].
  destruct HI as [<-|HI].
  - exists [], S. cbn [fst snd app]. change (flatten []) with (@nil item).
    rewrite offset_of_nil, N.add_0_r. auto.
  - destruct (IH _ _ HI) as (Sa & Sb & -> & E). exists (x :: Sa), Sb. split; [reflexivity|].
    rewrite E. change (x :: Sa) with ([x] ++ Sa). rewrite flatten_app, flatten_one, offset_of_app. lia.
Qed.
Lemma flat_map_located_nil {A} (f : N * item -> list A) T :
  (forall off it, In it T -> f (off, it) = []) -> forall off, flat_map f (located off T) = [].
Proof.
  induction T as [|x T IH]; intros Hf off; cbn [located flat_map]; [reflexivity|].
  rewrite Hf by (left; reflexivity). rewrite IH; [reflexivity|]. intros. apply Hf. right. assumption.
Qed.
Lemma filter_located_nil (f : N * item -> bool) T :
  (forall off it, In it T -> f (off, it) = false) -> forall off, filter f (located off T) = [].
Proof.
  induction T as [|x T IH]; intros Hf off; cbn [located filter]; [reflexivity|].
  rewrite Hf by (left; reflexivity). apply IH. intros. apply Hf. right. assumption.
Qed.

(* ---------- attachment and metadata index entries, item level ---------- *)
Definition att_entry (p : N * item) : list attindex :=
  match snd p with
  | IAttach a data crc =>
      [{| ai_offset := fst p; ai_length := blen (render_item (IAttach a data crc));
          ai_log := a_log a; ai_create := a_create a; ai_size := blen data;
          ai_name := a_name a; ai_media := a_media a |}]
  | _ => []
  end.
Definition is_att_item (it : item) : bool := match it with IAttach _ _ _ => true | _ => false end.
Definition is_md_item (p : N * item) : bool :=
  match snd p with IRec op _ => Byte.eqb op OpMetadata | _ => false end.
Definition md_rel (p : N * item) (mx : mdindex) : Prop :=
  mx_offset mx = fst p /\ mx_length mx = blen (render_item (snd p)) /\
  exists m, snd p = IRec OpMetadata (enc_metadata m) /\ mx_name mx = md_name m.
Definition rec_op_in (ops : list byte) (it : item) : Prop :=
  match it with IRec op _ => In op ops | _ => False end.

Lemma mi_items_no_att off mis : flat_map att_entry (located off (map mi_item mis)) = [].
Proof.
  apply flat_map_located_nil. intros o' it HI. apply in_map_iff in HI. destruct HI as (mi & <- & _). reflexivity.
Qed.
Lemma att_flat S : forall off, flat_map att_entry (located off (flatten S)) = flat_map exp_att (slocated off S).
Proof.
  induction S as [|x S IH]; intro off; [reflexivity|].
  change (flatten (x :: S)) with (flat1 x ++ flatten S).
  rewrite located_app, flat_map_app, IH. cbn [slocated flat_map]. f_equal.
  destruct x as [it|m|k mis]; cbn [flat1 located flat_map].
  - rewrite app_nil_r. destruct it; reflexivity.
  - reflexivity.
  - cbn [att_entry snd app]. apply mi_items_no_att.
Qed.

Lemma mi_items_no_md off mis : filter is_md_item (located off (map mi_item mis)) = [].
Proof.
  apply filter_located_nil. intros o' it HI. apply in_map_iff in HI. destruct HI as (mi & <- & _). reflexivity.
Qed.

Section WithEnv.
Variable o : wopts.

Lemma md_flat S : Forall (data_sitem o) S -> forall off,
  Forall2 md_rel (filter is_md_item (located off (flatten S))) (flat_map exp_md (slocated off S)).
Proof.
  induction 1 as [|x S Hx _ IH]; intro off; [constructor|].
  change (flatten (x :: S)) with (flat1 x ++ flatten S).
  rewrite located_app, filter_app. cbn [slocated flat_map]. apply Forall2_app; [|apply IH].
  destruct x as [it|m|k mis]; cbn [flat1 located filter].
  - destruct it as [|op body|k|a data crc|]; cbn [data_sitem] in Hx; try destruct Hx; try constructor.
    destruct H0 as [->|[->| ->]]; constructor.
  - cbn [is_md_item snd exp_md fst]. change (Byte.eqb OpMetadata OpMetadata) with true. cbv iota.
    constructor; [|constructor]. unfold md_rel. cbn [fst snd mx_offset mx_length mx_name render_item].
    repeat split. exists m. auto.
  - cbn [is_md_item snd exp_md]. rewrite mi_items_no_md. constructor.
Qed.

End WithEnv.


(* ================= part M ================= *)
(* an item that is neither an attachment nor a metadata record *)
Definition other_item (it : item) : Prop :=
  match it with
  | IAttach _ _ _ => False
  | IRec op _ => Byte.eqb op OpMetadata = false
  | _ => True
  end.
Lemma other_no_att it off : other_item it -> att_entry (off, it) = [].
Proof. destruct it; cbn; auto. intros []. Qed.
Lemma other_no_md it off : other_item it -> is_md_item (off, it) = false.
Proof. destruct it; cbn; auto. Qed.

Definition summary_ops : list byte :=
  [OpSchema; OpChannel; OpStatistics; OpChunkIndex; OpAttachmentIndex; OpMetadataIndex].

Section WithEnv.
Variable o : wopts.
Variable lib_id : bytes.
Variable compress : nat -> bytes -> bytes.

Lemma sum_items_ops B1 B2 B3 s it : In it (sum_items (summary_groups o B1 B2 B3 s)) ->
  exists op body, it = IRec op body /\ In op summary_ops.
Proof.
  intro HI. apply in_flat_map in HI. destruct HI as (g & Hg & HI).
  unfold summary_groups in Hg. apply filter_In in Hg. destruct Hg as [Hg _].
  unfold group_items in HI. apply in_map_iff in HI. destruct HI as (body & <- & _).
  exists (fst g), body. split; [reflexivity|]. unfold summary_ops.
  cbn [In] in Hg |- *.
  repeat (destruct Hg as [<-|Hg]; [cbn [fst]; tauto|]). destruct Hg.
Qed.

Lemma summary_ops_other op body : In op summary_ops -> other_item (IRec op body).
Proof.
  unfold summary_ops. cbn [In other_item]. intros H.
  repeat (destruct H as [<-|H]; [reflexivity|]). destruct H.
Qed.

Lemma prefix_other h : Forall other_item (file_prefix o lib_id h).
Proof.
  unfold file_prefix. apply Forall_app. split.
  - destruct (o_skip_magic o); repeat constructor.
  - repeat constructor.
Qed.

Lemma tail_other B1 B2 B3 s de offs ss sos crc :
  Forall other_item
    ([IRec OpDataEnd de] ++ sum_items (summary_groups o B1 B2 B3 s) ++
     (if o_skip_so o then [] else map so_item offs) ++ [IFooter ss sos crc; IMagic]).
Proof.
  apply Forall_app. split; [repeat constructor|].
  apply Forall_app. split.
  - apply Forall_forall. intros it HI. destruct (sum_items_ops _ _ _ _ _ HI) as (op & body & -> & Hop).
    apply summary_ops_other. exact Hop.
  - apply Forall_app. split; [|repeat constructor].
    destruct (o_skip_so o); [constructor|]. apply Forall_forall. intros it HI.
    apply in_map_iff in HI. destruct HI as (so & <- & _). reflexivity.
Qed.

(* what the master theorem says about the index lists, at the level of plain items *)
Theorem closed_index_items pre s :
  Forall other_item pre -> ClosedFile o compress pre s ->
  let tr := rev (w_trace s) in
  w_att_indexes s = flat_map att_entry (located 0 tr) /\
  Forall2 md_rel (filter is_md_item (located 0 tr)) (w_md_indexes s) /\
  (forall a data crc, In (IAttach a data crc) tr ->
     a_size a = blen data /\ crc = crc32 (enc_attachment_fields a ++ data)).
Proof.
  intros Hpre (D & de & B1 & B2 & B3 & ss & sos & crc & HC). cbv zeta in HC.
  destruct HC as (HT & _ & (HD1 & HD2 & HD3 & _) & _). cbv zeta.
  rewrite HT.
  match goal with |- context [(pre ++ flatten D ++ [IRec OpDataEnd de]) ++ ?t] =>
    pose proof (tail_other B1 B2 B3 s de
      (group_offsets (offset_of (pre ++ flatten D ++ [IRec OpDataEnd de])) (summary_groups o B1 B2 B3 s))
      ss sos crc) as Htail;
    replace ((pre ++ flatten D ++ [IRec OpDataEnd de]) ++ t)
      with (pre ++ flatten D ++ ([IRec OpDataEnd de] ++ t)) by (rewrite <- !app_assoc; reflexivity)
  end.
  match type of Htail with Forall _ ?t => set (tail := t) in * end.
  split; [|split].
  - rewrite !located_app, !flat_map_app, N.add_0_l, att_flat, <- HD2.
    rewrite (flat_map_located_nil att_entry pre), (flat_map_located_nil att_entry tail).
    + rewrite app_nil_r. reflexivity.
    + intros off it HI. apply other_no_att. rewrite Forall_forall in Htail. auto.
    + intros off it HI. apply other_no_att. rewrite Forall_forall in Hpre. auto.
  - rewrite !located_app, !filter_app.
    rewrite (filter_located_nil is_md_item pre), (filter_located_nil is_md_item tail).
    + rewrite app_nil_r. cbn [app]. rewrite N.add_0_l, HD3. apply (md_flat o). exact HD1.
    + intros off it HI. apply other_no_md. rewrite Forall_forall in Htail. auto.
    + intros off it HI. apply other_no_md. rewrite Forall_forall in Hpre. auto.
  - intros a data c HI. apply in_app_or in HI. destruct HI as [HI|HI].
    { rewrite Forall_forall in Hpre. destruct (Hpre _ HI). }
    apply in_app_or in HI. destruct HI as [HI|HI].
    2:{ rewrite Forall_forall in Htail. destruct (Htail _ HI). }
    apply in_flat_map in HI. destruct HI as (x & Hx & HI).
    rewrite Forall_forall in HD1. specialize (HD1 _ Hx).
    destruct x as [it|m|k mis]; cbn [flat1 In] in HI.
    + destruct HI as [->|[]]. cbn [data_sitem] in HD1. tauto.
    + destruct HI as [HI|[]]. discriminate.
    + destruct HI as [HI|HI]; [discriminate|]. apply in_map_iff in HI. destruct HI as (mi & HI & _). discriminate.
Qed.

End WithEnv.


(* ================= part N ================= *)
(* ---------- reading the functional index descriptions as "there is a split" statements ---------- *)
Lemma att_entry_split T ai : In ai (flat_map att_entry (located 0 T)) ->
  exists pre post a data crc,
    T = pre ++ IAttach a data crc :: post /\
    ai_offset ai = offset_of pre /\ ai_length ai = blen (render_item (IAttach a data crc)) /\
    ai_log ai = a_log a /\ ai_create ai = a_create a /\ ai_size ai = blen data /\
    ai_name ai = a_name a /\ ai_media ai = a_media a.
Proof.
  intro HI. apply in_flat_map in HI. destruct HI as (p & Hp & HI).
  destruct (In_located _ _ _ Hp) as (pre & post & HT & Hoff). rewrite N.add_0_l in Hoff.
  destruct p as [off it]. cbn [fst snd] in *. unfold att_entry in HI. cbn [snd fst] in HI.
  destruct it as [| | |a data crc|]; [destruct HI | destruct HI | destruct HI | | destruct HI].
  destruct HI as [<-|[]].
  exists pre, post, a, data, crc. cbn. repeat split; auto.
Qed.

Lemma md_rel_split T p mx : In p (located 0 T) -> md_rel p mx ->
  exists pre post m,
    T = pre ++ IRec OpMetadata (enc_metadata m) :: post /\
    mx_offset mx = offset_of pre /\ mx_length mx = blen (frame OpMetadata (enc_metadata m)) /\
    mx_name mx = md_name m.
Proof.
  intros Hp (R1 & R2 & m & R3 & R4).
  destruct (In_located _ _ _ Hp) as (pre & post & HT & Hoff). rewrite N.add_0_l in Hoff.
  exists pre, post, m. rewrite R3 in HT, R2. rewrite R1, Hoff. auto.
Qed.

Lemma ci_split S : forall off ci, In ci (flat_map exp_ci (slocated off S)) ->
  exists Sa k mis Sb, S = Sa ++ SChunk k mis :: Sb /\ ci = mk_ci k mis (off + offset_of (flatten Sa)).
Proof.
  intros off ci HI. apply in_flat_map in HI. destruct HI as (p & Hp & HI).
  destruct (In_slocated _ _ _ Hp) as (Sa & Sb & HS & Hoff).
  destruct p as [o' x]. cbn [fst snd] in *. unfold exp_ci in HI. cbn [snd fst] in HI.
  destruct x as [it|m|k mis]; [destruct HI | destruct HI |]. destruct HI as [<-|[]].
  exists Sa, k, mis, Sb. rewrite Hoff. auto.
Qed.

Lemma mi_offsets_chans mis : forall base, map fst (mi_offsets base mis) = map mi_chan mis.
Proof. induction mis as [|mi r IH]; intro base; cbn [mi_offsets map fst]; [reflexivity|]. rewrite IH. reflexivity. Qed.
Lemma mi_offsets_split mis : forall base ch off, In (ch, off) (mi_offsets base mis) ->
  exists m1 mi m2, mis = m1 ++ mi :: m2 /\ ch = mi_chan mi /\ off = base + blen (rendered (map mi_item m1)).
Proof.
  induction mis as [|mi r IH]; intros base ch off HI; cbn [mi_offsets] in HI; [destruct HI|].
  destruct HI as [E|HI].
  - injection E as <- <-. exists [], mi, r. cbn [map app]. rewrite rendered_nil, blen_nil, N.add_0_r. auto.
  - destruct (IH _ _ _ HI) as (m1 & mi' & m2 & -> & -> & ->). exists (mi :: m1), mi', m2.
    cbn [map app]. rewrite rendered_cons, blen_app, N.add_assoc. auto.
Qed.

Lemma group_offsets_ops gs : forall base, map so_op (group_offsets base gs) = map fst gs.
Proof. induction gs as [|g r IH]; intro base; cbn [group_offsets map so_op]; [reflexivity|]. rewrite IH. reflexivity. Qed.
Lemma group_offsets_split gs : forall base so, In so (group_offsets base gs) ->
  exists g1 g g2, gs = g1 ++ g :: g2 /\ so_op so = fst g /\
                  so_start so = base + blen (rendered (sum_items g1)) /\
                  so_length so = blen (rendered (group_items g)).
Proof.
  induction gs as [|g r IH]; intros base so HI; cbn [group_offsets] in HI; [destruct HI|].
  destruct HI as [<-|HI].
  - exists [], g, r. cbn [app so_op so_start so_length]. change (sum_items []) with (@nil item).
    rewrite rendered_nil, blen_nil, N.add_0_r. auto.
  - destruct (IH _ _ HI) as (g1 & g' & g2 & -> & E1 & E2 & E3). exists (g :: g1), g', g2.
    change (sum_items (g :: g1)) with (group_items g ++ sum_items g1).
    rewrite rendered_app, blen_app, N.add_assoc. auto.
Qed.

(* minimum / maximum of the message log times *)
Lemma fold_min_spec ts : forall seed,
  let r := fold_left N.min ts seed in
  r <= seed /\ Forall (fun t => r <= t) ts /\ (r = seed \/ In r ts).
Proof.
  induction ts as [|t ts IH]; intro seed; cbn [fold_left]; [cbv zeta; repeat split; auto; lia|].
  specialize (IH (N.min seed t)). cbv zeta in *. destruct IH as (I1 & I2 & I3). repeat split.
  - lia.
  - constructor; [lia | exact I2].
  - destruct I3 as [I3|I3]; [|right; right; exact I3].
    destruct (N.min_spec seed t) as [[_ E]|[_ E]]; rewrite E in I3; [left | right; left]; congruence.
Qed.
Lemma fold_max_spec ts : forall seed,
  let r := fold_left N.max ts seed in
  seed <= r /\ Forall (fun t => t <= r) ts /\ (r = seed \/ In r ts).
Proof.
  induction ts as [|t ts IH]; intro seed; cbn [fold_left]; [cbv zeta; repeat split; auto; lia|].
  specialize (IH (N.max seed t)). cbv zeta in *. destruct IH as (I1 & I2 & I3). repeat split.
  - lia.
  - constructor; [lia | exact I2].
  - destruct I3 as [I3|I3]; [|right; right; exact I3].
    destruct (N.max_spec seed t) as [[_ E]|[_ E]]; rewrite E in I3; [right; left | left]; congruence.
Qed.
(* chunk_times is (0,0) for no message, otherwise the true (min, max) -- for uint64 times *)
Lemma chunk_times_spec ts : ts <> [] -> Forall (fun t => t <= max_u64) ts ->
  let (a, b) := chunk_times ts in
  In a ts /\ In b ts /\ Forall (fun t => a <= t /\ t <= b) ts.
Proof.
  intros Hne Hb. unfold chunk_times. destruct ts as [|t0 ts0] eqn:E; [congruence|]. rewrite <- E in *.
  destruct (fold_min_spec ts max_u64) as (A1 & A2 & A3). destruct (fold_max_spec ts 0) as (B1 & B2 & B3).
  cbv zeta in *.
  assert (HA : In (fold_left N.min ts max_u64) ts).
  { destruct A3 as [A3|A3]; [|exact A3]. rewrite E in *. inversion A2; inversion Hb; subst.
    left. lia. }
  assert (HB : In (fold_left N.max ts 0) ts).
  { destruct B3 as [B3|B3]; [|exact B3]. rewrite E in *. inversion B2; subst. left. lia. }
  repeat split; auto.
  rewrite Forall_forall in *. intros t Ht. split; auto.
Qed.

Section WithEnv.
Variable o : wopts.
Variable compress : nat -> bytes -> bytes.

Lemma chunks_ok_split S : forall n Sa k mis Sb,
  chunks_ok o compress n S -> S = Sa ++ SChunk k mis :: Sb -> chunk_ok o compress (n + nchunks Sa) k mis.
Proof. intros n Sa k mis Sb H ->. apply chunks_ok_app in H. destruct H as [_ H]. cbn [chunks_ok] in H. apply H. Qed.

(* a chunk's message index records end where the next structured item begins *)
Lemma head_not_mi x : data_sitem o x ->
  match flat1 x with IRec op _ :: _ => op <> OpMessageIndex | _ => True end.
Proof using Type.
  clear compress. destruct x as [it|m|k mis]; cbn [flat1 data_sitem]; auto.
  - destruct it; auto. intros [_ [->|[->| ->]]]; discriminate.
  - intros _. discriminate.
Qed.

(* kinds of top-level items between Header and DataEnd *)
Definition data_item (it : item) : Prop :=
  match it with
  | IRec op _ =>
      (o_chunked o = false /\ In op [OpSchema; OpChannel; OpMessage]) \/
      op = OpMetadata \/ (o_chunked o = true /\ op = OpMessageIndex)
  | IChunk _ => o_chunked o = true
  | IAttach _ _ _ => True
  | _ => False
  end.
Lemma data_items_kind D : Forall (data_sitem o) D -> Forall data_item (flatten D).
Proof using Type.
  clear compress. induction 1 as [|x D Hx _ IH]; [constructor|].
  change (flatten (x :: D)) with (flat1 x ++ flatten D). apply Forall_app. split; [|exact IH].
  destruct x as [it|m|k mis]; cbn [flat1 data_sitem] in *.
  - constructor; [|constructor]. destruct it; cbn [data_item]; auto.
    destruct Hx as [Hc Hop]. left. split; [exact Hc|]. cbn [In]. destruct Hop as [->|[->| ->]]; auto.
  - constructor; [|constructor]. cbn. auto.
  - constructor; [exact Hx|]. apply Forall_forall. intros it HI. apply in_map_iff in HI.
    destruct HI as (mi & <- & _). cbn. auto.
Qed.

End WithEnv.


(* ================= part O ================= *)
Definition is_chunk_item (it : item) : bool := match it with IChunk _ => true | _ => false end.
Definition count_chunks (T : list item) : nat := length (filter is_chunk_item T).

Lemma Forall2_In_r {A B} (R : A -> B -> Prop) l1 l2 y :
  Forall2 R l1 l2 -> In y l2 -> exists x, In x l1 /\ R x y.
Proof.
  induction 1 as [|a b l1 l2 Hab _ IH]; intro HI; [destruct HI|].
  destruct HI as [<-|HI]; [exists a; split; [left; reflexivity | exact Hab]|].
  destruct (IH HI) as (x & Hx & HR). exists x. split; [right; exact Hx | exact HR].
Qed.

Lemma count_chunks_app a b : count_chunks (a ++ b) = (count_chunks a + count_chunks b)%nat.
Proof. unfold count_chunks. rewrite filter_app, app_length. reflexivity. Qed.

Section WithEnv.
Variable o : wopts.
Variable lib_id : bytes.
Variable compress : nat -> bytes -> bytes.

Lemma count_chunks_flatten S : Forall (data_sitem o) S -> count_chunks (flatten S) = nchunks S.
Proof using Type.
  clear lib_id compress.
  induction 1 as [|x S Hx _ IH]; [reflexivity|].
  change (flatten (x :: S)) with (flat1 x ++ flatten S). rewrite count_chunks_app, IH.
  change (nchunks (x :: S)) with (length (filter is_chunk (x :: S))). cbn [filter].
  destruct x as [it|m|k mis]; cbn [flat1 is_chunk data_sitem] in *.
  - destruct it; try destruct Hx; reflexivity.
  - reflexivity.
  - unfold count_chunks. cbn [filter is_chunk_item length]. fold (nchunks S). f_equal.
    replace (filter is_chunk_item (map mi_item mis)) with (@nil item); [reflexivity|].
    induction mis; [reflexivity | assumption].
Qed.

Lemma count_chunks_prefix h : count_chunks (file_prefix o lib_id h) = 0%nat.
Proof using Type. clear compress. unfold file_prefix. destruct (o_skip_magic o); reflexivity. Qed.

(* every chunk index entry designates a chunk of the file, its message index records and its contents *)
Theorem closed_chunk_split pre s :
  count_chunks pre = 0%nat -> ClosedFile o compress pre s ->
  forall ci, In ci (w_chunk_indexes s) ->
  exists p k mis post,
    rev (w_trace s) = p ++ IChunk k :: map mi_item mis ++ post /\
    match post with IRec op _ :: _ => op <> OpMessageIndex | [] => False | _ => True end /\
    ci = mk_ci k mis (offset_of p) /\
    chunk_ok o compress (count_chunks p) k mis.
Proof using Type.
  clear lib_id.
  intros Hpre (D & de & B1 & B2 & B3 & ss & sos & crc & HC) ci HI. cbv zeta in HC.
  destruct HC as (HT & _ & (HD1 & _ & _ & HD4 & HD5) & _).
  rewrite HD4 in HI. destruct (ci_split _ _ _ HI) as (Sa & k & mis & Sb & HS & Hci).
  subst D. apply Forall_app in HD1. destruct HD1 as [HSa HSb]. inversion HSb as [|x l _ HSb2]; subst.
  exists (pre ++ flatten Sa), k, mis.
  eexists. split; [|split; [|split]].
  - rewrite HT, flatten_app. change (flatten (SChunk k mis :: Sb)) with ((IChunk k :: map mi_item mis) ++ flatten Sb).
    rewrite <- !app_assoc. cbn [app]. rewrite <- ?app_assoc. reflexivity.
  - destruct Sb as [|x Sb2]; [cbn; discriminate|].
    inversion HSb2 as [|y l Hx _]; subst. pose proof (head_not_mi o x Hx) as Hh.
    change (flatten (x :: Sb2)) with (flat1 x ++ flatten Sb2).
    destruct x as [it|m|k2 mis2]; cbn [flat1 app] in *; auto.
  - rewrite offset_of_app. reflexivity.
  - rewrite count_chunks_app, Hpre, count_chunks_flatten by exact HSa.
    eapply chunks_ok_split; [exact HD5 | reflexivity].
Qed.

Theorem closed_att_split pre s :
  Forall other_item pre -> ClosedFile o compress pre s ->
  forall ai, In ai (w_att_indexes s) ->
  exists p post a data crc,
    rev (w_trace s) = p ++ IAttach a data crc :: post /\
    ai_offset ai = offset_of p /\ ai_length ai = blen (render_item (IAttach a data crc)) /\
    ai_log ai = a_log a /\ ai_create ai = a_create a /\ ai_size ai = blen data /\
    ai_name ai = a_name a /\ ai_media ai = a_media a /\
    a_size a = blen data /\ crc = crc32 (enc_attachment_fields a ++ data).
Proof using Type.
  clear lib_id.
  intros Hpre HC ai HI. destruct (closed_index_items o compress pre s Hpre HC) as (H1 & _ & H3).
  cbv zeta in *. rewrite H1 in HI.
  destruct (att_entry_split _ _ HI) as (p & post & a & data & crc & HT & Q).
  exists p, post, a, data, crc. split; [exact HT|].
  assert (HA : In (IAttach a data crc) (rev (w_trace s))) by (rewrite HT; apply in_or_app; right; left; reflexivity).
  destruct (H3 _ _ _ HA). tauto.
Qed.

Theorem closed_md_split pre s :
  Forall other_item pre -> ClosedFile o compress pre s ->
  forall mx, In mx (w_md_indexes s) ->
  exists p post m,
    rev (w_trace s) = p ++ IRec OpMetadata (enc_metadata m) :: post /\
    mx_offset mx = offset_of p /\ mx_length mx = blen (frame OpMetadata (enc_metadata m)) /\
    mx_name mx = md_name m.
Proof using Type.
  clear lib_id.
  intros Hpre HC mx HI. destruct (closed_index_items o compress pre s Hpre HC) as (_ & H2 & _).
  cbv zeta in *. destruct (Forall2_In_r _ _ _ _ H2 HI) as (p & Hp & HR).
  apply filter_In in Hp. destruct Hp as [Hp _]. eapply md_rel_split; eassumption.
Qed.

End WithEnv.

(* ---------- the statements about W ---------- *)
Section Top.
Variable o : wopts.
Variable lib_id : bytes.
Variable compress : nat -> bytes -> bytes.
Variable cs : list wcall.

Let R := W o lib_id compress None cs.
Let eo := effective_opts o.

Lemma run_ok_calls l : forall s s2 acc, run_ok eo lib_id compress l s = Some s2 ->
  exists rs2, run_calls eo lib_id compress None l s acc = (s2, rev acc ++ rs2) /\ all_ok rs2.
Proof using Type.
  clear R. induction l as [|c r IH]; intros s s2 acc H; cbn [WriterFactsC.run_ok run_calls] in *.
  - injection H as <-. exists []. rewrite app_nil_r. split; [reflexivity | constructor].
  - destruct (step eo lib_id compress None c s) as [s1 [e|]] eqn:E; [discriminate|].
    destruct (IH _ _ ((None, w_nw s1) :: acc) H) as (rs2 & HR & HA).
    exists ((None, w_nw s1) :: rs2). split.
    + rewrite HR. cbn [rev]. rewrite <- app_assoc. reflexivity.
    + constructor; [reflexivity | exact HA].
Qed.

(* item 1 at every call boundary: the run of any prefix of the call list *)
Theorem C05_sizes_at_boundaries : r_new R = None -> all_ok (r_calls R) ->
  forall cs1 cs2, cs = cs1 ++ cs2 ->
  let R1 := W o lib_id compress None cs1 in
  file_of R1 = rendered (rev (w_trace (r_final R1))) /\ w_size (r_final R1) = blen (file_of R1).
Proof.
  intros HN HA cs1 cs2 Hcs. destruct (W_run o lib_id compress cs HN HA) as (s0 & HN0 & HR & _).
  fold eo in HN0, HR. rewrite Hcs in HR. destruct (run_ok_app _ _ _ _ _ _ _ HR) as (s1 & HR1 & _).
  destruct (run_ok_calls _ _ _ [] HR1) as (rs2 & HC & HA1). cbn [rev app] in HC.
  cbv zeta. apply C05_bytes_are_trace.
  - unfold W. fold eo. rewrite HN0, HC. reflexivity.
  - unfold W. fold eo. rewrite HN0, HC. exact HA1.
Qed.

End Top.


(* ================= part P ================= *)
Definition all_okb (rs : list (option err * nat)) : bool :=
  forallb (fun r => match fst r with None => true | Some _ => false end) rs.
Lemma all_okb_ok rs : all_okb rs = true -> all_ok rs.
Proof.
  unfold all_okb, all_ok. rewrite forallb_forall, Forall_forall. intros H r HI. specialize (H r HI).
  destruct (fst r); [discriminate | reflexivity].
Qed.
Lemma att_small_callb_ok cs : forallb att_small_callb cs = true -> Forall att_small_call cs.
Proof.
  rewrite forallb_forall, Forall_forall. intros H c HI. specialize (H c HI).
  destruct c; cbn in *; auto. apply N.ltb_lt. exact H.
Qed.

Definition post_head_not_mi (post : list item) : Prop :=
  match post with IRec op _ :: _ => op <> OpMessageIndex | [] => False | _ => True end.

Section Top2.
Variable o : wopts.
Variable lib_id : bytes.
Variable compress : nat -> bytes -> bytes.
Variable cs : list wcall.

Let R := W o lib_id compress None cs.
Let eo := effective_opts o.
Let s := r_final R.
Let tr := rev (w_trace s).

Definition C05_hyps : Prop :=
  r_new R = None /\ all_ok (r_calls R) /\ legal_shape cs = true /\ Forall att_small_call cs.

Theorem C05_index_items : C05_hyps ->
  w_att_indexes s = flat_map att_entry (located 0 tr) /\
  Forall2 md_rel (filter is_md_item (located 0 tr)) (w_md_indexes s) /\
  (forall a data crc, In (IAttach a data crc) tr ->
     a_size a = blen data /\ crc = crc32 (enc_attachment_fields a ++ data)).
Proof.
  intros (HN & HA & HL & HS).
  destruct (C05_closed_file o lib_id compress cs HN HA HL HS) as (h & _ & HC).
  exact (closed_index_items eo compress _ _ (prefix_other eo lib_id h) HC).
Qed.

Theorem C05_att_index_split : C05_hyps ->
  forall ai, In ai (w_att_indexes s) ->
  exists p post a data crc,
    tr = p ++ IAttach a data crc :: post /\
    ai_offset ai = offset_of p /\ ai_length ai = blen (render_item (IAttach a data crc)) /\
    ai_log ai = a_log a /\ ai_create ai = a_create a /\ ai_size ai = blen data /\
    ai_name ai = a_name a /\ ai_media ai = a_media a /\
    a_size a = blen data /\ crc = crc32 (enc_attachment_fields a ++ data).
Proof.
  intros (HN & HA & HL & HS).
  destruct (C05_closed_file o lib_id compress cs HN HA HL HS) as (h & _ & HC).
  exact (closed_att_split eo compress _ _ (prefix_other eo lib_id h) HC).
Qed.

Theorem C05_md_index_split : C05_hyps ->
  forall mx, In mx (w_md_indexes s) ->
  exists p post m,
    tr = p ++ IRec OpMetadata (enc_metadata m) :: post /\
    mx_offset mx = offset_of p /\ mx_length mx = blen (frame OpMetadata (enc_metadata m)) /\
    mx_name mx = md_name m.
Proof.
  intros (HN & HA & HL & HS).
  destruct (C05_closed_file o lib_id compress cs HN HA HL HS) as (h & _ & HC).
  exact (closed_md_split eo compress _ _ (prefix_other eo lib_id h) HC).
Qed.

Theorem C05_chunk_index_split : C05_hyps ->
  forall ci, In ci (w_chunk_indexes s) ->
  exists p k mis post,
    tr = p ++ IChunk k :: map mi_item mis ++ post /\
    post_head_not_mi post /\
    ci = mk_ci k mis (offset_of p) /\
    chunk_ok eo compress (count_chunks p) k mis.
Proof.
  intros (HN & HA & HL & HS).
  destruct (C05_closed_file o lib_id compress cs HN HA HL HS) as (h & _ & HC).
  exact (closed_chunk_split eo compress _ _ (count_chunks_prefix eo lib_id h) HC).
Qed.

End Top2.

Definition C05_statement : Prop :=
  forall (o : wopts) (lib_id : bytes) (compress : nat -> bytes -> bytes) (cs : list wcall),
  let R := W o lib_id compress None cs in
  let eo := effective_opts o in
  let s := r_final R in
  let tr := rev (w_trace s) in
  r_new R = None -> all_ok (r_calls R) ->
  (* 1. bytes = rendered trace, exact size, also after every prefix of the calls *)
  (file_of R = rendered tr /\ w_size s = blen (file_of R)) /\
  (forall cs1 cs2, cs = cs1 ++ cs2 ->
     let R1 := W o lib_id compress None cs1 in
     file_of R1 = rendered (rev (w_trace (r_final R1))) /\ w_size (r_final R1) = blen (file_of R1)) /\
  (legal_shape cs = true -> Forall att_small_call cs ->
   exists h, (exists body, cs = CHeader h :: body ++ [CClose]) /\
     (* 2., 3. (S-level), 4., 5., 6. *)
     ClosedFile eo compress (file_prefix eo lib_id h) s /\
     (* 3. at the level of plain items *)
     w_att_indexes s = flat_map att_entry (located 0 tr) /\
     Forall2 md_rel (filter is_md_item (located 0 tr)) (w_md_indexes s) /\
     (forall a data crc, In (IAttach a data crc) tr ->
        a_size a = blen data /\ crc = crc32 (enc_attachment_fields a ++ data)) /\
     (forall ci, In ci (w_chunk_indexes s) ->
        exists p k mis post,
          tr = p ++ IChunk k :: map mi_item mis ++ post /\ post_head_not_mi post /\
          ci = mk_ci k mis (offset_of p) /\ chunk_ok eo compress (count_chunks p) k mis)).

Theorem C05_all : C05_statement.
Proof.
  intros o lib_id compress cs R eo s tr HN HA.
  split; [exact (C05_bytes_are_trace o lib_id compress cs HN HA)|].
  split; [exact (C05_sizes_at_boundaries o lib_id compress cs HN HA)|].
  intros HL HS.
  destruct (C05_closed_file o lib_id compress cs HN HA HL HS) as (h & Hb & HC).
  exists h. split; [exact Hb|]. split; [exact HC|].
  destruct (C05_index_items o lib_id compress cs (conj HN (conj HA (conj HL HS)))) as (I1 & I2 & I3).
  split; [exact I1|]. split; [exact I2|]. split; [exact I3|].
  exact (C05_chunk_index_split o lib_id compress cs (conj HN (conj HA (conj HL HS)))).
Qed.
