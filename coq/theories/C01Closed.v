(* C01Closed.v - the write/read round trip of C01 with the well-formedness of the written file
   (LexSpec.wf_file) and the fuel bound DISCHARGED from hypotheses about the inputs.

   Part 1  sizes of the call list; what the writer logs (wgood), as an invariant WInv over
           run_calls, one lemma per writer function (explicit state transformers of WriterFactsC).
   Part 2  Close: the shape of the complete trace (writer_trace_struct).
   Part 3  the lexer side: every item of such a trace is wf_item for a lexer configuration whose
           limits are not exceeded (lex_limits); writer_trace_wf.
   Part 4  fuel: file_steps is bounded by the file length plus the uncompressed chunk bytes.
   Part 5  C01_closed: the round trip without wf_file / fuel hypotheses.
   Part 6  non-vacuity: the four workloads of C01.v satisfy every hypothesis by computation; two
           configurations showing that the extra hypotheses cannot be dropped. *)
From Coq Require Import List NArith ZArith Bool Lia ZifyN ZifyNat ZifyBool.
From Coq.Strings Require Import Byte.
From RecordUpdate Require Import RecordSet.
From Mcap Require Import Bytes BytesFacts GoSem Crc32 Crc32Facts Records RecordsFacts Writer WriterFactsA WriterFactsB
  Lexer LexSpec LexerFactsB ComposeFacts.
From Mcap Require WriterFactsC.
Import ListNotations RecordSetNotations.
Open Scope N_scope.
Ltac Zify.zify_post_hook ::= Z.div_mod_to_equations.

(* ====================================================================== *)
(** * 1. what the writer logs *)

Definition plain_op (op : byte) : Prop := op <> OpChunk /\ op <> OpAttachment /\ op <> x00.
Definition auto_rec (r : byte * bytes) : Prop := auto_op (fst r) = true.

Lemma auto_op_plain op : auto_op op = true -> plain_op op.
Proof. destruct op; cbn; intro H; try discriminate H; repeat split; discriminate. Qed.

(* the bytes a call adds to the chunk buffer of a chunked writer *)
Definition call_bytes (c : wcall) : N :=
  match c with
  | CSchema s => 9 + blen (enc_schema s)
  | CChannel c => 9 + blen (enc_channel c)
  | CMessage m => 9 + blen (enc_message m)
  | _ => 0
  end.
Definition auto_bytes (cs : list wcall) : N := fold_right (fun c n => call_bytes c + n) 0 cs.

(* the 64-bit time fields are 64-bit values (true of any Go uint64) *)
Definition call_times_ok (c : wcall) : Prop :=
  match c with
  | CMessage m => m_log m < two64
  | CAttachment a _ => a_log a < two64 /\ a_create a < two64
  | _ => True
  end.
Definition call_att_ok (c : wcall) : Prop :=
  match c with
  | CAttachment a _ => a_log a < two64 /\ a_create a < two64
  | _ => True
  end.

Lemma call_times_of_wf o lib c : call_wf o lib c -> call_att_ok c -> call_times_ok c.
Proof.
  destruct c as [h|sc|ch|m|a src|md|]; cbn [call_wf call_att_ok call_times_ok]; auto.
  intros (_ & _ & H & _) _. exact H.
Qed.

Definition item_usize (it : item) : N := match it with IChunk k => k_usize k | _ => 0 end.
Definition tr_usize (T : list item) : N := fold_right (fun it n => item_usize it + n) 0 T.

Lemma tr_usize_cons x a : tr_usize (x :: a) = item_usize x + tr_usize a.
Proof. reflexivity. Qed.
Lemma tr_usize_app a b : tr_usize (a ++ b) = tr_usize a + tr_usize b.
Proof. induction a as [|x a IH]; [reflexivity|]. cbn [app]. rewrite !tr_usize_cons, IH. lia. Qed.
Lemma tr_usize_rev a : tr_usize (rev a) = tr_usize a.
Proof.
  induction a as [|x a IH]; [reflexivity|]. cbn [rev]. rewrite tr_usize_app, IH, !tr_usize_cons.
  cbn [tr_usize fold_right]. lia.
Qed.
Lemma tr_usize_zero a : Forall (fun it => item_usize it = 0) a -> tr_usize a = 0.
Proof. induction 1 as [|x a Hx _ IH]; [reflexivity|]. rewrite tr_usize_cons, Hx, IH. reflexivity. Qed.
Lemma tr_usize_in k a : In (IChunk k) a -> k_usize k <= tr_usize a.
Proof.
  induction a as [|x a IH]; [intros []|]. rewrite tr_usize_cons. intros [->|H]; [cbn [item_usize]; lia|].
  specialize (IH H). lia.
Qed.

Lemma auto_bytes_cons c a : auto_bytes (c :: a) = call_bytes c + auto_bytes a.
Proof. reflexivity. Qed.
Lemma auto_bytes_app a b : auto_bytes (a ++ b) = auto_bytes a + auto_bytes b.
Proof. induction a as [|x a IH]; [reflexivity|]. cbn [app]. rewrite !auto_bytes_cons, IH. lia. Qed.

Lemma frames_app2 a b : frames (a ++ b) = frames a ++ frames b.
Proof. unfold frames. rewrite map_app, concat_app. reflexivity. Qed.

Lemma frames_body_le r inner : In r inner -> 9 + blen (snd r) <= blen (frames inner).
Proof.
  intro H. apply in_split in H. destruct H as (a & b & ->).
  rewrite frames_app2, frames_cons, !blen_app, WriterFactsC.blen_frame. lia.
Qed.

Lemma frames_len_ge inner : (9 * length inner <= length (frames inner))%nat.
Proof.
  induction inner as [|r inner IH]; [cbn; lia|]. rewrite frames_cons, app_length, frame_length. cbn [length]. lia.
Qed.

(* the fields of the state the invariant reads besides the trace *)
Definition tv (s : wstate) := (w_cbuf s, w_closed s, w_cur_start s, w_cur_end s).

Lemma tv_proj s s' : tv s' = tv s ->
  w_cbuf s' = w_cbuf s /\ w_closed s' = w_closed s /\ w_cur_start s' = w_cur_start s /\ w_cur_end s' = w_cur_end s.
Proof. unfold tv. intro H. injection H. auto. Qed.

Section WInv.
Variable o : wopts.
Variable lib : bytes.
Variable compress : nat -> bytes -> bytes.

Notation dw := (WriterFactsC.dw o).
Notation rec_dst := (WriterFactsC.rec_dst o).

(* what an item logged before Close looks like *)
Definition wgood (it : item) : Prop :=
  match it with
  | IMagic => False
  | IRec op body => plain_op op
  | IChunk k =>
    o_chunked o = true /\ k_comp k = o_comp o /\ k_start k < two64 /\ k_end k < two64 /\
    exists n inner, Forall auto_rec inner /\ k_records k = compress n (frames inner)
                    /\ k_usize k = blen (frames inner)
                    /\ k_crc k = (if o_crc o then crc32 (frames inner) else 0)
  | IAttach a data crc =>
    a_size a = blen data /\ crc = crc32 (enc_attachment_fields a ++ data) /\ a_log a < two64 /\ a_create a < two64
  | IFooter _ _ _ => False
  end.

(* base: what NewWriter logged; U: a budget for the uncompressed bytes of all chunks *)
Definition WInv (base : list item) (U : N) (s : wstate) : Prop :=
  w_closed s = false /\ w_cur_start s < two64 /\ w_cur_end s < two64 /\
  exists pend T,
    w_cbuf s = frames pend /\ Forall auto_rec pend /\ (o_chunked o = false -> pend = []) /\
    w_trace s = T ++ base /\ Forall wgood T /\ tr_usize T + blen (w_cbuf s) <= U.

Lemma WInv_mono base U U' s : U <= U' -> WInv base U s -> WInv base U' s.
Proof.
  intros HU (H1 & H2 & H3 & pend & T & P1 & P2 & P3 & P4 & P5 & P6).
  split; [exact H1|]. split; [exact H2|]. split; [exact H3|]. exists pend, T. repeat split; try assumption. lia.
Qed.

Lemma WInv_tv base U s s' : WInv base U s -> tv s' = tv s -> w_trace s' = w_trace s -> WInv base U s'.
Proof.
  intros (H1 & H2 & H3 & pend & T & P1 & P2 & P3 & P4 & P5 & P6) Htv Htr.
  destruct (tv_proj _ _ Htv) as (A & B & C & D). unfold WInv. rewrite A, B, C, D, Htr.
  split; [exact H1|]. split; [exact H2|]. split; [exact H3|]. exists pend, T. repeat split; assumption.
Qed.

Lemma WInv_item base U s s' it :
  WInv base U s -> tv s' = tv s -> w_trace s' = it :: w_trace s -> wgood it -> item_usize it = 0 -> WInv base U s'.
Proof.
  intros (H1 & H2 & H3 & pend & T & P1 & P2 & P3 & P4 & P5 & P6) Htv Htr Hg Hu.
  destruct (tv_proj _ _ Htv) as (A & B & C & D). unfold WInv. rewrite A, B, C, D, Htr.
  split; [exact H1|]. split; [exact H2|]. split; [exact H3|]. exists pend, (it :: T).
  split; [exact P1|]. split; [exact P2|]. split; [exact P3|]. split; [rewrite P4; reflexivity|].
  split; [constructor; assumption|]. rewrite tr_usize_cons, Hu. lia.
Qed.

Lemma in_chunk_WInv base U s : WInv base U s -> Writer.in_chunk o s = o_chunked o.
Proof. intros (H1 & _). unfold Writer.in_chunk. rewrite H1. cbn. apply andb_true_r. Qed.

(* a record appended to the chunk buffer *)
Lemma WInv_cbuf base U s s' op body :
  WInv base U s -> o_chunked o = true -> auto_op op = true ->
  w_trace s' = w_trace s -> w_closed s' = w_closed s -> w_cbuf s' = w_cbuf s ++ frame op body ->
  w_cur_start s' < two64 -> w_cur_end s' < two64 ->
  WInv base (U + (9 + blen body)) s'.
Proof.
  intros (H1 & H2 & H3 & pend & T & P1 & P2 & P3 & P4 & P5 & P6) Hch Ha Htr Hcl Hcb Hs He.
  unfold WInv. rewrite Htr, Hcl, Hcb.
  split; [exact H1|]. split; [exact Hs|]. split; [exact He|]. exists (pend ++ [(op, body)]), T.
  split; [rewrite P1, frames_snoc; reflexivity|].
  split; [apply Forall_app; split; [exact P2|]; repeat constructor; exact Ha|].
  split; [intro X; rewrite X in Hch; discriminate|]. split; [exact P4|]. split; [exact P5|].
  rewrite blen_app, WriterFactsC.blen_frame. lia.
Qed.

(* ---------- tv / trace of the explicit state transformers ---------- *)
Lemma tv_rec_dst op body s : tv (rec_dst op body s) = tv s. Proof. reflexivity. Qed.
Lemma trace_rec_dst op body s : w_trace (rec_dst op body s) = IRec op body :: w_trace s. Proof. reflexivity. Qed.
Lemma tv_add_schema sc s : tv (add_schema sc s) = tv s.
Proof. unfold add_schema. destruct (assoc_get _ _); reflexivity. Qed.
Lemma trace_add_schema sc s : w_trace (add_schema sc s) = w_trace s.
Proof. unfold add_schema. destruct (assoc_get _ _); reflexivity. Qed.
Lemma tv_add_channel c s : tv (add_channel c s) = tv s.
Proof. unfold add_channel. destruct (assoc_get _ _); reflexivity. Qed.
Lemma trace_add_channel c s : w_trace (add_channel c s) = w_trace s.
Proof. unfold add_channel. destruct (assoc_get _ _); reflexivity. Qed.
Lemma tv_stats_time t s : tv (stats_time t s) = tv s.
Proof.
  destruct (WriterFactsC.view_proj _ _ (WriterFactsC.stats_time_view t s)) as (_ & _ & _ & Ha).
  destruct (WriterFactsC.aux_proj _ _ Ha) as (A & B & _ & C & D & _). unfold tv. rewrite A, B, C, D. reflexivity.
Qed.
Lemma trace_stats_time t s : w_trace (stats_time t s) = w_trace s.
Proof. destruct (WriterFactsC.view_proj _ _ (WriterFactsC.stats_time_view t s)) as (A & _). exact A. Qed.

Lemma tv_aux s s' : WriterFactsC.aux s' = WriterFactsC.aux s -> tv s' = tv s.
Proof.
  intro Ha. destruct (WriterFactsC.aux_proj _ _ Ha) as (A & B & _ & C & D & _). unfold tv. rewrite A, B, C, D. reflexivity.
Qed.

(* ---------- flushActiveChunk ---------- *)
Lemma tv_wmis mis : forall s, tv (WriterFactsC.wmis o mis s) = tv s.
Proof. intro s. apply tv_aux, WriterFactsC.aux_wmis. Qed.

Lemma flushed_fields s :
  w_cbuf (WriterFactsC.flushed o compress s) = [] /\
  w_closed (WriterFactsC.flushed o compress s) = w_closed s /\
  w_cur_start (WriterFactsC.flushed o compress s) = max_u64 /\
  w_cur_end (WriterFactsC.flushed o compress s) = 0.
Proof.
  unfold WriterFactsC.flushed. cbv zeta.
  set (s0 := s <| w_cbuf := [] |> <| w_nchunks := S (w_nchunks s) |>).
  set (k := WriterFactsC.fl_chunk o compress s). set (mis := WriterFactsC.fl_mis o s).
  assert (Htv : tv (WriterFactsC.wmis o mis (WriterFactsC.chunk_dst o k s0)) = tv s0).
  { rewrite tv_wmis. reflexivity. }
  destruct (tv_proj _ _ Htv) as (A & B & _ & _).
  split; [|split; [|split; reflexivity]].
  - change (w_cbuf (WriterFactsC.wmis o mis (WriterFactsC.chunk_dst o k s0)) = []). rewrite A. reflexivity.
  - change (w_closed (WriterFactsC.wmis o mis (WriterFactsC.chunk_dst o k s0)) = w_closed s). rewrite B. reflexivity.
Qed.

Lemma mi_item_good mis : Forall wgood (rev (map WriterFactsC.mi_item mis)).
Proof.
  apply Forall_rev. apply Forall_forall. intros it Hit. apply in_map_iff in Hit. destruct Hit as (mi & <- & _).
  cbn. repeat split; discriminate.
Qed.
Lemma mi_item_usize mis : tr_usize (rev (map WriterFactsC.mi_item mis)) = 0.
Proof.
  apply tr_usize_zero, Forall_rev, Forall_forall. intros it Hit. apply in_map_iff in Hit. destruct Hit as (mi & <- & _).
  reflexivity.
Qed.

Lemma flushed_WInv base U s :
  WInv base U s -> o_chunked o = true -> WInv base U (WriterFactsC.flushed o compress s).
Proof.
  intros (H1 & H2 & H3 & pend & T & P1 & P2 & P3 & P4 & P5 & P6) Hch.
  destruct (flushed_fields s) as (A & B & C & D).
  destruct (WriterFactsC.emit_flushed o compress s) as (Etr & _ & _).
  unfold WInv. rewrite A, B, C, D, Etr.
  split; [exact H1|]. split; [reflexivity|]. split; [reflexivity|].
  exists [], (rev (map WriterFactsC.mi_item (WriterFactsC.fl_mis o s)) ++ [IChunk (WriterFactsC.fl_chunk o compress s)] ++ T).
  split; [reflexivity|]. split; [constructor|]. split; [reflexivity|].
  split; [cbn [rev]; rewrite P4, <- !app_assoc; reflexivity|].
  split.
  - apply Forall_app. split; [apply mi_item_good|]. apply Forall_app. split; [|exact P5].
    constructor; [|constructor]. cbn [wgood WriterFactsC.fl_chunk k_comp k_start k_end k_records k_usize k_crc].
    split; [exact Hch|]. split; [reflexivity|].
    split; [unfold WriterFactsC.fl_times; destruct (w_cur_count s =? 0); cbn [fst]; [reflexivity|exact H2]|].
    split; [unfold WriterFactsC.fl_times; destruct (w_cur_count s =? 0); cbn [snd]; [reflexivity|exact H3]|].
    exists (w_nchunks s), pend. rewrite P1. repeat split. exact P2.
  - rewrite !tr_usize_app, mi_item_usize. cbn [tr_usize fold_right item_usize WriterFactsC.fl_chunk k_usize].
    change (blen []) with 0. fold (tr_usize T). lia.
Qed.

Lemma flush_WInv base U s s' :
  WInv base U s -> o_chunked o = true -> flush_active_chunk o compress None s = (s', None) -> WInv base U s'.
Proof.
  intros HI Hch H. destruct (w_cbuf s) eqn:E.
  - rewrite WriterFactsC.flush_nil in H by exact E. injection H as <-. exact HI.
  - rewrite WriterFactsC.flush_eq in H by congruence. injection H as <-. apply flushed_WInv; assumption.
Qed.

(* ---------- one call ---------- *)
Lemma cbuf_rec_chunk op body s : w_cbuf (WriterFactsC.rec_chunk op body s) = w_cbuf s ++ frame op body.
Proof. unfold frame. rewrite app_assoc. reflexivity. Qed.
Lemma cbuf_msg_chunk m s :
  w_cbuf (WriterFactsC.msg_chunk_state m s) = w_cbuf s ++ frame OpMessage (enc_message m).
Proof. unfold frame. rewrite app_assoc. reflexivity. Qed.
Lemma auto_WInv base U s op body (s1 : wstate) :
  WInv base U s -> auto_op op = true ->
  s1 = (if Writer.in_chunk o s then WriterFactsC.rec_chunk op body s else rec_dst op body s) ->
  WInv base (U + (9 + blen body)) s1.
Proof.
  intros HI Ha ->. rewrite (in_chunk_WInv _ _ _ HI). destruct (o_chunked o) eqn:Hch.
  - pose proof HI as (H1 & H2 & H3 & _).
    eapply WInv_cbuf; try eassumption; try reflexivity. apply cbuf_rec_chunk.
  - eapply WInv_mono; [|eapply WInv_item; [exact HI|apply tv_rec_dst|apply trace_rec_dst|apply auto_op_plain, Ha|reflexivity]].
    lia.
Qed.

Lemma frags_tv fr : forall s, tv (WriterFactsC.frags o fr s) = tv s.
Proof. intro s. apply tv_aux, WriterFactsC.aux_frags. Qed.

Lemma tv_att_state a src s : tv (WriterFactsC.att_state o a src s) = tv s.
Proof.
  unfold WriterFactsC.att_state. cbv zeta.
  change (tv (WriterFactsC.frags o (as_frags src)
            (dw (enc_attachment_fields a) (dw (frame_head OpAttachment ((blen (enc_attachment_fields a) + a_size a + 4) mod two64)) s))) = tv s).
  rewrite frags_tv. reflexivity.
Qed.
Lemma trace_att_state a src s :
  w_trace (WriterFactsC.att_state o a src s) =
  IAttach a (concat (as_frags src)) (crc32 (enc_attachment_fields a ++ concat (as_frags src))) :: w_trace s.
Proof.
  unfold WriterFactsC.att_state. cbv zeta.
  change (IAttach a (concat (as_frags src)) (crc32 (enc_attachment_fields a ++ concat (as_frags src))) ::
          w_trace (WriterFactsC.frags o (as_frags src)
            (dw (enc_attachment_fields a) (dw (frame_head OpAttachment ((blen (enc_attachment_fields a) + a_size a + 4) mod two64)) s)))
          = IAttach a (concat (as_frags src)) (crc32 (enc_attachment_fields a ++ concat (as_frags src))) :: w_trace s).
  destruct (WriterFactsC.frags_out o (as_frags src)
    (dw (enc_attachment_fields a) (dw (frame_head OpAttachment ((blen (enc_attachment_fields a) + a_size a + 4) mod two64)) s))) as (Et & _).
  rewrite Et. reflexivity.
Qed.

Lemma step_WInv base U s c s' :
  c <> CClose -> call_times_ok c -> WInv base U s -> step o lib compress None c s = (s', None) ->
  WInv base (U + call_bytes c) s'.
Proof.
  intros Hnc Hok HI H. destruct c as [h|sc|ch|m|a src|md|]; cbn [step call_bytes] in *; [| | | | | |congruence].
  - (* header *)
    rewrite WriterFactsC.write_header_eq in H. injection H as <-. rewrite N.add_0_r.
    eapply WInv_item; [exact HI|apply tv_rec_dst|apply trace_rec_dst|repeat split; discriminate|reflexivity].
  - (* schema *)
    apply WriterFactsC.write_schema_eq in H. subst s'.
    eapply WInv_tv; [|apply tv_add_schema|apply trace_add_schema].
    eapply (auto_WInv base U s OpSchema); [exact HI|reflexivity|reflexivity].
  - (* channel *)
    apply WriterFactsC.write_channel_eq in H. subst s'.
    eapply WInv_tv; [|apply tv_add_channel|apply trace_add_channel].
    eapply (auto_WInv base U s OpChannel); [exact HI|reflexivity|reflexivity].
  - (* message *)
    apply WriterFactsC.write_message_eq in H. destruct H as (c & _ & ->).
    eapply WInv_tv; [|apply tv_stats_time|apply trace_stats_time].
    rewrite (in_chunk_WInv _ _ _ HI). destruct (o_chunked o) eqn:Hch.
    + assert (HI1 : WInv base (U + (9 + blen (enc_message m))) (WriterFactsC.msg_chunk_state m s)).
      { pose proof HI as (H1 & H2 & H3 & _).
        eapply WInv_cbuf with (op := OpMessage); try eassumption; try reflexivity.
        - apply cbuf_msg_chunk.
        - change (N.min (w_cur_start s) (m_log m) < two64). lia.
        - change (N.max (w_cur_end s) (m_log m) < two64). cbn [call_times_ok] in Hok. lia. }
      destruct (_ <? _)%Z; [apply flushed_WInv; assumption|exact HI1].
    + eapply WInv_mono; [|eapply WInv_item with (s := WriterFactsC.msg_pre m s);
        [eapply WInv_tv; [exact HI|reflexivity|reflexivity]|apply tv_rec_dst|apply trace_rec_dst
        |repeat split; discriminate|reflexivity]]. lia.
  - (* attachment *)
    apply WriterFactsC.write_attachment_eq in H. destruct H as [-> Hsz]. rewrite N.add_0_r.
    destruct Hok as [Hl Hc].
    eapply WInv_item with (it := IAttach a (concat (as_frags src)) (crc32 (enc_attachment_fields a ++ concat (as_frags src))));
      [exact HI|apply tv_att_state|apply trace_att_state| |reflexivity].
    cbn [wgood]. repeat split; assumption.
  - (* metadata *)
    rewrite WriterFactsC.write_metadata_eq in H. injection H as <-. rewrite N.add_0_r.
    eapply WInv_item with (it := IRec OpMetadata (enc_metadata md));
      [exact HI|reflexivity|reflexivity|repeat split; discriminate|reflexivity].
Qed.

Lemma run_WInv base cs : forall U s,
  Forall (fun c => c <> CClose) cs -> Forall call_times_ok cs ->
  Forall (fun x : option err * nat => fst x = None) (run_res o lib compress None cs s) ->
  WInv base U s -> WInv base (U + auto_bytes cs) (run_st o lib compress None cs s).
Proof.
  induction cs as [|c r IH]; intros U s Hc Hs Hr HI; cbn [run_st run_res auto_bytes fold_right] in *.
  - rewrite N.add_0_r. exact HI.
  - inversion Hc; subst. inversion Hs; subst. inversion Hr as [|x l Hx Hr']; subst. cbn [fst] in Hx.
    fold (auto_bytes r). rewrite N.add_assoc. apply IH; try assumption.
    destruct (step o lib compress None c s) as [s1 e] eqn:Es. cbn [fst snd] in *. subst e.
    eapply step_WInv; eassumption.
Qed.

Lemma new_writer_WInv s0 :
  new_writer o None = (s0, None) ->
  w_trace s0 = (if o_skip_magic o then [] else [IMagic]) /\ WInv (w_trace s0) 0 s0.
Proof.
  clear lib. unfold new_writer. intro H. apply bindw_None in H. destruct H as (s1 & H1 & H2).
  assert (s0 = s1) as ->.
  { destruct (o_chunked o); [|congruence]. destruct (o_custom o).
    - destruct (bytes_eqb _ _); [discriminate|congruence].
    - destruct (_ || _); [congruence|discriminate]. }
  clear H2.
  assert (X : w_trace s1 = (if o_skip_magic o then [] else [IMagic]) /\ tv s1 = tv init_state).
  { destruct (o_skip_magic o).
    - inversion H1; subst s1. split; reflexivity.
    - rewrite WriterFactsC.dst_write_none in H1. cbn [bindw] in H1. rewrite WriterFactsC.log_eq in H1.
      inversion H1; subst s1. split; reflexivity. }
  destruct X as [Xt Xv]. split; [exact Xt|].
  destruct (tv_proj _ _ Xv) as (A & B & C & D). unfold WInv. rewrite A, B, C, D.
  split; [reflexivity|]. split; [reflexivity|]. split; [reflexivity|].
  exists [], []. repeat split; try constructor. cbn. lia.
Qed.

End WInv.

(* ====================================================================== *)
(** * 2. Close: the shape of the complete trace *)

(* an item of a closed file; F is the length of the file *)
Definition fgood (o : wopts) (compress : nat -> bytes -> bytes) (F : N) (it : item) : Prop :=
  match it with
  | IFooter ss sos crc => ss <= F /\ sos <= F /\ crc < two32
  | _ => wgood o compress it
  end.

Lemma wgood_fgood o compress F it : wgood o compress it -> fgood o compress F it.
Proof. destruct it; cbn [fgood wgood]; auto. intros []. Qed.

Lemma summary_ops_plain op : In op WriterFactsC.summary_ops -> plain_op op.
Proof.
  unfold WriterFactsC.summary_ops. cbn [In]. intro H.
  repeat (destruct H as [<-|H]; [repeat split; discriminate|]). destruct H.
Qed.

Lemma app_two_inj {A} (a b : list A) x y x' y' : a ++ [x; y] = b ++ [x'; y'] -> a = b /\ x = x' /\ y = y'.
Proof.
  intro H. change [x; y] with ([x] ++ [y]) in H. change [x'; y'] with ([x'] ++ [y']) in H.
  rewrite !app_assoc in H. apply app_inj_tail in H. destruct H as [H ->].
  apply app_inj_tail in H. destruct H as [-> ->]. auto.
Qed.

Section Close.
Variable o : wopts.
Variable lib : bytes.
Variable compress : nat -> bytes -> bytes.

Lemma close_struct base U s s' :
  WInv o compress base U s -> PreC o compress s -> close o compress None s = (s', None) ->
  exists recs,
    rev (w_trace s') = rev base ++ recs ++ [IMagic] /\
    Forall (fgood o compress (WriterFactsC.offset_of (rev (w_trace s')))) recs /\
    tr_usize recs <= U.
Proof.
  intros HI HP H.
  destruct (close_spec o lib compress s s' HP H) as (Tpre & Tsum & ss' & sos' & c1 & c2 & Htr' & _ & _ & Hc2 & _).
  assert (HI1 : WriterFactsC.Inv1 s) by (destruct HP as (P1 & P2 & _); split; [exact P1|exact P2]).
  rewrite WriterFactsC.close_split in H. apply bindw_None in H. destruct H as (s1 & Hfl & H).
  assert (HW1 : WInv o compress base U s1 /\ WriterFactsC.Inv1 s1).
  { destruct (o_chunked o) eqn:Hch.
    - split; [eapply flush_WInv; eassumption|].
      destruct (WriterFactsC.flush_emit o compress _ _ Hfl) as (items & Hem).
      eapply WriterFactsC.Inv1_emit; eassumption.
    - inversion Hfl; subst s1. split; assumption. }
  destruct HW1 as [HW1 HI1'].
  destruct (WriterFactsC.close_tail_spec o _ _ HI1' H) as (de & B1 & B2 & B3 & ss & sos & crc & HS).
  cbv zeta in HS. destruct HS as ((Etr & _ & _) & _ & Hss & Hsos).
  set (gs := WriterFactsC.summary_groups o B1 B2 B3 s') in *.
  set (data := rev (w_trace s1) ++ [IRec OpDataEnd de]) in *.
  set (off_items := if o_skip_so o then [] else map WriterFactsC.so_item (WriterFactsC.group_offsets (WriterFactsC.offset_of data) gs)) in *.
  destruct HW1 as (_ & _ & _ & pend & T & _ & _ & _ & P4 & P5 & P6).
  assert (Hrev : rev (w_trace s') = data ++ WriterFactsC.sum_items gs ++ off_items ++ [IFooter ss sos crc; IMagic]).
  { rewrite Etr, rev_app_distr, rev_involutive. unfold data. rewrite <- app_assoc. reflexivity. }
  (* the footer CRC *)
  assert (Hcrc : crc < two32).
  { assert (X : rev (w_trace s') = (rev Tpre ++ IRec OpDataEnd (enc_dataend {| de_crc := c1 |}) :: rev Tsum) ++ [IFooter ss' sos' c2; IMagic]).
    { rewrite Htr'. cbn [rev]. rewrite rev_app_distr. cbn [rev]. rewrite <- !app_assoc. reflexivity. }
    rewrite Hrev, !app_assoc in X. apply app_two_inj in X. destruct X as (_ & X & _). injection X as _ _ ->.
    rewrite Hc2. destruct (o_crc o); [apply crc32_bound|reflexivity]. }
  exists (rev T ++ IRec OpDataEnd de :: WriterFactsC.sum_items gs ++ off_items ++ [IFooter ss sos crc]).
  split; [|split].
  - rewrite Hrev. unfold data. rewrite P4, rev_app_distr, <- !app_assoc. cbn [app].
    rewrite <- !app_assoc. reflexivity.
  - apply Forall_app. split.
    + apply Forall_rev. eapply Forall_impl; [|exact P5]. intro it. apply wgood_fgood.
    + constructor; [cbn; repeat split; discriminate|].
      apply Forall_app. split.
      { apply Forall_forall. intros it Hit.
        destruct (WriterFactsC.sum_items_ops o _ _ _ _ _ Hit) as (op & body & -> & Hop).
        cbn [fgood wgood]. apply summary_ops_plain, Hop. }
      apply Forall_app. split.
      { unfold off_items. destruct (o_skip_so o); [constructor|]. apply Forall_forall. intros it Hit.
        apply in_map_iff in Hit. destruct Hit as (so & <- & _). cbn. repeat split; discriminate. }
      constructor; [|constructor]. cbn [fgood].
      assert (Hd : WriterFactsC.offset_of data <= WriterFactsC.offset_of (rev (w_trace s'))).
      { rewrite Hrev, WriterFactsC.offset_of_app. lia. }
      assert (Hd2 : WriterFactsC.offset_of (data ++ WriterFactsC.sum_items gs) <= WriterFactsC.offset_of (rev (w_trace s'))).
      { rewrite Hrev, app_assoc, (WriterFactsC.offset_of_app (data ++ WriterFactsC.sum_items gs)). lia. }
      split; [rewrite Hss; destruct gs; lia|]. split; [rewrite Hsos; destruct off_items; lia|exact Hcrc].
  - rewrite tr_usize_app, tr_usize_rev, tr_usize_cons.
    assert (Z : tr_usize (WriterFactsC.sum_items gs ++ off_items ++ [IFooter ss sos crc]) = 0).
    { apply tr_usize_zero. apply Forall_app. split.
      - apply Forall_forall. intros it Hit.
        destruct (WriterFactsC.sum_items_ops o _ _ _ _ _ Hit) as (op & body & -> & _). reflexivity.
      - apply Forall_app. split; [|repeat constructor].
        unfold off_items. destruct (o_skip_so o); [constructor|]. apply Forall_forall. intros it Hit.
        apply in_map_iff in Hit. destruct Hit as (so & <- & _). reflexivity. }
    rewrite Z. cbn [item_usize]. lia.
Qed.

End Close.

Lemma o_chunked_eff o : o_chunked (effective_opts o) = o_chunked o.
Proof. unfold effective_opts. destruct (_ && _); reflexivity. Qed.
Lemma o_skip_magic_eff o : o_skip_magic (effective_opts o) = o_skip_magic o.
Proof. unfold effective_opts. destruct (_ && _); reflexivity. Qed.

Lemma fgood_eff o comp F it : fgood (effective_opts o) comp F it -> fgood o comp F it.
Proof.
  destruct it; cbn [fgood wgood]; auto.
  rewrite o_chunked_eff, o_comp_eff, o_crc_eff. auto.
Qed.

(* the complete trace of an error-free run that ends with Close *)
Theorem writer_trace_struct : forall o lib comp cs',
  C06_hyps o lib comp cs' -> Forall call_times_ok cs' ->
  let R := W o lib comp None (cs' ++ [CClose]) in
  exists recs,
    rev (w_trace (r_final R)) = (if o_skip_magic o then [] else [IMagic]) ++ recs ++ [IMagic] /\
    Forall (fgood o comp (blen (file_of R))) recs /\
    tr_usize recs <= auto_bytes cs'.
Proof.
  intros o lib comp cs' Hhyp Ht R.
  pose proof (C01_file_is_trace_thm o lib comp cs' Hhyp) as Hfile. fold R in Hfile. cbv zeta in Hfile.
  destruct Hhyp as (H1 & H2 & H3). revert Hfile. subst R. revert H1 H2. rewrite W_unfold.
  destruct (new_writer (effective_opts o) None) as [s0 [e|]] eqn:Enw; cbn [r_new r_calls r_writes r_final];
    [discriminate|].
  intros _ H2. rewrite run_res_app in H2. rewrite run_st_app.
  apply Forall_app in H2. destruct H2 as [Hr1 Hr2].
  set (s1 := run_st (effective_opts o) lib comp None cs' s0) in *.
  destruct (new_writer_WInv (effective_opts o) comp s0 Enw) as [Hb HI0].
  assert (HI1 : WInv (effective_opts o) comp (w_trace s0) (0 + auto_bytes cs') s1)
    by (apply run_WInv; assumption).
  assert (HP1 : PreC (effective_opts o) comp s1) by (apply (C06_running_core (effective_opts o) lib comp cs' s0); assumption).
  cbn [run_res run_st step] in *. inversion Hr2 as [|x l Hx _]; subst. cbn [fst] in Hx.
  destruct (close (effective_opts o) comp None s1) as [s' e] eqn:Ecl. cbn [fst snd] in *. subst e.
  intro Hfile.
  destruct (close_struct (effective_opts o) lib comp _ _ s1 s' HI1 HP1 Ecl) as (recs & A & B & C).
  exists recs. rewrite Hb, o_skip_magic_eff in A.
  split; [|split].
  - rewrite A. destruct (o_skip_magic o); reflexivity.
  - rewrite Hfile. eapply Forall_impl; [|exact B]. intro it. apply fgood_eff.
  - lia.
Qed.

(* ====================================================================== *)
(** * 3. the lexer side: the trace is a well-formed file *)

(* the lexer's limits are not exceeded by a file of F bytes whose chunks hold at most Uc
   uncompressed bytes each *)
Definition lex_limits (lo : lopts) (F Uc : N) : Prop :=
  F < max_int32 /\ Uc < max_int32 /\
  (lo_max_record lo = 0 \/ (F <= lo_max_record lo /\ Uc <= lo_max_record lo)) /\
  (lo_validate lo = true -> 2 * Uc < max_int32 /\ (lo_max_chunk lo = 0 \/ Uc <= lo_max_chunk lo)).

Lemma len_ok_le lo n m : (lo_max_record lo = 0 \/ m <= lo_max_record lo) -> n <= m -> len_ok lo n.
Proof.
  intros [H|H] Hn; unfold len_ok.
  - rewrite H. reflexivity.
  - apply andb_false_iff. right. apply N.ltb_ge. lia.
Qed.

Lemma blen_enc_chunk k : blen (enc_chunk k) = 40 + blen (k_comp k) + blen (k_records k).
Proof.
  unfold enc_chunk, enc_chunk_top, pstr. rewrite !blen_app, !WriterFactsC.blen_u64, !WriterFactsC.blen_u32. lia.
Qed.
Lemma blen_enc_attachment_fields a : blen (enc_attachment_fields a) = 32 + blen (a_name a) + blen (a_media a).
Proof.
  unfold enc_attachment_fields, pstr. rewrite !blen_app, !WriterFactsC.blen_u64, !WriterFactsC.blen_u32. lia.
Qed.

Lemma render_item_le it l : In it l -> blen (render_item it) <= blen (render l).
Proof.
  intro H. apply in_split in H. destruct H as (a & b & ->).
  rewrite render_app. unfold render at 2. cbn [map concat]. rewrite !blen_app. lia.
Qed.

Section LexSide.
Variable lo : lopts.
Variable ds : doracle.
Variable o : wopts.
Variable comp : nat -> bytes -> bytes.
Variables F Uc : N.
Hypothesis Hcodec : codec_ok lo ds o comp.
Hypothesis Hsup : o_chunked o = true -> comp_supported lo (o_comp o) = true.
Hypothesis Hcb : lo_cb lo = CbNone \/ lo_cb lo = CbFull.
Hypothesis Hpass : lo_validate lo = true -> mem_bytes (o_comp o) (lo_custom lo) = true ->
                   forall n b, blen (comp n b) = blen b.
Hypothesis Hlim : lex_limits lo F Uc.

Lemma fgood_wf it :
  fgood o comp F it -> blen (render_item it) <= F -> item_usize it <= Uc -> wf_item lo ds it.
Proof.
  destruct Hlim as (HF & HU & Hrec & Hval).
  assert (HrF : lo_max_record lo = 0 \/ F <= lo_max_record lo) by (destruct Hrec as [?|[? ?]]; auto).
  assert (HrU : lo_max_record lo = 0 \/ Uc <= lo_max_record lo) by (destruct Hrec as [?|[? ?]]; auto).
  intros Hg Hsz Hu. destruct it as [|op body|k|a data crc|ss sos crc]; cbn [fgood wgood item_usize] in Hg, Hu.
  - destruct Hg.
  - cbn [render_item] in Hsz. rewrite WriterFactsC.blen_frame in Hsz.
    destruct Hg as (A & B & C). cbn [wf_item]. unfold plain_rec_ok. cbn [fst snd].
    split; [exact A|]. split; [exact B|]. split; [exact C|]. split; [lia|].
    apply (len_ok_le lo _ F HrF). lia.
  - destruct Hg as (Hch & Hcomp & Hst & Hen & n & inner & Hauto & Hrecs & Hus & Hcrc).
    cbn [render_item] in Hsz. rewrite WriterFactsC.blen_frame, blen_enc_chunk in Hsz.
    assert (Hinner : Forall (plain_rec_ok lo) inner).
    { apply Forall_forall. intros r Hr. rewrite Forall_forall in Hauto.
      destruct (auto_op_plain _ (Hauto r Hr)) as (A & B & C).
      pose proof (frames_body_le r inner Hr) as Hle. unfold plain_rec_ok.
      split; [exact A|]. split; [exact B|]. split; [exact C|]. split; [lia|].
      apply (len_ok_le lo _ Uc HrU). lia. }
    cbn [wf_item]. unfold wf_chunk_item.
    split.
    { unfold wf_chunk. split; [exact Hst|]. split; [exact Hen|].
      split; [unfold max_int32, two64 in *; lia|].
      split; [rewrite Hcrc; destruct (o_crc o); [exact (crc32_bound _)|reflexivity]|].
      unfold max_int32, two32, two64 in *. lia. }
    split; [apply (len_ok_le lo _ F HrF); rewrite blen_enc_chunk; lia|].
    destruct (lo_emit_chunks lo); [rewrite blen_enc_chunk; lia|].
    split; [rewrite Hcomp; apply Hsup, Hch|]. split; [lia|].
    split; [unfold max_int32, two63 in *; lia|].
    exists inner. split; [rewrite Hcomp, Hrecs; apply Hcodec|]. split; [exact Hus|]. split; [exact Hinner|].
    split; [destruct (o_crc o); [right|left]; exact Hcrc|].
    intro Hv. destruct (Hval Hv) as [Hv1 Hv2].
    split; [lia|]. split.
    + destruct Hv2 as [Hv2|Hv2]; [rewrite Hv2; reflexivity|].
      apply andb_false_iff. right. apply N.ltb_ge. lia.
    + intro Hm. rewrite Hcomp in Hm. rewrite Hrecs, (Hpass Hv Hm). exact Hus.
  - destruct Hg as (Hs & Hc & Hl & Hcr).
    cbn [render_item] in Hsz. rewrite WriterFactsC.blen_frame, !blen_app, WriterFactsC.blen_u32, blen_enc_attachment_fields in Hsz.
    cbn [wf_item]. unfold wf_attach_item, attach_body.
    rewrite !blen_app, WriterFactsC.blen_u32, blen_enc_attachment_fields.
    split; [exact Hl|]. split; [exact Hcr|].
    split; [unfold max_int32, two32 in *; lia|]. split; [unfold max_int32, two32 in *; lia|].
    split; [exact Hs|]. split; [rewrite Hc; exact (crc32_bound _)|].
    split; [unfold max_int32, two63 in *; lia|].
    split; [apply (len_ok_le lo _ F HrF); lia|exact Hcb].
  - destruct Hg as (A & B & C).
    cbn [render_item] in Hsz. rewrite WriterFactsC.blen_frame in Hsz.
    cbn [wf_item]. split; [unfold max_int32, two64 in *; lia|]. split; [unfold max_int32, two64 in *; lia|].
    split; [exact C|]. apply (len_ok_le lo _ F HrF).
    assert (X : blen (enc_footer {| f_summary_start := ss; f_summary_offset_start := sos; f_crc := crc |}) = 20).
    { unfold enc_footer. rewrite !blen_app, !WriterFactsC.blen_u64, WriterFactsC.blen_u32. reflexivity. }
    rewrite X in Hsz. lia.
Qed.

Lemma struct_wf lead items recs :
  lead = lead_magic lo ->
  items = lead ++ recs ++ [IMagic] -> F = blen (render items) ->
  Forall (fgood o comp F) recs ->
  (forall k, In (IChunk k) recs -> k_usize k <= Uc) ->
  wf_file lo ds items.
Proof.
  intros Hl Hi HFl Hg Hk. exists recs. split; [rewrite Hi, Hl; reflexivity|].
  apply Forall_forall. intros it Hit. rewrite Forall_forall in Hg.
  apply fgood_wf; [apply Hg, Hit| |].
  - rewrite HFl. apply render_item_le. rewrite Hi. apply in_or_app. right. apply in_or_app. left. exact Hit.
  - destruct it; cbn [item_usize]; try lia. apply Hk, Hit.
Qed.

End LexSide.

Lemma lead_magic_eq lo o : lo_skip_magic lo = o_skip_magic o ->
  (if o_skip_magic o then [] else [IMagic]) = lead_magic lo.
Proof. intro H. unfold lead_magic. rewrite H. reflexivity. Qed.

(* the writer's trace is a well-formed file for every lexer configuration that can decode the
   writer's chunks and whose limits are not exceeded: general compressors *)
Theorem writer_trace_wf_thm : forall o lib comp cs' lo ds,
  C06_hyps o lib comp cs' -> codec_ok lo ds o comp ->
  lo_skip_magic lo = o_skip_magic o ->
  (o_chunked o = true -> comp_supported lo (o_comp o) = true) ->
  (lo_cb lo = CbNone \/ lo_cb lo = CbFull) ->
  (lo_validate lo = true -> mem_bytes (o_comp o) (lo_custom lo) = true -> forall n b, blen (comp n b) = blen b) ->
  Forall call_times_ok cs' ->
  let R := W o lib comp None (cs' ++ [CClose]) in
  lex_limits lo (blen (file_of R)) (if o_chunked o then auto_bytes cs' else 0) ->
  wf_file lo ds (rev (w_trace (r_final R))).
Proof.
  intros o lib comp cs' lo ds Hhyp Hcodec Hmagic Hsup Hcb Hpass Ht R Hlim.
  destruct (writer_trace_struct o lib comp cs' Hhyp Ht) as (recs & A & B & C). fold R in A, B.
  eapply (struct_wf lo ds o comp _ _ Hcodec Hsup Hcb Hpass Hlim);
    [apply lead_magic_eq, Hmagic|exact A| |exact B|].
  - f_equal. apply (C01_file_is_trace_thm o lib comp cs' Hhyp).
  - intros k Hk. rewrite Forall_forall in B. pose proof (B _ Hk) as Hg. cbn [fgood wgood] in Hg.
    destruct Hg as (Hch & _). rewrite Hch. pose proof (tr_usize_in k recs Hk). lia.
Qed.

(* compressors that never shrink their input (in particular the identity of an uncompressed
   writer): the file length alone bounds everything *)
Theorem writer_trace_wf_noshrink_thm : forall o lib comp cs' lo ds,
  C06_hyps o lib comp cs' -> codec_ok lo ds o comp ->
  (forall n b, blen b <= blen (comp n b)) ->
  lo_skip_magic lo = o_skip_magic o ->
  (o_chunked o = true -> comp_supported lo (o_comp o) = true) ->
  (lo_cb lo = CbNone \/ lo_cb lo = CbFull) ->
  (lo_validate lo = true -> mem_bytes (o_comp o) (lo_custom lo) = true -> forall n b, blen (comp n b) = blen b) ->
  Forall call_times_ok cs' ->
  let R := W o lib comp None (cs' ++ [CClose]) in
  lex_limits lo (blen (file_of R)) (blen (file_of R)) ->
  wf_file lo ds (rev (w_trace (r_final R))).
Proof.
  intros o lib comp cs' lo ds Hhyp Hcodec Hns Hmagic Hsup Hcb Hpass Ht R Hlim.
  destruct (writer_trace_struct o lib comp cs' Hhyp Ht) as (recs & A & B & C). fold R in A, B.
  pose proof (C01_file_is_trace_thm o lib comp cs' Hhyp) as Hfile. fold R in Hfile. cbv zeta in Hfile.
  eapply (struct_wf lo ds o comp _ _ Hcodec Hsup Hcb Hpass Hlim);
    [apply lead_magic_eq, Hmagic|exact A|f_equal; exact Hfile|exact B|].
  intros k Hk. rewrite Forall_forall in B. pose proof (B _ Hk) as Hg. cbn [fgood wgood] in Hg.
  destruct Hg as (_ & _ & _ & _ & n & inner & _ & Hrecs & Hus & _).
  assert (Hle : blen (render_item (IChunk k)) <= blen (file_of R)).
  { rewrite Hfile. apply render_item_le. rewrite A. apply in_or_app. right. apply in_or_app. left. exact Hk. }
  cbn [render_item] in Hle. rewrite WriterFactsC.blen_frame, blen_enc_chunk, Hrecs in Hle.
  pose proof (Hns n (frames inner)). lia.
Qed.

(* ====================================================================== *)
(** * 4. fuel *)

Lemma render_cons' it l : render (it :: l) = render_item it ++ render l.
Proof. reflexivity. Qed.
Lemma file_steps_cons lo ds it l : file_steps lo ds (it :: l) = (item_steps lo ds it + file_steps lo ds l)%nat.
Proof. reflexivity. Qed.

Lemma chunk_steps lo ds k :
  wf_chunk_item lo ds k -> (9 * item_steps lo ds (IChunk k) <= 18 + N.to_nat (k_usize k))%nat.
Proof.
  intros (_ & _ & Hw). cbn [item_steps]. destruct (lo_emit_chunks lo); [lia|].
  destruct Hw as (_ & _ & _ & inner & Hs & Hus & Hp & _).
  rewrite (chunk_inner_eq lo ds k inner Hs Hp), Hus. unfold blen. rewrite Nat2N.id.
  pose proof (frames_len_ge inner). lia.
Qed.

Definition chunk_noshrink (it : item) : Prop :=
  match it with IChunk k => k_usize k <= blen (k_records k) | _ => True end.

Lemma item_steps_le lo ds it :
  it = IMagic \/ wf_item lo ds it ->
  (item_steps lo ds it <= length (render_item it) + N.to_nat (item_usize it))%nat /\
  (chunk_noshrink it -> (item_steps lo ds it <= length (render_item it))%nat).
Proof.
  intros [->|Hw]; [cbn; lia|].
  destruct it as [|op body|k|a data crc|ss sos crc]; cbn [item_usize chunk_noshrink];
    try (cbn [item_steps render_item]; rewrite frame_length; lia).
  - destruct Hw.
  - cbn [wf_item] in Hw. pose proof (chunk_steps lo ds k Hw) as Hc.
    cbn [render_item]. rewrite frame_length.
    assert (Hl : length (enc_chunk k) = (40 + length (k_comp k) + length (k_records k))%nat).
    { pose proof (blen_enc_chunk k) as X. unfold blen in X. lia. }
    rewrite Hl. split; [lia|]. intro Hn. unfold blen in Hn. lia.
Qed.

Lemma file_steps_le lo ds items :
  Forall (fun it => it = IMagic \/ wf_item lo ds it) items ->
  (file_steps lo ds items <= length (render items) + N.to_nat (tr_usize items))%nat /\
  (Forall chunk_noshrink items -> (file_steps lo ds items <= length (render items))%nat).
Proof.
  induction 1 as [|it items Hit _ [IH1 IH2]]; [cbn; split; [lia|intros _; lia]|].
  rewrite render_cons', app_length, file_steps_cons, tr_usize_cons.
  destruct (item_steps_le lo ds it Hit) as [A B]. split; [lia|].
  intro Hn. inversion Hn; subst. specialize (B H1). specialize (IH2 H2). lia.
Qed.

Lemma wf_file_items lo ds items :
  wf_file lo ds items -> Forall (fun it => it = IMagic \/ wf_item lo ds it) items.
Proof.
  intros (recs & -> & Hr). apply Forall_app. split.
  - unfold lead_magic. destruct (lo_skip_magic lo); repeat constructor.
  - apply Forall_app. split; [|repeat constructor].
    eapply Forall_impl; [|exact Hr]. intros it H. right. exact H.
Qed.

(* fuel that always suffices: one step per byte of the file and of the uncompressed chunk data *)
Definition fuel_of (file : bytes) (cs' : list wcall) : nat := S (length file + N.to_nat (auto_bytes cs')).

Theorem trace_fuel_of_wf : forall o lib comp cs' lo ds,
  C06_hyps o lib comp cs' -> Forall call_times_ok cs' ->
  let R := W o lib comp None (cs' ++ [CClose]) in
  wf_file lo ds (rev (w_trace (r_final R))) ->
  (file_steps lo ds (rev (w_trace (r_final R))) + 1 <= fuel_of (file_of R) cs')%nat.
Proof.
  intros o lib comp cs' lo ds Hhyp Ht R Hwf.
  destruct (writer_trace_struct o lib comp cs' Hhyp Ht) as (recs & A & B & C). fold R in A, B.
  pose proof (C01_file_is_trace_thm o lib comp cs' Hhyp) as Hfile. fold R in Hfile. cbv zeta in Hfile.
  destruct (file_steps_le lo ds _ (wf_file_items lo ds _ Hwf)) as [H1 _].
  assert (Hu : tr_usize (rev (w_trace (r_final R))) = tr_usize recs).
  { rewrite A, !tr_usize_app. destruct (o_skip_magic o); cbn [tr_usize fold_right item_usize]; lia. }
  unfold fuel_of. rewrite Hfile. lia.
Qed.

Theorem trace_fuel_of_wf_noshrink : forall o lib comp cs' lo ds,
  C06_hyps o lib comp cs' -> Forall call_times_ok cs' ->
  (forall n b, blen b <= blen (comp n b)) ->
  let R := W o lib comp None (cs' ++ [CClose]) in
  wf_file lo ds (rev (w_trace (r_final R))) ->
  (file_steps lo ds (rev (w_trace (r_final R))) + 1 <= S (length (file_of R)))%nat.
Proof.
  intros o lib comp cs' lo ds Hhyp Ht Hns R Hwf.
  destruct (writer_trace_struct o lib comp cs' Hhyp Ht) as (recs & A & B & C). fold R in A, B.
  pose proof (C01_file_is_trace_thm o lib comp cs' Hhyp) as Hfile. fold R in Hfile. cbv zeta in Hfile.
  destruct (file_steps_le lo ds _ (wf_file_items lo ds _ Hwf)) as [_ H2].
  assert (Hn : Forall chunk_noshrink (rev (w_trace (r_final R)))).
  { rewrite A. apply Forall_app. split; [destruct (o_skip_magic o); repeat constructor|].
    apply Forall_app. split; [|repeat constructor].
    eapply Forall_impl; [|exact B]. intros it Hg. destruct it; cbn [chunk_noshrink]; auto.
    cbn [fgood wgood] in Hg. destruct Hg as (_ & _ & _ & _ & n & inner & _ & Hrecs & Hus & _).
    rewrite Hus, Hrecs. apply Hns. }
  specialize (H2 Hn). rewrite Hfile. lia.
Qed.

(* the fuel bound from hypotheses about the inputs only *)
Theorem writer_trace_fuel_thm : forall o lib comp cs' lo ds,
  C06_hyps o lib comp cs' -> codec_ok lo ds o comp ->
  lo_skip_magic lo = o_skip_magic o ->
  (o_chunked o = true -> comp_supported lo (o_comp o) = true) ->
  (lo_cb lo = CbNone \/ lo_cb lo = CbFull) ->
  (lo_validate lo = true -> mem_bytes (o_comp o) (lo_custom lo) = true -> forall n b, blen (comp n b) = blen b) ->
  Forall call_times_ok cs' ->
  let R := W o lib comp None (cs' ++ [CClose]) in
  lex_limits lo (blen (file_of R)) (if o_chunked o then auto_bytes cs' else 0) ->
  (file_steps lo ds (rev (w_trace (r_final R))) + 1 <= fuel_of (file_of R) cs')%nat.
Proof.
  intros o lib comp cs' lo ds Hhyp Hcodec Hmagic Hsup Hcb Hpass Ht R Hlim.
  apply (trace_fuel_of_wf o lib comp cs' lo ds Hhyp Ht).
  apply writer_trace_wf_thm; assumption.
Qed.

Theorem writer_trace_fuel_noshrink_thm : forall o lib comp cs' lo ds,
  C06_hyps o lib comp cs' -> codec_ok lo ds o comp ->
  (forall n b, blen b <= blen (comp n b)) ->
  lo_skip_magic lo = o_skip_magic o ->
  (o_chunked o = true -> comp_supported lo (o_comp o) = true) ->
  (lo_cb lo = CbNone \/ lo_cb lo = CbFull) ->
  (lo_validate lo = true -> mem_bytes (o_comp o) (lo_custom lo) = true -> forall n b, blen (comp n b) = blen b) ->
  Forall call_times_ok cs' ->
  let R := W o lib comp None (cs' ++ [CClose]) in
  lex_limits lo (blen (file_of R)) (blen (file_of R)) ->
  (file_steps lo ds (rev (w_trace (r_final R))) + 1 <= S (length (file_of R)))%nat.
Proof.
  intros o lib comp cs' lo ds Hhyp Hcodec Hns Hmagic Hsup Hcb Hpass Ht R Hlim.
  apply (trace_fuel_of_wf_noshrink o lib comp cs' lo ds Hhyp Ht Hns).
  apply writer_trace_wf_noshrink_thm; assumption.
Qed.

(* call_small follows from any bound on the bytes asked for *)
Lemma call_small_of_bytes cs : auto_bytes cs < two64 -> Forall call_small cs.
Proof.
  induction cs as [|c cs IH]; [constructor|]. rewrite auto_bytes_cons. intro H.
  constructor; [|apply IH; lia]. destruct c; cbn [call_small call_bytes] in *; try exact I; lia.
Qed.

(* ====================================================================== *)
(** * 5. the round trip, closed *)

Theorem C01_closed_thm : forall o lib comp lo ds cs' sk,
  C06_hyps o lib comp cs' -> codec_ok lo ds o comp ->
  Forall call_small cs' -> Forall (call_wf o lib) cs' -> Forall call_att_ok cs' ->
  lo_emit_chunks lo = false ->
  lo_skip_magic lo = o_skip_magic o ->
  (o_chunked o = true -> comp_supported lo (o_comp o) = true) ->
  (lo_cb lo = CbNone \/ lo_cb lo = CbFull) ->
  (lo_validate lo = true -> mem_bytes (o_comp o) (lo_custom lo) = true -> forall n b, blen (comp n b) = blen b) ->
  let R := W o lib comp None (cs' ++ [CClose]) in
  lex_limits lo (blen (file_of R)) (if o_chunked o then auto_bytes cs' else 0) ->
  exists evs st,
    lex_all lo ds (fuel_of (file_of R) cs') (src_of (file_of R) sk) = Ok (evs, EEOF, st) /\
    map decode_event (filter ev_direct (data_events evs))
      = map Ok (flat_map (call_contents lo o lib) (filter call_direct cs')) /\
    map decode_event (filter ev_auto (data_events evs))
      = map Ok (flat_map (call_contents lo o lib) (filter call_auto cs')).
Proof.
  intros o lib comp lo ds cs' sk Hhyp Hcodec Hsm Hwf Hatt Hemit Hmagic Hsup Hcb Hpass R Hlim.
  assert (Ht : Forall call_times_ok cs').
  { rewrite Forall_forall in *. intros c Hc. eapply call_times_of_wf; [apply Hwf, Hc|apply Hatt, Hc]. }
  pose proof (writer_trace_wf_thm o lib comp cs' lo ds Hhyp Hcodec Hmagic Hsup Hcb Hpass Ht Hlim) as Hfile.
  pose proof (trace_fuel_of_wf o lib comp cs' lo ds Hhyp Ht Hfile) as Hfuel.
  exact (C01_lexer_roundtrip_thm o lib comp lo ds cs' sk Hhyp Hcodec Hsm Hwf Hemit Hfile _ Hfuel).
Qed.

(* writers whose compressor never shrinks its input (uncompressed writers in particular): the
   bounds are on the file length alone and the fuel is the file length *)
Theorem C01_closed_noshrink_thm : forall o lib comp lo ds cs' sk,
  C06_hyps o lib comp cs' -> codec_ok lo ds o comp ->
  (forall n b, blen b <= blen (comp n b)) ->
  Forall call_small cs' -> Forall (call_wf o lib) cs' -> Forall call_att_ok cs' ->
  lo_emit_chunks lo = false ->
  lo_skip_magic lo = o_skip_magic o ->
  (o_chunked o = true -> comp_supported lo (o_comp o) = true) ->
  (lo_cb lo = CbNone \/ lo_cb lo = CbFull) ->
  (lo_validate lo = true -> mem_bytes (o_comp o) (lo_custom lo) = true -> forall n b, blen (comp n b) = blen b) ->
  let R := W o lib comp None (cs' ++ [CClose]) in
  lex_limits lo (blen (file_of R)) (blen (file_of R)) ->
  exists evs st,
    lex_all lo ds (S (length (file_of R))) (src_of (file_of R) sk) = Ok (evs, EEOF, st) /\
    map decode_event (filter ev_direct (data_events evs))
      = map Ok (flat_map (call_contents lo o lib) (filter call_direct cs')) /\
    map decode_event (filter ev_auto (data_events evs))
      = map Ok (flat_map (call_contents lo o lib) (filter call_auto cs')).
Proof.
  intros o lib comp lo ds cs' sk Hhyp Hcodec Hns Hsm Hwf Hatt Hemit Hmagic Hsup Hcb Hpass R Hlim.
  assert (Ht : Forall call_times_ok cs').
  { rewrite Forall_forall in *. intros c Hc. eapply call_times_of_wf; [apply Hwf, Hc|apply Hatt, Hc]. }
  pose proof (writer_trace_wf_noshrink_thm o lib comp cs' lo ds Hhyp Hcodec Hns Hmagic Hsup Hcb Hpass Ht Hlim) as Hfile.
  pose proof (trace_fuel_of_wf_noshrink o lib comp cs' lo ds Hhyp Ht Hns Hfile) as Hfuel.
  exact (C01_lexer_roundtrip_thm o lib comp lo ds cs' sk Hhyp Hcodec Hsm Hwf Hemit Hfile _ Hfuel).
Qed.

(* the uncompressed format needs no decoder: codec_ok holds for the identity compressor *)
Lemma codec_ok_uncompressed lo ds o comp :
  o_comp o = [] -> mem_bytes [] (lo_custom lo) = false -> (forall n b, comp n b = b) -> codec_ok lo ds o comp.
Proof.
  intros Hc Hm Hid n plain. unfold chunk_stream. rewrite Hc, Hm, Hid. reflexivity.
Qed.

(* ====================================================================== *)
(** * 6. non-vacuity *)

(* a boolean test for lex_limits *)
Definition lex_limitsb (lo : lopts) (F Uc : N) : bool :=
  (F <? max_int32) && (Uc <? max_int32)
  && ((lo_max_record lo =? 0) || ((F <=? lo_max_record lo) && (Uc <=? lo_max_record lo)))
  && (negb (lo_validate lo) || ((2 * Uc <? max_int32) && ((lo_max_chunk lo =? 0) || (Uc <=? lo_max_chunk lo)))).

Lemma lex_limitsb_ok lo F Uc : lex_limitsb lo F Uc = true -> lex_limits lo F Uc.
Proof.
  unfold lex_limitsb, lex_limits. intro H.
  apply andb_true_iff in H. destruct H as [H H4]. apply andb_true_iff in H. destruct H as [H H3].
  apply andb_true_iff in H. destruct H as [H1 H2].
  split; [apply N.ltb_lt, H1|]. split; [apply N.ltb_lt, H2|]. split.
  - apply orb_true_iff in H3. destruct H3 as [H3|H3]; [left; apply N.eqb_eq, H3|right].
    apply andb_true_iff in H3. destruct H3 as [A B]. split; apply N.leb_le; assumption.
  - intro Hv. rewrite Hv in H4. cbn [negb orb] in H4. apply andb_true_iff in H4. destruct H4 as [A B].
    split; [apply N.ltb_lt, A|]. apply orb_true_iff in B. destruct B as [B|B]; [left; apply N.eqb_eq, B|right; apply N.leb_le, B].
Qed.

Lemma ex_call_att_ok : Forall call_att_ok ex_cs_pre.
Proof. unfold ex_cs_pre. repeat constructor; vm_compute; reflexivity. Qed.

Lemma ex_call_times_ok : Forall call_times_ok ex_cs_pre.
Proof. unfold ex_cs_pre. repeat constructor; vm_compute; reflexivity. Qed.

Lemma ex_call_wf_any o : o_override_lib o = false -> Forall (call_wf o ex_lib) ex_cs_pre.
Proof.
  intro Ho. pose proof ex_call_wf as H. rewrite Forall_forall in *. intros c Hc. specialize (H c Hc).
  destruct c; cbn [call_wf] in *; auto.
  unfold header_library in *. rewrite Ho. exact H.
Qed.

(* every hypothesis of C01_closed_thm, for a given workload *)
Definition C01_closed_hyps (o : wopts) (lib : bytes) (comp : nat -> bytes -> bytes) (lo : lopts) (ds : doracle)
  (cs' : list wcall) : Prop :=
  C06_hyps o lib comp cs' /\ codec_ok lo ds o comp /\
  Forall call_small cs' /\ Forall (call_wf o lib) cs' /\ Forall call_att_ok cs' /\
  lo_emit_chunks lo = false /\ lo_skip_magic lo = o_skip_magic o /\
  (o_chunked o = true -> comp_supported lo (o_comp o) = true) /\
  (lo_cb lo = CbNone \/ lo_cb lo = CbFull) /\
  (lo_validate lo = true -> mem_bytes (o_comp o) (lo_custom lo) = true -> forall n b, blen (comp n b) = blen b) /\
  lex_limits lo (blen (file_of (W o lib comp None (cs' ++ [CClose])))) (if o_chunked o then auto_bytes cs' else 0).

(* two uncompressed chunks *)
Example ex_closed_hyps : C01_closed_hyps ex_o ex_lib ex_comp ex_lo ds_id ex_cs_pre.
Proof.
  split; [exact ex_C06_hyps|]. split; [exact ex_codec_ok|]. split; [exact ex_call_small|].
  split; [exact ex_call_wf|]. split; [exact ex_call_att_ok|]. split; [reflexivity|]. split; [reflexivity|].
  split; [intros _; reflexivity|]. split; [right; reflexivity|]. split; [intros _ H; discriminate H|].
  apply lex_limitsb_ok. vm_compute. reflexivity.
Qed.
(* a toy compressing codec *)
Example ex_closed_hyps_z : C01_closed_hyps ex_o_z ex_lib comp_z ex_lo ds_z ex_cs_pre.
Proof.
  split; [exact ex_C06_hyps_z|]. split; [exact ex_codec_ok_z|]. split; [exact ex_call_small|].
  split; [apply ex_call_wf_any; reflexivity|]. split; [exact ex_call_att_ok|]. split; [reflexivity|]. split; [reflexivity|].
  split; [intros _; reflexivity|]. split; [right; reflexivity|]. split; [intros _ H; discriminate H|].
  apply lex_limitsb_ok. vm_compute. reflexivity.
Qed.
(* unchunked, several Skip* flags *)
Example ex_closed_hyps_u : C01_closed_hyps ex_o_u ex_lib ex_comp ex_lo ds_z ex_cs_pre.
Proof.
  split; [exact ex_C06_hyps_u|]. split; [exact ex_codec_ok_u|]. split; [exact ex_call_small|].
  split; [apply ex_call_wf_any; reflexivity|]. split; [exact ex_call_att_ok|]. split; [reflexivity|]. split; [reflexivity|].
  split; [intro H; discriminate H|]. split; [right; reflexivity|]. split; [intros _ H; discriminate H|].
  apply lex_limitsb_ok. vm_compute. reflexivity.
Qed.
(* one big chunk written at Close *)
Example ex_closed_hyps_big : C01_closed_hyps ex_o_big ex_lib ex_comp ex_lo ds_z ex_cs_pre.
Proof.
  split; [exact ex_C06_hyps_big|]. split; [exact ex_codec_ok_big|]. split; [exact ex_call_small|].
  split; [apply ex_call_wf_any; reflexivity|]. split; [exact ex_call_att_ok|]. split; [reflexivity|]. split; [reflexivity|].
  split; [intros _; reflexivity|]. split; [right; reflexivity|]. split; [intros _ H; discriminate H|].
  apply lex_limitsb_ok. vm_compute. reflexivity.
Qed.

(* the theorem applied: the conclusion of the round trip for the first workload, no wf_file *)
Example ex_closed_applies : forall sk,
  let R := W ex_o ex_lib ex_comp None (ex_cs_pre ++ [CClose]) in
  exists evs st,
    lex_all ex_lo ds_id (fuel_of (file_of R) ex_cs_pre) (src_of (file_of R) sk) = Ok (evs, EEOF, st) /\
    map decode_event (filter ev_direct (data_events evs))
      = map Ok (flat_map (call_contents ex_lo ex_o ex_lib) (filter call_direct ex_cs_pre)) /\
    map decode_event (filter ev_auto (data_events evs))
      = map Ok (flat_map (call_contents ex_lo ex_o ex_lib) (filter call_auto ex_cs_pre)).
Proof.
  intro sk. destruct ex_closed_hyps as (H1 & H2 & H3 & H4 & H5 & H6 & H7 & H8 & H9 & H10 & H11).
  apply C01_closed_thm; assumption.
Qed.

(* the three workloads with a non-shrinking compressor also satisfy the file-length-only bound *)
Example ex_noshrink_hyps :
  (forall n b, blen b <= blen (ex_comp n b)) /\ (forall n b, blen b <= blen (comp_z n b)) /\
  lex_limits ex_lo (blen (file_of (W ex_o ex_lib ex_comp None (ex_cs_pre ++ [CClose]))))
                   (blen (file_of (W ex_o ex_lib ex_comp None (ex_cs_pre ++ [CClose])))) /\
  lex_limits ex_lo (blen (file_of (W ex_o_z ex_lib comp_z None (ex_cs_pre ++ [CClose]))))
                   (blen (file_of (W ex_o_z ex_lib comp_z None (ex_cs_pre ++ [CClose])))) /\
  lex_limits ex_lo (blen (file_of (W ex_o_u ex_lib ex_comp None (ex_cs_pre ++ [CClose]))))
                   (blen (file_of (W ex_o_u ex_lib ex_comp None (ex_cs_pre ++ [CClose])))) /\
  lex_limits ex_lo (blen (file_of (W ex_o_big ex_lib ex_comp None (ex_cs_pre ++ [CClose]))))
                   (blen (file_of (W ex_o_big ex_lib ex_comp None (ex_cs_pre ++ [CClose])))).
Proof.
  split; [intros; unfold ex_comp; lia|]. split; [intros; unfold comp_z; rewrite WriterFactsC.blen_cons; lia|].
  split; [|split; [|split]]; apply lex_limitsb_ok; vm_compute; reflexivity.
Qed.

(* the sizes involved, computed: file lengths, uncompressed chunk bytes asked for, fuel *)
(* the sizes involved, computed: file lengths, uncompressed chunk bytes asked for, fuel *)
Example ex_closed_sizes :
  blen (file_of (W ex_o ex_lib ex_comp None (ex_cs_pre ++ [CClose]))) = 1015 /\
  blen (file_of (W ex_o_z ex_lib comp_z None (ex_cs_pre ++ [CClose]))) = 1033 /\
  blen (file_of (W ex_o_u ex_lib ex_comp None (ex_cs_pre ++ [CClose]))) = 395 /\
  blen (file_of (W ex_o_big ex_lib ex_comp None (ex_cs_pre ++ [CClose]))) = 559 /\
  auto_bytes ex_cs_pre = 155 /\
  fuel_of (file_of (W ex_o ex_lib ex_comp None (ex_cs_pre ++ [CClose]))) ex_cs_pre = 1171%nat.
Proof. vm_compute. repeat split. Qed.

(* ---------- the extra hypotheses cannot be dropped ---------- *)
(* (a) a caller-supplied compressor that changes the length, registered with the lexer under its
   name, ValidateChunkCRCs on: every other hypothesis holds (the decoder undoes the compressor,
   the name is supported) and the lexer, which treats caller-supplied decompressors as
   pass-through readers when it validates, loses its position: ErrTruncated after 4 tokens.
   Without validation the same file is read completely. *)
Definition ex_o_cz : wopts :=
  {| o_crc := true; o_chunked := true; o_chunksize := 40; o_comp := [x78]; o_custom := true;
     o_skip_mi := false; o_skip_stats := false; o_skip_rsh := false; o_skip_rch := false;
     o_skip_ai := false; o_skip_mdi := false; o_skip_ci := false; o_skip_so := false;
     o_override_lib := false; o_skip_magic := false |}.
Definition ex_lo_cz (validate : bool) : lopts :=
  {| lo_skip_magic := false; lo_validate := validate; lo_compute_acrc := true; lo_emit_chunks := false;
     lo_emit_invalid := false; lo_max_record := 0; lo_max_chunk := 0; lo_cb := CbFull; lo_custom := [[x78]] |}.
Definition lex_summary (r : outcome (list event * err * lstate)) : option (nat * err) :=
  match r with Ok (evs, e, _) => Some (length evs, e) | _ => None end.

Example ex_custom_not_passthrough :
  let R := W ex_o_cz ex_lib comp_z None (ex_cs_pre ++ [CClose]) in
  C06_hyps ex_o_cz ex_lib comp_z ex_cs_pre /\
  (forall v, codec_ok (ex_lo_cz v) ds_z ex_o_cz comp_z) /\
  (forall v, comp_supported (ex_lo_cz v) (o_comp ex_o_cz) = true) /\
  (forall v, lex_limits (ex_lo_cz v) (blen (file_of R)) (auto_bytes ex_cs_pre)) /\
  mem_bytes (o_comp ex_o_cz) (lo_custom (ex_lo_cz true)) = true /\
  blen (comp_z 0 []) <> blen [] /\
  lex_summary (lex_all (ex_lo_cz true) ds_z (fuel_of (file_of R) ex_cs_pre) (src_of (file_of R) false))
    = Some (4%nat, ETruncated) /\
  lex_summary (lex_all (ex_lo_cz false) ds_z (fuel_of (file_of R) ex_cs_pre) (src_of (file_of R) false))
    = Some (25%nat, EEOF).
Proof.
  cbv zeta. split.
  { unfold C06_hyps. split; [vm_compute; reflexivity|]. split.
    - vm_compute. repeat constructor.
    - unfold ex_cs_pre. repeat constructor; discriminate. }
  split; [intros v n plain; reflexivity|]. split; [intro v; reflexivity|].
  split; [intros [|]; apply lex_limitsb_ok; vm_compute; reflexivity|].
  split; [reflexivity|]. split; [discriminate|]. split; vm_compute; reflexivity.
Qed.

(* (b) a compression name the lexer does not know (comp_supported false): ErrUnsupported... after
   the header token *)
Example ex_custom_not_registered :
  let R := W ex_o_cz ex_lib comp_z None (ex_cs_pre ++ [CClose]) in
  comp_supported ex_lo (o_comp ex_o_cz) = false /\
  lex_summary (lex_all ex_lo ds_z (fuel_of (file_of R) ex_cs_pre) (src_of (file_of R) false)) = Some (1%nat, EOther).
Proof. vm_compute. split; reflexivity. Qed.

(* (c) call_att_ok: the model's N is unbounded; an attachment log time of 2^64 + 7 is written
   modulo 2^64 and read back as 7 *)
Definition ex_att_big : attachment :=
  {| a_log := two64 + 7; a_create := 8; a_name := [x61]; a_media := [x62]; a_size := 3; a_data := [] |}.
Example ex_att_time_above_u64 :
  let cs' := [CHeader {| h_profile := []; h_library := [] |}; CAttachment ex_att_big ex_src] in
  let R := W ex_o ex_lib ex_comp None (cs' ++ [CClose]) in
  C06_hyps ex_o ex_lib ex_comp cs' /\ Forall (call_wf ex_o ex_lib) cs' /\ ~ Forall call_att_ok cs' /\
  match lex_all ex_lo ds_id (fuel_of (file_of R) cs') (src_of (file_of R) false) with
  | Ok (evs, EEOF, _) =>
    match filter ev_att evs with
    | [EvAttachment obs] => ao_log obs = 7 /\ ao_log obs <> a_log ex_att_big
    | _ => False
    end
  | _ => False
  end.
Proof.
  cbv zeta. split.
  { unfold C06_hyps. split; [vm_compute; reflexivity|]. split.
    - vm_compute. repeat constructor.
    - repeat constructor; discriminate. }
  split; [repeat constructor; vm_compute; reflexivity|].
  split.
  - intro H. inversion H as [|? ? _ H']; subst. inversion H' as [|? ? Hx _]; subst.
    cbn [call_att_ok] in Hx. destruct Hx as [Hl _]. vm_compute in Hl. discriminate Hl.
  - vm_compute. split; [reflexivity|discriminate].
Qed.
