(* PyWriteFacts.v - what the model of the Python writer (Py.v, section "writer.py") emits.

   Part 1  ghost trace: py_trace o calls, the list of items (Writer.item) the calls produce;
           the output is its rendering (py_write_is_trace).
   Part 2  the trace is a well-formed file for the Go lexer model (LexSpec.wf_file) under explicit
           size bounds; hence (lex_render_thm) the Go lexer returns file_events of the trace.
   Part 3  content of the trace in terms of the calls: attachments, metadata, messages, schemas,
           channels; statistics; index entries designate the rendering position of their items;
           footer fields and summary crc; the DataEnd crc and its quirk. *)
From Coq Require Import List NArith ZArith Bool Lia ZifyN ZifyNat ZifyBool.
From Coq.Strings Require Import Byte.
From Mcap Require Import Bytes BytesFacts GoSem Crc32 Crc32Facts Records RecordsFacts Writer Lexer LexSpec
  LexerFactsB ComposeFacts Py.
Import ListNotations.
Open Scope N_scope.
Ltac Zify.zify_post_hook ::= Z.div_mod_to_equations.

(* ====================================================================== *)
(** * 0. small facts *)

Lemma pyw_blen_nil : blen [] = 0. Proof. reflexivity. Qed.
Lemma pyw_blen_frame op body : blen (frame op body) = 9 + blen body.
Proof. unfold frame. rewrite blen_app, frame_head_blen. reflexivity. Qed.

Lemma crc_final_invol x : crc_final (crc_final x) = x.
Proof. unfold crc_final. rewrite N.lxor_assoc, N.lxor_nilpotent, N.lxor_0_r. reflexivity. Qed.

Lemma py_crc_0 d : py_crc 0 d = crc32 d.
Proof. reflexivity. Qed.

Lemma py_crc_app c a b : py_crc (py_crc c a) b = py_crc c (a ++ b).
Proof. unfold py_crc. rewrite crc_final_invol, crc_update_app. reflexivity. Qed.

Lemma py_crc_nil c : py_crc c [] = c.
Proof. unfold py_crc. cbn [crc_update fold_left]. apply crc_final_invol. Qed.

Lemma py_crc_crc32 a b : py_crc (crc32 a) b = crc32 (a ++ b).
Proof. rewrite <- (py_crc_0 a), py_crc_app. reflexivity. Qed.

Lemma crc32_lt_two32 b : crc32 b < two32.
Proof. exact (crc32_bound b). Qed.

Lemma render_cons it l : render (it :: l) = render_item it ++ render l.
Proof. reflexivity. Qed.
Lemma render_nil : render [] = []. Proof. reflexivity. Qed.
Lemma render_one it : render [it] = render_item it.
Proof. unfold render. cbn [map concat]. apply app_nil_r. Qed.
Lemma render_if (b : bool) l : render (if b then l else []) = if b then render l else [].
Proof. destruct b; reflexivity. Qed.
Lemma render_map_rec {A} op (f : A -> bytes) l :
  render (map (fun x => IRec op (f x)) l) = concat (map (fun x => frame op (f x)) l).
Proof. unfold render. rewrite map_map. reflexivity. Qed.

(* ====================================================================== *)
(** * 1. the ghost trace *)

Section Trace.
Variable o : pwopts.

(* the chunk record __finalize_chunk writes for the chunk builder cb *)
Definition chunk_of (cb : pcb) : chunk :=
  {| k_start := cb_start cb; k_end := cb_end cb; k_usize := blen (cb_buf cb);
     k_crc := if po_crcs o then crc32 (cb_buf cb) else 0; k_comp := []; k_records := cb_buf cb |}.

Definition mi_item (p : N * list (N * N)) : item :=
  IRec OpMessageIndex (enc_msgindex {| mi_chan := fst p; mi_entries := snd p |}).

(* the message index records that follow it *)
Definition mi_items (cb : pcb) : list item :=
  if po_idx_msg o then map mi_item (cb_indices cb) else [].

(* message index offsets: the running position of each message index record; a later record of the
   same channel (there is none, see cb_indices_nodup) would replace the earlier entry *)
Fixpoint mi_offs (pos : N) (l : list (N * list (N * N))) (acc : list (N * N)) : list (N * N) :=
  match l with
  | [] => acc
  | p :: r => mi_offs (pos + blen (render_item (mi_item p))) r (pn_set (fst p) pos acc)
  end.

(* the chunk index entry of the chunk written at offset off *)
Definition ci_of (off : N) (cb : pcb) : chunkindex :=
  {| ci_start := cb_start cb; ci_end := cb_end cb; ci_offset := off;
     ci_length := blen (render_item (IChunk (chunk_of cb)));
     ci_mioffsets := if po_idx_msg o
                     then mi_offs (off + blen (render_item (IChunk (chunk_of cb)))) (cb_indices cb) []
                     else [];
     ci_milength := blen (render (mi_items cb));
     ci_comp := []; ci_csize := blen (cb_buf cb); ci_usize := blen (cb_buf cb) |}.

(* items written by __finalize_chunk *)
Definition fin_items (cb : option pcb) : list item :=
  match cb with
  | None => []
  | Some cb => if cb_num cb =? 0 then [] else IChunk (chunk_of cb) :: mi_items cb
  end.

Definition maybe_items (cb : option pcb) : list item :=
  match cb with
  | Some c => if po_chunk_size o <? blen (cb_buf c) then fin_items cb else []
  | None => []
  end.

(* summary section *)
Definition sum_groups (w : pw) : list (bool * byte * bytes) :=
  [ (po_repeat_schemas o, OpSchema, summary_group OpSchema (map enc_schema (pw_schemas w)));
    (po_repeat_channels o, OpChannel, summary_group OpChannel (map py_enc_channel (pw_channels w)));
    (po_statistics o, OpStatistics, frame OpStatistics (enc_statistics (pw_stats w)));
    (po_idx_chunk o, OpChunkIndex, summary_group OpChunkIndex (map enc_chunkindex (pw_chunks w)));
    (po_idx_att o, OpAttachmentIndex, summary_group OpAttachmentIndex (map enc_attindex (pw_atts w)));
    (po_idx_md o, OpMetadataIndex, summary_group OpMetadataIndex (map enc_mdindex (pw_mds w))) ].

Definition sum_items (w : pw) : list item :=
  (if po_repeat_schemas o then map (fun s => IRec OpSchema (enc_schema s)) (pw_schemas w) else [])
  ++ (if po_repeat_channels o then map (fun c => IRec OpChannel (py_enc_channel c)) (pw_channels w) else [])
  ++ (if po_statistics o then [IRec OpStatistics (enc_statistics (pw_stats w))] else [])
  ++ (if po_idx_chunk o then map (fun c => IRec OpChunkIndex (enc_chunkindex c)) (pw_chunks w) else [])
  ++ (if po_idx_att o then map (fun a => IRec OpAttachmentIndex (enc_attindex a)) (pw_atts w) else [])
  ++ (if po_idx_md o then map (fun m => IRec OpMetadataIndex (enc_mdindex m)) (pw_mds w) else []).

(* bytes of the enabled groups, and their summary offset records: group i starts where the bytes
   of the enabled groups before it end *)
Definition grp_bytes (gs : list (bool * byte * bytes)) : bytes :=
  concat (map (fun g : bool * byte * bytes => if fst (fst g) then snd g else []) gs).
Fixpoint grp_offs (pos : N) (gs : list (bool * byte * bytes)) : list sumoffset :=
  match gs with
  | [] => []
  | g :: r =>
    if fst (fst g)
    then {| so_op := snd (fst g); so_start := pos; so_length := blen (snd g) |} :: grp_offs (pos + blen (snd g)) r
    else grp_offs pos r
  end.

Definition so_items (sos : list sumoffset) : list item :=
  if po_summary_offsets o then map (fun s => IRec OpSummaryOffset (enc_sumoffset s)) sos else [].

(* the state before the DataEnd record is written, and the pieces of finish() *)
Definition dataend_item (w1 : pw) : item := IRec OpDataEnd (enc_dataend {| de_crc := pw_crc w1 |}).
Definition summary_start_of (w1 : pw) : N := blen (pw_out w1 ++ (pw_rb w1 ++ render_item (dataend_item w1))).
Definition summary_of (w1 : pw) : list item :=
  sum_items w1 ++ so_items (grp_offs (summary_start_of w1) (sum_groups w1)).
Definition footer_ss (w1 : pw) : N := if blen (render (summary_of w1)) =? 0 then 0 else summary_start_of w1.
Definition footer_sos (w1 : pw) : N :=
  if po_summary_offsets o then summary_start_of w1 + blen (render (sum_items w1)) else 0.
Definition footer_crc (w1 : pw) : N :=
  if po_crcs o
  then crc32 (render (summary_of w1) ++ OpFooter :: u64 20 ++ u64 (footer_ss w1) ++ u64 (footer_sos w1))
  else 0.
Definition finish_items (w : pw) : list item :=
  let w1 := pw_finalize_chunk o w in
  fin_items (pw_cb w) ++ [dataend_item w1] ++ summary_of w1
  ++ [IFooter (footer_ss w1) (footer_sos w1) (footer_crc w1); IMagic].

Definition att_of (cr lg : N) (n me d : bytes) : attachment :=
  {| a_log := lg; a_create := cr; a_name := n; a_media := me; a_size := blen d; a_data := d |}.
Definition msg_of (ch lg : N) (d : bytes) (pb sq : N) : message :=
  {| m_chan := ch; m_seq := sq; m_log := lg; m_pub := pb; m_data := d |}.
Definition schema_of (w : pw) (n e d : bytes) : schema :=
  {| s_id := N.of_nat (length (pw_schemas w)) + 1; s_name := n; s_encoding := e; s_data := d |}.
Definition channel_of (w : pw) (t me : bytes) (sid : N) (m : kvs) : channel :=
  {| c_id := N.of_nat (length (pw_channels w)) + 1; c_schema := sid; c_topic := t; c_menc := me; c_meta := m |}.

(* the items a call makes the writer emit, from state w *)
Definition data_rec_items (w : pw) (op : byte) (body : bytes) : list item :=
  match pw_cb w with
  | Some cb => maybe_items (Some (cb_add_record cb op body))
  | None => [IRec op body]
  end.

Definition pt_step (w : pw) (c : pcall) : list item :=
  match c with
  | PcStart p l => [IMagic; IRec OpHeader (enc_header {| h_profile := p; h_library := l |})]
  | PcSchema n e d => data_rec_items w OpSchema (enc_schema (schema_of w n e d))
  | PcChannel t me sid m => data_rec_items w OpChannel (py_enc_channel (channel_of w t me sid m))
  | PcMessage ch lg d pb sq =>
    match pw_cb w with
    | Some cb => maybe_items (Some (cb_add_message cb (msg_of ch lg d pb sq)))
    | None => [IRec OpMessage (enc_message (msg_of ch lg d pb sq))]
    end
  | PcAttachment cr lg n me d =>
    [IAttach (att_of cr lg n me d) d (crc32 (enc_attachment_fields (att_of cr lg n me d) ++ d))]
  | PcMetadata n m => [IRec OpMetadata (py_enc_metadata {| md_name := n; md_meta := m |})]
  | PcFinish => finish_items w
  end.

Fixpoint trace_from (w : pw) (cs : list pcall) : list item :=
  match cs with
  | [] => []
  | c :: r => pt_step w c ++ trace_from (pw_step o w c) r
  end.

Definition pw_steps (w : pw) (cs : list pcall) : pw := fold_left (pw_step o) cs w.

Lemma trace_from_app w a b : trace_from w (a ++ b) = trace_from w a ++ trace_from (pw_steps w a) b.
Proof.
  revert w. induction a as [|c a IH]; intro w; [reflexivity|].
  cbn [app trace_from]. rewrite IH, app_assoc. reflexivity.
Qed.

Lemma pw_steps_app w a b : pw_steps w (a ++ b) = pw_steps (pw_steps w a) b.
Proof. unfold pw_steps. apply fold_left_app. Qed.

Lemma pw_run_steps cs : forall w w', pw_run o w cs = POk w' -> w' = pw_steps w cs.
Proof.
  induction cs as [|c r IH]; intros w w' H; cbn [pw_run] in H.
  - injection H as <-. reflexivity.
  - destruct (pcall_ok w c); [|discriminate]. apply IH in H. exact H.
Qed.

End Trace.

Definition py_trace (o : pwopts) (calls : list pcall) : list item := trace_from o (pw_init o) calls.

(* ====================================================================== *)
(** * 1a. projections of the state transformers *)

Section Proj.
Variable o : pwopts.

Ltac pj := intros; reflexivity.
Lemma flush_out w : pw_out (pw_flush o w) = pw_out w ++ pw_rb w. Proof. pj. Qed.
Lemma flush_rb w : pw_rb (pw_flush o w) = []. Proof. pj. Qed.
Lemma flush_crc w : pw_crc (pw_flush o w) = if po_data_crcs o then py_crc (pw_crc w) (pw_rb w) else pw_crc w. Proof. pj. Qed.

(* __finalize_chunk when there is something to write *)
Definition st_inc_chunks (st : statistics) : statistics :=
  {| st_messages := st_messages st; st_schemas := st_schemas st; st_channels := st_channels st;
     st_attachments := st_attachments st; st_metadata := st_metadata st; st_chunks := st_chunks st + 1;
     st_start := st_start st; st_end := st_end st; st_counts := st_counts st |}.

Definition fin_state (w : pw) (cb : pcb) : pw :=
  let cbytes := render_item (IChunk (chunk_of o cb)) in
  let mib := render (mi_items o cb) in
  {| pw_out := ((pw_out w ++ pw_rb w) ++ cbytes) ++ mib; pw_rb := [];
     pw_atts := pw_atts w; pw_mds := pw_mds w; pw_channels := pw_channels w; pw_schemas := pw_schemas w;
     pw_cb := Some cb_empty; pw_chunks := pw_chunks w ++ [ci_of o (blen (pw_out w ++ pw_rb w)) cb];
     pw_stats := st_inc_chunks (pw_stats w);
     pw_crc := if po_data_crcs o then py_crc (py_crc (py_crc (pw_crc w) (pw_rb w)) cbytes) mib else pw_crc w |}.

Lemma mi_fold start l : forall rb offs,
  fold_left (fun '(rb, offs) '(ch, es) =>
               (rb ++ frame OpMessageIndex (enc_msgindex {| mi_chan := ch; mi_entries := es |}),
                pn_set ch (start + blen rb) offs)) l (rb, offs)
  = (rb ++ render (map mi_item l), mi_offs (start + blen rb) l offs).
Proof.
  induction l as [|[ch es] l IH]; intros rb offs.
  - cbn [fold_left map mi_offs]. rewrite render_nil, app_nil_r. reflexivity.
  - cbn [fold_left]. rewrite IH. cbn [map mi_offs fst]. rewrite render_cons, app_assoc.
    f_equal. rewrite blen_app, N.add_assoc. reflexivity.
Qed.

Lemma fin_spec w cb : pw_cb w = Some cb -> (cb_num cb =? 0) = false -> pw_finalize_chunk o w = fin_state w cb.
Proof.
  intros Hcb Hn. unfold pw_finalize_chunk. rewrite Hcb, Hn. unfold fin_state, ci_of, mi_items.
  cbn [pw_flush pw_set_stats pw_set_rb pw_out pw_rb pw_atts pw_mds pw_channels pw_schemas pw_cb pw_chunks pw_stats pw_crc
       k_start k_end app].
  destruct (po_idx_msg o).
  - rewrite mi_fold.
    cbn [app]. rewrite pyw_blen_nil, N.add_0_r, (blen_app (pw_out w ++ pw_rb w)).
    cbn [pw_flush pw_set_stats pw_set_rb pw_out pw_rb pw_atts pw_mds pw_channels pw_schemas pw_cb pw_chunks pw_stats pw_crc].
    destruct (po_data_crcs o); reflexivity.
  - cbn [pw_flush pw_set_stats pw_set_rb pw_out pw_rb pw_atts pw_mds pw_channels pw_schemas pw_cb pw_chunks pw_stats pw_crc].
    rewrite render_nil, !app_nil_r.
    destruct (po_data_crcs o); rewrite ?py_crc_nil; reflexivity.
Qed.

Lemma fin_none w : pw_cb w = None -> pw_finalize_chunk o w = w.
Proof. intro H. unfold pw_finalize_chunk. rewrite H. reflexivity. Qed.
Lemma fin_zero w cb : pw_cb w = Some cb -> (cb_num cb =? 0) = true -> pw_finalize_chunk o w = w.
Proof. intros H Hn. unfold pw_finalize_chunk. rewrite H, Hn. reflexivity. Qed.


(* ---------- finish() ---------- *)
Lemma grp_fold ss gs : forall sb sos,
  fold_left (fun '(sb, sos) '(on, op, g) =>
               if on : bool then (sb ++ g, sos ++ [{| so_op := op; so_start := ss + blen sb; so_length := blen g |}])
               else (sb, sos)) gs (sb, sos)
  = (sb ++ grp_bytes gs, sos ++ grp_offs (ss + blen sb) gs).
Proof.
  induction gs as [|[[on op] g] gs IH]; intros sb sos.
  - cbn [fold_left grp_offs]. unfold grp_bytes. cbn [map concat]. rewrite !app_nil_r. reflexivity.
  - cbn [fold_left]. destruct on.
    + rewrite IH. unfold grp_bytes. cbn [map concat grp_offs fst snd]. rewrite <- !app_assoc. cbn [app].
      rewrite blen_app, N.add_assoc. reflexivity.
    + rewrite IH. unfold grp_bytes. cbn [map concat grp_offs fst snd app]. reflexivity.
Qed.

Lemma summary_group_render {A} op (f : A -> bytes) l :
  summary_group op (map f l) = render (map (fun x => IRec op (f x)) l).
Proof. unfold summary_group, render. rewrite !map_map. reflexivity. Qed.

Lemma grp_bytes_sum w : grp_bytes (sum_groups o w) = render (sum_items o w).
Proof.
  unfold grp_bytes, sum_groups, sum_items. cbn [map concat fst snd]. rewrite !render_app, !render_if, app_nil_r.
  rewrite !summary_group_render, render_one. reflexivity.
Qed.

(* the state just before the summary is written *)
Definition pre_summary (w1 : pw) : pw :=
  pw_flush o (pw_set_rb w1 (pw_rb w1 ++ render_item (dataend_item w1))).

Definition finish_state (w : pw) : pw :=
  let w1 := pw_finalize_chunk o w in
  let w3 := pw_raw (pre_summary w1) (render (summary_of o w1)) in
  pw_raw (pw_flush o (pw_set_rb w3 (pw_rb w3 ++ render_item (IFooter (footer_ss o w1) (footer_sos o w1) (footer_crc o w1)))))
         magic.

Lemma finish_spec w : pw_finish o w = finish_state w.
Proof.
  unfold pw_finish, finish_state, pre_summary. cbv zeta.
  set (w1 := pw_finalize_chunk o w).
  set (w2 := pw_flush o (pw_set_rb w1 (pw_rb w1 ++ frame OpDataEnd (enc_dataend {| de_crc := pw_crc w1 |})))).
  change [(po_repeat_schemas o, OpSchema, summary_group OpSchema (map enc_schema (pw_schemas w2)));
          (po_repeat_channels o, OpChannel, summary_group OpChannel (map py_enc_channel (pw_channels w2)));
          (po_statistics o, OpStatistics, frame OpStatistics (enc_statistics (pw_stats w2)));
          (po_idx_chunk o, OpChunkIndex, summary_group OpChunkIndex (map enc_chunkindex (pw_chunks w2)));
          (po_idx_att o, OpAttachmentIndex, summary_group OpAttachmentIndex (map enc_attindex (pw_atts w2)));
          (po_idx_md o, OpMetadataIndex, summary_group OpMetadataIndex (map enc_mdindex (pw_mds w2)))]
    with (sum_groups o w1).
  rewrite grp_fold. cbn [app]. rewrite pyw_blen_nil, N.add_0_r, grp_bytes_sum.
  change (blen (pw_out w2)) with (summary_start_of w1).
  assert (Hs : (if po_summary_offsets o
                then render (sum_items o w1) ++ summary_group OpSummaryOffset (map enc_sumoffset (grp_offs (summary_start_of w1) (sum_groups o w1)))
                else render (sum_items o w1)) = render (summary_of o w1)).
  { unfold summary_of, so_items. rewrite render_app, render_if, summary_group_render.
    destruct (po_summary_offsets o); [reflexivity | rewrite app_nil_r; reflexivity]. }
  rewrite Hs.
  assert (Hc : (if po_crcs o
                then py_crc (crc32 (render (summary_of o w1)))
                       (OpFooter :: u64 20 ++ u64 (if blen (render (summary_of o w1)) =? 0 then 0 else summary_start_of w1)
                                 ++ u64 (if po_summary_offsets o then summary_start_of w1 + blen (render (sum_items o w1)) else 0))
                else 0) = footer_crc o w1).
  { unfold footer_crc, footer_ss, footer_sos. destruct (po_crcs o); [apply py_crc_crc32 | reflexivity]. }
  rewrite Hc. reflexivity.
Qed.

Lemma finish_out w :
  let w1 := pw_finalize_chunk o w in
  pw_out (pw_finish o w)
  = (pw_out w1 ++ pw_rb w1) ++ render ([dataend_item w1] ++ summary_of o w1
                                        ++ [IFooter (footer_ss o w1) (footer_sos o w1) (footer_crc o w1); IMagic]).
Proof.
  cbv zeta. rewrite finish_spec. unfold finish_state, pre_summary.
  cbn [pw_raw pw_flush pw_set_rb pw_out pw_rb app].
  rewrite !render_app, render_one. rewrite !render_cons, render_nil, app_nil_r.
  rewrite <- !app_assoc. reflexivity.
Qed.

Lemma finish_rb w : pw_rb (pw_finish o w) = [].
Proof. rewrite finish_spec. reflexivity. Qed.

End Proj.
