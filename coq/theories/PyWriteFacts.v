(* PyWriteFacts.v - what the model of the Python writer (Py.v, section "writer.py") emits.

   Part 0/1  ghost trace: py_trace o calls, the list of items (Writer.item) the calls produce, defined by
             pt_step o w c (the items one call emits from state w); characterisation of __finalize_chunk
             (fin_spec, fin_state) and finish() (finish_spec); the output is the rendering of the trace
             (py_write_is_trace, py_run_is_trace, py_trace_shape).
   Part 2    the trace is a well-formed file for the Go lexer model (LexSpec.wf_file) under explicit size
             bounds (py_trace_wf), hence the Go lexer returns file_events of the trace (py_write_lex); the
             size bounds follow from a bound on the file size (py_sizes_from_total, section 2c).
   Part 3    content of the trace in terms of the calls: per record class the data section holds what the
             calls asked for (py_data_content and its corollaries; `dropped` = the schema / channel records
             finish() never writes), the same at the level of lexer events and decoded by Go's parsers;
             3f index entries designate the rendering position of their items (Loc, py_index_positions,
             mi_offs_spec, py_footer_fields); 3d/3e registered schemas / channels and the statistics record
             (py_registered, py_statistics); 3g the DataEnd crc (py_dataend_crc_ok, py_dataend_crc_general,
             py_dataend_crc_refuted); 3h which registrations are written, parse_py_metadata; 3i chunk records.
   Part 4    concrete sessions: every hypothesis above holds on them by computation.
   Part 5    combined statements restated in properties/C16_pywrite.v. *)
From Coq Require Import List NArith ZArith Bool Lia ZifyN ZifyNat ZifyBool.
From Coq.Strings Require Import Byte.
From Mcap Require Import Bytes BytesFacts GoSem Crc32 Crc32Facts Records RecordsFacts Writer Lexer LexSpec
  LexerFactsB ComposeFacts Py.
Import ListNotations.
Open Scope N_scope.
Ltac Zify.zify_post_hook ::= Z.div_mod_to_equations.

(* ====================================================================== *)
(** * 0. small facts *)

Lemma pyw_blen_nil : blen [] = 0. Proof. reflexivity. Qed.
Lemma pyw_blen_frame op body : blen (frame op body) = 9 + blen body.
Proof. unfold frame. rewrite blen_app, frame_head_blen. reflexivity. Qed.

Lemma crc_final_invol x : crc_final (crc_final x) = x.
Proof. unfold crc_final. rewrite N.lxor_assoc, N.lxor_nilpotent, N.lxor_0_r. reflexivity. Qed.

Lemma py_crc_0 d : py_crc 0 d = crc32 d.
Proof. reflexivity. Qed.

Lemma py_crc_app c a b : py_crc (py_crc c a) b = py_crc c (a ++ b).
Proof. unfold py_crc. rewrite crc_final_invol, crc_update_app. reflexivity. Qed.

Lemma py_crc_nil c : py_crc c [] = c.
Proof. unfold py_crc. cbn [crc_update fold_left]. apply crc_final_invol. Qed.

Lemma py_crc_crc32 a b : py_crc (crc32 a) b = crc32 (a ++ b).
Proof. rewrite <- (py_crc_0 a), py_crc_app. reflexivity. Qed.

Lemma crc32_lt_two32 b : crc32 b < two32.
Proof. exact (crc32_bound b). Qed.

Lemma render_cons it l : render (it :: l) = render_item it ++ render l.
Proof. reflexivity. Qed.
Lemma render_nil : render [] = []. Proof. reflexivity. Qed.
Lemma render_one it : render [it] = render_item it.
Proof. unfold render. cbn [map concat]. apply app_nil_r. Qed.
Lemma render_if (b : bool) l : render (if b then l else []) = if b then render l else [].
Proof. destruct b; reflexivity. Qed.
Lemma render_map_rec {A} op (f : A -> bytes) l :
  render (map (fun x => IRec op (f x)) l) = concat (map (fun x => frame op (f x)) l).
Proof. unfold render. rewrite map_map. reflexivity. Qed.

(* ====================================================================== *)
(** * 1. the ghost trace *)

Section Trace.
Variable o : pwopts.

(* the chunk record __finalize_chunk writes for the chunk builder cb *)
Definition chunk_of (cb : pcb) : chunk :=
  {| k_start := cb_start cb; k_end := cb_end cb; k_usize := blen (cb_buf cb);
     k_crc := if po_crcs o then crc32 (cb_buf cb) else 0; k_comp := []; k_records := cb_buf cb |}.

Definition mi_item (p : N * list (N * N)) : item :=
  IRec OpMessageIndex (enc_msgindex {| mi_chan := fst p; mi_entries := snd p |}).

(* the message index records that follow it *)
Definition mi_items (cb : pcb) : list item :=
  if po_idx_msg o then map mi_item (cb_indices cb) else [].

(* message index offsets: the running position of each message index record; a later record of the
   same channel (there is none, see cb_indices_nodup) would replace the earlier entry *)
Fixpoint mi_offs (pos : N) (l : list (N * list (N * N))) (acc : list (N * N)) : list (N * N) :=
  match l with
  | [] => acc
  | p :: r => mi_offs (pos + blen (render_item (mi_item p))) r (pn_set (fst p) pos acc)
  end.

(* the chunk index entry of the chunk written at offset off *)
Definition ci_of (off : N) (cb : pcb) : chunkindex :=
  {| ci_start := cb_start cb; ci_end := cb_end cb; ci_offset := off;
     ci_length := blen (render_item (IChunk (chunk_of cb)));
     ci_mioffsets := if po_idx_msg o
                     then mi_offs (off + blen (render_item (IChunk (chunk_of cb)))) (cb_indices cb) []
                     else [];
     ci_milength := blen (render (mi_items cb));
     ci_comp := []; ci_csize := blen (cb_buf cb); ci_usize := blen (cb_buf cb) |}.

(* items written by __finalize_chunk *)
Definition fin_items (cb : option pcb) : list item :=
  match cb with
  | None => []
  | Some cb => if cb_num cb =? 0 then [] else IChunk (chunk_of cb) :: mi_items cb
  end.

Definition maybe_items (cb : option pcb) : list item :=
  match cb with
  | Some c => if po_chunk_size o <? blen (cb_buf c) then fin_items cb else []
  | None => []
  end.

(* summary section *)
Definition sum_groups (w : pw) : list (bool * byte * bytes) :=
  [ (po_repeat_schemas o, OpSchema, summary_group OpSchema (map enc_schema (pw_schemas w)));
    (po_repeat_channels o, OpChannel, summary_group OpChannel (map py_enc_channel (pw_channels w)));
    (po_statistics o, OpStatistics, frame OpStatistics (enc_statistics (pw_stats w)));
    (po_idx_chunk o, OpChunkIndex, summary_group OpChunkIndex (map enc_chunkindex (pw_chunks w)));
    (po_idx_att o, OpAttachmentIndex, summary_group OpAttachmentIndex (map enc_attindex (pw_atts w)));
    (po_idx_md o, OpMetadataIndex, summary_group OpMetadataIndex (map enc_mdindex (pw_mds w))) ].

Definition sum_items (w : pw) : list item :=
  (if po_repeat_schemas o then map (fun s => IRec OpSchema (enc_schema s)) (pw_schemas w) else [])
  ++ (if po_repeat_channels o then map (fun c => IRec OpChannel (py_enc_channel c)) (pw_channels w) else [])
  ++ (if po_statistics o then [IRec OpStatistics (enc_statistics (pw_stats w))] else [])
  ++ (if po_idx_chunk o then map (fun c => IRec OpChunkIndex (enc_chunkindex c)) (pw_chunks w) else [])
  ++ (if po_idx_att o then map (fun a => IRec OpAttachmentIndex (enc_attindex a)) (pw_atts w) else [])
  ++ (if po_idx_md o then map (fun m => IRec OpMetadataIndex (enc_mdindex m)) (pw_mds w) else []).

(* bytes of the enabled groups, and their summary offset records: group i starts where the bytes
   of the enabled groups before it end *)
Definition grp_bytes (gs : list (bool * byte * bytes)) : bytes :=
  concat (map (fun g : bool * byte * bytes => if fst (fst g) then snd g else []) gs).
Fixpoint grp_offs (pos : N) (gs : list (bool * byte * bytes)) : list sumoffset :=
  match gs with
  | [] => []
  | g :: r =>
    if fst (fst g)
    then {| so_op := snd (fst g); so_start := pos; so_length := blen (snd g) |} :: grp_offs (pos + blen (snd g)) r
    else grp_offs pos r
  end.

Definition so_items (sos : list sumoffset) : list item :=
  if po_summary_offsets o then map (fun s => IRec OpSummaryOffset (enc_sumoffset s)) sos else [].

(* the state before the DataEnd record is written, and the pieces of finish() *)
Definition dataend_item (w1 : pw) : item := IRec OpDataEnd (enc_dataend {| de_crc := pw_crc w1 |}).
Definition summary_start_of (w1 : pw) : N := blen (pw_out w1 ++ (pw_rb w1 ++ render_item (dataend_item w1))).
Definition summary_of (w1 : pw) : list item :=
  sum_items w1 ++ so_items (grp_offs (summary_start_of w1) (sum_groups w1)).
Definition footer_ss (w1 : pw) : N := if blen (render (summary_of w1)) =? 0 then 0 else summary_start_of w1.
Definition footer_sos (w1 : pw) : N :=
  if po_summary_offsets o then summary_start_of w1 + blen (render (sum_items w1)) else 0.
Definition footer_crc (w1 : pw) : N :=
  if po_crcs o
  then crc32 (render (summary_of w1) ++ OpFooter :: u64 20 ++ u64 (footer_ss w1) ++ u64 (footer_sos w1))
  else 0.
Definition finish_items (w : pw) : list item :=
  let w1 := pw_finalize_chunk o w in
  fin_items (pw_cb w) ++ [dataend_item w1] ++ summary_of w1
  ++ [IFooter (footer_ss w1) (footer_sos w1) (footer_crc w1); IMagic].

Definition att_of (cr lg : N) (n me d : bytes) : attachment :=
  {| a_log := lg; a_create := cr; a_name := n; a_media := me; a_size := blen d; a_data := d |}.
Definition msg_of (ch lg : N) (d : bytes) (pb sq : N) : message :=
  {| m_chan := ch; m_seq := sq; m_log := lg; m_pub := pb; m_data := d |}.
Definition schema_of (w : pw) (n e d : bytes) : schema :=
  {| s_id := N.of_nat (length (pw_schemas w)) + 1; s_name := n; s_encoding := e; s_data := d |}.
Definition channel_of (w : pw) (t me : bytes) (sid : N) (m : kvs) : channel :=
  {| c_id := N.of_nat (length (pw_channels w)) + 1; c_schema := sid; c_topic := t; c_menc := me; c_meta := m |}.

(* the items a call makes the writer emit, from state w *)
Definition data_rec_items (w : pw) (op : byte) (body : bytes) : list item :=
  match pw_cb w with
  | Some cb => maybe_items (Some (cb_add_record cb op body))
  | None => [IRec op body]
  end.

Definition pt_step (w : pw) (c : pcall) : list item :=
  match c with
  | PcStart p l => [IMagic; IRec OpHeader (enc_header {| h_profile := p; h_library := l |})]
  | PcSchema n e d => data_rec_items w OpSchema (enc_schema (schema_of w n e d))
  | PcChannel t me sid m => data_rec_items w OpChannel (py_enc_channel (channel_of w t me sid m))
  | PcMessage ch lg d pb sq =>
    match pw_cb w with
    | Some cb => maybe_items (Some (cb_add_message cb (msg_of ch lg d pb sq)))
    | None => [IRec OpMessage (enc_message (msg_of ch lg d pb sq))]
    end
  | PcAttachment cr lg n me d =>
    [IAttach (att_of cr lg n me d) d (crc32 (enc_attachment_fields (att_of cr lg n me d) ++ d))]
  | PcMetadata n m => [IRec OpMetadata (py_enc_metadata {| md_name := n; md_meta := m |})]
  | PcFinish => finish_items w
  end.

Fixpoint trace_from (w : pw) (cs : list pcall) : list item :=
  match cs with
  | [] => []
  | c :: r => pt_step w c ++ trace_from (pw_step o w c) r
  end.

Definition pw_steps (w : pw) (cs : list pcall) : pw := fold_left (pw_step o) cs w.

Lemma trace_from_app w a b : trace_from w (a ++ b) = trace_from w a ++ trace_from (pw_steps w a) b.
Proof.
  revert w. induction a as [|c a IH]; intro w; [reflexivity|].
  cbn [app trace_from]. rewrite IH, app_assoc. reflexivity.
Qed.

Lemma pw_steps_app w a b : pw_steps w (a ++ b) = pw_steps (pw_steps w a) b.
Proof. unfold pw_steps. apply fold_left_app. Qed.

Lemma pw_run_steps cs : forall w w', pw_run o w cs = POk w' -> w' = pw_steps w cs.
Proof.
  induction cs as [|c r IH]; intros w w' H; cbn [pw_run] in H.
  - injection H as <-. reflexivity.
  - destruct (pcall_ok w c); [|discriminate]. apply IH in H. exact H.
Qed.

End Trace.

Definition py_trace (o : pwopts) (calls : list pcall) : list item := trace_from o (pw_init o) calls.

(* ====================================================================== *)
(** * 1a. projections of the state transformers *)

Section Proj.
Variable o : pwopts.

Ltac pj := intros; reflexivity.
Lemma flush_out w : pw_out (pw_flush o w) = pw_out w ++ pw_rb w. Proof. pj. Qed.
Lemma flush_rb w : pw_rb (pw_flush o w) = []. Proof. pj. Qed.
Lemma flush_crc w : pw_crc (pw_flush o w) = if po_data_crcs o then py_crc (pw_crc w) (pw_rb w) else pw_crc w. Proof. pj. Qed.

(* __finalize_chunk when there is something to write *)
Definition st_inc_chunks (st : statistics) : statistics :=
  {| st_messages := st_messages st; st_schemas := st_schemas st; st_channels := st_channels st;
     st_attachments := st_attachments st; st_metadata := st_metadata st; st_chunks := st_chunks st + 1;
     st_start := st_start st; st_end := st_end st; st_counts := st_counts st |}.

Definition fin_state (w : pw) (cb : pcb) : pw :=
  let cbytes := render_item (IChunk (chunk_of o cb)) in
  let mib := render (mi_items o cb) in
  {| pw_out := ((pw_out w ++ pw_rb w) ++ cbytes) ++ mib; pw_rb := [];
     pw_atts := pw_atts w; pw_mds := pw_mds w; pw_channels := pw_channels w; pw_schemas := pw_schemas w;
     pw_cb := Some cb_empty; pw_chunks := pw_chunks w ++ [ci_of o (blen (pw_out w ++ pw_rb w)) cb];
     pw_stats := st_inc_chunks (pw_stats w);
     pw_crc := if po_data_crcs o then py_crc (py_crc (py_crc (pw_crc w) (pw_rb w)) cbytes) mib else pw_crc w |}.

Lemma mi_fold start l : forall rb offs,
  fold_left (fun '(rb, offs) '(ch, es) =>
               (rb ++ frame OpMessageIndex (enc_msgindex {| mi_chan := ch; mi_entries := es |}),
                pn_set ch (start + blen rb) offs)) l (rb, offs)
  = (rb ++ render (map mi_item l), mi_offs (start + blen rb) l offs).
Proof.
  induction l as [|[ch es] l IH]; intros rb offs.
  - cbn [fold_left map mi_offs]. rewrite render_nil, app_nil_r. reflexivity.
  - cbn [fold_left]. rewrite IH. cbn [map mi_offs fst]. rewrite render_cons, app_assoc.
    f_equal. rewrite blen_app, N.add_assoc. reflexivity.
Qed.

Lemma fin_spec w cb : pw_cb w = Some cb -> (cb_num cb =? 0) = false -> pw_finalize_chunk o w = fin_state w cb.
Proof.
  intros Hcb Hn. unfold pw_finalize_chunk. rewrite Hcb, Hn. unfold fin_state, ci_of, mi_items.
  cbn [pw_flush pw_set_stats pw_set_rb pw_out pw_rb pw_atts pw_mds pw_channels pw_schemas pw_cb pw_chunks pw_stats pw_crc
       k_start k_end app].
  destruct (po_idx_msg o).
  - rewrite mi_fold.
    cbn [app]. rewrite pyw_blen_nil, N.add_0_r, (blen_app (pw_out w ++ pw_rb w)).
    cbn [pw_flush pw_set_stats pw_set_rb pw_out pw_rb pw_atts pw_mds pw_channels pw_schemas pw_cb pw_chunks pw_stats pw_crc].
    destruct (po_data_crcs o); reflexivity.
  - cbn [pw_flush pw_set_stats pw_set_rb pw_out pw_rb pw_atts pw_mds pw_channels pw_schemas pw_cb pw_chunks pw_stats pw_crc].
    rewrite render_nil, !app_nil_r.
    destruct (po_data_crcs o); rewrite ?py_crc_nil; reflexivity.
Qed.

Lemma fin_none w : pw_cb w = None -> pw_finalize_chunk o w = w.
Proof. intro H. unfold pw_finalize_chunk. rewrite H. reflexivity. Qed.
Lemma fin_zero w cb : pw_cb w = Some cb -> (cb_num cb =? 0) = true -> pw_finalize_chunk o w = w.
Proof. intros H Hn. unfold pw_finalize_chunk. rewrite H, Hn. reflexivity. Qed.


(* ---------- finish() ---------- *)
Lemma grp_fold ss gs : forall sb sos,
  fold_left (fun '(sb, sos) '(on, op, g) =>
               if on : bool then (sb ++ g, sos ++ [{| so_op := op; so_start := ss + blen sb; so_length := blen g |}])
               else (sb, sos)) gs (sb, sos)
  = (sb ++ grp_bytes gs, sos ++ grp_offs (ss + blen sb) gs).
Proof.
  induction gs as [|[[on op] g] gs IH]; intros sb sos.
  - cbn [fold_left grp_offs]. unfold grp_bytes. cbn [map concat]. rewrite !app_nil_r. reflexivity.
  - cbn [fold_left]. destruct on.
    + rewrite IH. unfold grp_bytes. cbn [map concat grp_offs fst snd]. rewrite <- !app_assoc. cbn [app].
      rewrite blen_app, N.add_assoc. reflexivity.
    + rewrite IH. unfold grp_bytes. cbn [map concat grp_offs fst snd app]. reflexivity.
Qed.

Lemma summary_group_render {A} op (f : A -> bytes) l :
  summary_group op (map f l) = render (map (fun x => IRec op (f x)) l).
Proof. unfold summary_group, render. rewrite !map_map. reflexivity. Qed.

Lemma grp_bytes_sum w : grp_bytes (sum_groups o w) = render (sum_items o w).
Proof.
  unfold grp_bytes, sum_groups, sum_items. cbn [map concat fst snd]. rewrite !render_app, !render_if, app_nil_r.
  rewrite !summary_group_render, render_one. reflexivity.
Qed.

(* the state just before the summary is written *)
Definition pre_summary (w1 : pw) : pw :=
  pw_flush o (pw_set_rb w1 (pw_rb w1 ++ render_item (dataend_item w1))).

Definition finish_state (w : pw) : pw :=
  let w1 := pw_finalize_chunk o w in
  let w3 := pw_raw (pre_summary w1) (render (summary_of o w1)) in
  pw_raw (pw_flush o (pw_set_rb w3 (pw_rb w3 ++ render_item (IFooter (footer_ss o w1) (footer_sos o w1) (footer_crc o w1)))))
         magic.

Lemma finish_spec w : pw_finish o w = finish_state w.
Proof.
  unfold pw_finish, finish_state, pre_summary. cbv zeta.
  set (w1 := pw_finalize_chunk o w).
  set (w2 := pw_flush o (pw_set_rb w1 (pw_rb w1 ++ frame OpDataEnd (enc_dataend {| de_crc := pw_crc w1 |})))).
  change [(po_repeat_schemas o, OpSchema, summary_group OpSchema (map enc_schema (pw_schemas w2)));
          (po_repeat_channels o, OpChannel, summary_group OpChannel (map py_enc_channel (pw_channels w2)));
          (po_statistics o, OpStatistics, frame OpStatistics (enc_statistics (pw_stats w2)));
          (po_idx_chunk o, OpChunkIndex, summary_group OpChunkIndex (map enc_chunkindex (pw_chunks w2)));
          (po_idx_att o, OpAttachmentIndex, summary_group OpAttachmentIndex (map enc_attindex (pw_atts w2)));
          (po_idx_md o, OpMetadataIndex, summary_group OpMetadataIndex (map enc_mdindex (pw_mds w2)))]
    with (sum_groups o w1).
  rewrite grp_fold. cbn [app]. rewrite pyw_blen_nil, N.add_0_r, grp_bytes_sum.
  change (blen (pw_out w2)) with (summary_start_of w1).
  assert (Hs : (if po_summary_offsets o
                then render (sum_items o w1) ++ summary_group OpSummaryOffset (map enc_sumoffset (grp_offs (summary_start_of w1) (sum_groups o w1)))
                else render (sum_items o w1)) = render (summary_of o w1)).
  { unfold summary_of, so_items. rewrite render_app, render_if, summary_group_render.
    destruct (po_summary_offsets o); [reflexivity | rewrite app_nil_r; reflexivity]. }
  rewrite Hs.
  assert (Hc : (if po_crcs o
                then py_crc (crc32 (render (summary_of o w1)))
                       (OpFooter :: u64 20 ++ u64 (if blen (render (summary_of o w1)) =? 0 then 0 else summary_start_of w1)
                                 ++ u64 (if po_summary_offsets o then summary_start_of w1 + blen (render (sum_items o w1)) else 0))
                else 0) = footer_crc o w1).
  { unfold footer_crc, footer_ss, footer_sos. destruct (po_crcs o); [apply py_crc_crc32 | reflexivity]. }
  rewrite Hc. reflexivity.
Qed.

Lemma finish_out w :
  let w1 := pw_finalize_chunk o w in
  pw_out (pw_finish o w)
  = (pw_out w1 ++ pw_rb w1) ++ render ([dataend_item w1] ++ summary_of o w1
                                        ++ [IFooter (footer_ss o w1) (footer_sos o w1) (footer_crc o w1); IMagic]).
Proof.
  cbv zeta. rewrite finish_spec. unfold finish_state, pre_summary.
  cbn [pw_raw pw_flush pw_set_rb pw_out pw_rb app].
  rewrite render_cons, render_app, !render_cons, render_nil, app_nil_r.
  change (render_item IMagic) with magic.
  rewrite <- !app_assoc. reflexivity.
Qed.

Lemma finish_rb w : pw_rb (pw_finish o w) = [].
Proof. rewrite finish_spec. reflexivity. Qed.

End Proj.

(* ====================================================================== *)
(** * 1b. the output is the rendering of the trace *)

Definition is_start (c : pcall) : bool := match c with PcStart _ _ => true | _ => false end.
Definition is_finish (c : pcall) : bool := match c with PcFinish => true | _ => false end.
Definition no_start (cs : list pcall) : bool := forallb (fun c => negb (is_start c)) cs.
(* the calls between start and finish *)
Definition data_calls (cs : list pcall) : bool := forallb (fun c => negb (is_start c) && negb (is_finish c)) cs.

Lemma data_calls_no_start cs : data_calls cs = true -> no_start cs = true.
Proof.
  unfold data_calls, no_start. rewrite !forallb_forall. intros H c Hc. specialize (H c Hc).
  apply andb_true_iff in H. apply H.
Qed.

(* everything the stream and the record builder hold *)
Definition obytes (w : pw) : bytes := pw_out w ++ pw_rb w.

Section Bytes.
Variable o : pwopts.

Lemma fin_bytes w : obytes (pw_finalize_chunk o w) = obytes w ++ render (fin_items o (pw_cb w)).
Proof.
  destruct (pw_cb w) as [cb|] eqn:Hcb.
  - cbn [fin_items]. destruct (cb_num cb =? 0) eqn:Hn.
    + rewrite (fin_zero o w cb Hcb Hn), render_nil, app_nil_r. reflexivity.
    + rewrite (fin_spec o w cb Hcb Hn). unfold obytes, fin_state. cbn [pw_out pw_rb].
      rewrite render_cons, app_nil_r, <- !app_assoc. reflexivity.
  - rewrite (fin_none o w Hcb). cbn [fin_items]. rewrite render_nil, app_nil_r. reflexivity.
Qed.

Lemma maybe_bytes w : obytes (pw_maybe_finalize o w) = obytes w ++ render (maybe_items o (pw_cb w)).
Proof.
  unfold pw_maybe_finalize, maybe_items. destruct (pw_cb w) as [cb|] eqn:Hcb.
  - destruct (po_chunk_size o <? blen (cb_buf cb)).
    + rewrite fin_bytes, Hcb. reflexivity.
    + rewrite render_nil, app_nil_r. reflexivity.
  - rewrite render_nil, app_nil_r. reflexivity.
Qed.

Lemma render_attach a d :
  render_item (IAttach a d (crc32 (enc_attachment_fields a ++ d)))
  = frame OpAttachment ((enc_attachment_fields a ++ d) ++ u32 (crc32 (enc_attachment_fields a ++ d))).
Proof. cbn [render_item]. rewrite <- app_assoc. reflexivity. Qed.

Lemma step_bytes w c :
  is_start c = false -> obytes (pw_step o w c) = obytes w ++ render (pt_step o w c).
Proof.
  destruct c as [p l|n e d|t me sid m|ch lg d pb sq|cr lg n me d|n m|]; intro Hs; [discriminate| | | | | |].
  - cbn [pw_step pt_step]. unfold pw_data_record, data_rec_items. cbn [pw_cb].
    destruct (pw_cb w) as [cb|] eqn:Hcb.
    + rewrite maybe_bytes. reflexivity.
    + unfold obytes. cbn [pw_set_rb pw_out pw_rb]. rewrite render_one, app_assoc. reflexivity.
  - cbn [pw_step pt_step]. unfold pw_data_record, data_rec_items. cbn [pw_cb].
    destruct (pw_cb w) as [cb|] eqn:Hcb.
    + rewrite maybe_bytes. reflexivity.
    + unfold obytes. cbn [pw_set_rb pw_out pw_rb]. rewrite render_one, app_assoc. reflexivity.
  - cbn [pw_step pt_step pw_set_stats pw_cb]. destruct (pw_cb w) as [cb|] eqn:Hcb.
    + rewrite maybe_bytes. reflexivity.
    + unfold obytes. cbn [pw_flush pw_set_rb pw_out pw_rb]. rewrite render_one, app_nil_r, app_assoc. reflexivity.
  - cbn [pw_step pt_step]. unfold obytes. cbn [pw_flush pw_out pw_rb app].
    rewrite render_one, render_attach, app_nil_r. reflexivity.
  - cbn [pw_step pt_step]. unfold obytes. cbn [pw_flush pw_out pw_rb app].
    rewrite render_one, app_nil_r. reflexivity.
  - cbn [pw_step pt_step]. unfold obytes at 1. rewrite finish_rb, app_nil_r, finish_out. cbv zeta.
    fold (obytes (pw_finalize_chunk o w)). rewrite fin_bytes. unfold finish_items.
    rewrite (render_app (fin_items o (pw_cb w))), <- app_assoc. reflexivity.
Qed.

Lemma start_bytes w p l :
  pw_rb w = [] -> obytes (pw_step o w (PcStart p l)) = obytes w ++ render (pt_step o w (PcStart p l)).
Proof.
  intro Hrb. cbn [pw_step pt_step]. unfold obytes. cbn [pw_flush pw_set_rb pw_raw pw_out pw_rb]. rewrite Hrb.
  cbn [app]. rewrite render_cons, render_one, !app_nil_r, app_assoc. reflexivity.
Qed.

Lemma steps_bytes cs : forall w,
  no_start cs = true -> obytes (pw_steps o w cs) = obytes w ++ render (trace_from o w cs).
Proof.
  induction cs as [|c cs IH]; intros w Hns.
  - cbn [trace_from]. rewrite render_nil, app_nil_r. reflexivity.
  - cbn [no_start forallb] in Hns. apply andb_true_iff in Hns. destruct Hns as [Hc Hns].
    apply negb_true_iff in Hc. unfold pw_steps. cbn [fold_left trace_from]. fold (pw_steps o (pw_step o w c) cs).
    rewrite (IH _ Hns), (step_bytes w c Hc), render_app, app_assoc. reflexivity.
Qed.

Lemma steps_rb_finish w cs : pw_rb (pw_steps o w (cs ++ [PcFinish])) = [].
Proof. rewrite pw_steps_app. unfold pw_steps at 1. cbn [fold_left pw_step]. apply finish_rb. Qed.

(* Theorem 1: the bytes written are the rendering of the trace *)
Theorem py_write_is_trace p l cs b :
  py_write o (PcStart p l :: cs ++ [PcFinish]) = POk b -> no_start cs = true ->
  b = render (py_trace o (PcStart p l :: cs ++ [PcFinish])).
Proof.
  intros Hw Hns. unfold py_write in Hw.
  destruct (pw_run o (pw_init o) (PcStart p l :: cs ++ [PcFinish])) as [w'| |] eqn:Hr; try discriminate.
  cbn [pbind] in Hw. injection Hw as <-. apply pw_run_steps in Hr. subst w'.
  assert (Hrb : pw_rb (pw_steps o (pw_init o) (PcStart p l :: cs ++ [PcFinish])) = []).
  { change (PcStart p l :: cs ++ [PcFinish]) with ((PcStart p l :: cs) ++ [PcFinish]). apply steps_rb_finish. }
  assert (H : obytes (pw_steps o (pw_init o) (PcStart p l :: cs ++ [PcFinish]))
              = render (py_trace o (PcStart p l :: cs ++ [PcFinish]))).
  { unfold py_trace. unfold pw_steps. cbn [fold_left trace_from].
    fold (pw_steps o (pw_step o (pw_init o) (PcStart p l)) (cs ++ [PcFinish])).
    rewrite steps_bytes.
    - rewrite (start_bytes (pw_init o) p l eq_refl), render_app. reflexivity.
    - unfold no_start in *. rewrite forallb_app, Hns. reflexivity. }
  unfold obytes in H. rewrite Hrb, app_nil_r in H. exact H.
Qed.

(* at any point after start, stream ++ record builder is the rendering of the items so far *)
Theorem py_run_is_trace p l cs w :
  pw_run o (pw_init o) (PcStart p l :: cs) = POk w -> no_start cs = true ->
  pw_out w ++ pw_rb w = render (py_trace o (PcStart p l :: cs)).
Proof.
  intros Hr Hns. apply pw_run_steps in Hr. subst w. fold (obytes (pw_steps o (pw_init o) (PcStart p l :: cs))).
  unfold py_trace, pw_steps. cbn [fold_left trace_from]. fold (pw_steps o (pw_step o (pw_init o) (PcStart p l)) cs).
  rewrite (steps_bytes cs _ Hns), (start_bytes (pw_init o) p l eq_refl), render_app. reflexivity.
Qed.

End Bytes.

(* ====================================================================== *)
(** * 2. the trace is a well-formed file for the Go lexer *)

(* ---------- 2a. ghost: the records in the chunk builder ---------- *)
Definition auto_rec (r : byte * bytes) : Prop := fst r = OpSchema \/ fst r = OpChannel \/ fst r = OpMessage.
Definition is_msg_rec (r : byte * bytes) : bool := Byte.eqb (fst r) OpMessage.

Definition after_fin (cb : pcb) (inner : list (byte * bytes)) : list (byte * bytes) :=
  if cb_num cb =? 0 then inner else [].
Definition after_maybe (o : pwopts) (cb : pcb) (inner : list (byte * bytes)) : list (byte * bytes) :=
  if po_chunk_size o <? blen (cb_buf cb) then after_fin cb inner else inner.

(* the records the chunk builder holds after call c, given those it held before *)
Definition inner_step (o : pwopts) (w : pw) (inner : list (byte * bytes)) (c : pcall) : list (byte * bytes) :=
  match pw_cb w with
  | None => inner
  | Some cb =>
    match c with
    | PcSchema n e d =>
      let body := enc_schema (schema_of w n e d) in
      after_maybe o (cb_add_record cb OpSchema body) (inner ++ [(OpSchema, body)])
    | PcChannel t me sid m =>
      let body := py_enc_channel (channel_of w t me sid m) in
      after_maybe o (cb_add_record cb OpChannel body) (inner ++ [(OpChannel, body)])
    | PcMessage ch lg d pb sq =>
      let m := msg_of ch lg d pb sq in
      after_maybe o (cb_add_message cb m) (inner ++ [(OpMessage, enc_message m)])
    | PcFinish => after_fin cb inner
    | _ => inner
    end
  end.

Fixpoint inner_steps (o : pwopts) (w : pw) (inner : list (byte * bytes)) (cs : list pcall) : list (byte * bytes) :=
  match cs with
  | [] => inner
  | c :: r => inner_steps o (pw_step o w c) (inner_step o w inner c) r
  end.

(* least / greatest log time of a list of messages (0 for the empty list) *)
Definition log_min (ms : list message) : N :=
  match ms with [] => 0 | m :: r => fold_left N.min (map m_log r) (m_log m) end.
Definition log_max (ms : list message) : N := fold_left N.max (map m_log ms) 0.
Lemma log_min_snoc ms m :
  log_min (ms ++ [m]) = match ms with [] => m_log m | _ => N.min (m_log m) (log_min ms) end.
Proof.
  destruct ms as [|m1 r]; [reflexivity|]. cbn [app log_min]. rewrite map_app, fold_left_app. cbn [map fold_left].
  apply N.min_comm.
Qed.
Lemma log_max_snoc ms m : log_max (ms ++ [m]) = N.max (m_log m) (log_max ms).
Proof. unfold log_max. rewrite map_app, fold_left_app. cbn [map fold_left]. apply N.max_comm. Qed.

(* the message records among inner are the encodings of ms *)
Definition inner_msgs (inner : list (byte * bytes)) (ms : list message) : Prop :=
  filter is_msg_rec inner = map (fun m => (OpMessage, enc_message m)) ms.

Definition cb_ok (cb : pcb) (inner : list (byte * bytes)) : Prop :=
  cb_buf cb = frames inner /\ cb_start cb < two64 /\ cb_end cb < two64 /\ Forall auto_rec inner
  /\ cb_num cb = N.of_nat (length (filter is_msg_rec inner))
  /\ exists ms, inner_msgs inner ms /\ cb_start cb = log_min ms /\ cb_end cb = log_max ms.

Definition SInv (w : pw) (inner : list (byte * bytes)) : Prop :=
  match pw_cb w with Some cb => cb_ok cb inner | None => inner = [] end.

(* what holds of every emitted item by construction (sizes aside) *)
Definition item_built (it : item) : Prop :=
  match it with
  | IMagic => False
  | IRec op body => op <> OpChunk /\ op <> OpAttachment /\ op <> x00
  | IChunk k =>
    k_start k < two64 /\ k_end k < two64 /\ k_comp k = [] /\ k_usize k = blen (k_records k)
    /\ (k_crc k = 0 \/ k_crc k = crc32 (k_records k))
    /\ exists inner, k_records k = frames inner /\ Forall auto_rec inner
                     /\ exists ms, inner_msgs inner ms /\ k_start k = log_min ms /\ k_end k = log_max ms
  | IAttach a data crc =>
    a_log a < two64 /\ a_create a < two64 /\ blen (a_name a) < two32 /\ blen (a_media a) < two32
    /\ a_size a = blen data /\ crc = crc32 (enc_attachment_fields a ++ data)
  | IFooter ss sos crc => crc < two32
  end.

Lemma ltb_true a b : (a <? b) = true -> a < b.
Proof. apply N.ltb_lt. Qed.

Lemma frames_snoc inner op body : frames (inner ++ [(op, body)]) = frames inner ++ frame op body.
Proof. unfold frames. rewrite map_app, concat_app. cbn [map concat frame_of fst snd]. rewrite app_nil_r. reflexivity. Qed.

Lemma cb_ok_empty : cb_ok cb_empty [].
Proof.
  unfold cb_ok, cb_empty. cbn [cb_buf cb_start cb_end cb_num]. repeat split; try reflexivity; [constructor|].
  exists []. repeat split.
Qed.

Lemma cb_ok_add_record cb inner op body :
  cb_ok cb inner -> op = OpSchema \/ op = OpChannel -> cb_ok (cb_add_record cb op body) (inner ++ [(op, body)]).
Proof.
  intros (Hb & Hs & He & Ha & Hn & ms & Hm & Hmin & Hmax) Hop. unfold cb_ok, cb_add_record. cbn [cb_buf cb_start cb_end cb_num].
  assert (Hf : filter is_msg_rec (inner ++ [(op, body)]) = filter is_msg_rec inner).
  { rewrite filter_app. cbn [filter is_msg_rec fst]. destruct Hop as [-> | ->]; cbn; apply app_nil_r. }
  rewrite frames_snoc, Hb, Hf. split; [reflexivity|]. split; [exact Hs|]. split; [exact He|]. split; [|split; [exact Hn|]].
  - apply Forall_app. split; [exact Ha|]. constructor; [|constructor]. unfold auto_rec. cbn [fst]. tauto.
  - exists ms. unfold inner_msgs. rewrite Hf. repeat split; assumption.
Qed.

Lemma cb_ok_add_message cb inner m :
  cb_ok cb inner -> m_log m < two64 -> cb_ok (cb_add_message cb m) (inner ++ [(OpMessage, enc_message m)]).
Proof.
  intros (Hb & Hs & He & Ha & Hn & ms & Hm & Hmin & Hmax) Hl. unfold cb_ok, cb_add_message. cbn [cb_buf cb_start cb_end cb_num].
  assert (Hf : filter is_msg_rec (inner ++ [(OpMessage, enc_message m)]) = filter is_msg_rec inner ++ [(OpMessage, enc_message m)]).
  { rewrite filter_app. reflexivity. }
  rewrite frames_snoc, Hb, Hf. split; [reflexivity|]. split; [destruct (cb_num cb =? 0); lia|]. split; [lia|].
  split; [|split].
  - apply Forall_app. split; [exact Ha|]. constructor; [|constructor]. unfold auto_rec. cbn [fst]. tauto.
  - rewrite app_length. cbn [length]. lia.
  - exists (ms ++ [m]). unfold inner_msgs in *. rewrite Hf, Hm, map_app, log_min_snoc, log_max_snoc. split; [reflexivity|].
    rewrite Hm, map_length in Hn. split.
    + destruct ms as [|m0 r].
      * rewrite Hn. reflexivity.
      * rewrite Hn. cbn [length]. destruct (N.eqb_spec (N.of_nat (S (length r))) 0); [lia|]. rewrite Hmin. apply N.min_comm.
    + rewrite Hmax. apply N.max_comm.
Qed.

Section Built.
Variable o : pwopts.

Lemma chunk_built cb inner : cb_ok cb inner -> item_built (IChunk (chunk_of o cb)).
Proof.
  intros (Hb & Hs & He & Ha & Hn & ms & Hm & Hmin & Hmax). cbn [item_built chunk_of k_start k_end k_comp k_usize k_records k_crc].
  split; [exact Hs|]. split; [exact He|]. split; [reflexivity|]. split; [reflexivity|]. split.
  - destruct (po_crcs o); [right|left]; reflexivity.
  - exists inner. split; [exact Hb|]. split; [exact Ha|]. exists ms. repeat split; assumption.
Qed.

Lemma mi_items_built cb : Forall item_built (mi_items o cb).
Proof.
  unfold mi_items. destruct (po_idx_msg o); [|constructor]. apply Forall_forall. intros it Hit.
  apply in_map_iff in Hit. destruct Hit as (p & <- & _). cbn. repeat split; discriminate.
Qed.

Lemma fin_items_built cb inner : cb_ok cb inner -> Forall item_built (fin_items o (Some cb)).
Proof.
  intro H. cbn [fin_items]. destruct (cb_num cb =? 0); [constructor|].
  constructor; [eapply chunk_built; exact H | apply mi_items_built].
Qed.

Lemma fin_SInv w inner :
  SInv w inner ->
  SInv (pw_finalize_chunk o w) (match pw_cb w with Some cb => after_fin cb inner | None => inner end).
Proof.
  unfold SInv. destruct (pw_cb w) as [cb|] eqn:Hcb.
  - intro H. unfold after_fin. destruct (cb_num cb =? 0) eqn:Hn.
    + rewrite (fin_zero o w cb Hcb Hn), Hcb. exact H.
    + rewrite (fin_spec o w cb Hcb Hn). cbn [fin_state pw_cb]. apply cb_ok_empty.
  - intro H. rewrite (fin_none o w Hcb), Hcb. exact H.
Qed.

Lemma maybe_inv w cb inner :
  pw_cb w = Some cb -> cb_ok cb inner ->
  Forall item_built (maybe_items o (Some cb)) /\ SInv (pw_maybe_finalize o w) (after_maybe o cb inner).
Proof.
  intros Hcb Hok. unfold maybe_items, pw_maybe_finalize, after_maybe. rewrite Hcb.
  destruct (po_chunk_size o <? blen (cb_buf cb)).
  - split; [eapply fin_items_built; exact Hok|].
    assert (H : SInv w inner) by (unfold SInv; rewrite Hcb; exact Hok).
    apply fin_SInv in H. rewrite Hcb in H. exact H.
  - split; [constructor|]. unfold SInv. rewrite Hcb. exact Hok.
Qed.

Lemma step_built w inner c :
  SInv w inner -> pcall_ok w c = true -> is_start c = false -> is_finish c = false ->
  Forall item_built (pt_step o w c) /\ SInv (pw_step o w c) (inner_step o w inner c).
Proof.
  intros HI Hok Hs Hf. unfold SInv in HI.
  destruct c as [p l|n e d|t me sid m|ch lg d pb sq|cr lg n me d|n m|]; try discriminate.
  - cbn [pw_step pt_step]. unfold pw_data_record, data_rec_items, inner_step. cbn [pw_cb].
    destruct (pw_cb w) as [cb|] eqn:Hcb.
    + apply maybe_inv; [reflexivity|]. apply cb_ok_add_record; [exact HI | left; reflexivity].
    + split; [constructor; [|constructor]; cbn; repeat split; discriminate|].
      unfold SInv. cbn [pw_set_rb pw_cb]. rewrite ?Hcb. exact HI.
  - cbn [pw_step pt_step]. unfold pw_data_record, data_rec_items, inner_step. cbn [pw_cb].
    destruct (pw_cb w) as [cb|] eqn:Hcb.
    + apply maybe_inv; [reflexivity|]. apply cb_ok_add_record; [exact HI | right; reflexivity].
    + split; [constructor; [|constructor]; cbn; repeat split; discriminate|].
      unfold SInv. cbn [pw_set_rb pw_cb]. rewrite ?Hcb. exact HI.
  - cbn [pw_step pt_step pw_set_stats pw_cb]. unfold inner_step.
    destruct (pw_cb w) as [cb|] eqn:Hcb.
    + apply maybe_inv; [reflexivity|]. apply cb_ok_add_message; [exact HI|].
      cbn [pcall_ok] in Hok. apply andb_true_iff in Hok. destruct Hok as [Hok _].
      apply andb_true_iff in Hok. destruct Hok as [Hok _]. apply andb_true_iff in Hok. destruct Hok as [_ Hok].
      cbn [msg_of m_log]. apply ltb_true, Hok.
    + split; [constructor; [|constructor]; cbn; repeat split; discriminate|].
      unfold SInv. cbn [pw_flush pw_set_rb pw_set_stats pw_cb]. rewrite ?Hcb. exact HI.
  - cbn [pw_step pt_step]. split.
    + constructor; [|constructor]. cbn [pcall_ok] in Hok.
      apply andb_true_iff in Hok. destruct Hok as [Hok H4]. apply andb_true_iff in Hok. destruct Hok as [Hok H3].
      apply andb_true_iff in Hok. destruct Hok as [H1 H2].
      cbn [item_built att_of a_log a_create a_name a_media a_size].
      repeat split; try reflexivity; apply ltb_true; assumption.
    + unfold SInv, inner_step. cbn [pw_flush pw_cb]. destruct (pw_cb w); exact HI.
  - cbn [pw_step pt_step]. split.
    + constructor; [|constructor]. cbn. repeat split; discriminate.
    + unfold SInv, inner_step. cbn [pw_flush pw_cb]. destruct (pw_cb w); exact HI.
Qed.

Lemma Forall_map_rec {A} op (f : A -> bytes) l :
  op <> OpChunk -> op <> OpAttachment -> op <> x00 -> Forall item_built (map (fun x => IRec op (f x)) l).
Proof.
  intros H1 H2 H3. apply Forall_forall. intros it Hit. apply in_map_iff in Hit. destruct Hit as (x & <- & _).
  cbn. repeat split; assumption.
Qed.

Lemma Forall_if {A} (P : A -> Prop) (b : bool) l : Forall P l -> Forall P (if b then l else []).
Proof. destruct b; [auto | constructor]. Qed.

Lemma sum_items_built w : Forall item_built (sum_items o w).
Proof.
  unfold sum_items. repeat (apply Forall_app; split); apply Forall_if;
    try (apply Forall_map_rec; discriminate).
  constructor; [|constructor]. cbn. repeat split; discriminate.
Qed.

Lemma summary_built w : Forall item_built (summary_of o w).
Proof.
  unfold summary_of. apply Forall_app. split; [apply sum_items_built|].
  unfold so_items. apply Forall_if. apply Forall_map_rec; discriminate.
Qed.

Lemma footer_crc_lt w : footer_crc o w < two32.
Proof. unfold footer_crc. destruct (po_crcs o); [apply crc32_lt_two32 | unfold two32; lia]. Qed.

Definition finish_recs (w : pw) : list item :=
  let w1 := pw_finalize_chunk o w in
  fin_items o (pw_cb w) ++ [dataend_item w1] ++ summary_of o w1
  ++ [IFooter (footer_ss o w1) (footer_sos o w1) (footer_crc o w1)].

Lemma finish_items_split w : finish_items o w = finish_recs w ++ [IMagic].
Proof.
  unfold finish_items, finish_recs. cbv zeta. rewrite <- !app_assoc. reflexivity.
Qed.

Lemma finish_built w inner : SInv w inner -> Forall item_built (finish_recs w).
Proof.
  intro HI. unfold finish_recs. cbv zeta. apply Forall_app. split; [|cbn [app]; constructor; [|apply Forall_app; split]].
  - unfold SInv in HI. destruct (pw_cb w) as [cb|]; [eapply fin_items_built; exact HI | constructor].
  - cbn. repeat split; discriminate.
  - apply summary_built.
  - constructor; [|constructor]. cbn [item_built]. apply footer_crc_lt.
Qed.

Lemma data_built cs : forall w inner w',
  SInv w inner -> data_calls cs = true -> pw_run o w cs = POk w' ->
  Forall item_built (trace_from o w cs) /\ SInv w' (inner_steps o w inner cs).
Proof.
  induction cs as [|c cs IH]; intros w inner w' HI Hd Hr.
  - cbn [pw_run] in Hr. injection Hr as <-. split; [constructor | exact HI].
  - cbn [data_calls forallb] in Hd. apply andb_true_iff in Hd. destruct Hd as [Hc Hd].
    apply andb_true_iff in Hc. destruct Hc as [Hs Hf]. apply negb_true_iff in Hs. apply negb_true_iff in Hf.
    cbn [pw_run] in Hr. destruct (pcall_ok w c) eqn:Hok; [|discriminate].
    destruct (step_built w inner c HI Hok Hs Hf) as [Hb HI'].
    destruct (IH _ _ _ HI' Hd Hr) as [Hb' HI''].
    cbn [trace_from inner_steps]. split; [apply Forall_app; split; assumption | exact HI''].
Qed.

End Built.

(* ---------- 2b. size bounds, wf_item ---------- *)
Lemma frames_body_le inner : Forall (fun r => blen (snd r) <= blen (frames inner)) inner.
Proof.
  induction inner as [|r inner IH]; [constructor|]. rewrite frames_cons, blen_app, pyw_blen_frame.
  constructor; [lia|]. eapply Forall_impl; [|exact IH]. cbv beta. intros a Ha. lia.
Qed.

Lemma two63_lt_two64 n : n < two63 -> n < two64.
Proof. unfold two63, two64. lia. Qed.

Section WF.
Variable lo : lopts.
Variable ds : doracle.

Definition rec_size_ok (r : byte * bytes) : Prop := blen (snd r) < max_int32 /\ len_ok lo (blen (snd r)).

(* the size side conditions of LexSpec.wf_item *)
Definition item_size_ok (it : item) : Prop :=
  match it with
  | IMagic => True
  | IRec op body => rec_size_ok (op, body)
  | IChunk k =>
    len_ok lo (blen (enc_chunk k)) /\ blen (k_records k) < two63
    /\ Forall rec_size_ok (split_records (length (k_records k)) (k_records k))
    /\ (lo_validate lo = true ->
        2 * k_usize k < max_int32 /\ ((0 <? lo_max_chunk lo) && (lo_max_chunk lo <? k_usize k)) = false)
  | IAttach a data crc => blen (attach_body a data crc) < two63 /\ len_ok lo (blen (attach_body a data crc))
  | IFooter ss sos crc => ss < two64 /\ sos < two64 /\ len_ok lo 20
  end.

Hypothesis Hemit : lo_emit_chunks lo = false.
Hypothesis Hcustom : mem_bytes [] (lo_custom lo) = false.
Hypothesis Hcb : lo_cb lo = CbNone \/ lo_cb lo = CbFull.

Lemma chunk_stream_stored recs : chunk_stream lo ds [] recs None = (recs, None).
Proof. unfold chunk_stream. rewrite Hcustom. reflexivity. Qed.

Lemma built_wf it : item_built it -> item_size_ok it -> wf_item lo ds it.
Proof.
  destruct it as [|op body|k|a data crc|ss sos crc]; cbn [item_built item_size_ok wf_item].
  - intros [] _.
  - intros (H1 & H2 & H3) (H4 & H5). unfold plain_rec_ok. cbn [fst snd] in *. repeat split; assumption.
  - intros (Hs & He & Hc & Hu & Hcrc & inner & Hr & Ha & _) (Hl & H63 & Hsz & Hv).
    unfold wf_chunk_item. rewrite Hemit.
    assert (H64 : Forall (fun r => blen (snd r) < two64) inner).
    { eapply Forall_impl; [|apply frames_body_le]. cbv beta. intros r Hle. rewrite <- Hr in Hle.
      apply two63_lt_two64. lia. }
    rewrite Hr, split_records_frames in Hsz by (exact H64 || lia).
    split; [|split; [exact Hl|]].
    + unfold wf_chunk. rewrite Hc, Hu. repeat split; try assumption; try (apply two63_lt_two64, H63); try reflexivity.
      destruct Hcrc as [-> | ->]; [reflexivity | apply crc32_lt_two32].
    + split; [rewrite Hc; unfold comp_supported; cbn [bytes_eqb]; rewrite orb_true_r; reflexivity|].
      split; [rewrite Hc; reflexivity|]. split; [exact H63|].
      exists inner. rewrite Hc, chunk_stream_stored, <- Hr. split; [reflexivity|]. split; [exact Hu|].
      split.
      * clear - Ha Hsz. induction Ha as [|r inner Hr _ IH]; [constructor|].
        inversion Hsz as [|x y (Hx1 & Hx2) Hy]; subst x y. constructor; [|apply IH, Hy].
        unfold plain_rec_ok. destruct r as [op body]. unfold auto_rec in Hr. cbn [fst snd] in *.
        destruct Hr as [-> | [-> | ->]]; repeat split; try discriminate; assumption.
      * split; [exact Hcrc|]. intro Hval. destruct (Hv Hval) as [Hv1 Hv2]. split; [exact Hv1|].
        split; [exact Hv2|]. rewrite Hcustom. discriminate.
  - intros (H1 & H2 & H3 & H4 & H5 & ->) (H6 & H7). unfold wf_attach_item.
    repeat split; try assumption. apply crc32_lt_two32.
  - intros H1 (H2 & H3 & H4). repeat split; assumption.
Qed.

Lemma built_wf_all l : Forall item_built l -> Forall item_size_ok l -> Forall (wf_item lo ds) l.
Proof.
  induction 1 as [|it l Hb _ IH]; intro Hs; [constructor|]. inversion Hs; subst. constructor; [apply built_wf|apply IH]; assumption.
Qed.

End WF.

Lemma pw_run_app o a : forall b w w',
  pw_run o w (a ++ b) = POk w' -> exists w1, pw_run o w a = POk w1 /\ pw_run o w1 b = POk w'.
Proof.
  induction a as [|c a IH]; intros b w w' H.
  - exists w. split; [reflexivity | exact H].
  - cbn [app pw_run] in *. destruct (pcall_ok w c); [|discriminate]. apply IH, H.
Qed.

Lemma py_write_run o cs b : py_write o cs = POk b -> exists w, pw_run o (pw_init o) cs = POk w /\ b = pw_out w.
Proof.
  unfold py_write. destruct (pw_run o (pw_init o) cs) as [w| |]; try discriminate. cbn [pbind].
  intro H. injection H as <-. exists w. split; reflexivity.
Qed.

Section Main.
Variable o : pwopts.

(* the state after start() *)
Definition started (p l : bytes) : pw := pw_step o (pw_init o) (PcStart p l).

Lemma started_SInv p l : SInv (started p l) [].
Proof.
  unfold SInv, started. cbn [pw_step pw_flush pw_set_rb pw_raw pw_cb pw_init].
  destruct (po_chunking o); [apply cb_ok_empty | reflexivity].
Qed.

Definition header_item (p l : bytes) : item := IRec OpHeader (enc_header {| h_profile := p; h_library := l |}).

(* shape of the trace of a complete session *)
Theorem py_trace_shape p l cs :
  py_trace o (PcStart p l :: cs ++ [PcFinish])
  = [IMagic] ++ (header_item p l :: trace_from o (started p l) cs ++ finish_recs o (pw_steps o (started p l) cs)) ++ [IMagic].
Proof.
  unfold py_trace. cbn [trace_from pt_step]. fold (started p l). rewrite trace_from_app. cbn [trace_from pt_step].
  rewrite app_nil_r, finish_items_split. cbn [app]. rewrite <- !app_assoc. reflexivity.
Qed.

Variable lo : lopts.
Variable ds : doracle.

(* Theorem 2: well-formedness *)
Theorem py_trace_wf p l cs b :
  lo_skip_magic lo = false -> lo_emit_chunks lo = false -> mem_bytes [] (lo_custom lo) = false ->
  lo_cb lo = CbNone \/ lo_cb lo = CbFull ->
  py_write o (PcStart p l :: cs ++ [PcFinish]) = POk b -> data_calls cs = true ->
  Forall (item_size_ok lo) (py_trace o (PcStart p l :: cs ++ [PcFinish])) ->
  wf_file lo ds (py_trace o (PcStart p l :: cs ++ [PcFinish])).
Proof.
  intros Hskip Hemit Hcustom Hcb Hw Hd Hsz.
  destruct (py_write_run _ _ _ Hw) as (w' & Hr & _).
  cbn [pw_run] in Hr. destruct (pcall_ok (pw_init o) (PcStart p l)); [|discriminate]. fold (started p l) in Hr.
  apply pw_run_app in Hr. destruct Hr as (w1 & Hr1 & _).
  destruct (data_built o cs _ _ _ (started_SInv p l) Hd Hr1) as [Hb1 HI].
  apply pw_run_steps in Hr1. subst w1.
  rewrite py_trace_shape in *. unfold wf_file, lead_magic. rewrite Hskip.
  eexists. split; [reflexivity|].
  apply Forall_app in Hsz. destruct Hsz as [_ Hsz]. apply Forall_app in Hsz. destruct Hsz as [Hsz _].
  apply built_wf_all; try assumption.
  constructor; [cbn; repeat split; discriminate|]. apply Forall_app. split; [exact Hb1|].
  eapply finish_built. exact HI.
Qed.

(* ... hence the Go lexer model reads the written bytes as the events of the trace, then EOF *)
Theorem py_write_lex p l cs b sk :
  lo_skip_magic lo = false -> lo_emit_chunks lo = false -> mem_bytes [] (lo_custom lo) = false ->
  lo_cb lo = CbNone \/ lo_cb lo = CbFull ->
  py_write o (PcStart p l :: cs ++ [PcFinish]) = POk b -> data_calls cs = true ->
  Forall (item_size_ok lo) (py_trace o (PcStart p l :: cs ++ [PcFinish])) ->
  forall fuel, (file_steps lo ds (py_trace o (PcStart p l :: cs ++ [PcFinish])) + 1 <= fuel)%nat ->
  exists st, lex_all lo ds fuel (src_of b sk)
             = Ok (file_events lo ds (py_trace o (PcStart p l :: cs ++ [PcFinish])), EEOF, st).
Proof.
  intros Hskip Hemit Hcustom Hcb Hw Hd Hsz fuel Hfuel.
  rewrite (py_write_is_trace o p l cs b Hw (data_calls_no_start cs Hd)).
  apply lex_render_thm; [|exact Hfuel]. eapply py_trace_wf; eassumption.
Qed.

End Main.

(* ====================================================================== *)
(** * 3. content of the trace in terms of the calls *)

(* ---------- 3.0 fields the chunk machinery does not touch ---------- *)
Section Keeps.
Variable o : pwopts.

Lemma fin_keeps w :
  pw_atts (pw_finalize_chunk o w) = pw_atts w /\ pw_mds (pw_finalize_chunk o w) = pw_mds w
  /\ pw_channels (pw_finalize_chunk o w) = pw_channels w /\ pw_schemas (pw_finalize_chunk o w) = pw_schemas w.
Proof.
  destruct (pw_cb w) as [cb|] eqn:Hcb.
  - destruct (cb_num cb =? 0) eqn:Hn.
    + rewrite (fin_zero o w cb Hcb Hn). repeat split.
    + rewrite (fin_spec o w cb Hcb Hn). repeat split.
  - rewrite (fin_none o w Hcb). repeat split.
Qed.

Lemma maybe_keeps w :
  pw_atts (pw_maybe_finalize o w) = pw_atts w /\ pw_mds (pw_maybe_finalize o w) = pw_mds w
  /\ pw_channels (pw_maybe_finalize o w) = pw_channels w /\ pw_schemas (pw_maybe_finalize o w) = pw_schemas w.
Proof.
  unfold pw_maybe_finalize. destruct (pw_cb w) as [cb|]; [|repeat split].
  destruct (po_chunk_size o <? blen (cb_buf cb)); [apply fin_keeps | repeat split].
Qed.

Definition new_schema (w : pw) (c : pcall) : list schema :=
  match c with PcSchema n e d => [schema_of w n e d] | _ => [] end.
Definition new_channel (w : pw) (c : pcall) : list channel :=
  match c with PcChannel t me sid m => [channel_of w t me sid m] | _ => [] end.

Lemma step_schemas w c : pw_schemas (pw_step o w c) = pw_schemas w ++ new_schema w c.
Proof.
  destruct c as [p l|n e d|t me sid m|ch lg d pb sq|cr lg n me d|n m|]; cbn [pw_step new_schema]; rewrite ?app_nil_r.
  - reflexivity.
  - unfold pw_data_record. cbn [pw_cb]. destruct (pw_cb w); [|reflexivity].
    destruct (maybe_keeps (pw_set_cb
      {| pw_out := pw_out w; pw_rb := pw_rb w; pw_atts := pw_atts w; pw_mds := pw_mds w; pw_channels := pw_channels w;
         pw_schemas := pw_schemas w ++ [schema_of w n e d]; pw_cb := Some p; pw_chunks := pw_chunks w;
         pw_stats := {| st_messages := st_messages (pw_stats w); st_schemas := st_schemas (pw_stats w) + 1;
                        st_channels := st_channels (pw_stats w); st_attachments := st_attachments (pw_stats w);
                        st_metadata := st_metadata (pw_stats w); st_chunks := st_chunks (pw_stats w);
                        st_start := st_start (pw_stats w); st_end := st_end (pw_stats w); st_counts := st_counts (pw_stats w) |};
         pw_crc := pw_crc w |} (Some (cb_add_record p OpSchema (enc_schema (schema_of w n e d)))))) as (_ & _ & _ & H).
    exact H.
  - unfold pw_data_record. cbn [pw_cb]. destruct (pw_cb w); [|reflexivity].
    match goal with |- pw_schemas (pw_maybe_finalize o ?x) = _ => destruct (maybe_keeps x) as (_ & _ & _ & H) end.
    exact H.
  - cbn [pw_set_stats pw_cb]. destruct (pw_cb w); [|reflexivity].
    match goal with |- pw_schemas (pw_maybe_finalize o ?x) = _ => destruct (maybe_keeps x) as (_ & _ & _ & H) end.
    exact H.
  - reflexivity.
  - reflexivity.
  - rewrite finish_spec. unfold finish_state, pre_summary. cbn [pw_raw pw_flush pw_set_rb pw_schemas].
    apply fin_keeps.
Qed.

Lemma step_channels w c : pw_channels (pw_step o w c) = pw_channels w ++ new_channel w c.
Proof.
  destruct c as [p l|n e d|t me sid m|ch lg d pb sq|cr lg n me d|n m|]; cbn [pw_step new_channel]; rewrite ?app_nil_r.
  - reflexivity.
  - unfold pw_data_record. cbn [pw_cb]. destruct (pw_cb w); [|reflexivity].
    match goal with |- pw_channels (pw_maybe_finalize o ?x) = _ => destruct (maybe_keeps x) as (_ & _ & H & _) end.
    exact H.
  - unfold pw_data_record. cbn [pw_cb]. destruct (pw_cb w); [|reflexivity].
    match goal with |- pw_channels (pw_maybe_finalize o ?x) = _ => destruct (maybe_keeps x) as (_ & _ & H & _) end.
    exact H.
  - cbn [pw_set_stats pw_cb]. destruct (pw_cb w); [|reflexivity].
    match goal with |- pw_channels (pw_maybe_finalize o ?x) = _ => destruct (maybe_keeps x) as (_ & _ & H & _) end.
    exact H.
  - reflexivity.
  - reflexivity.
  - rewrite finish_spec. unfold finish_state, pre_summary. cbn [pw_raw pw_flush pw_set_rb pw_channels].
    apply fin_keeps.
Qed.

End Keeps.

(* ---------- 3.1 logical records per class ---------- *)
(* the logical record a call asks for; ns, nc = number of schemas / channels registered before it *)
Definition call_recs (ns nc : nat) (c : pcall) : list crec :=
  match c with
  | PcStart p l => []
  | PcSchema n e d =>
    [CR OpSchema (enc_schema {| s_id := N.of_nat ns + 1; s_name := n; s_encoding := e; s_data := d |})]
  | PcChannel t me sid m =>
    [CR OpChannel (py_enc_channel {| c_id := N.of_nat nc + 1; c_schema := sid; c_topic := t; c_menc := me; c_meta := m |})]
  | PcMessage ch lg d pb sq => [CR OpMessage (enc_message (msg_of ch lg d pb sq))]
  | PcAttachment cr lg n me d =>
    [CA (att_of cr lg n me d) d (crc32 (enc_attachment_fields (att_of cr lg n me d) ++ d))]
  | PcMetadata n m => [CR OpMetadata (py_enc_metadata {| md_name := n; md_meta := m |})]
  | PcFinish => []
  end.
Definition ns_after (ns : nat) (c : pcall) : nat := match c with PcSchema _ _ _ => S ns | _ => ns end.
Definition nc_after (nc : nat) (c : pcall) : nat := match c with PcChannel _ _ _ _ => S nc | _ => nc end.
Fixpoint calls_recs (ns nc : nat) (cs : list pcall) : list crec :=
  match cs with
  | [] => []
  | c :: r => call_recs ns nc c ++ calls_recs (ns_after ns c) (nc_after nc c) r
  end.

Lemma calls_recs_app ns nc a : forall b,
  calls_recs ns nc (a ++ b)
  = calls_recs ns nc a ++ calls_recs (fold_left ns_after a ns) (fold_left nc_after a nc) b.
Proof.
  revert ns nc. induction a as [|c a IH]; intros ns nc b; [reflexivity|].
  cbn [app calls_recs fold_left]. rewrite IH, app_assoc. reflexivity.
Qed.

(* record classes the theorems are about *)
Definition P_nomi (P : crec -> bool) : Prop := forall b, P (CR OpMessageIndex b) = false.
Definition P_direct (P : crec -> bool) : Prop :=
  forall op b, op = OpSchema \/ op = OpChannel \/ op = OpMessage -> P (CR op b) = false.
Definition P_auto (P : crec -> bool) : Prop :=
  (forall a d c, P (CA a d c) = false) /\ forall b, P (CR OpMetadata b) = false.
Definition P_good (P : crec -> bool) : Prop := P_nomi P /\ (P_direct P \/ P_auto P).

Definition chunk_small (it : item) : Prop :=
  match it with IChunk k => blen (k_records k) < two64 | _ => True end.

Lemma filter_inner_direct P inner : P_direct P -> Forall auto_rec inner -> filter P (map cr_of inner) = [].
Proof.
  intros HP. induction 1 as [|r inner Hr _ IH]; [reflexivity|]. cbn [map filter]. unfold cr_of at 1.
  rewrite (HP _ _ Hr). exact IH.
Qed.

Lemma all_records_app unz a b : all_records unz (a ++ b) = all_records unz a ++ all_records unz b.
Proof. unfold all_records. apply flat_map_app'. Qed.
Lemma all_records_cons unz it l : all_records unz (it :: l) = item_records unz it ++ all_records unz l.
Proof. reflexivity. Qed.

Section Content.
Variable o : pwopts.
Variable unz : bytes -> bytes -> bytes.
Hypothesis Hunz : forall stored, unz [] stored = stored.

Lemma chunk_item_records cb inner :
  cb_buf cb = frames inner -> blen (cb_buf cb) < two64 ->
  item_records unz (IChunk (chunk_of o cb)) = map cr_of inner.
Proof.
  intros Hb Hs. cbn [item_records]. unfold chunk_recs. cbn [chunk_of k_comp k_records]. rewrite Hunz, Hb.
  rewrite split_records_frames; [reflexivity| |lia].
  eapply Forall_impl; [|apply frames_body_le]. cbv beta. intros r Hr. rewrite <- Hb in Hr. lia.
Qed.

Lemma mi_records P cb : P_nomi P -> filter P (all_records unz (mi_items o cb)) = [].
Proof.
  intro HP. unfold mi_items. destruct (po_idx_msg o); [|reflexivity].
  induction (cb_indices cb) as [|p l IH]; [reflexivity|]. cbn [map]. rewrite all_records_cons.
  cbn [mi_item item_records app filter]. rewrite HP. exact IH.
Qed.

Lemma fin_content P cb inner :
  cb_buf cb = frames inner -> Forall chunk_small (fin_items o (Some cb)) -> P_nomi P ->
  filter P (all_records unz (fin_items o (Some cb))) ++ filter P (map cr_of (after_fin cb inner))
  = filter P (map cr_of inner).
Proof.
  intros Hb Hs HP. cbn [fin_items] in *. unfold after_fin. destruct (cb_num cb =? 0); [reflexivity|].
  inversion Hs as [|x y Hk _]; subst x y. cbn [chunk_small chunk_of k_records] in Hk.
  rewrite all_records_cons, filter_app, (chunk_item_records cb inner Hb Hk), (mi_records P cb HP).
  cbn [map filter]. rewrite !app_nil_r. reflexivity.
Qed.

Lemma maybe_content P cb inner :
  cb_buf cb = frames inner -> Forall chunk_small (maybe_items o (Some cb)) -> P_nomi P ->
  filter P (all_records unz (maybe_items o (Some cb))) ++ filter P (map cr_of (after_maybe o cb inner))
  = filter P (map cr_of inner).
Proof.
  intros Hb Hs HP. unfold maybe_items, after_maybe in *. destruct (po_chunk_size o <? blen (cb_buf cb)).
  - apply fin_content; assumption.
  - reflexivity.
Qed.

Lemma filter_snoc_rec P inner op body :
  filter P (map cr_of (inner ++ [(op, body)])) = filter P (map cr_of inner) ++ filter P [CR op body].
Proof. rewrite map_app, filter_app. reflexivity. Qed.

Lemma direct_content P w inner (r : crec) :
  SInv w inner -> P_good P ->
  (P_direct P \/ P r = false) ->
  filter P [r] ++ filter P (map cr_of inner) = filter P (map cr_of inner) ++ filter P [r].
Proof.
  intros HI (_ & HP) Hr. destruct Hr as [Hd | Hr].
  - assert (H : filter P (map cr_of inner) = []).
    { unfold SInv in HI. destruct (pw_cb w); [|subst inner; reflexivity].
      apply filter_inner_direct; [exact Hd | apply HI]. }
    rewrite H, app_nil_r. reflexivity.
  - cbn [filter]. rewrite Hr, app_nil_r. reflexivity.
Qed.

Lemma step_content P w inner c :
  SInv w inner -> is_start c = false -> is_finish c = false ->
  Forall chunk_small (pt_step o w c) -> P_good P ->
  filter P (all_records unz (pt_step o w c)) ++ filter P (map cr_of (inner_step o w inner c))
  = filter P (map cr_of inner) ++ filter P (call_recs (length (pw_schemas w)) (length (pw_channels w)) c).
Proof.
  intros HI Hs Hf Hsm HP. pose proof HI as HI0. unfold SInv in HI.
  destruct c as [p l|n e d|t me sid m|ch lg d pb sq|cr lg n me d|n m|]; try discriminate;
    cbn [pt_step call_recs] in *; unfold inner_step.
  - unfold data_rec_items in *. destruct (pw_cb w) as [cb|] eqn:Hcb.
    + rewrite maybe_content; [apply filter_snoc_rec | | exact Hsm | apply HP].
      cbn [cb_add_record cb_buf]. rewrite frames_snoc. f_equal. apply HI.
    + subst inner. cbn [map filter app]. rewrite app_nil_r. reflexivity.
  - unfold data_rec_items in *. destruct (pw_cb w) as [cb|] eqn:Hcb.
    + rewrite maybe_content; [apply filter_snoc_rec | | exact Hsm | apply HP].
      cbn [cb_add_record cb_buf]. rewrite frames_snoc. f_equal. apply HI.
    + subst inner. cbn [map filter app]. rewrite app_nil_r. reflexivity.
  - destruct (pw_cb w) as [cb|] eqn:Hcb.
    + rewrite maybe_content; [apply filter_snoc_rec | | exact Hsm | apply HP].
      cbn [cb_add_message cb_buf]. rewrite frames_snoc. f_equal. apply HI.
    + subst inner. cbn [map filter app]. rewrite app_nil_r. reflexivity.
  - assert (E : (match pw_cb w with Some _ => inner | None => inner end) = inner) by (destruct (pw_cb w); reflexivity).
    rewrite E. cbn [all_records flat_map item_records]. rewrite app_nil_r.
    apply (direct_content P w inner _ HI0 HP). destruct HP as (_ & [Hd | (Ha & _)]); [left; exact Hd | right; apply Ha].
  - assert (E : (match pw_cb w with Some _ => inner | None => inner end) = inner) by (destruct (pw_cb w); reflexivity).
    rewrite E. cbn [all_records flat_map item_records]. rewrite app_nil_r.
    apply (direct_content P w inner _ HI0 HP). destruct HP as (_ & [Hd | (_ & Ha)]); [left; exact Hd | right; apply Ha].
Qed.

Lemma data_content P cs : forall w inner w',
  SInv w inner -> data_calls cs = true -> pw_run o w cs = POk w' ->
  Forall chunk_small (trace_from o w cs) -> P_good P ->
  filter P (all_records unz (trace_from o w cs)) ++ filter P (map cr_of (inner_steps o w inner cs))
  = filter P (map cr_of inner) ++ filter P (calls_recs (length (pw_schemas w)) (length (pw_channels w)) cs).
Proof.
  induction cs as [|c cs IH]; intros w inner w' HI Hd Hr Hsm HP.
  - cbn [trace_from inner_steps calls_recs all_records flat_map filter]. rewrite app_nil_r. reflexivity.
  - cbn [data_calls forallb] in Hd. apply andb_true_iff in Hd. destruct Hd as [Hc Hd].
    apply andb_true_iff in Hc. destruct Hc as [Hs Hf]. apply negb_true_iff in Hs. apply negb_true_iff in Hf.
    cbn [pw_run] in Hr. destruct (pcall_ok w c) eqn:Hok; [|discriminate].
    destruct (step_built o w inner c HI Hok Hs Hf) as [_ HI'].
    cbn [trace_from] in Hsm. apply Forall_app in Hsm. destruct Hsm as [Hsm1 Hsm2].
    cbn [trace_from inner_steps calls_recs]. rewrite all_records_app, !filter_app, <- app_assoc.
    rewrite (IH _ _ _ HI' Hd Hr Hsm2 HP), app_assoc, (step_content P w inner c HI Hs Hf Hsm1 HP), <- app_assoc.
    rewrite step_schemas, step_channels, !app_length.
    replace (length (pw_schemas w) + length (new_schema w c))%nat with (ns_after (length (pw_schemas w)) c)
      by (destruct c; cbn [ns_after new_schema length]; lia).
    replace (length (pw_channels w) + length (new_channel w c))%nat with (nc_after (length (pw_channels w)) c)
      by (destruct c; cbn [nc_after new_channel length]; lia).
    reflexivity.
Qed.

End Content.

(* ---------- 3.2 what the calls ask for, per class ---------- *)
Definition msgs_of (cs : list pcall) : list message :=
  flat_map (fun c => match c with PcMessage ch lg d pb sq => [msg_of ch lg d pb sq] | _ => [] end) cs.
Definition atts_of (cs : list pcall) : list (attachment * bytes) :=
  flat_map (fun c => match c with PcAttachment cr lg n me d => [(att_of cr lg n me d, d)] | _ => [] end) cs.
Definition mds_of (cs : list pcall) : list metadata :=
  flat_map (fun c => match c with PcMetadata n m => [{| md_name := n; md_meta := m |}] | _ => [] end) cs.
(* schemas and channels get the ids 1, 2, 3, ... in registration order *)
Fixpoint reg_schemas (ns : nat) (cs : list pcall) : list schema :=
  match cs with
  | [] => []
  | PcSchema n e d :: r => {| s_id := N.of_nat ns + 1; s_name := n; s_encoding := e; s_data := d |} :: reg_schemas (S ns) r
  | _ :: r => reg_schemas ns r
  end.
Fixpoint reg_channels (nc : nat) (cs : list pcall) : list channel :=
  match cs with
  | [] => []
  | PcChannel t me sid m :: r =>
    {| c_id := N.of_nat nc + 1; c_schema := sid; c_topic := t; c_menc := me; c_meta := m |} :: reg_channels (S nc) r
  | _ :: r => reg_channels nc r
  end.

Definition att_crec (x : attachment * bytes) : crec :=
  CA (fst x) (snd x) (crc32 (enc_attachment_fields (fst x) ++ snd x)).

Lemma calls_recs_msgs cs : forall ns nc,
  filter (is_op OpMessage) (calls_recs ns nc cs) = map (fun m => CR OpMessage (enc_message m)) (msgs_of cs).
Proof.
  induction cs as [|c cs IH]; intros ns nc; [reflexivity|]. cbn [calls_recs]. rewrite filter_app, IH.
  unfold msgs_of. cbn [flat_map]. rewrite map_app. f_equal. destruct c; reflexivity.
Qed.
Lemma calls_recs_atts cs : forall ns nc,
  filter ComposeFacts.is_att (calls_recs ns nc cs) = map att_crec (atts_of cs).
Proof.
  induction cs as [|c cs IH]; intros ns nc; [reflexivity|]. cbn [calls_recs]. rewrite filter_app, IH.
  unfold atts_of. cbn [flat_map]. rewrite map_app. f_equal. destruct c; reflexivity.
Qed.
Lemma calls_recs_mds cs : forall ns nc,
  filter (is_op OpMetadata) (calls_recs ns nc cs) = map (fun m => CR OpMetadata (py_enc_metadata m)) (mds_of cs).
Proof.
  induction cs as [|c cs IH]; intros ns nc; [reflexivity|]. cbn [calls_recs]. rewrite filter_app, IH.
  unfold mds_of. cbn [flat_map]. rewrite map_app. f_equal. destruct c; reflexivity.
Qed.
Lemma calls_recs_schemas cs : forall ns nc,
  filter (is_op OpSchema) (calls_recs ns nc cs) = map (fun s => CR OpSchema (enc_schema s)) (reg_schemas ns cs).
Proof.
  induction cs as [|c cs IH]; intros ns nc; [reflexivity|]. cbn [calls_recs]. rewrite filter_app, IH.
  destruct c; reflexivity.
Qed.
Lemma calls_recs_channels cs : forall ns nc,
  filter (is_op OpChannel) (calls_recs ns nc cs) = map (fun c => CR OpChannel (py_enc_channel c)) (reg_channels nc cs).
Proof.
  induction cs as [|c cs IH]; intros ns nc; [reflexivity|]. cbn [calls_recs]. rewrite filter_app, IH.
  destruct c; reflexivity.
Qed.

Lemma good_msg : P_good (is_op OpMessage).
Proof. split; [intro b; reflexivity|]. right. split; intros; reflexivity. Qed.
Lemma good_schema : P_good (is_op OpSchema).
Proof. split; [intro b; reflexivity|]. right. split; intros; reflexivity. Qed.
Lemma good_channel : P_good (is_op OpChannel).
Proof. split; [intro b; reflexivity|]. right. split; intros; reflexivity. Qed.
Lemma good_att : P_good ComposeFacts.is_att.
Proof. split; [intro b; reflexivity|]. left. intros op b _. reflexivity. Qed.
Lemma good_md : P_good (is_op OpMetadata).
Proof. split; [intro b; reflexivity|]. left. intros op b [-> | [-> | ->]]; reflexivity. Qed.

Lemma nochunk_cb o cs : forall w, pw_cb w = None -> pw_cb (pw_steps o w cs) = None.
Proof.
  induction cs as [|c cs IH]; intros w Hn; [exact Hn|].
  unfold pw_steps. cbn [fold_left]. apply IH.
  destruct c; cbn [pw_step]; unfold pw_data_record; cbn [pw_cb pw_set_stats pw_flush pw_set_rb pw_raw];
    rewrite ?Hn; cbn [pw_cb pw_set_stats pw_flush pw_set_rb pw_raw]; try exact Hn; try reflexivity.
  rewrite finish_spec. unfold finish_state, pre_summary. cbn [pw_raw pw_flush pw_set_rb pw_cb].
  rewrite (fin_none o w Hn). exact Hn.
Qed.

(* ---------- 3.3 the data section of a complete session ---------- *)
Section Session.
Variable o : pwopts.
Variables p l : bytes.
Variable cs : list pcall.

Definition final_state : pw := pw_steps o (started o p l) cs.          (* when finish() is called *)
Definition final_inner : list (byte * bytes) := inner_steps o (started o p l) [] cs.

(* magic and header, what the data calls wrote, the last chunk *)
Definition data_items : list item :=
  header_item p l :: trace_from o (started o p l) cs ++ fin_items o (pw_cb final_state).
(* DataEnd, summary section, footer *)
Definition tail_items : list item :=
  let w1 := pw_finalize_chunk o final_state in
  [dataend_item w1] ++ summary_of o w1 ++ [IFooter (footer_ss o w1) (footer_sos o w1) (footer_crc o w1)].

Theorem py_trace_sections :
  py_trace o (PcStart p l :: cs ++ [PcFinish]) = [IMagic] ++ data_items ++ tail_items ++ [IMagic].
Proof.
  rewrite py_trace_shape. unfold data_items, tail_items, finish_recs. fold final_state. cbv zeta.
  cbn [app]. repeat (rewrite <- app_assoc || rewrite <- app_comm_cons). reflexivity.
Qed.

(* the schema / channel records still in the chunk builder at finish() when it holds no message:
   these are never written *)
Definition dropped : list (byte * bytes) :=
  match pw_cb final_state with
  | Some cb => if cb_num cb =? 0 then final_inner else []
  | None => []
  end.

Variable unz : bytes -> bytes -> bytes.
Hypothesis Hunz : forall stored, unz [] stored = stored.

Variable b : bytes.
Hypothesis Hw : py_write o (PcStart p l :: cs ++ [PcFinish]) = POk b.
Hypothesis Hd : data_calls cs = true.
Hypothesis Hsmall : Forall chunk_small (py_trace o (PcStart p l :: cs ++ [PcFinish])).

Lemma session_run : pw_run o (started o p l) cs = POk final_state.
Proof.
  destruct (py_write_run _ _ _ Hw) as (w' & Hr & _).
  cbn [pw_run] in Hr. destruct (pcall_ok (pw_init o) (PcStart p l)); [|discriminate]. fold (started o p l) in Hr.
  apply pw_run_app in Hr. destruct Hr as (w1 & Hr1 & _). pose proof (pw_run_steps o cs _ _ Hr1) as E.
  unfold final_state. rewrite <- E. exact Hr1.
Qed.

Lemma session_SInv : SInv final_state final_inner.
Proof. exact (proj2 (data_built o cs _ _ _ (started_SInv o p l) Hd session_run)). Qed.

Lemma session_small : Forall chunk_small (trace_from o (started o p l) cs) /\ Forall chunk_small (fin_items o (pw_cb final_state)).
Proof.
  rewrite py_trace_sections in Hsmall. apply Forall_app in Hsmall. destruct Hsmall as [_ H].
  apply Forall_app in H. destruct H as [H _]. unfold data_items in H. inversion H as [|x y _ H']; subst x y.
  apply Forall_app in H'. exact H'.
Qed.

(* per class: the records of the data section, plus the dropped ones, are what the calls asked for *)
Theorem py_data_content P :
  P_good P -> (forall x, P (CR OpHeader x) = false) ->
  filter P (all_records unz data_items) ++ filter P (map cr_of dropped) = filter P (calls_recs 0 0 cs).
Proof.
  intros HP Hh. destruct session_small as [Hs1 Hs2].
  pose proof (data_content o unz Hunz P cs _ [] _ (started_SInv o p l) Hd session_run Hs1 HP) as H.
  cbn [map filter app] in H. change (length (pw_schemas (started o p l))) with 0%nat in H.
  change (length (pw_channels (started o p l))) with 0%nat in H. fold final_inner in H.
  rewrite <- H. unfold data_items. rewrite all_records_cons, all_records_app. cbn [header_item item_records app filter].
  rewrite Hh, filter_app, <- app_assoc. f_equal.
  pose proof session_SInv as HI. unfold SInv in HI. unfold dropped.
  destruct (pw_cb final_state) as [cb|] eqn:Hcb.
  - pose proof (fin_content o unz Hunz P cb final_inner (proj1 HI) Hs2 (proj1 HP)) as Hf.
    unfold after_fin in Hf. destruct (cb_num cb =? 0).
    + exact Hf.
    + cbn [map filter] in *. rewrite app_nil_r in *. exact Hf.
  - rewrite HI. reflexivity.
Qed.

Lemma dropped_auto : Forall auto_rec dropped.
Proof.
  pose proof session_SInv as HI. unfold SInv in HI. unfold dropped.
  destruct (pw_cb final_state) as [cb|]; [|constructor]. destruct (cb_num cb =? 0); [apply HI | constructor].
Qed.

Lemma dropped_no_msg : filter is_msg_rec dropped = [].
Proof.
  pose proof session_SInv as HI. unfold SInv in HI. unfold dropped.
  destruct (pw_cb final_state) as [cb|]; [|reflexivity]. destruct (cb_num cb =? 0) eqn:Hn; [|reflexivity].
  destruct HI as (_ & _ & _ & _ & Hc & _). apply N.eqb_eq in Hn. rewrite Hn in Hc.
  clear Hunz Hsmall. clear unz. destruct (filter is_msg_rec final_inner); [reflexivity | cbn [length] in Hc; lia].
Qed.

Lemma filter_msg_cr inner : filter (is_op OpMessage) (map cr_of inner) = map cr_of (filter is_msg_rec inner).
Proof.
  induction inner as [|r inner IH]; [reflexivity|]. cbn [map filter]. unfold cr_of at 1. cbn [is_op].
  unfold is_msg_rec at 1. destruct (Byte.eqb (fst r) OpMessage); cbn [map]; rewrite IH; reflexivity.
Qed.

(* 3(c): the message records of the data section - inside chunks when chunking, at top level
   otherwise - are exactly the messages written, in order *)
Theorem py_data_messages :
  filter (is_op OpMessage) (all_records unz data_items) = map (fun m => CR OpMessage (enc_message m)) (msgs_of cs).
Proof.
  rewrite <- (calls_recs_msgs cs 0 0), <- (py_data_content _ good_msg) by reflexivity.
  rewrite filter_msg_cr, dropped_no_msg. cbn [map]. rewrite app_nil_r. reflexivity.
Qed.

(* 3(a) *)
Theorem py_data_attachments :
  filter ComposeFacts.is_att (all_records unz data_items) = map att_crec (atts_of cs).
Proof.
  rewrite <- (calls_recs_atts cs 0 0), <- (py_data_content _ good_att) by reflexivity.
  rewrite filter_inner_direct; [rewrite app_nil_r; reflexivity | intros op x _; reflexivity | apply dropped_auto].
Qed.

(* 3(b) *)
Theorem py_data_metadata :
  filter (is_op OpMetadata) (all_records unz data_items)
  = map (fun m => CR OpMetadata (py_enc_metadata m)) (mds_of cs).
Proof.
  rewrite <- (calls_recs_mds cs 0 0), <- (py_data_content _ good_md) by reflexivity.
  rewrite filter_inner_direct; [rewrite app_nil_r; reflexivity | | apply dropped_auto].
  intros op x [-> | [-> | ->]]; reflexivity.
Qed.

(* 3(d): schema and channel records of the data section: all registered ones except the dropped *)
Theorem py_data_schemas :
  filter (is_op OpSchema) (all_records unz data_items) ++ filter (is_op OpSchema) (map cr_of dropped)
  = map (fun s => CR OpSchema (enc_schema s)) (reg_schemas 0 cs).
Proof. rewrite <- (calls_recs_schemas cs 0 0). apply py_data_content; [apply good_schema | reflexivity]. Qed.

Theorem py_data_channels :
  filter (is_op OpChannel) (all_records unz data_items) ++ filter (is_op OpChannel) (map cr_of dropped)
  = map (fun c => CR OpChannel (py_enc_channel c)) (reg_channels 0 cs).
Proof. rewrite <- (calls_recs_channels cs 0 0). apply py_data_content; [apply good_channel | reflexivity]. Qed.

Lemma dropped_nochunking : po_chunking o = false -> dropped = [].
Proof.
  intro Hc. unfold dropped.
  assert (H0 : pw_cb (started o p l) = None).
  { unfold started. cbn [pw_step pw_flush pw_set_rb pw_raw pw_cb pw_init]. rewrite Hc. reflexivity. }
  pose proof (nochunk_cb o cs _ H0) as H. fold final_state in H. rewrite H. reflexivity.
Qed.

End Session.

(* ---------- 3.4 the whole file, and what the Go lexer reports ---------- *)
Lemma all_records_map_rec {A} unz op (f : A -> bytes) l :
  all_records unz (map (fun x => IRec op (f x)) l) = map (fun x => CR op (f x)) l.
Proof. induction l as [|x l IH]; [reflexivity|]. cbn [map]. rewrite all_records_cons, IH. reflexivity. Qed.

Lemma filter_map_rec_none {A} (P : crec -> bool) op (f : A -> bytes) l :
  (forall b, P (CR op b) = false) -> filter P (map (fun x => CR op (f x)) l) = [].
Proof. intro H. induction l as [|x l IH]; [reflexivity|]. cbn [map filter]. rewrite H. exact IH. Qed.

(* classes that occur in the data section only *)
Definition P_payload (P : crec -> bool) : Prop :=
  forall op b, In op [OpHeader; OpDataEnd; OpSchema; OpChannel; OpStatistics; OpChunkIndex; OpAttachmentIndex;
                      OpMetadataIndex; OpSummaryOffset; OpFooter] -> P (CR op b) = false.

Lemma filter_if_none {A} (P : A -> bool) (b : bool) l : filter P l = [] -> filter P (if b then l else []) = [].
Proof. destruct b; [auto | reflexivity]. Qed.

Lemma tail_no_payload o p l cs unz P :
  P_payload P -> filter P (all_records unz (tail_items o p l cs)) = [].
Proof.
  intro HP. unfold tail_items. cbv zeta. set (w1 := pw_finalize_chunk o (final_state o p l cs)).
  assert (Hrec : forall A op (f : A -> bytes) l0 (b : bool),
            In op [OpHeader; OpDataEnd; OpSchema; OpChannel; OpStatistics; OpChunkIndex; OpAttachmentIndex;
                   OpMetadataIndex; OpSummaryOffset; OpFooter] ->
            filter P (all_records unz (if b then map (fun x => IRec op (f x)) l0 else [])) = []).
  { intros A op f l0 b Hin. destruct b; [|reflexivity]. rewrite all_records_map_rec. apply filter_map_rec_none.
    intro x. apply HP, Hin. }
  rewrite !all_records_app, !filter_app. unfold summary_of, sum_items, so_items.
  rewrite !all_records_app, !filter_app.
  rewrite !Hrec by (cbn [In]; tauto).
  cbn [dataend_item all_records flat_map item_records app filter].
  rewrite !HP by (cbn [In]; tauto).
  destruct (po_statistics o); cbn [all_records flat_map item_records app filter]; rewrite ?HP by (cbn [In]; tauto); reflexivity.
Qed.

Section SessionLex.
Variable o : pwopts.
Variables p l : bytes.
Variable cs : list pcall.
Variable lo : lopts.
Variable ds : doracle.
Hypothesis Hskip : lo_skip_magic lo = false.
Hypothesis Hemit : lo_emit_chunks lo = false.
Hypothesis Hcustom : mem_bytes [] (lo_custom lo) = false.
Variable b : bytes.
Hypothesis Hw : py_write o (PcStart p l :: cs ++ [PcFinish]) = POk b.
Hypothesis Hd : data_calls cs = true.
Hypothesis Hsmall : Forall chunk_small (py_trace o (PcStart p l :: cs ++ [PcFinish])).

Lemma lunz_stored stored : lunz lo ds [] stored = stored.
Proof. unfold lunz. rewrite (chunk_stream_stored lo ds Hcustom). reflexivity. Qed.

Lemma py_file_class P :
  P_payload P ->
  filter P (all_records (lunz lo ds) (py_trace o (PcStart p l :: cs ++ [PcFinish])))
  = filter P (all_records (lunz lo ds) (data_items o p l cs)).
Proof.
  intro HP. rewrite py_trace_sections, !all_records_app, !filter_app, (tail_no_payload o p l cs _ P HP).
  cbn [all_records flat_map item_records app filter]. rewrite app_nil_r. reflexivity.
Qed.

Let trace := py_trace o (PcStart p l :: cs ++ [PcFinish]).

(* the message tokens the lexer reports are the messages written, in order *)
Theorem py_lex_messages :
  filter (ev_op OpMessage) (file_events lo ds trace) = map (fun m => EvToken OpMessage (enc_message m)) (msgs_of cs).
Proof.
  unfold trace. rewrite (file_events_records lo ds _ Hemit).
  rewrite (filter_events_records lo _ _ _ (compat_op OpMessage eq_refl)).
  rewrite py_file_class by (intros op x Hin; cbn [In] in Hin; decompose [or] Hin; subst; try reflexivity; contradiction).
  rewrite (py_data_messages o p l cs (lunz lo ds) lunz_stored b Hw Hd Hsmall).
  induction (msgs_of cs) as [|m ms IH]; [reflexivity|]. cbn [map flat_map]. rewrite IH. reflexivity.
Qed.

Theorem py_lex_metadata :
  filter (ev_op OpMetadata) (file_events lo ds trace) = map (fun m => EvToken OpMetadata (py_enc_metadata m)) (mds_of cs).
Proof.
  unfold trace. rewrite (file_events_records lo ds _ Hemit).
  rewrite (filter_events_records lo _ _ _ (compat_op OpMetadata eq_refl)).
  rewrite py_file_class by (intros op x Hin; cbn [In] in Hin; decompose [or] Hin; subst; try reflexivity; contradiction).
  rewrite (py_data_metadata o p l cs (lunz lo ds) lunz_stored b Hw Hd Hsmall).
  induction (mds_of cs) as [|m ms IH]; [reflexivity|]. cbn [map flat_map]. rewrite IH. reflexivity.
Qed.

Theorem py_lex_attachments :
  lo_cb lo = CbFull ->
  filter ev_att (file_events lo ds trace)
  = map (fun x => EvAttachment (attach_obs lo (fst x) (snd x) (crc32 (enc_attachment_fields (fst x) ++ snd x)))) (atts_of cs).
Proof.
  intro Hcb. unfold trace. rewrite (file_events_records lo ds _ Hemit).
  rewrite (filter_events_records lo _ _ _ compat_att).
  rewrite py_file_class by (intros op x Hin; reflexivity).
  rewrite (py_data_attachments o p l cs (lunz lo ds) lunz_stored b Hw Hd Hsmall).
  induction (atts_of cs) as [|m ms IH]; [reflexivity|]. cbn [map flat_map att_crec crec_events]. rewrite Hcb, IH. reflexivity.
Qed.

End SessionLex.

(* ====================================================================== *)
(** * 3f. index entries designate the rendering position of their items *)

(* a chunk is closed after a record was added: the buffer exceeds the chunk size and holds a message *)
Definition closes (o : pwopts) (cb : pcb) : bool :=
  (po_chunk_size o <? blen (cb_buf cb)) && negb (cb_num cb =? 0).

Lemma maybe_spec o w cb :
  pw_cb w = Some cb -> pw_maybe_finalize o w = if closes o cb then fin_state o w cb else w.
Proof.
  intro Hcb. unfold pw_maybe_finalize, closes. rewrite Hcb. destruct (po_chunk_size o <? blen (cb_buf cb)); [|reflexivity].
  destruct (cb_num cb =? 0) eqn:Hn; cbn [andb negb]; [apply (fin_zero o w cb Hcb Hn) | apply (fin_spec o w cb Hcb Hn)].
Qed.

Lemma maybe_items_spec o cb :
  maybe_items o (Some cb) = if closes o cb then IChunk (chunk_of o cb) :: mi_items o cb else [].
Proof.
  unfold maybe_items, closes, fin_items. destruct (po_chunk_size o <? blen (cb_buf cb)); [|reflexivity].
  destruct (cb_num cb =? 0); reflexivity.
Qed.

Lemma fin_spec' o w :
  pw_finalize_chunk o w
  = match pw_cb w with Some cb => if cb_num cb =? 0 then w else fin_state o w cb | None => w end.
Proof.
  destruct (pw_cb w) as [cb|] eqn:Hcb; [|apply fin_none, Hcb].
  destruct (cb_num cb =? 0) eqn:Hn; [apply (fin_zero o w cb Hcb Hn) | apply (fin_spec o w cb Hcb Hn)].
Qed.

(* offsets of the chunk items / metadata items of an item list whose first item is at offset off *)
Fixpoint chunk_offsets (off : N) (its : list item) : list N :=
  match its with
  | [] => []
  | it :: r => (match it with IChunk _ => [off] | _ => [] end) ++ chunk_offsets (off + blen (render_item it)) r
  end.
Definition is_md_item (it : item) : bool :=
  match it with IRec op _ => Byte.eqb op OpMetadata | _ => false end.
Fixpoint md_offsets (off : N) (its : list item) : list N :=
  match its with
  | [] => []
  | it :: r => (if is_md_item it then [off] else []) ++ md_offsets (off + blen (render_item it)) r
  end.
(* the attachment index entries of an item list *)
Fixpoint att_entries (off : N) (its : list item) : list attindex :=
  match its with
  | [] => []
  | it :: r =>
    (match it with
     | IAttach a d crc => [{| ai_offset := off; ai_length := blen (render_item it); ai_log := a_log a;
                              ai_create := a_create a; ai_size := blen d; ai_name := a_name a; ai_media := a_media a |}]
     | _ => []
     end) ++ att_entries (off + blen (render_item it)) r
  end.

Lemma chunk_offsets_app a : forall off b,
  chunk_offsets off (a ++ b) = chunk_offsets off a ++ chunk_offsets (off + blen (render a)) b.
Proof.
  induction a as [|it a IH]; intros off b.
  - cbn [app chunk_offsets]. rewrite render_nil, pyw_blen_nil, N.add_0_r. reflexivity.
  - cbn [app chunk_offsets]. rewrite IH, render_cons, blen_app, N.add_assoc, app_assoc. reflexivity.
Qed.
Lemma md_offsets_app a : forall off b,
  md_offsets off (a ++ b) = md_offsets off a ++ md_offsets (off + blen (render a)) b.
Proof.
  induction a as [|it a IH]; intros off b.
  - cbn [app md_offsets]. rewrite render_nil, pyw_blen_nil, N.add_0_r. reflexivity.
  - cbn [app md_offsets]. rewrite IH, render_cons, blen_app, N.add_assoc, app_assoc. reflexivity.
Qed.
Lemma att_entries_app a : forall off b,
  att_entries off (a ++ b) = att_entries off a ++ att_entries (off + blen (render a)) b.
Proof.
  induction a as [|it a IH]; intros off b.
  - cbn [app att_entries]. rewrite render_nil, pyw_blen_nil, N.add_0_r. reflexivity.
  - cbn [app att_entries]. rewrite IH, render_cons, blen_app, N.add_assoc, app_assoc. reflexivity.
Qed.

Section Loc.
Variable o : pwopts.

(* ci is the index entry of a chunk of its: same fields, offset = length of the rendering of the items
   before it, the message index records follow it immediately *)
Definition chunk_located (its : list item) (ci : chunkindex) : Prop :=
  exists pre cb post,
    its = pre ++ IChunk (chunk_of o cb) :: mi_items o cb ++ post /\ ci = ci_of o (blen (render pre)) cb.
Definition md_located (its : list item) (mx : mdindex) : Prop :=
  exists pre m post,
    its = pre ++ IRec OpMetadata (py_enc_metadata m) :: post
    /\ mx = {| mx_offset := blen (render pre); mx_length := blen (render_item (IRec OpMetadata (py_enc_metadata m)));
               mx_name := md_name m |}.

Lemma chunk_located_app its d ci : chunk_located its ci -> chunk_located (its ++ d) ci.
Proof.
  intros (pre & cb & post & -> & ->). exists pre, cb, (post ++ d). split; [|reflexivity].
  rewrite <- app_assoc. cbn [app]. rewrite <- app_assoc. reflexivity.
Qed.
Lemma md_located_app its d mx : md_located its mx -> md_located (its ++ d) mx.
Proof.
  intros (pre & m & post & -> & ->). exists pre, m, (post ++ d). split; [|reflexivity].
  rewrite <- app_assoc. reflexivity.
Qed.

Definition Loc (w : pw) (its : list item) : Prop :=
  obytes w = render its
  /\ Forall (chunk_located its) (pw_chunks w)
  /\ map ci_offset (pw_chunks w) = chunk_offsets 0 its
  /\ pw_atts w = (if po_idx_att o then att_entries 0 its else [])
  /\ Forall (md_located its) (pw_mds w)
  /\ map mx_offset (pw_mds w) = (if po_idx_md o then md_offsets 0 its else []).

Lemma mi_items_no_chunk cb off : chunk_offsets off (mi_items o cb) = [] /\ md_offsets off (mi_items o cb) = []
  /\ att_entries off (mi_items o cb) = [].
Proof.
  unfold mi_items. destruct (po_idx_msg o); [|repeat split]. revert off.
  induction (cb_indices cb) as [|p l IH]; intro off; [repeat split|].
  cbn [map chunk_offsets md_offsets att_entries mi_item app]. change (is_md_item (IRec OpMessageIndex _)) with false. cbv iota.
  cbn [app]. apply IH.
Qed.

(* a state that differs from w only in the fields the invariant does not mention *)
Definition same_loc (w w1 : pw) : Prop :=
  pw_out w1 = pw_out w /\ pw_rb w1 = pw_rb w /\ pw_chunks w1 = pw_chunks w /\ pw_atts w1 = pw_atts w /\ pw_mds w1 = pw_mds w.

Lemma Loc_same w w1 its : same_loc w w1 -> Loc w its -> Loc w1 its.
Proof.
  intros (H1 & H2 & H3 & H4 & H5). unfold Loc, obytes. rewrite H1, H2, H3, H4, H5. auto.
Qed.

Lemma Loc_fin_state w cb its :
  Loc w its -> Loc (fin_state o w cb) (its ++ IChunk (chunk_of o cb) :: mi_items o cb).
Proof.
  intros (Hb & Hc & Hco & Ha & Hm & Hmo).
  destruct (mi_items_no_chunk cb (0 + blen (render its) + blen (render_item (IChunk (chunk_of o cb))))) as (E1 & E2 & E3).
  unfold Loc. cbn [fin_state pw_chunks pw_atts pw_mds]. repeat split.
  - unfold obytes. cbn [fin_state pw_out pw_rb]. unfold obytes in Hb. rewrite Hb, app_nil_r, render_app, render_cons, <- !app_assoc.
    reflexivity.
  - apply Forall_app. split.
    + eapply Forall_impl; [|exact Hc]. intros ci. apply chunk_located_app.
    + constructor; [|constructor]. exists its, cb, []. rewrite app_nil_r. split; [reflexivity|].
      unfold obytes in Hb. rewrite Hb. reflexivity.
  - rewrite map_app, Hco, chunk_offsets_app. cbn [map chunk_offsets ci_of ci_offset]. rewrite E1.
    unfold obytes in Hb. rewrite Hb. reflexivity.
  - rewrite Ha. destruct (po_idx_att o); [|reflexivity]. rewrite att_entries_app. cbn [att_entries]. rewrite E3, !app_nil_r.
    reflexivity.
  - eapply Forall_impl; [|exact Hm]. intros mx. apply md_located_app.
  - rewrite Hmo. destruct (po_idx_md o); [|reflexivity]. rewrite md_offsets_app. cbn [md_offsets is_md_item]. rewrite E2, !app_nil_r.
    reflexivity.
Qed.

Lemma Loc_fin w its : Loc w its -> Loc (pw_finalize_chunk o w) (its ++ fin_items o (pw_cb w)).
Proof.
  intro H. rewrite fin_spec'. unfold fin_items. destruct (pw_cb w) as [cb|]; [|rewrite app_nil_r; exact H].
  destruct (cb_num cb =? 0); [rewrite app_nil_r; exact H | apply Loc_fin_state, H].
Qed.

Lemma Loc_maybe w cb its : pw_cb w = Some cb -> Loc w its -> Loc (pw_maybe_finalize o w) (its ++ maybe_items o (Some cb)).
Proof.
  intros Hcb H. rewrite (maybe_spec o w cb Hcb), maybe_items_spec. destruct (closes o cb).
  - apply Loc_fin_state, H.
  - rewrite app_nil_r. exact H.
Qed.

(* appending plain record items that are neither chunks, attachments nor metadata *)
Lemma Loc_plain w w1 its d :
  obytes w1 = obytes w ++ render d -> pw_chunks w1 = pw_chunks w -> pw_atts w1 = pw_atts w -> pw_mds w1 = pw_mds w ->
  (forall off, chunk_offsets off d = [] /\ md_offsets off d = [] /\ att_entries off d = []) ->
  Loc w its -> Loc w1 (its ++ d).
Proof.
  intros Hb H1 H2 H3 Hd (Ib & Hc & Hco & Ha & Hm & Hmo). destruct (Hd (0 + blen (render its))) as (E1 & E2 & E3).
  unfold Loc. rewrite H1, H2, H3, Hb, Ib, render_app. repeat split.
  - eapply Forall_impl; [|exact Hc]. intros ci. apply chunk_located_app.
  - rewrite Hco, chunk_offsets_app, E1, app_nil_r. reflexivity.
  - rewrite Ha. destruct (po_idx_att o); [|reflexivity]. rewrite att_entries_app, E3, app_nil_r. reflexivity.
  - eapply Forall_impl; [|exact Hm]. intros mx. apply md_located_app.
  - rewrite Hmo. destruct (po_idx_md o); [|reflexivity]. rewrite md_offsets_app, E2, app_nil_r. reflexivity.
Qed.

Lemma step_Loc w its c :
  is_start c = false -> Loc w its -> Loc (pw_step o w c) (its ++ pt_step o w c).
Proof.
  destruct c as [p l|n e d|t me sid m|ch lg d pb sq|cr lg n me d|n m|]; intros Hs HL; [discriminate| | | | | |].
  - cbn [pw_step pt_step]. unfold pw_data_record, data_rec_items. cbn [pw_cb].
    destruct (pw_cb w) as [cb|] eqn:Hcb.
    + apply Loc_maybe; [reflexivity|]. eapply Loc_same; [|exact HL]. repeat split.
    + eapply Loc_plain; [| | | | |exact HL]; try reflexivity.
      * unfold obytes. cbn [pw_set_rb pw_out pw_rb]. rewrite render_one, app_assoc. reflexivity.
      * intro off. repeat split.
  - cbn [pw_step pt_step]. unfold pw_data_record, data_rec_items. cbn [pw_cb].
    destruct (pw_cb w) as [cb|] eqn:Hcb.
    + apply Loc_maybe; [reflexivity|]. eapply Loc_same; [|exact HL]. repeat split.
    + eapply Loc_plain; [| | | | |exact HL]; try reflexivity.
      * unfold obytes. cbn [pw_set_rb pw_out pw_rb]. rewrite render_one, app_assoc. reflexivity.
      * intro off. repeat split.
  - cbn [pw_step pt_step pw_set_stats pw_cb]. destruct (pw_cb w) as [cb|] eqn:Hcb.
    + apply Loc_maybe; [reflexivity|]. eapply Loc_same; [|exact HL]. repeat split.
    + eapply Loc_plain; [| | | | |exact HL]; try reflexivity.
      * unfold obytes. cbn [pw_flush pw_set_rb pw_out pw_rb]. rewrite render_one, app_nil_r, app_assoc. reflexivity.
      * intro off. repeat split.
  - pose proof (step_bytes o w (PcAttachment cr lg n me d) eq_refl) as Hb.
    destruct HL as (Ib & Hc & Hco & Ha & Hm & Hmo). unfold Loc. rewrite Hb, Ib, render_app.
    cbn [pw_step pt_step pw_flush pw_chunks pw_atts pw_mds pw_out pw_rb app] in *. repeat split.
    + eapply Forall_impl; [|exact Hc]. intros ci. apply chunk_located_app.
    + rewrite Hco, chunk_offsets_app. cbn [chunk_offsets]. rewrite app_nil_r. reflexivity.
    + rewrite Ha. destruct (po_idx_att o); [|reflexivity]. rewrite att_entries_app. cbn [att_entries app]. f_equal. f_equal.
      unfold obytes in Ib. rewrite Ib, render_attach. cbn [att_of a_log a_create a_name a_media]. reflexivity.
    + eapply Forall_impl; [|exact Hm]. intros mx. apply md_located_app.
    + rewrite Hmo. destruct (po_idx_md o); [|reflexivity]. rewrite md_offsets_app. cbn [md_offsets is_md_item]. rewrite app_nil_r.
      reflexivity.
  - pose proof (step_bytes o w (PcMetadata n m) eq_refl) as Hb.
    destruct HL as (Ib & Hc & Hco & Ha & Hm & Hmo). unfold Loc. rewrite Hb, Ib, render_app.
    cbn [pw_step pt_step pw_flush pw_chunks pw_atts pw_mds pw_out pw_rb app] in *. repeat split.
    + eapply Forall_impl; [|exact Hc]. intros ci. apply chunk_located_app.
    + rewrite Hco, chunk_offsets_app. cbn [chunk_offsets]. rewrite app_nil_r. reflexivity.
    + rewrite Ha. destruct (po_idx_att o); [|reflexivity]. rewrite att_entries_app. cbn [att_entries]. rewrite app_nil_r.
      reflexivity.
    + assert (Hm' : Forall (md_located (its ++ [IRec OpMetadata (py_enc_metadata {| md_name := n; md_meta := m |})])) (pw_mds w))
        by (eapply Forall_impl; [|exact Hm]; intros mx; apply md_located_app).
      destruct (po_idx_md o); [|exact Hm']. apply Forall_app. split; [exact Hm'|]. constructor; [|constructor].
      exists its, {| md_name := n; md_meta := m |}, []. split; [reflexivity|]. unfold obytes in Ib. rewrite Ib. reflexivity.
    + destruct (po_idx_md o).
      * rewrite map_app, Hmo, md_offsets_app. cbn [map md_offsets mx_offset]. change (is_md_item (IRec OpMetadata _)) with true.
        cbv iota. unfold obytes in Ib. rewrite Ib. reflexivity.
      * exact Hmo.
  - (* finish *)
    cbn [pw_step pt_step]. unfold finish_items. cbv zeta. rewrite app_assoc.
    pose proof (Loc_fin w its HL) as H1. set (w1 := pw_finalize_chunk o w) in *.
    rewrite finish_spec. fold w1. unfold finish_state, pre_summary.
    eapply Loc_plain; [| | | | |exact H1]; try reflexivity.
    + unfold obytes. cbn [pw_raw pw_flush pw_set_rb pw_out pw_rb app].
      rewrite render_cons, render_app, !render_cons, render_nil, !app_nil_r, <- !app_assoc. reflexivity.
    + intro off. rewrite chunk_offsets_app, md_offsets_app, att_entries_app. cbn [dataend_item chunk_offsets md_offsets att_entries].
      change (is_md_item (IRec OpDataEnd _)) with false. cbv iota. cbn [app].
      rewrite chunk_offsets_app, md_offsets_app, att_entries_app. cbn [chunk_offsets md_offsets att_entries is_md_item]. rewrite !app_nil_r.
      unfold summary_of, sum_items, so_items.
      assert (Hrec : forall A op (f : A -> bytes) l0 (b : bool) off0, Byte.eqb op OpMetadata = false ->
                chunk_offsets off0 (if b then map (fun x => IRec op (f x)) l0 else []) = []
                /\ md_offsets off0 (if b then map (fun x => IRec op (f x)) l0 else []) = []
                /\ att_entries off0 (if b then map (fun x => IRec op (f x)) l0 else []) = []).
      { intros A op f l0 b off0 Hop. destruct b; [|repeat split]. revert off0.
        induction l0 as [|x l0 IH]; intro off0; [repeat split|].
        cbn [map chunk_offsets md_offsets att_entries is_md_item]. rewrite Hop. cbn [app]. apply IH. }
      rewrite !chunk_offsets_app, !md_offsets_app, !att_entries_app.
      repeat match goal with
      | |- context [chunk_offsets ?f (if ?b then map (fun x => IRec ?op (@?g x)) ?l0 else [])] =>
        destruct (Hrec _ op g l0 b f eq_refl) as (-> & _ & _)
      end.
      repeat match goal with
      | |- context [md_offsets ?f (if ?b then map (fun x => IRec ?op (@?g x)) ?l0 else [])] =>
        destruct (Hrec _ op g l0 b f eq_refl) as (_ & -> & _)
      end.
      repeat match goal with
      | |- context [att_entries ?f (if ?b then map (fun x => IRec ?op (@?g x)) ?l0 else [])] =>
        destruct (Hrec _ op g l0 b f eq_refl) as (_ & _ & ->)
      end.
      destruct (po_statistics o); cbn [chunk_offsets md_offsets att_entries is_md_item app];
        change (Byte.eqb OpStatistics OpMetadata) with false; cbv iota; repeat split.
Qed.

Lemma steps_Loc cs : forall w its,
  no_start cs = true -> Loc w its -> Loc (pw_steps o w cs) (its ++ trace_from o w cs).
Proof.
  induction cs as [|c cs IH]; intros w its Hns HL.
  - cbn [trace_from]. rewrite app_nil_r. exact HL.
  - cbn [no_start forallb] in Hns. apply andb_true_iff in Hns. destruct Hns as [Hc Hns]. apply negb_true_iff in Hc.
    unfold pw_steps. cbn [fold_left trace_from]. fold (pw_steps o (pw_step o w c) cs).
    rewrite app_assoc. apply IH; [exact Hns|]. apply step_Loc; assumption.
Qed.

Lemma started_Loc p l : Loc (started o p l) [IMagic; header_item p l].
Proof.
  unfold Loc, started. split; [rewrite (start_bytes o (pw_init o) p l eq_refl); reflexivity|].
  cbn [pw_step pw_flush pw_set_rb pw_raw pw_chunks pw_atts pw_mds pw_init map].
  repeat split; try constructor.
  - destruct (po_idx_att o); reflexivity.
  - destruct (po_idx_md o); reflexivity.
Qed.

End Loc.

(* ---------- message index offsets ---------- *)
Lemma pn_get_set_same {A} k (v : A) l : pn_get k (pn_set k v l) = Some v.
Proof.
  induction l as [|x l IH]; cbn [pn_set pn_get fst snd].
  - rewrite N.eqb_refl. reflexivity.
  - destruct (fst x =? k) eqn:E; cbn [pn_get fst snd]; [rewrite N.eqb_refl; reflexivity | rewrite E; exact IH].
Qed.
Lemma pn_get_set_other {A} k k' (v : A) l : k <> k' -> pn_get k (pn_set k' v l) = pn_get k l.
Proof.
  intro Hne. induction l as [|x l IH]; cbn [pn_set pn_get fst snd].
  - destruct (N.eqb_spec k' k); [congruence | reflexivity].
  - destruct (N.eqb_spec (fst x) k') as [E|E]; cbn [pn_get fst snd].
    + destruct (N.eqb_spec k' k); [congruence|]. destruct (N.eqb_spec (fst x) k); [congruence | reflexivity].
    + destruct (fst x =? k); [reflexivity | exact IH].
Qed.

(* an entry of the message index offsets of a chunk index designates the position of the (last)
   message index record of that channel *)
Lemma mi_offs_spec l : forall pos acc ch off,
  pn_get ch (mi_offs pos l acc) = Some off ->
  (pn_get ch acc = Some off /\ ~ In ch (map fst l))
  \/ exists l1 es l2, l = l1 ++ (ch, es) :: l2 /\ off = pos + blen (render (map mi_item l1)) /\ ~ In ch (map fst l2).
Proof.
  induction l as [|[c es] l IH]; intros pos acc ch off H; cbn [mi_offs fst] in H.
  - left. split; [exact H | intros []].
  - apply IH in H. destruct H as [[Hg Hn] | (l1 & es' & l2 & -> & -> & Hn)].
    + destruct (N.eq_dec ch c) as [->|Hne].
      * rewrite pn_get_set_same in Hg. injection Hg as <-. right. exists [], es, l. cbn [app map].
        rewrite render_nil, pyw_blen_nil, N.add_0_r. repeat split. exact Hn.
      * rewrite pn_get_set_other in Hg by exact Hne. left. split; [exact Hg|]. cbn [map fst In]. intros [E|E]; [congruence | exact (Hn E)].
    + right. exists ((c, es) :: l1), es', l2. cbn [app map]. rewrite render_cons, blen_app, N.add_assoc. repeat split. exact Hn.
Qed.

Lemma mi_offs_complete l : forall pos acc ch,
  In ch (map fst l) -> exists off, pn_get ch (mi_offs pos l acc) = Some off.
Proof.
  induction l as [|[c es] l IH]; intros pos acc ch Hin; [destruct Hin|]. cbn [mi_offs fst].
  destruct (in_dec N.eq_dec ch (map fst l)) as [Hl|Hl]; [apply IH, Hl|].
  cbn [map fst In] in Hin. destruct Hin as [<- | Hin]; [|contradiction].
  assert (G : forall l pos acc, ~ In c (map fst l) -> pn_get c (mi_offs pos l acc) = pn_get c acc).
  { clear. induction l as [|[c' es'] l IH]; intros pos acc Hn; [reflexivity|]. cbn [mi_offs fst].
    cbn [map fst In] in Hn. rewrite IH by tauto. apply pn_get_set_other. intro E. apply Hn. left. congruence. }
  rewrite G by exact Hl. rewrite pn_get_set_same. eexists. reflexivity.
Qed.

(* ---------- positions at finish() ---------- *)
Section SessionLoc.
Variable o : pwopts.
Variables p l : bytes.
Variable cs : list pcall.
Hypothesis Hns : no_start cs = true.

Definition before_dataend : list item := [IMagic] ++ data_items o p l cs.
Definition closed_state : pw := pw_finalize_chunk o (final_state o p l cs).   (* after the last chunk is written *)

(* 3(f): the index lists the summary section is built from (see tail_items / sum_items: chunk
   index, attachment index and metadata index records are the encodings of pw_chunks, pw_atts,
   pw_mds of closed_state) describe the items before the DataEnd record by position *)
Theorem py_index_positions : Loc o closed_state before_dataend.
Proof.
  unfold closed_state, before_dataend, data_items, final_state.
  pose proof (steps_Loc o cs _ _ Hns (started_Loc o p l)) as H. apply Loc_fin in H.
  rewrite <- app_assoc in H. exact H.
Qed.

Lemma summary_start_pos :
  summary_start_of closed_state = blen (render (before_dataend ++ [dataend_item closed_state])).
Proof.
  destruct py_index_positions as (Hb & _). unfold summary_start_of. rewrite render_app, render_one, <- Hb.
  unfold obytes. rewrite <- app_assoc. reflexivity.
Qed.

(* footer fields: summary_start / summary_offset_start are the positions where the summary section /
   the summary offset records start (0 when absent); the crc covers the summary section and the
   footer record up to the crc field *)
Theorem py_footer_fields :
  let w1 := closed_state in
  let pre := before_dataend ++ [dataend_item w1] in
  footer_ss o w1 = (if blen (render (summary_of o w1)) =? 0 then 0 else blen (render pre))
  /\ footer_sos o w1 = (if po_summary_offsets o then blen (render (pre ++ sum_items o w1)) else 0)
  /\ footer_crc o w1 = (if po_crcs o
                         then crc32 (render (summary_of o w1)
                                     ++ firstn 25 (render_item (IFooter (footer_ss o w1) (footer_sos o w1) (footer_crc o w1))))
                         else 0).
Proof.
  cbv zeta. unfold footer_ss, footer_sos. rewrite summary_start_pos. repeat split.
  - rewrite (render_app (before_dataend ++ _)), blen_app. reflexivity.
  - unfold footer_crc at 1. destruct (po_crcs o); [|reflexivity]. f_equal. f_equal.
    unfold footer_ss, footer_sos. rewrite summary_start_pos. reflexivity.
Qed.

End SessionLoc.

(* ====================================================================== *)
(** * 3d/3e. registered schemas and channels; the statistics record *)

Lemma steps_schemas o cs : forall w,
  pw_schemas (pw_steps o w cs) = pw_schemas w ++ reg_schemas (length (pw_schemas w)) cs.
Proof.
  induction cs as [|c cs IH]; intro w; [cbn [reg_schemas]; rewrite app_nil_r; reflexivity|].
  unfold pw_steps. cbn [fold_left]. fold (pw_steps o (pw_step o w c) cs). rewrite IH, step_schemas.
  destruct c; cbn [new_schema reg_schemas]; rewrite ?app_nil_r; try reflexivity.
  rewrite <- app_assoc, app_length. cbn [length app schema_of]. rewrite Nat.add_1_r. reflexivity.
Qed.

Lemma steps_channels o cs : forall w,
  pw_channels (pw_steps o w cs) = pw_channels w ++ reg_channels (length (pw_channels w)) cs.
Proof.
  induction cs as [|c cs IH]; intro w; [cbn [reg_channels]; rewrite app_nil_r; reflexivity|].
  unfold pw_steps. cbn [fold_left]. fold (pw_steps o (pw_step o w c) cs). rewrite IH, step_channels.
  destruct c; cbn [new_channel reg_channels]; rewrite ?app_nil_r; try reflexivity.
  rewrite <- app_assoc, app_length. cbn [length app channel_of]. rewrite Nat.add_1_r. reflexivity.
Qed.

Definition chan_count (ch : N) (ms : list message) : N :=
  N.of_nat (length (filter (fun m => m_chan m =? ch) ms)).


Lemma fold_min_le l : forall a, fold_left N.min l a <= a /\ Forall (fun x => fold_left N.min l a <= x) l
                                 /\ (fold_left N.min l a = a \/ In (fold_left N.min l a) l).
Proof.
  induction l as [|x l IH]; intro a; cbn [fold_left].
  - split; [lia|]. split; [constructor | left; reflexivity].
  - destruct (IH (N.min a x)) as (H1 & H2 & H3). split; [lia|]. split.
    + constructor; [lia | exact H2].
    + destruct H3 as [H3|H3]; [|right; right; exact H3].
      rewrite H3. destruct (N.min_spec a x) as [[_ E]|[_ E]]; rewrite E; [left; reflexivity | right; left; reflexivity].
Qed.

(* log_min is the least log time, log_max the greatest *)
Lemma log_min_spec ms : ms <> [] -> In (log_min ms) (map m_log ms) /\ Forall (fun m => log_min ms <= m_log m) ms.
Proof.
  destruct ms as [|m r]; [congruence|]. intros _. cbn [log_min map].
  destruct (fold_min_le (map m_log r) (m_log m)) as (H1 & H2 & H3). split.
  - destruct H3 as [-> | H3]; [left; reflexivity | right; exact H3].
  - constructor; [exact H1|]. rewrite Forall_map in H2. exact H2.
Qed.
Lemma fold_max_ge l : forall a, a <= fold_left N.max l a /\ Forall (fun x => x <= fold_left N.max l a) l
                                 /\ (fold_left N.max l a = a \/ In (fold_left N.max l a) l).
Proof.
  induction l as [|x l IH]; intro a; cbn [fold_left].
  - split; [lia|]. split; [constructor | left; reflexivity].
  - destruct (IH (N.max a x)) as (H1 & H2 & H3). split; [lia|]. split.
    + constructor; [lia | exact H2].
    + destruct H3 as [H3|H3]; [|right; right; exact H3].
      rewrite H3. destruct (N.max_spec a x) as [[_ E]|[_ E]]; rewrite E; [right; left; reflexivity | left; reflexivity].
Qed.
Lemma log_max_spec ms : Forall (fun m => m_log m <= log_max ms) ms /\ (ms <> [] -> In (log_max ms) (map m_log ms)).
Proof.
  unfold log_max. destruct (fold_max_ge (map m_log ms) 0) as (H1 & H2 & H3). split.
  - rewrite Forall_map in H2. exact H2.
  - intro Hne. destruct H3 as [H3|H3]; [|exact H3]. rewrite H3.
    destruct ms as [|m r]; [congruence|]. rewrite Forall_map in H2. inversion H2 as [|x y Hx _]; subst.
    rewrite H3 in Hx. left. lia.
Qed.

Definition SI (st : statistics) (nsch nch nck : nat) (pre : list pcall) : Prop :=
  let ms := msgs_of pre in
  st_messages st = N.of_nat (length ms) /\ st_schemas st = N.of_nat nsch /\ st_channels st = N.of_nat nch
  /\ st_attachments st = N.of_nat (length (atts_of pre)) /\ st_metadata st = N.of_nat (length (mds_of pre))
  /\ st_chunks st = N.of_nat nck /\ st_start st = log_min ms /\ st_end st = log_max ms
  /\ forall ch, pn_get ch (st_counts st) = if chan_count ch ms =? 0 then None else Some (chan_count ch ms).

Definition StatInv (w : pw) (pre : list pcall) : Prop :=
  SI (pw_stats w) (length (pw_schemas w)) (length (pw_channels w)) (length (pw_chunks w)) pre.

Lemma msgs_of_snoc pre c : msgs_of (pre ++ [c]) = msgs_of pre ++ msgs_of [c].
Proof. unfold msgs_of. rewrite flat_map_app'. reflexivity. Qed.
Lemma atts_of_snoc pre c : atts_of (pre ++ [c]) = atts_of pre ++ atts_of [c].
Proof. unfold atts_of. rewrite flat_map_app'. reflexivity. Qed.
Lemma mds_of_snoc pre c : mds_of (pre ++ [c]) = mds_of pre ++ mds_of [c].
Proof. unfold mds_of. rewrite flat_map_app'. reflexivity. Qed.

Section Stats.
Variable o : pwopts.

Lemma SI_fin_state w cb pre : StatInv w pre -> StatInv (fin_state o w cb) pre.
Proof.
  unfold StatInv, SI. cbn [fin_state pw_stats pw_schemas pw_channels pw_chunks st_inc_chunks
    st_messages st_schemas st_channels st_attachments st_metadata st_chunks st_start st_end st_counts].
  intros (H1 & H2 & H3 & H4 & H5 & H6 & H7 & H8 & H9). rewrite app_length. cbn [length].
  repeat split; try assumption. lia.
Qed.

Lemma SI_maybe w cb pre : pw_cb w = Some cb -> StatInv w pre -> StatInv (pw_maybe_finalize o w) pre.
Proof.
  intros Hcb H. rewrite (maybe_spec o w cb Hcb). destruct (closes o cb); [apply SI_fin_state, H | exact H].
Qed.

Lemma SI_fin w pre : StatInv w pre -> StatInv (pw_finalize_chunk o w) pre.
Proof.
  intro H. rewrite fin_spec'. destruct (pw_cb w) as [cb|]; [|exact H].
  destruct (cb_num cb =? 0); [exact H | apply SI_fin_state, H].
Qed.

Lemma SI_other st a b c pre x :
  msgs_of [x] = [] -> atts_of [x] = [] -> mds_of [x] = [] -> SI st a b c pre -> SI st a b c (pre ++ [x]).
Proof.
  intros E1 E2 E3. unfold SI. rewrite msgs_of_snoc, atts_of_snoc, mds_of_snoc, E1, E2, E3, !app_nil_r. auto.
Qed.

Lemma step_StatInv w pre c : is_start c = false -> StatInv w pre -> StatInv (pw_step o w c) (pre ++ [c]).
Proof.
  destruct c as [p l|n e d|t me sid m|ch lg d pb sq|cr lg n me d|n m|]; intros Hs HS; [discriminate| | | | | |].
  - cbn [pw_step]. unfold pw_data_record. cbn [pw_cb].
    assert (H : forall cbo, StatInv
       {| pw_out := pw_out w; pw_rb := pw_rb w; pw_atts := pw_atts w; pw_mds := pw_mds w; pw_channels := pw_channels w;
          pw_schemas := pw_schemas w ++ [schema_of w n e d]; pw_cb := cbo; pw_chunks := pw_chunks w;
          pw_stats := {| st_messages := st_messages (pw_stats w); st_schemas := st_schemas (pw_stats w) + 1;
                         st_channels := st_channels (pw_stats w); st_attachments := st_attachments (pw_stats w);
                         st_metadata := st_metadata (pw_stats w); st_chunks := st_chunks (pw_stats w);
                         st_start := st_start (pw_stats w); st_end := st_end (pw_stats w); st_counts := st_counts (pw_stats w) |};
          pw_crc := pw_crc w |} (pre ++ [PcSchema n e d])).
    { intro cbo. unfold StatInv. cbn [pw_stats pw_schemas pw_channels pw_chunks]. apply SI_other; try reflexivity.
      unfold StatInv, SI in *. cbn [st_messages st_schemas st_channels st_attachments st_metadata st_chunks st_start st_end st_counts].
      destruct HS as (H1 & H2 & H3 & H4 & H5 & H6 & H7 & H8 & H9). rewrite app_length. cbn [length].
      repeat split; try assumption. lia. }
    destruct (pw_cb w) as [cb|]; [|apply (H None)].
    eapply SI_maybe; [reflexivity|]. apply (H (Some _)).
  - cbn [pw_step]. unfold pw_data_record. cbn [pw_cb].
    assert (H : forall cbo, StatInv
       {| pw_out := pw_out w; pw_rb := pw_rb w; pw_atts := pw_atts w; pw_mds := pw_mds w;
          pw_channels := pw_channels w ++ [channel_of w t me sid m];
          pw_schemas := pw_schemas w; pw_cb := cbo; pw_chunks := pw_chunks w;
          pw_stats := {| st_messages := st_messages (pw_stats w); st_schemas := st_schemas (pw_stats w);
                         st_channels := st_channels (pw_stats w) + 1; st_attachments := st_attachments (pw_stats w);
                         st_metadata := st_metadata (pw_stats w); st_chunks := st_chunks (pw_stats w);
                         st_start := st_start (pw_stats w); st_end := st_end (pw_stats w); st_counts := st_counts (pw_stats w) |};
          pw_crc := pw_crc w |} (pre ++ [PcChannel t me sid m])).
    { intro cbo. unfold StatInv. cbn [pw_stats pw_schemas pw_channels pw_chunks]. apply SI_other; try reflexivity.
      unfold StatInv, SI in *. cbn [st_messages st_schemas st_channels st_attachments st_metadata st_chunks st_start st_end st_counts].
      destruct HS as (H1 & H2 & H3 & H4 & H5 & H6 & H7 & H8 & H9). rewrite app_length. cbn [length].
      repeat split; try assumption. lia. }
    destruct (pw_cb w) as [cb|]; [|apply (H None)].
    eapply SI_maybe; [reflexivity|]. apply (H (Some _)).
  - cbn [pw_step].
    set (st' := {| st_messages := st_messages (pw_stats w) + 1; st_schemas := _; st_channels := _; st_attachments := _;
                   st_metadata := _; st_chunks := _; st_start := _; st_end := _; st_counts := _ |}).
    assert (H : SI st' (length (pw_schemas w)) (length (pw_channels w)) (length (pw_chunks w)) (pre ++ [PcMessage ch lg d pb sq])).
    { unfold StatInv, SI in *. rewrite msgs_of_snoc, atts_of_snoc, mds_of_snoc.
      change (msgs_of [PcMessage ch lg d pb sq]) with [msg_of ch lg d pb sq].
      change (atts_of [PcMessage ch lg d pb sq]) with (@nil (attachment * bytes)).
      change (mds_of [PcMessage ch lg d pb sq]) with (@nil metadata). rewrite !app_nil_r.
      destruct HS as (H1 & H2 & H3 & H4 & H5 & H6 & H7 & H8 & H9).
      unfold st'. cbn [st_messages st_schemas st_channels st_attachments st_metadata st_chunks st_start st_end st_counts].
      rewrite app_length, log_min_snoc, log_max_snoc. cbn [length msg_of m_log].
      repeat split; try assumption.
      - lia.
      - rewrite H1. destruct (msgs_of pre) as [|m0 r]; [reflexivity|]. cbn [length].
        destruct (N.eqb_spec (N.of_nat (S (length r))) 0); [lia|]. rewrite H7. reflexivity.
      - rewrite H8. reflexivity.
      - intro ch'. unfold chan_count. rewrite filter_app, app_length. cbn [filter msg_of m_chan].
        destruct (N.eq_dec ch' ch) as [->|Hne].
        + rewrite pn_get_set_same, N.eqb_refl. cbn [length]. rewrite (H9 ch). unfold chan_count.
          set (k := length (filter (fun m => m_chan m =? ch) (msgs_of pre))).
          destruct (N.eqb_spec (N.of_nat (k + 1)) 0); [lia|].
          destruct (N.eqb_spec (N.of_nat k) 0) as [E|E]; f_equal; lia.
        + rewrite pn_get_set_other by exact Hne. destruct (N.eqb_spec ch ch'); [congruence|]. cbn [length].
          rewrite Nat.add_0_r. apply H9. }
    cbn [pw_set_stats pw_cb]. destruct (pw_cb w) as [cb|].
    + eapply SI_maybe; [reflexivity|]. exact H.
    + exact H.
  - cbn [pw_step]. unfold StatInv, SI in *. cbn [pw_flush pw_stats pw_schemas pw_channels pw_chunks
      st_messages st_schemas st_channels st_attachments st_metadata st_chunks st_start st_end st_counts].
    rewrite msgs_of_snoc, atts_of_snoc, mds_of_snoc.
    change (msgs_of [PcAttachment cr lg n me d]) with (@nil message).
    change (mds_of [PcAttachment cr lg n me d]) with (@nil metadata). rewrite !app_nil_r, app_length.
    destruct HS as (H1 & H2 & H3 & H4 & H5 & H6 & H7 & H8 & H9). cbn [atts_of flat_map length app].
    repeat split; try assumption. lia.
  - cbn [pw_step]. unfold StatInv, SI in *. cbn [pw_flush pw_stats pw_schemas pw_channels pw_chunks
      st_messages st_schemas st_channels st_attachments st_metadata st_chunks st_start st_end st_counts].
    rewrite msgs_of_snoc, atts_of_snoc, mds_of_snoc.
    change (msgs_of [PcMetadata n m]) with (@nil message).
    change (atts_of [PcMetadata n m]) with (@nil (attachment * bytes)). rewrite !app_nil_r, app_length.
    destruct HS as (H1 & H2 & H3 & H4 & H5 & H6 & H7 & H8 & H9). cbn [mds_of flat_map length app].
    repeat split; try assumption. lia.
  - cbn [pw_step]. rewrite finish_spec. unfold finish_state, pre_summary.
    apply SI_fin in HS. unfold StatInv in *. cbn [pw_raw pw_flush pw_set_rb pw_stats pw_schemas pw_channels pw_chunks].
    apply SI_other; try reflexivity. exact HS.
Qed.

Lemma steps_StatInv cs : forall w pre,
  no_start cs = true -> StatInv w pre -> StatInv (pw_steps o w cs) (pre ++ cs).
Proof.
  induction cs as [|c cs IH]; intros w pre Hns HS.
  - rewrite app_nil_r. exact HS.
  - cbn [no_start forallb] in Hns. apply andb_true_iff in Hns. destruct Hns as [Hc Hns]. apply negb_true_iff in Hc.
    unfold pw_steps. cbn [fold_left]. fold (pw_steps o (pw_step o w c) cs).
    change (pre ++ c :: cs) with (pre ++ [c] ++ cs). rewrite app_assoc. apply IH; [exact Hns|].
    apply step_StatInv; assumption.
Qed.

Lemma started_StatInv p l : StatInv (started o p l) [].
Proof. unfold StatInv, SI, started. cbn. repeat split. Qed.

(* 3(e): the statistics record finish() writes (pw_stats of closed_state, see sum_items) *)
Theorem py_statistics p l cs :
  no_start cs = true -> StatInv (closed_state o p l cs) cs.
Proof.
  intro Hns. unfold closed_state, final_state. apply SI_fin.
  apply (steps_StatInv cs _ [] Hns (started_StatInv p l)).
Qed.

(* 3(d): the registered schemas and channels (repeated in the summary section) *)
Theorem py_registered p l cs :
  pw_schemas (closed_state o p l cs) = reg_schemas 0 cs /\ pw_channels (closed_state o p l cs) = reg_channels 0 cs.
Proof.
  unfold closed_state, final_state. destruct (fin_keeps o (pw_steps o (started o p l) cs)) as (_ & _ & -> & ->).
  rewrite steps_schemas, steps_channels. split; reflexivity.
Qed.

End Stats.

(* ====================================================================== *)
(** * 3g. the DataEnd crc *)

Definition is_reg (c : pcall) : bool :=
  match c with PcSchema _ _ _ | PcChannel _ _ _ _ => true | _ => false end.
(* the last data call registers a schema or a channel *)
Definition ends_with_reg (cs : list pcall) : bool :=
  match rev cs with c :: _ => is_reg c | [] => false end.

Section DataCrc.
Variable o : pwopts.

Definition CrcInv (w : pw) : Prop := pw_crc w = if po_data_crcs o then crc32 (pw_out w) else 0.

Lemma CrcInv_flush w : CrcInv w -> CrcInv (pw_flush o w).
Proof.
  unfold CrcInv. cbn [pw_flush pw_crc pw_out]. intros ->. destruct (po_data_crcs o); [apply py_crc_crc32 | reflexivity].
Qed.

Lemma CrcInv_fin_state w cb : CrcInv w -> CrcInv (fin_state o w cb).
Proof.
  unfold CrcInv. cbn [fin_state pw_crc pw_out]. intros ->. destruct (po_data_crcs o); [|reflexivity].
  rewrite !py_crc_crc32. reflexivity.
Qed.

Lemma CrcInv_maybe w cb : pw_cb w = Some cb -> CrcInv w -> CrcInv (pw_maybe_finalize o w).
Proof. intros Hcb H. rewrite (maybe_spec o w cb Hcb). destruct (closes o cb); [apply CrcInv_fin_state, H | exact H]. Qed.

Lemma CrcInv_fin w : CrcInv w -> CrcInv (pw_finalize_chunk o w).
Proof.
  intro H. rewrite fin_spec'. destruct (pw_cb w) as [cb|]; [|exact H].
  destruct (cb_num cb =? 0); [exact H | apply CrcInv_fin_state, H].
Qed.

(* the invariants of the data phase: the running crc covers the stream; with chunking the record
   builder is empty between calls *)
Definition DInv (w : pw) : Prop := CrcInv w /\ (pw_cb w <> None -> pw_rb w = []).

Lemma rb_fin_state w cb : pw_rb (fin_state o w cb) = [].
Proof. reflexivity. Qed.

Lemma DInv_maybe w cb : pw_cb w = Some cb -> DInv w -> DInv (pw_maybe_finalize o w).
Proof.
  intros Hcb [Hc Hr]. split; [eapply CrcInv_maybe; eassumption|].
  rewrite (maybe_spec o w cb Hcb). destruct (closes o cb); [reflexivity|]. exact Hr.
Qed.

Lemma step_DInv w c : is_start c = false -> is_finish c = false -> DInv w -> DInv (pw_step o w c).
Proof.
  destruct c as [p l|n e d|t me sid m|ch lg d pb sq|cr lg n me d|n m|]; intros Hs Hf [Hc Hr]; try discriminate.
  - cbn [pw_step]. unfold pw_data_record. cbn [pw_cb]. destruct (pw_cb w) as [cb|] eqn:Hcb.
    + eapply DInv_maybe; [reflexivity|]. split; [exact Hc|]. intros _. cbn [pw_set_cb pw_rb]. apply Hr. discriminate.
    + split; [exact Hc|]. cbn [pw_set_rb pw_cb]. rewrite ?Hcb. congruence.
  - cbn [pw_step]. unfold pw_data_record. cbn [pw_cb]. destruct (pw_cb w) as [cb|] eqn:Hcb.
    + eapply DInv_maybe; [reflexivity|]. split; [exact Hc|]. intros _. cbn [pw_set_cb pw_rb]. apply Hr. discriminate.
    + split; [exact Hc|]. cbn [pw_set_rb pw_cb]. rewrite ?Hcb. congruence.
  - cbn [pw_step pw_set_stats pw_cb]. destruct (pw_cb w) as [cb|] eqn:Hcb.
    + eapply DInv_maybe; [reflexivity|]. split; [exact Hc|]. intros _. cbn [pw_set_cb pw_rb]. apply Hr. discriminate.
    + split; [|reflexivity]. apply CrcInv_flush. exact Hc.
  - cbn [pw_step]. split; [|reflexivity].
    match goal with |- CrcInv (pw_flush o ?x) => apply (CrcInv_flush x) end.
    apply CrcInv_flush in Hc. exact Hc.
  - cbn [pw_step]. split; [|reflexivity].
    match goal with |- CrcInv (pw_flush o ?x) => apply (CrcInv_flush x) end.
    apply CrcInv_flush in Hc. exact Hc.
Qed.

Lemma steps_DInv cs : forall w, data_calls cs = true -> DInv w -> DInv (pw_steps o w cs).
Proof.
  induction cs as [|c cs IH]; intros w Hd HI; [exact HI|].
  cbn [data_calls forallb] in Hd. apply andb_true_iff in Hd. destruct Hd as [Hc Hd].
  apply andb_true_iff in Hc. destruct Hc as [Hs Hf]. apply negb_true_iff in Hs. apply negb_true_iff in Hf.
  unfold pw_steps. cbn [fold_left]. apply IH; [exact Hd|]. apply step_DInv; assumption.
Qed.

Lemma started_DInv p l : DInv (started o p l).
Proof.
  split; [|reflexivity]. unfold CrcInv, started. cbn [pw_step pw_flush pw_set_rb pw_raw pw_crc pw_out pw_rb pw_init app].
  destruct (po_data_crcs o); [|reflexivity]. rewrite py_crc_0, py_crc_crc32. reflexivity.
Qed.

(* a non-registering call leaves the record builder empty when there is no chunk builder *)
Lemma step_rb_nochunk w c :
  pw_cb w = None -> is_start c = false -> is_finish c = false -> is_reg c = false -> pw_rb (pw_step o w c) = [].
Proof.
  intros Hcb Hs Hf Hr. destruct c; try discriminate; cbn [pw_step pw_set_stats pw_cb]; rewrite ?Hcb; reflexivity.
Qed.

Lemma chunk_cb_stays : forall cs w, pw_cb w <> None -> pw_cb (pw_steps o w cs) <> None.
Proof.
  intro cs. induction cs as [|c cs IH]; intros w Hn; [exact Hn|]. unfold pw_steps. cbn [fold_left]. apply IH.
  destruct (pw_cb w) as [cb|] eqn:Hcb; [|congruence].
  destruct c; cbn [pw_step]; unfold pw_data_record; cbn [pw_cb pw_set_stats pw_flush pw_set_rb pw_raw]; rewrite ?Hcb;
    try discriminate;
    try (match goal with |- pw_cb (pw_maybe_finalize o ?x) <> None =>
           rewrite (maybe_spec o x _ eq_refl); match goal with |- context [closes o ?c] => destruct (closes o c) end;
           cbn [fin_state pw_set_cb pw_cb]; discriminate end).
  rewrite finish_spec. unfold finish_state, pre_summary. cbn [pw_raw pw_flush pw_set_rb pw_cb].
  rewrite fin_spec', Hcb. destruct (cb_num cb =? 0); [rewrite Hcb|]; discriminate.
Qed.

Variables p l : bytes.
Variable cs : list pcall.
Hypothesis Hd : data_calls cs = true.

Lemma closed_DInv : DInv (closed_state o p l cs).
Proof.
  unfold closed_state, final_state. pose proof (steps_DInv cs _ Hd (started_DInv p l)) as [Hc Hr].
  split; [apply CrcInv_fin, Hc|]. rewrite fin_spec'. destruct (pw_cb (pw_steps o (started o p l) cs)) as [cb|] eqn:Hcb.
  - destruct (cb_num cb =? 0); [rewrite Hcb; exact Hr | reflexivity].
  - rewrite Hcb. exact Hr.
Qed.

(* the crc value written in the DataEnd record (see dataend_item) *)
Theorem py_dataend_crc_value :
  pw_crc (closed_state o p l cs) = if po_data_crcs o then crc32 (pw_out (closed_state o p l cs)) else 0.
Proof. exact (proj1 closed_DInv). Qed.

Lemma closed_rb :
  po_chunking o = true \/ ends_with_reg cs = false -> pw_rb (closed_state o p l cs) = [].
Proof.
  intro H. destruct closed_DInv as [_ Hr].
  assert (Hcb : pw_cb (started o p l) = if po_chunking o then Some cb_empty else None) by reflexivity.
  destruct (po_chunking o) eqn:Hch.
  - (* chunking: the chunk builder never disappears *)
    apply Hr. unfold closed_state. rewrite fin_spec'.
    pose proof chunk_cb_stays as G.
    specialize (G cs (started o p l)). rewrite Hcb in G. specialize (G ltac:(discriminate)). fold (final_state o p l cs) in G.
    destruct (pw_cb (final_state o p l cs)) as [cb|] eqn:E; [|congruence].
    destruct (cb_num cb =? 0); [rewrite E|]; discriminate.
  - destruct H as [H|H]; [discriminate|].
    pose proof (nochunk_cb o cs _ Hcb) as Hn. fold (final_state o p l cs) in Hn.
    unfold closed_state. rewrite (fin_none o _ Hn). unfold final_state.
    unfold ends_with_reg in H. destruct (rev cs) as [|c r] eqn:Er.
    + apply (f_equal (@rev pcall)) in Er. rewrite rev_involutive in Er. subst cs. reflexivity.
    + apply (f_equal (@rev pcall)) in Er. rewrite rev_involutive in Er. cbn [rev] in Er. subst cs.
      rewrite pw_steps_app. unfold pw_steps at 1. cbn [fold_left].
      unfold data_calls in Hd. rewrite forallb_app in Hd. apply andb_true_iff in Hd. destruct Hd as [_ Hd'].
      cbn [forallb] in Hd'. rewrite andb_true_r in Hd'. apply andb_true_iff in Hd'. destruct Hd' as [Hs Hf].
      apply negb_true_iff in Hs. apply negb_true_iff in Hf.
      apply step_rb_nochunk; try assumption. apply nochunk_cb, Hcb.
Qed.

(* with chunking, or when the last data call is not a registration, the DataEnd crc is the crc of
   everything before the DataEnd record *)
Theorem py_dataend_crc_ok :
  po_data_crcs o = true -> po_chunking o = true \/ ends_with_reg cs = false ->
  pw_crc (closed_state o p l cs) = crc32 (render (before_dataend o p l cs)).
Proof.
  intros Hdc H. rewrite py_dataend_crc_value, Hdc.
  destruct (py_index_positions o p l cs (data_calls_no_start cs Hd)) as (Hb & _). rewrite <- Hb.
  unfold obytes. rewrite (closed_rb H), app_nil_r. reflexivity.
Qed.

(* in general the crc covers the stream only: the schema / channel records still in the record
   builder (no chunking, registered after the last message / attachment / metadata call) are
   written together with the DataEnd record, after the crc value was read *)
Theorem py_dataend_crc_general :
  po_data_crcs o = true ->
  render (before_dataend o p l cs) = pw_out (closed_state o p l cs) ++ pw_rb (closed_state o p l cs)
  /\ pw_crc (closed_state o p l cs) = crc32 (pw_out (closed_state o p l cs)).
Proof.
  intro Hdc. destruct (py_index_positions o p l cs (data_calls_no_start cs Hd)) as (Hb & _).
  split; [symmetry; exact Hb|]. rewrite py_dataend_crc_value, Hdc. reflexivity.
Qed.

End DataCrc.

(* ====================================================================== *)
(** * 2c. the size bounds follow from a bound on the file size *)

Lemma render_item_le it items : In it items -> blen (render_item it) <= blen (render items).
Proof.
  induction items as [|x items IH]; intro Hin; [destruct Hin|]. rewrite render_cons, blen_app.
  destruct Hin as [-> | Hin]; [lia | specialize (IH Hin); lia].
Qed.

Section Total.
Variable lo : lopts.
Variable T : N.
Hypothesis HT : T < 1073741824.
Hypothesis Hmr : lo_max_record lo = 0 \/ T <= lo_max_record lo.
Hypothesis Hmc : lo_max_chunk lo = 0 \/ T <= lo_max_chunk lo.

Lemma len_ok_le n : n <= T -> len_ok lo n.
Proof.
  intro Hn. unfold len_ok. destruct Hmr as [E|E].
  - rewrite E. reflexivity.
  - destruct (N.ltb_spec (lo_max_record lo) n); [lia|]. apply andb_false_r.
Qed.

Lemma max_chunk_le n : n <= T -> ((0 <? lo_max_chunk lo) && (lo_max_chunk lo <? n)) = false.
Proof.
  intro Hn. destruct Hmc as [E|E].
  - rewrite E. reflexivity.
  - destruct (N.ltb_spec (lo_max_chunk lo) n); [lia|]. apply andb_false_r.
Qed.

Lemma lt_max_int32 n : n <= T -> n < max_int32.
Proof. unfold max_int32. lia. Qed.
Lemma lt_two63 n : n <= T -> n < two63.
Proof. unfold two63. lia. Qed.
Lemma lt_two64 n : n <= T -> n < two64.
Proof. unfold two64. lia. Qed.

Definition sized (it : item) : Prop :=
  blen (render_item it) <= T /\ match it with IFooter ss sos _ => ss <= T /\ sos <= T | _ => True end.

Lemma built_sized_ok it : item_built it -> sized it -> item_size_ok lo it.
Proof.
  destruct it as [|op body|k|a data crc|ss sos crc]; unfold sized; cbn [item_built item_size_ok render_item]; intros Hb [Hs Hx].
  - exact I.
  - rewrite pyw_blen_frame in Hs. unfold rec_size_ok. cbn [snd]. split; [apply lt_max_int32 | apply len_ok_le]; lia.
  - destruct Hb as (_ & _ & Hc & Hu & _ & inner & Hr & _). rewrite pyw_blen_frame, enc_chunk_blen, Hc in Hs.
    change (blen []) with 0 in Hs.
    assert (H64 : Forall (fun r => blen (snd r) < two64) inner).
    { eapply Forall_impl; [|apply frames_body_le]. cbv beta. intros r Hle. rewrite <- Hr in Hle. apply lt_two64. lia. }
    repeat split.
    + apply len_ok_le. rewrite enc_chunk_blen, Hc. change (blen []) with 0. lia.
    + apply lt_two63. lia.
    + rewrite Hr, split_records_frames by (exact H64 || lia).
      eapply Forall_impl; [|apply frames_body_le]. cbv beta. intros r Hle. rewrite <- Hr in Hle.
      split; [apply lt_max_int32 | apply len_ok_le]; lia.
    + rewrite Hu. unfold max_int32. lia.
    + apply max_chunk_le. lia.
  - rewrite pyw_blen_frame in Hs. unfold attach_body. split; [apply lt_two63 | apply len_ok_le]; lia.
  - destruct Hx as [H1 H2]. rewrite pyw_blen_frame in Hs. repeat split; try (apply lt_two64; assumption).
    apply len_ok_le. change (blen (enc_footer _)) with 20 in Hs. lia.
Qed.

End Total.

Section TotalMain.
Variable o : pwopts.
Variable lo : lopts.

Lemma py_trace_built p l cs b :
  py_write o (PcStart p l :: cs ++ [PcFinish]) = POk b -> data_calls cs = true ->
  Forall item_built (data_items o p l cs ++ tail_items o p l cs).
Proof.
  intros Hw Hd. destruct (py_write_run _ _ _ Hw) as (w' & Hr & _).
  cbn [pw_run] in Hr. destruct (pcall_ok (pw_init o) (PcStart p l)); [|discriminate]. fold (started o p l) in Hr.
  apply pw_run_app in Hr. destruct Hr as (w1 & Hr1 & _).
  destruct (data_built o cs _ _ _ (started_SInv o p l) Hd Hr1) as [Hb1 HI].
  apply pw_run_steps in Hr1. subst w1. pose proof (finish_built o _ _ HI) as Hf.
  unfold data_items, tail_items, finish_recs in *. fold (final_state o p l cs) in *. cbv zeta in *.
  apply Forall_app in Hf. destruct Hf as [Hf1 Hf2].
  apply Forall_app. split; [|exact Hf2].
  constructor; [cbn; repeat split; discriminate|]. apply Forall_app. split; assumption.
Qed.

(* a file smaller than 1 GiB, and not larger than the lexer's limits, satisfies all size conditions *)
Theorem py_sizes_from_total p l cs b :
  py_write o (PcStart p l :: cs ++ [PcFinish]) = POk b -> data_calls cs = true ->
  blen b < 1073741824 ->
  lo_max_record lo = 0 \/ blen b <= lo_max_record lo ->
  lo_max_chunk lo = 0 \/ blen b <= lo_max_chunk lo ->
  Forall (item_size_ok lo) (py_trace o (PcStart p l :: cs ++ [PcFinish])).
Proof.
  intros Hw Hd HT Hmr Hmc.
  pose proof (py_write_is_trace o p l cs b Hw (data_calls_no_start cs Hd)) as Hb.
  pose proof (py_trace_built p l cs b Hw Hd) as Hbuilt.
  rewrite Hb in HT, Hmr, Hmc. clear Hb. set (tr := py_trace o (PcStart p l :: cs ++ [PcFinish])) in *.
  assert (Htr : tr = [IMagic] ++ (data_items o p l cs ++ tail_items o p l cs) ++ [IMagic]).
  { unfold tr. rewrite py_trace_sections, <- !app_assoc. reflexivity. }
  assert (Hsized : Forall (sized (blen (render tr))) (data_items o p l cs ++ tail_items o p l cs)).
  { apply Forall_forall. intros it Hit. split.
    - apply render_item_le. rewrite Htr. apply in_or_app. right. apply in_or_app. left. exact Hit.
    - destruct it as [| | | |ss sos crc]; try exact I.
      (* the only footer item is the last one of tail_items *)
      assert (Hnf : forall w, ~ In (IFooter ss sos crc) (trace_from o (started o p l) cs) /\
                              ~ In (IFooter ss sos crc) (fin_items o (pw_cb (final_state o p l cs))) /\
                              ~ In (IFooter ss sos crc) (summary_of o w)).
      { intro w. repeat split.
        - assert (G : forall cs w0, data_calls cs = true -> ~ In (IFooter ss sos crc) (trace_from o w0 cs)).
          { clear. intro cs. induction cs as [|c cs IH]; intros w0 Hd; [intros []|].
            cbn [data_calls forallb] in Hd. apply andb_true_iff in Hd. destruct Hd as [Hc Hd].
            apply andb_true_iff in Hc. destruct Hc as [Hs Hf]. apply negb_true_iff in Hs. apply negb_true_iff in Hf.
            cbn [trace_from]. intro Hin. apply in_app_or in Hin. destruct Hin as [Hin|Hin]; [|exact (IH _ Hd Hin)].
            assert (M : forall cbo, ~ In (IFooter ss sos crc) (maybe_items o cbo)).
            { intros [cb|]; [|intros []]. rewrite maybe_items_spec. destruct (closes o cb); [|intros []].
              intros [E|E]; [discriminate|]. unfold mi_items in E. destruct (po_idx_msg o); [|destruct E].
              apply in_map_iff in E. destruct E as (x & E & _). discriminate. }
            destruct c; try discriminate; cbn [pt_step] in Hin; unfold data_rec_items in Hin;
              try (destruct (pw_cb w0); [exact (M _ Hin)|]);
              destruct Hin as [E|[]]; discriminate. }
          apply G, Hd.
        - destruct (pw_cb (final_state o p l cs)) as [cb|]; [|intros []]. cbn [fin_items].
          destruct (cb_num cb =? 0); [intros []|]. intros [E|E]; [discriminate|].
          unfold mi_items in E. destruct (po_idx_msg o); [|destruct E]. apply in_map_iff in E. destruct E as (x & E & _). discriminate.
        - unfold summary_of, sum_items, so_items. intro Hin.
          repeat (apply in_app_or in Hin; destruct Hin as [Hin|Hin]);
            match type of Hin with
            | In _ (if ?b then _ else _) => destruct b; [|destruct Hin]
            end;
            try (apply in_map_iff in Hin; destruct Hin as (x & E & _); discriminate).
          destruct Hin as [E|[]]; discriminate. }
      unfold data_items, tail_items in Hit. cbv zeta in Hit. fold (closed_state o p l cs) in Hit.
      destruct (Hnf (closed_state o p l cs)) as (N1 & N2 & N3).
      assert (E : IFooter (footer_ss o (closed_state o p l cs)) (footer_sos o (closed_state o p l cs))
                          (footer_crc o (closed_state o p l cs)) = IFooter ss sos crc).
      { rewrite !in_app_iff in Hit. cbn [In app] in Hit. rewrite ?in_app_iff in Hit. cbn [In] in Hit.
        unfold header_item, dataend_item in Hit.
        repeat match type of Hit with
               | _ \/ _ => destruct Hit as [Hit|Hit]
               end; try discriminate; try contradiction; try exact Hit. }
      injection E as <- <- _.
        destruct (py_footer_fields o p l cs (data_calls_no_start cs Hd)) as (E1 & E2 & _). cbv zeta in E1, E2.
        assert (Hsec : tr = (before_dataend o p l cs ++ [dataend_item (closed_state o p l cs)])
                            ++ sum_items o (closed_state o p l cs)
                            ++ so_items o (grp_offs (summary_start_of (closed_state o p l cs)) (sum_groups o (closed_state o p l cs)))
                            ++ [IFooter (footer_ss o (closed_state o p l cs)) (footer_sos o (closed_state o p l cs))
                                        (footer_crc o (closed_state o p l cs)); IMagic]).
        { unfold tr. rewrite py_trace_sections. unfold before_dataend, tail_items, summary_of. cbv zeta.
          fold (closed_state o p l cs). repeat (rewrite <- app_assoc || rewrite <- app_comm_cons). reflexivity. }
        rewrite E1, E2. rewrite Hsec. rewrite ?render_app, ?blen_app.
        split; [destruct (blen (render (summary_of o (closed_state o p l cs))) =? 0); lia
               | destruct (po_summary_offsets o); lia]. }
  rewrite Htr. apply Forall_app. split; [constructor; [exact I|constructor]|].
  apply Forall_app. split; [|constructor; [exact I|constructor]].
  clear Htr. revert Hbuilt Hsized. generalize (data_items o p l cs ++ tail_items o p l cs). intros its.
  induction 1 as [|it its Hb _ IH]; intro Hs; [constructor|]. inversion Hs; subst.
  constructor; [|apply IH; assumption].
  apply (built_sized_ok lo (blen (render tr)) HT Hmr Hmc it Hb). assumption.
Qed.

End TotalMain.

(* ====================================================================== *)
(** * 3h. which schema / channel records are written; decoding what the lexer returns *)

Lemma app_split_at {T} (Pm : T -> bool) (A : list T) : forall X D M B,
  X ++ D = A ++ M :: B -> Pm M = true -> Forall (fun d => Pm d = false) D -> exists Y, X = A ++ M :: Y.
Proof.
  induction A as [|a A IH]; intros X D M B H HM HD.
  - destruct X as [|x X].
    + cbn [app] in H. subst D. inversion HD; subst. congruence.
    + cbn [app] in H. injection H as -> _. exists X. reflexivity.
  - destruct X as [|x X].
    + cbn [app] in H. subst D. rewrite Forall_forall in HD.
      assert (Hin : In M (a :: A ++ M :: B)) by (right; apply in_elt). apply HD in Hin. congruence.
    + cbn [app] in H. injection H as -> H. destruct (IH _ _ _ _ H HM HD) as (Y & ->). exists Y. reflexivity.
Qed.

Lemma good_auto : P_good is_auto.
Proof. split; [intro b; reflexivity|]. right. split; intros; reflexivity. Qed.

Lemma filter_auto_inner inner : Forall auto_rec inner -> filter is_auto (map cr_of inner) = map cr_of inner.
Proof.
  induction 1 as [|r inner Hr _ IH]; [reflexivity|]. cbn [map filter]. unfold cr_of at 1. cbn [is_auto].
  rewrite IH. destruct r as [op body]. unfold auto_rec in Hr. cbn [fst snd] in *.
  destruct Hr as [-> | [-> | ->]]; reflexivity.
Qed.

Section Written.
Variable o : pwopts.
Variables p l : bytes.
Variable unz : bytes -> bytes -> bytes.
Hypothesis Hunz : forall stored, unz [] stored = stored.

(* every schema / channel record registered before a message call is written to the data section:
   the written ones start with them *)
Theorem py_registered_before_message_written cs1 ch lg d pb sq cs2 b :
  let cs := cs1 ++ PcMessage ch lg d pb sq :: cs2 in
  py_write o (PcStart p l :: cs ++ [PcFinish]) = POk b -> data_calls cs = true ->
  Forall chunk_small (py_trace o (PcStart p l :: cs ++ [PcFinish])) ->
  (exists rest, filter (is_op OpSchema) (all_records unz (data_items o p l cs))
                = map (fun s => CR OpSchema (enc_schema s)) (reg_schemas 0 cs1) ++ rest)
  /\ (exists rest, filter (is_op OpChannel) (all_records unz (data_items o p l cs))
                   = map (fun c => CR OpChannel (py_enc_channel c)) (reg_channels 0 cs1) ++ rest).
Proof.
  intros cs Hw Hd Hsm.
  pose proof (py_data_content o p l cs unz Hunz b Hw Hd Hsm is_auto good_auto (fun _ => eq_refl)) as H.
  rewrite (filter_auto_inner _ (dropped_auto o p l cs b Hw Hd)) in H.
  unfold cs in H at 3. rewrite calls_recs_app in H. cbn [calls_recs call_recs] in H.
  rewrite filter_app in H. cbn [app filter is_auto] in H. change (auto_op OpMessage) with true in H. cbv iota in H.
  destruct (app_split_at (is_op OpMessage) _ _ _ _ _ H eq_refl) as (Y & HY).
  { pose proof (dropped_no_msg o p l cs b Hw Hd) as Hn. clear - Hn.
    induction (dropped o p l cs) as [|r dr IH]; [constructor|]. cbn [filter] in Hn. cbn [map].
    destruct (is_msg_rec r) eqn:E; [discriminate|]. constructor; [exact E | apply IH, Hn]. }
  split.
  - exists (filter (is_op OpSchema) Y).
    rewrite <- (filter_refine (is_op OpSchema) is_auto (all_records unz (data_items o p l cs))).
    + rewrite HY, filter_app. cbn [filter is_op]. change (Byte.eqb OpMessage OpSchema) with false. cbv iota.
      rewrite filter_refine, calls_recs_schemas; [reflexivity|].
      intros [op x|a x c] E; [|discriminate]. cbn [is_op is_auto] in *. apply Byte.byte_dec_bl in E. subst op. reflexivity.
    + intros [op x|a x c] E; [|discriminate]. cbn [is_op is_auto] in *. apply Byte.byte_dec_bl in E. subst op. reflexivity.
  - exists (filter (is_op OpChannel) Y).
    rewrite <- (filter_refine (is_op OpChannel) is_auto (all_records unz (data_items o p l cs))).
    + rewrite HY, filter_app. cbn [filter is_op]. change (Byte.eqb OpMessage OpChannel) with false. cbv iota.
      rewrite filter_refine, calls_recs_channels; [reflexivity|].
      intros [op x|a x c] E; [|discriminate]. cbn [is_op is_auto] in *. apply Byte.byte_dec_bl in E. subst op. reflexivity.
    + intros [op x|a x c] E; [|discriminate]. cbn [is_op is_auto] in *. apply Byte.byte_dec_bl in E. subst op. reflexivity.
Qed.

(* without chunking nothing is dropped *)
Theorem py_nochunk_all_written cs b :
  po_chunking o = false ->
  py_write o (PcStart p l :: cs ++ [PcFinish]) = POk b -> data_calls cs = true ->
  Forall chunk_small (py_trace o (PcStart p l :: cs ++ [PcFinish])) ->
  filter (is_op OpSchema) (all_records unz (data_items o p l cs)) = map (fun s => CR OpSchema (enc_schema s)) (reg_schemas 0 cs)
  /\ filter (is_op OpChannel) (all_records unz (data_items o p l cs))
     = map (fun c => CR OpChannel (py_enc_channel c)) (reg_channels 0 cs).
Proof.
  intros Hc Hw Hd Hsm.
  pose proof (py_data_schemas o p l cs unz Hunz b Hw Hd Hsm) as H1.
  pose proof (py_data_channels o p l cs unz Hunz b Hw Hd Hsm) as H2.
  rewrite (dropped_nochunking o p l cs Hc) in H1, H2. cbn [map filter] in H1, H2. rewrite app_nil_r in H1, H2.
  split; assumption.
Qed.

End Written.

(* ---------- what Go's parsers make of a metadata record written by Python ---------- *)
(* Python writes the map in dict order; Go's getPrefixedMap replays the assignments (kv_build):
   the result is the Go map with the same bindings (for repeated keys the last one wins) *)
Theorem parse_py_metadata m :
  blen (md_name m) < two32 -> Forall wf_kv (md_meta m) -> blen (py_enc_metadata m) < two32 ->
  parse_metadata (py_enc_metadata m) = Ok {| md_name := md_name m; md_meta := kv_build (md_meta m) |}.
Proof.
  destruct m as [nm mt]. unfold py_enc_metadata, py_enc_map, parse_metadata. cbn [md_name md_meta]. cbv zeta.
  intros H1 H2 H3. set (body := enc_kvs_body mt) in *. set (buf := pstr nm ++ u32 (blen body) ++ body) in *.
  assert (HL : length buf = (4 + length nm + (4 + length body))%nat).
  { unfold buf. rewrite !app_length, pstr_length, u32_length. reflexivity. }
  unfold blen in H3. rewrite HL in H3.
  assert (H : skipn 0 buf = pstr nm ++ u32 (blen body) ++ body ++ []) by (unfold buf; rewrite app_nil_r; reflexivity).
  step get_pstr_step H.
  assert (Hb : blen body < two32) by (unfold blen; lia).
  unfold get_map. destruct (get_u32_step _ _ _ _ H Hb) as [E Sk]. rewrite E. cbn [bind].
  rewrite (get_map_loop_ok buf (0 + 4 + length nm + 4) (blen body) [] mt (S (length buf)) 0 []).
  - reflexivity.
  - exact H2.
  - cbn [skipn]. exact Sk.
  - reflexivity.
  - unfold blen. lia.
  - pose proof (enc_kvs_body_length_ge mt). fold body in H0. lia.
Qed.

(* with distinct keys that is the map sorted by key, as Go's writer would have written it *)
Corollary parse_py_metadata_distinct m :
  blen (md_name m) < two32 -> wf_kvs (md_meta m) -> blen (py_enc_metadata m) < two32 ->
  parse_metadata (py_enc_metadata m) = Ok {| md_name := md_name m; md_meta := kv_sort (rev (md_meta m)) |}.
Proof.
  intros H1 [ND F] H3. rewrite parse_py_metadata by assumption. rewrite kv_build_rev by exact ND. reflexivity.
Qed.

(* what struct.pack accepted *)
Definition call_static_ok (c : pcall) : Prop :=
  match c with
  | PcMessage ch lg d pb sq => wf_message (msg_of ch lg d pb sq)
  | PcMetadata n m => blen n < two32 /\ Forall wf_kv m
  | _ => True
  end.

Lemma forallb_kv_wf m : forallb (fun kv => (blen (fst kv) <? two32) && (blen (snd kv) <? two32)) m = true -> Forall wf_kv m.
Proof.
  induction m as [|kv m IH]; intro H; [constructor|]. cbn [forallb] in H. apply andb_true_iff in H. destruct H as [H1 H2].
  apply andb_true_iff in H1. destruct H1 as [Ha Hb]. constructor; [|apply IH, H2].
  split; apply ltb_true; assumption.
Qed.

Lemma pw_run_static o cs : forall w w', pw_run o w cs = POk w' -> Forall call_static_ok cs.
Proof.
  induction cs as [|c cs IH]; intros w w' H; [constructor|]. cbn [pw_run] in H.
  destruct (pcall_ok w c) eqn:Hok; [|discriminate]. constructor; [|eapply IH; exact H].
  destruct c; try exact I; cbn [pcall_ok call_static_ok] in *.
  - apply andb_true_iff in Hok. destruct Hok as [Hok H4]. apply andb_true_iff in Hok. destruct Hok as [Hok H3].
    apply andb_true_iff in Hok. destruct Hok as [H1 H2]. unfold wf_message. cbn [msg_of m_chan m_seq m_log m_pub].
    repeat split; apply ltb_true; assumption.
  - apply andb_true_iff in Hok. destruct Hok as [H1 H2]. unfold kvs_in_range in H2. apply andb_true_iff in H2.
    destruct H2 as [H2 _]. split; [apply ltb_true, H1 | apply forallb_kv_wf, H2].
Qed.

Section Decode.
Variable o : pwopts.
Variables p l : bytes.
Variable cs : list pcall.
Variable lo : lopts.
Variable ds : doracle.
Hypothesis Hemit : lo_emit_chunks lo = false.
Hypothesis Hcustom : mem_bytes [] (lo_custom lo) = false.
Variable b : bytes.
Hypothesis Hw : py_write o (PcStart p l :: cs ++ [PcFinish]) = POk b.
Hypothesis Hd : data_calls cs = true.
Hypothesis Hsmall : Forall chunk_small (py_trace o (PcStart p l :: cs ++ [PcFinish])).

Lemma session_static : Forall call_static_ok cs.
Proof.
  destruct (py_write_run _ _ _ Hw) as (w' & Hr & _). apply pw_run_static in Hr. inversion Hr as [|x y _ H]; subst.
  apply Forall_app in H. apply H.
Qed.

(* Go's ParseMessage on the message tokens returns the messages written *)
Theorem py_lex_messages_decoded :
  map decode_event (filter (ev_op OpMessage) (file_events lo ds (py_trace o (PcStart p l :: cs ++ [PcFinish]))))
  = map (fun m => Ok (KMessage m)) (msgs_of cs).
Proof.
  rewrite (py_lex_messages o p l cs lo ds Hemit Hcustom b Hw Hd Hsmall), map_map.
  pose proof session_static as Hs. clear - Hs. induction Hs as [|c cs Hc _ IH]; [reflexivity|].
  unfold msgs_of in *. cbn [flat_map]. rewrite !map_app, IH. f_equal.
  destruct c; try reflexivity. cbn [map call_static_ok] in *. unfold decode_event.
  change (Byte.eqb OpMessage OpHeader) with false. change (Byte.eqb OpMessage OpSchema) with false.
  change (Byte.eqb OpMessage OpChannel) with false. change (Byte.eqb OpMessage OpMessage) with true. cbv iota.
  rewrite (parse_enc_message _ Hc). reflexivity.
Qed.

(* Go's ParseMetadata on the metadata tokens *)
Theorem py_lex_metadata_decoded :
  Forall (fun m => blen (py_enc_metadata m) < two32) (mds_of cs) ->
  map decode_event (filter (ev_op OpMetadata) (file_events lo ds (py_trace o (PcStart p l :: cs ++ [PcFinish]))))
  = map (fun m => Ok (KMetadata {| md_name := md_name m; md_meta := kv_build (md_meta m) |})) (mds_of cs).
Proof.
  intro Hsz. rewrite (py_lex_metadata o p l cs lo ds Hemit Hcustom b Hw Hd Hsmall), map_map.
  pose proof session_static as Hs. clear - Hs Hsz. induction Hs as [|c cs Hc _ IH]; [reflexivity|].
  unfold mds_of in *. cbn [flat_map] in *. apply Forall_app in Hsz. destruct Hsz as [Hsz1 Hsz2].
  rewrite !map_app, (IH Hsz2). f_equal.
  destruct c; try reflexivity. cbn [map call_static_ok] in *. unfold decode_event.
  change (Byte.eqb OpMetadata OpHeader) with false. change (Byte.eqb OpMetadata OpSchema) with false.
  change (Byte.eqb OpMetadata OpChannel) with false. change (Byte.eqb OpMetadata OpMessage) with false.
  change (Byte.eqb OpMetadata OpMetadata) with true. cbv iota.
  inversion Hsz1 as [|x y Hx _]; subst. destruct Hc as [Hc1 Hc2].
  rewrite parse_py_metadata by assumption. reflexivity.
Qed.

End Decode.

(* ====================================================================== *)
(** * 3i. the chunk records *)
Section Chunks.
Variable o : pwopts.

(* every chunk item of the data section is chunk_of o cb for some chunk builder state: uncompressed,
   k_usize = length of the records, k_crc = crc32 of the records when po_crcs, else 0 *)
Definition chunk_form (it : item) : Prop :=
  match it with IChunk k => exists cb, k = chunk_of o cb | _ => True end.

Lemma fin_items_form cbo : Forall chunk_form (fin_items o cbo).
Proof.
  destruct cbo as [cb|]; [|constructor]. cbn [fin_items]. destruct (cb_num cb =? 0); [constructor|].
  constructor; [exists cb; reflexivity|]. unfold mi_items. destruct (po_idx_msg o); [|constructor].
  apply Forall_forall. intros it Hit. apply in_map_iff in Hit. destruct Hit as (x & <- & _). exact I.
Qed.

Lemma maybe_items_form cbo : Forall chunk_form (maybe_items o cbo).
Proof.
  destruct cbo as [cb|]; [|constructor]. unfold maybe_items.
  destruct (po_chunk_size o <? blen (cb_buf cb)); [apply fin_items_form | constructor].
Qed.

Lemma trace_from_form cs : forall w, data_calls cs = true -> Forall chunk_form (trace_from o w cs).
Proof.
  induction cs as [|c cs IH]; intros w Hd; [constructor|].
  cbn [data_calls forallb] in Hd. apply andb_true_iff in Hd. destruct Hd as [Hc Hd].
  apply andb_true_iff in Hc. destruct Hc as [Hs Hf]. apply negb_true_iff in Hs. apply negb_true_iff in Hf.
  cbn [trace_from]. apply Forall_app. split; [|apply IH, Hd].
  destruct c; try discriminate; cbn [pt_step]; unfold data_rec_items;
    try (destruct (pw_cb w); [apply maybe_items_form|]); repeat constructor.
Qed.

Theorem py_chunks_form p l cs : data_calls cs = true -> Forall chunk_form (data_items o p l cs).
Proof.
  intro Hd. unfold data_items. constructor; [exact I|]. apply Forall_app. split; [apply trace_from_form, Hd | apply fin_items_form].
Qed.

(* the chunk's content is a sequence of schema / channel / message records; its start and end times are
   the least and the greatest log time of its messages *)
Definition chunk_described (it : item) : Prop :=
  match it with
  | IChunk k =>
    exists inner ms, k_records k = frames inner /\ Forall auto_rec inner /\ inner_msgs inner ms
                     /\ ms <> [] /\ k_start k = log_min ms /\ k_end k = log_max ms
  | _ => True
  end.

Lemma cb_ok_described cb inner : cb_ok cb inner -> (cb_num cb =? 0) = false -> chunk_described (IChunk (chunk_of o cb)).
Proof.
  intros (Hb & _ & _ & Ha & Hn & ms & Hm & Hmin & Hmax) Hnz. cbn [chunk_described chunk_of k_records k_start k_end].
  exists inner, ms. repeat split; try assumption. intros ->. unfold inner_msgs in Hm. cbn [map] in Hm.
  rewrite Hm in Hn. cbn [length] in Hn. rewrite Hn in Hnz. discriminate.
Qed.

Lemma fin_items_described cb inner : cb_ok cb inner -> Forall chunk_described (fin_items o (Some cb)).
Proof.
  intro H. cbn [fin_items]. destruct (cb_num cb =? 0) eqn:Hn; [constructor|].
  constructor; [eapply cb_ok_described; eassumption|]. unfold mi_items. destruct (po_idx_msg o); [|constructor].
  apply Forall_forall. intros it Hit. apply in_map_iff in Hit. destruct Hit as (x & <- & _). exact I.
Qed.

Lemma maybe_items_described cb inner : cb_ok cb inner -> Forall chunk_described (maybe_items o (Some cb)).
Proof.
  intro H. unfold maybe_items. destruct (po_chunk_size o <? blen (cb_buf cb)); [eapply fin_items_described; exact H | constructor].
Qed.

Lemma trace_from_described cs : forall w inner w',
  SInv w inner -> data_calls cs = true -> pw_run o w cs = POk w' -> Forall chunk_described (trace_from o w cs).
Proof.
  induction cs as [|c cs IH]; intros w inner w' HI Hd Hr; [constructor|].
  cbn [data_calls forallb] in Hd. apply andb_true_iff in Hd. destruct Hd as [Hc Hd].
  apply andb_true_iff in Hc. destruct Hc as [Hs Hf]. apply negb_true_iff in Hs. apply negb_true_iff in Hf.
  cbn [pw_run] in Hr. destruct (pcall_ok w c) eqn:Hok; [|discriminate].
  destruct (step_built o w inner c HI Hok Hs Hf) as [_ HI'].
  cbn [trace_from]. apply Forall_app. split; [|eapply IH; eassumption].
  unfold SInv in HI.
  destruct c as [p l|n e d|t me sid m|ch lg d pb sq|cr lg n me d|n m|]; try discriminate; cbn [pt_step]; unfold data_rec_items.
  - destruct (pw_cb w) as [cb|]; [|repeat constructor].
    eapply maybe_items_described. apply cb_ok_add_record; [exact HI | left; reflexivity].
  - destruct (pw_cb w) as [cb|]; [|repeat constructor].
    eapply maybe_items_described. apply cb_ok_add_record; [exact HI | right; reflexivity].
  - destruct (pw_cb w) as [cb|]; [|repeat constructor].
    eapply maybe_items_described. apply cb_ok_add_message; [exact HI|].
    cbn [pcall_ok] in Hok. apply andb_true_iff in Hok. destruct Hok as [Hok _].
    apply andb_true_iff in Hok. destruct Hok as [Hok _]. apply andb_true_iff in Hok. destruct Hok as [_ Hok].
    cbn [msg_of m_log]. apply ltb_true, Hok.
  - repeat constructor.
  - repeat constructor.
Qed.

Theorem py_chunks_described p l cs b :
  py_write o (PcStart p l :: cs ++ [PcFinish]) = POk b -> data_calls cs = true ->
  Forall chunk_described (data_items o p l cs).
Proof.
  intros Hw Hd. pose proof (session_run o p l cs b Hw) as Hr. pose proof (session_SInv o p l cs b Hw Hd) as HI.
  unfold data_items. constructor; [exact I|]. apply Forall_app. split.
  - eapply trace_from_described; [apply started_SInv | exact Hd | exact Hr].
  - unfold SInv in HI. destruct (pw_cb (final_state o p l cs)) as [cb|]; [eapply fin_items_described; exact HI | constructor].
Qed.

End Chunks.

(* ====================================================================== *)
(** * 4. concrete sessions (non-vacuity of the theorems above) *)

(* chunked session: 3 schemas (the last one registered after the last message), 2 channels with
   metadata maps, 5 messages in 2 chunks (chunk size 100), an attachment and a metadata record
   written while a chunk is open *)
Definition pyex_o : pwopts :=
  {| po_chunk_size := 100; po_idx_att := true; po_idx_chunk := true; po_idx_msg := true; po_idx_md := true;
     po_repeat_channels := true; po_repeat_schemas := true; po_chunking := true; po_statistics := true;
     po_summary_offsets := true; po_crcs := true; po_data_crcs := true |}.
Definition pyex_p : bytes := [x70].
Definition pyex_l : bytes := [x6c; x69; x62].
Definition pyex_cs : list pcall :=
  [ PcSchema [x73; x31] [x65] [x01; x02; x03];
    PcSchema [x73; x32] [x65] [];
    PcChannel [x2f; x61] [x6d] 1 [([x6b; x32], [x76]); ([x6b; x31], [x77])];
    PcChannel [x2f; x62] [x6d] 2 [([x7a], [x31])];
    PcMessage 1 10 [x01; x02; x03; x04; x05; x06; x07; x08] 11 0;
    PcMessage 2 12 [x09] 13 1;
    PcAttachment 5 6 [x61; x74] [x74; x78] [x41; x42; x43];
    PcMessage 1 14 [x0a; x0b] 15 2;
    PcMetadata [x6d; x64] [([x62], [x32]); ([x61], [x31])];
    PcMessage 2 9 [x0c] 16 3;
    PcMessage 1 20 [] 21 4;
    PcSchema [x73; x33] [x65] [] ].
Definition pyex_calls : list pcall := PcStart pyex_p pyex_l :: pyex_cs ++ [PcFinish].
Definition pyex_bytes : bytes :=
  match py_write pyex_o pyex_calls with POk b => b | _ => [] end.

Example pyex_written :
  py_write pyex_o pyex_calls = POk pyex_bytes /\ blen pyex_bytes = 1371
  /\ data_calls pyex_cs = true /\ no_start pyex_cs = true.
Proof. vm_compute. repeat split. Qed.

(* Theorem 1 on the example, checked independently by computation *)
Example pyex_is_trace : pyex_bytes = render (py_trace pyex_o pyex_calls).
Proof. vm_compute. reflexivity. Qed.

(* kinds of items of the trace: magic, header, chunk, 1 message index, attachment, metadata, chunk,
   2 message indexes, DataEnd, summary (3 schemas, 2 channels, statistics, 2 chunk indexes,
   attachment index, metadata index, 6 summary offsets), footer, magic *)
Definition item_kind (it : item) : N :=
  match it with
  | IMagic => 0 | IRec op _ => Byte.to_N op | IChunk _ => 6 | IAttach _ _ _ => 9 | IFooter _ _ _ => 2
  end.
Example pyex_trace_kinds :
  map item_kind (py_trace pyex_o pyex_calls)
  = [0; 1; 6; 7; 9; 12; 6; 7; 7; 15; 3; 3; 3; 4; 4; 11; 8; 8; 10; 13; 14; 14; 14; 14; 14; 14; 2; 0].
Proof. vm_compute. reflexivity. Qed.

Definition pyex_lo (validate : bool) (cb : cbmode) : lopts := ex_lopts validate false cb.

Example pyex_lo_ok validate cb :
  lo_skip_magic (pyex_lo validate cb) = false /\ lo_emit_chunks (pyex_lo validate cb) = false
  /\ mem_bytes [] (lo_custom (pyex_lo validate cb)) = false.
Proof. repeat split. Qed.

(* the size hypotheses, from the file size *)
Example pyex_sizes validate cb : Forall (item_size_ok (pyex_lo validate cb)) (py_trace pyex_o pyex_calls).
Proof.
  apply (py_sizes_from_total pyex_o (pyex_lo validate cb) pyex_p pyex_l pyex_cs pyex_bytes).
  - exact (proj1 pyex_written).
  - exact (proj1 (proj2 (proj2 pyex_written))).
  - rewrite (proj1 (proj2 pyex_written)). reflexivity.
  - left. reflexivity.
  - left. reflexivity.
Qed.

Lemma size_ok_small lo it : item_size_ok lo it -> chunk_small it.
Proof.
  destruct it as [|op body|k|a d c|ss sos c]; unfold chunk_small; try (intros _; exact I).
  cbn [item_size_ok]. intros (_ & H & _). apply two63_lt_two64, H.
Qed.

Example pyex_small : Forall chunk_small (py_trace pyex_o pyex_calls).
Proof. eapply Forall_impl; [apply size_ok_small | apply (pyex_sizes true CbFull)]. Qed.

(* Theorem 2 on the example, for CRC validation on or off, attachment callback absent or reading everything *)
Example pyex_wf validate cb :
  cb = CbNone \/ cb = CbFull -> wf_file (pyex_lo validate cb) ds_id (py_trace pyex_o pyex_calls).
Proof.
  intro Hcb. apply (py_trace_wf pyex_o (pyex_lo validate cb) ds_id pyex_p pyex_l pyex_cs pyex_bytes).
  - reflexivity.
  - reflexivity.
  - reflexivity.
  - exact Hcb.
  - exact (proj1 pyex_written).
  - exact (proj1 (proj2 (proj2 pyex_written))).
  - apply pyex_sizes.
Qed.

Example pyex_lex validate cb sk :
  cb = CbNone \/ cb = CbFull ->
  exists st, lex_all (pyex_lo validate cb) ds_id 40 (src_of pyex_bytes sk)
             = Ok (file_events (pyex_lo validate cb) ds_id (py_trace pyex_o pyex_calls), EEOF, st).
Proof.
  intro Hcb. apply (py_write_lex pyex_o (pyex_lo validate cb) ds_id pyex_p pyex_l pyex_cs pyex_bytes sk).
  - reflexivity.
  - reflexivity.
  - reflexivity.
  - exact Hcb.
  - exact (proj1 pyex_written).
  - exact (proj1 (proj2 (proj2 pyex_written))).
  - apply pyex_sizes.
  - destruct Hcb as [-> | ->]; destruct validate; vm_compute; lia.
Qed.

(* the lexer model run on the written bytes by computation: 33 events, then io.EOF; the message
   tokens are the five messages written, in order *)
Example pyex_lex_computed :
  exists evs st,
    lex_all (pyex_lo true CbFull) ds_id 40 (src_of pyex_bytes false) = Ok (evs, EEOF, st)
    /\ length evs = 33%nat
    /\ filter (ev_op OpMessage) evs = map (fun m => EvToken OpMessage (enc_message m)) (msgs_of pyex_cs)
    /\ map decode_event (filter (ev_op OpMessage) evs) = map (fun m => Ok (KMessage m)) (msgs_of pyex_cs)
    /\ msgs_of pyex_cs = [msg_of 1 10 [x01; x02; x03; x04; x05; x06; x07; x08] 11 0; msg_of 2 12 [x09] 13 1;
                          msg_of 1 14 [x0a; x0b] 15 2; msg_of 2 9 [x0c] 16 3; msg_of 1 20 [] 21 4].
Proof. eexists. eexists. vm_compute. repeat split. Qed.

(* content *)
Example pyex_dropped :
  dropped pyex_o pyex_p pyex_l pyex_cs = [(OpSchema, enc_schema {| s_id := 3; s_name := [x73; x33]; s_encoding := [x65]; s_data := [] |})]
  /\ reg_schemas 0 pyex_cs
     = [ {| s_id := 1; s_name := [x73; x31]; s_encoding := [x65]; s_data := [x01; x02; x03] |};
         {| s_id := 2; s_name := [x73; x32]; s_encoding := [x65]; s_data := [] |};
         {| s_id := 3; s_name := [x73; x33]; s_encoding := [x65]; s_data := [] |} ]
  /\ filter (is_op OpSchema) (all_records (fun _ s => s) (data_items pyex_o pyex_p pyex_l pyex_cs))
     = map (fun s => CR OpSchema (enc_schema s)) (firstn 2 (reg_schemas 0 pyex_cs))
  /\ pw_schemas (closed_state pyex_o pyex_p pyex_l pyex_cs) = reg_schemas 0 pyex_cs.
Proof. vm_compute. repeat split. Qed.

Example pyex_statistics :
  pw_stats (closed_state pyex_o pyex_p pyex_l pyex_cs)
  = {| st_messages := 5; st_schemas := 3; st_channels := 2; st_attachments := 1; st_metadata := 1; st_chunks := 2;
       st_start := 9; st_end := 20; st_counts := [(1, 3); (2, 2)] |}.
Proof. vm_compute. reflexivity. Qed.

Example pyex_chunk_indexes :
  map (fun ci => (ci_offset ci, ci_length ci, ci_start ci, ci_end ci, ci_mioffsets ci, ci_milength ci))
      (pw_chunks (closed_state pyex_o pyex_p pyex_l pyex_cs))
  = [(29, 231, 10, 10, [(1, 260)], 31); (382, 177, 9, 20, [(2, 559); (1, 606)], 94)]
  /\ chunk_offsets 0 (before_dataend pyex_o pyex_p pyex_l pyex_cs) = [29; 382].
Proof. vm_compute. split; reflexivity. Qed.

Example pyex_dataend_crc :
  po_data_crcs pyex_o = true /\ (po_chunking pyex_o = true \/ ends_with_reg pyex_cs = false)
  /\ pw_crc (closed_state pyex_o pyex_p pyex_l pyex_cs) = crc32 (render (before_dataend pyex_o pyex_p pyex_l pyex_cs)).
Proof. split; [reflexivity|]. split; [left; reflexivity|]. vm_compute. reflexivity. Qed.

(* the metadata record comes back from Go's parser with the map sorted by key *)
Example pyex_metadata_parsed :
  mds_of pyex_cs = [{| md_name := [x6d; x64]; md_meta := [([x62], [x32]); ([x61], [x31])] |}]
  /\ Forall (fun m => blen (py_enc_metadata m) < two32) (mds_of pyex_cs)
  /\ parse_metadata (py_enc_metadata {| md_name := [x6d; x64]; md_meta := [([x62], [x32]); ([x61], [x31])] |})
     = Ok {| md_name := [x6d; x64]; md_meta := [([x61], [x31]); ([x62], [x32])] |}
  /\ kv_build [([x62], [x32]); ([x61], [x31])] = [([x61], [x31]); ([x62], [x32])].
Proof. split; [reflexivity|]. split; [repeat constructor|]. split; vm_compute; reflexivity. Qed.

Example pyex_before_message :
  pyex_cs = firstn 4 pyex_cs ++ PcMessage 1 10 [x01; x02; x03; x04; x05; x06; x07; x08] 11 0 :: skipn 5 pyex_cs.
Proof. reflexivity. Qed.

(* ---------- a schema registered after the last message may be written ---------- *)
(* "exactly the records registered before the last message are written" is false: adding s2 pushes
   the open chunk (which holds a message) over the chunk size, the chunk is closed with s2 in it *)
Definition pyex_late_cs : list pcall :=
  [ PcSchema [x73; x31] [x65] [x01; x02; x03];
    PcChannel [x2f; x61] [x6d] 1 [];
    PcMessage 1 10 [x01] 11 0;
    PcSchema [x73; x32] [x65] [x01; x02; x03; x04; x05; x06; x07; x08; x09; x0a; x01; x02; x03; x04; x05; x06; x07; x08; x09; x0a] ].

Example pyex_late_schema_written :
  (exists b, py_write pyex_o (PcStart [] [] :: pyex_late_cs ++ [PcFinish]) = POk b)
  /\ dropped pyex_o [] [] pyex_late_cs = []
  /\ filter (is_op OpSchema) (all_records (fun _ s => s) (data_items pyex_o [] [] pyex_late_cs))
     = map (fun s => CR OpSchema (enc_schema s)) (reg_schemas 0 pyex_late_cs)
  /\ length (reg_schemas 0 pyex_late_cs) = 2%nat.
Proof. split; [eexists; vm_compute; reflexivity|]. vm_compute. repeat split. Qed.

(* ---------- the DataEnd crc without chunking ---------- *)
Definition pyex_nochunk_o : pwopts :=
  {| po_chunk_size := 100; po_idx_att := true; po_idx_chunk := true; po_idx_msg := true; po_idx_md := true;
     po_repeat_channels := true; po_repeat_schemas := true; po_chunking := false; po_statistics := true;
     po_summary_offsets := true; po_crcs := true; po_data_crcs := true |}.
Definition pyex_quirk_cs : list pcall := [PcSchema [x73] [x65] [x01]].

(* the statement "the DataEnd crc is the crc of the bytes before the DataEnd record" is false of the
   model (and of writer.py: the same two numbers come out of the Python package): a schema registered
   just before finish() is written with the DataEnd record but is not covered by its crc *)
Example py_dataend_crc_refuted :
  (exists b, py_write pyex_nochunk_o (PcStart [] [] :: pyex_quirk_cs ++ [PcFinish]) = POk b)
  /\ data_calls pyex_quirk_cs = true /\ po_data_crcs pyex_nochunk_o = true
  /\ In (IRec OpDataEnd (enc_dataend {| de_crc := 3959079795 |}))
        (py_trace pyex_nochunk_o (PcStart [] [] :: pyex_quirk_cs ++ [PcFinish]))
  /\ pw_crc (closed_state pyex_nochunk_o [] [] pyex_quirk_cs) = 3959079795
  /\ crc32 (render (before_dataend pyex_nochunk_o [] [] pyex_quirk_cs)) = 2949608179
  /\ ends_with_reg pyex_quirk_cs = true.
Proof.
  split; [eexists; vm_compute; reflexivity|]. split; [reflexivity|]. split; [reflexivity|].
  split; [vm_compute; tauto|]. vm_compute. repeat split.
Qed.

(* a session without chunking for which the hypothesis of py_dataend_crc_ok / py_nochunk_all_written holds *)
Definition pyex_nochunk_cs : list pcall :=
  [ PcSchema [x73] [x65] [x01]; PcChannel [x2f; x61] [x6d] 1 []; PcMessage 1 10 [x01] 11 0 ].
Example pyex_nochunk :
  (exists b, py_write pyex_nochunk_o (PcStart [] [] :: pyex_nochunk_cs ++ [PcFinish]) = POk b)
  /\ data_calls pyex_nochunk_cs = true /\ ends_with_reg pyex_nochunk_cs = false
  /\ Forall chunk_small (py_trace pyex_nochunk_o (PcStart [] [] :: pyex_nochunk_cs ++ [PcFinish]))
  /\ pw_crc (closed_state pyex_nochunk_o [] [] pyex_nochunk_cs)
     = crc32 (render (before_dataend pyex_nochunk_o [] [] pyex_nochunk_cs)).
Proof.
  split; [eexists; vm_compute; reflexivity|]. split; [reflexivity|]. split; [reflexivity|].
  split; [|vm_compute; reflexivity].
  apply Forall_forall. intros it Hit. vm_compute in Hit.
  repeat (destruct Hit as [<- | Hit]; [exact I|]). destruct Hit.
Qed.

(* hypotheses of parse_py_metadata / parse_py_metadata_distinct on the metadata record of the example *)
Example pyex_metadata_wf :
  let m := {| md_name := [x6d; x64]; md_meta := [([x62], [x32]); ([x61], [x31])] |} in
  blen (md_name m) < two32 /\ Forall wf_kv (md_meta m) /\ wf_kvs (md_meta m) /\ blen (py_enc_metadata m) < two32
  /\ kv_sort (rev (md_meta m)) = [([x61], [x31]); ([x62], [x32])].
Proof.
  cbv zeta. cbn [md_name md_meta]. split; [reflexivity|].
  assert (F : Forall wf_kv [([x62], [x32]); ([x61], [x31])]) by (repeat constructor).
  split; [exact F|]. split; [|split; [reflexivity | vm_compute; reflexivity]].
  split; [|exact F]. apply keys_nodupb_iff. reflexivity.
Qed.

(* the same session written without CRCs (chunk crc 0, footer crc 0): the validating lexer accepts it *)
Definition pyex_nocrc_o : pwopts :=
  {| po_chunk_size := 100; po_idx_att := true; po_idx_chunk := true; po_idx_msg := true; po_idx_md := true;
     po_repeat_channels := true; po_repeat_schemas := true; po_chunking := true; po_statistics := true;
     po_summary_offsets := true; po_crcs := false; po_data_crcs := false |}.
Definition pyex_nocrc_bytes : bytes :=
  match py_write pyex_nocrc_o pyex_calls with POk b => b | _ => [] end.
Example pyex_nocrc_lexed :
  exists evs st,
    py_write pyex_nocrc_o pyex_calls = POk pyex_nocrc_bytes
    /\ pyex_nocrc_bytes = render (py_trace pyex_nocrc_o pyex_calls)
    /\ lex_all (pyex_lo true CbFull) ds_id 40 (src_of pyex_nocrc_bytes false) = Ok (evs, EEOF, st)
    /\ evs = file_events (pyex_lo true CbFull) ds_id (py_trace pyex_nocrc_o pyex_calls)
    /\ filter (ev_op OpMessage) evs = map (fun m => EvToken OpMessage (enc_message m)) (msgs_of pyex_cs).
Proof. eexists. eexists. vm_compute. repeat split. Qed.

(* ====================================================================== *)
(** * 5. combined statements, as restated in properties/C16_pywrite.v *)

Lemma C16_pywrite_trace_sections_thm : forall (o : pwopts) (p l : bytes) (cs : list pcall),
  py_trace o (PcStart p l :: cs ++ [PcFinish])
  = [IMagic] ++ data_items o p l cs ++ tail_items o p l cs ++ [IMagic]
  /\ data_items o p l cs
     = header_item p l :: trace_from o (started o p l) cs ++ fin_items o (pw_cb (final_state o p l cs))
  /\ tail_items o p l cs
     = (let w1 := closed_state o p l cs in
        [dataend_item w1] ++ (sum_items o w1 ++ so_items o (grp_offs (summary_start_of w1) (sum_groups o w1)))
        ++ [IFooter (footer_ss o w1) (footer_sos o w1) (footer_crc o w1)]).
Proof.
  intros. split; [apply py_trace_sections | split; reflexivity].
Qed.

Lemma C16_pywrite_data_content_thm : forall (o : pwopts) (p l : bytes) (cs : list pcall) (unz : bytes -> bytes -> bytes),
  (forall stored, unz [] stored = stored) ->
  forall b, py_write o (PcStart p l :: cs ++ [PcFinish]) = POk b -> data_calls cs = true ->
  Forall chunk_small (py_trace o (PcStart p l :: cs ++ [PcFinish])) ->
  let recs := all_records unz (data_items o p l cs) in
  filter (is_op OpMessage) recs = map (fun m => CR OpMessage (enc_message m)) (msgs_of cs)
  /\ filter ComposeFacts.is_att recs
     = map (fun x => CA (fst x) (snd x) (crc32 (enc_attachment_fields (fst x) ++ snd x))) (atts_of cs)
  /\ filter (is_op OpMetadata) recs = map (fun m => CR OpMetadata (py_enc_metadata m)) (mds_of cs)
  (* (d) schemas / channels: all registered ones except the dropped *)
  /\ filter (is_op OpSchema) recs ++ filter (is_op OpSchema) (map cr_of (dropped o p l cs))
     = map (fun s => CR OpSchema (enc_schema s)) (reg_schemas 0 cs)
  /\ filter (is_op OpChannel) recs ++ filter (is_op OpChannel) (map cr_of (dropped o p l cs))
     = map (fun c => CR OpChannel (py_enc_channel c)) (reg_channels 0 cs).
Proof.
  intros o p l cs unz Hunz b Hw Hd Hs. cbv zeta.
  split; [exact (py_data_messages o p l cs unz Hunz b Hw Hd Hs)|].
  split; [exact (py_data_attachments o p l cs unz Hunz b Hw Hd Hs)|].
  split; [exact (py_data_metadata o p l cs unz Hunz b Hw Hd Hs)|].
  split; [exact (py_data_schemas o p l cs unz Hunz b Hw Hd Hs) | exact (py_data_channels o p l cs unz Hunz b Hw Hd Hs)].
Qed.

Lemma C16_pywrite_lex_content_thm : forall (o : pwopts) (p l : bytes) (cs : list pcall) (lo : lopts) (ds : doracle),
  lo_emit_chunks lo = false -> mem_bytes [] (lo_custom lo) = false ->
  forall b, py_write o (PcStart p l :: cs ++ [PcFinish]) = POk b -> data_calls cs = true ->
  Forall chunk_small (py_trace o (PcStart p l :: cs ++ [PcFinish])) ->
  let evs := file_events lo ds (py_trace o (PcStart p l :: cs ++ [PcFinish])) in
  filter (ev_op OpMessage) evs = map (fun m => EvToken OpMessage (enc_message m)) (msgs_of cs)
  /\ map decode_event (filter (ev_op OpMessage) evs) = map (fun m => Ok (KMessage m)) (msgs_of cs)
  /\ filter (ev_op OpMetadata) evs = map (fun m => EvToken OpMetadata (py_enc_metadata m)) (mds_of cs)
  /\ (Forall (fun m => blen (py_enc_metadata m) < two32) (mds_of cs) ->
      map decode_event (filter (ev_op OpMetadata) evs)
      = map (fun m => Ok (KMetadata {| md_name := md_name m; md_meta := kv_build (md_meta m) |})) (mds_of cs))
  /\ (lo_cb lo = CbFull ->
      filter ev_att evs
      = map (fun x => EvAttachment (attach_obs lo (fst x) (snd x) (crc32 (enc_attachment_fields (fst x) ++ snd x))))
            (atts_of cs)).
Proof.
  intros o p l cs lo ds He Hc b Hw Hd Hs. cbv zeta.
  split; [exact (py_lex_messages o p l cs lo ds He Hc b Hw Hd Hs)|].
  split; [exact (py_lex_messages_decoded o p l cs lo ds He Hc b Hw Hd Hs)|].
  split; [exact (py_lex_metadata o p l cs lo ds He Hc b Hw Hd Hs)|].
  split; [exact (py_lex_metadata_decoded o p l cs lo ds He Hc b Hw Hd Hs) | exact (py_lex_attachments o p l cs lo ds He Hc b Hw Hd Hs)].
Qed.

Lemma C16_pywrite_log_min_max_thm : forall ms : list message,
  (ms <> [] -> In (log_min ms) (map m_log ms) /\ Forall (fun m => log_min ms <= m_log m) ms)
  /\ Forall (fun m => m_log m <= log_max ms) ms /\ (ms <> [] -> In (log_max ms) (map m_log ms))
  /\ log_min [] = 0 /\ log_max [] = 0.
Proof.
  intro ms. split; [apply log_min_spec|]. destruct (log_max_spec ms) as [H1 H2]. repeat split; assumption.
Qed.

Lemma C16_pywrite_chunk_index_fields_thm : forall (o : pwopts) (off : N) (cb : pcb),
  let ci := ci_of o off cb in
  let k := chunk_of o cb in
  ci_offset ci = off /\ ci_length ci = blen (render_item (IChunk k))
  /\ ci_start ci = k_start k /\ ci_end ci = k_end k /\ ci_comp ci = k_comp k
  /\ ci_csize ci = blen (k_records k) /\ ci_usize ci = k_usize k
  /\ ci_milength ci = blen (render (mi_items o cb))
  /\ (forall ch pos, pn_get ch (ci_mioffsets ci) = Some pos ->
        po_idx_msg o = true /\
        exists l1 es l2, cb_indices cb = l1 ++ (ch, es) :: l2
          /\ pos = off + blen (render_item (IChunk k)) + blen (render (map mi_item l1))
          /\ ~ In ch (map fst l2))
  /\ (po_idx_msg o = true -> forall ch, In ch (map fst (cb_indices cb)) -> exists pos, pn_get ch (ci_mioffsets ci) = Some pos).
Proof.
  intros o off cb. cbv zeta. repeat split.
  - cbn [ci_of ci_mioffsets] in H. destruct (po_idx_msg o); [reflexivity | discriminate].
  - cbn [ci_of ci_mioffsets] in H. destruct (po_idx_msg o); [|discriminate].
    apply mi_offs_spec in H. destruct H as [[H _] | H]; [discriminate | exact H].
  - intros Hm ch Hin. cbn [ci_of ci_mioffsets]. rewrite Hm. apply mi_offs_complete, Hin.
Qed.

Lemma C16_pywrite_dataend_crc_thm : forall (o : pwopts) (p l : bytes) (cs : list pcall),
  data_calls cs = true ->
  (* the value written *)
  dataend_item (closed_state o p l cs) = IRec OpDataEnd (enc_dataend {| de_crc := pw_crc (closed_state o p l cs) |})
  /\ (po_data_crcs o = false -> pw_crc (closed_state o p l cs) = 0)
  /\ (po_data_crcs o = true ->
      render (before_dataend o p l cs) = pw_out (closed_state o p l cs) ++ pw_rb (closed_state o p l cs)
      /\ pw_crc (closed_state o p l cs) = crc32 (pw_out (closed_state o p l cs)))
  (* correct with chunking, or when the last data call is not a registration *)
  /\ (po_data_crcs o = true -> po_chunking o = true \/ ends_with_reg cs = false ->
      pw_crc (closed_state o p l cs) = crc32 (render (before_dataend o p l cs))).
Proof.
  intros o p l cs Hd. split; [reflexivity|]. split.
  - intro H. rewrite (py_dataend_crc_value o p l cs Hd), H. reflexivity.
  - split; [apply (py_dataend_crc_general o p l cs Hd) | apply (py_dataend_crc_ok o p l cs Hd)].
Qed.

Lemma C16_pywrite_chunks_thm : forall (o : pwopts) (p l : bytes) (cs : list pcall) (b : bytes),
  py_write o (PcStart p l :: cs ++ [PcFinish]) = POk b -> data_calls cs = true ->
  Forall (fun it => match it with
                    | IChunk k =>
                      (exists cb, k = {| k_start := cb_start cb; k_end := cb_end cb; k_usize := blen (cb_buf cb);
                                         k_crc := if po_crcs o then crc32 (cb_buf cb) else 0; k_comp := [];
                                         k_records := cb_buf cb |})
                      /\ exists inner ms, k_records k = frames inner /\ Forall auto_rec inner
                                          /\ filter is_msg_rec inner = map (fun m => (OpMessage, enc_message m)) ms
                                          /\ ms <> [] /\ k_start k = log_min ms /\ k_end k = log_max ms
                    | _ => True
                    end) (data_items o p l cs).
Proof.
  intros o p l cs b Hw Hd. pose proof (py_chunks_form o p l cs Hd) as H1.
  pose proof (py_chunks_described o p l cs b Hw Hd) as H2. revert H1 H2.
  generalize (data_items o p l cs). intros its H1. induction H1 as [|it its Hit _ IH]; intro H2; [constructor|].
  inversion H2 as [|x y Hx Hy]; subst. constructor; [|apply IH, Hy].
  destruct it; try exact I. split; [exact Hit | exact Hx].
Qed.

Lemma C16_pywrite_example_hyps_thm : forall validate cb,
  cb = CbNone \/ cb = CbFull ->
  let lo := pyex_lo validate cb in
  lo_skip_magic lo = false /\ lo_emit_chunks lo = false /\ mem_bytes [] (lo_custom lo) = false
  /\ (lo_cb lo = CbNone \/ lo_cb lo = CbFull)
  /\ Forall (item_size_ok lo) (py_trace pyex_o pyex_calls)
  /\ Forall chunk_small (py_trace pyex_o pyex_calls)
  /\ wf_file lo ds_id (py_trace pyex_o pyex_calls)
  /\ (file_steps lo ds_id (py_trace pyex_o pyex_calls) + 1 <= 40)%nat.
Proof.
  intros validate cb Hcb. cbv zeta. repeat split.
  - exact Hcb.
  - apply pyex_sizes.
  - apply pyex_small.
  - apply pyex_wf, Hcb.
  - destruct Hcb as [-> | ->]; destruct validate; vm_compute; repeat constructor.
Qed.

