(* RecordsFacts.v - decode (encode x ++ pad) = x for every record kind of Records.v,
   framing lemmas, and the facts about sorted association lists (kv_sort / kv_set / nn_set)
   that the reader proofs need. *)
From Coq Require Import List NArith ZArith Lia ZifyN ZifyNat ZifyBool Bool Permutation Sorted.
From Coq.Strings Require Import Byte.
From Mcap Require Import Bytes BytesFacts GoSem Records.
Import ListNotations.
Open Scope N_scope.
Open Scope go_scope.
Ltac Zify.zify_post_hook ::= Z.div_mod_to_equations.

(* ====================================================================== *)
(** * 1. skipn / firstn plumbing *)

Lemma skipn_add {A} (a b : nat) (l : list A) : skipn (a + b) l = skipn b (skipn a l).
Proof.
  revert l. induction a as [|a IH]; intro l; [reflexivity|].
  destruct l as [|x l]; cbn [Nat.add skipn]; [now rewrite skipn_nil | apply IH].
Qed.

Lemma skipn_length_sub {A} off (buf l : list A) :
  skipn off buf = l -> (length buf - off = length l)%nat.
Proof. intros <-. symmetry. apply skipn_length. Qed.

Lemma sub_app_mid (pre x post : bytes) : sub (pre ++ x ++ post) (length pre) (length x) = x.
Proof. unfold sub. rewrite skipn_app_exact. apply firstn_app_exact. Qed.

Lemma skipn_app_mid {A} (pre x post : list A) :
  skipn (length pre + length x) (pre ++ x ++ post) = post.
Proof. rewrite skipn_add, skipn_app_exact. apply skipn_app_exact. Qed.

Lemma skipn_pre {A} (pre rest : list A) : skipn (length pre) (pre ++ rest) = rest.
Proof. apply skipn_app_exact. Qed.

(* ====================================================================== *)
(** * 2. primitive readers, "cursor" form

   Every lemma has the shape
     skipn off buf = <encoding> ++ post  ->  <bounds>  ->
       reader buf off = Ok (value, off')  /\  skipn off' buf = post
   so that a parser can be run field by field without re-associating the buffer. *)

Lemma get_u_step n buf off x post :
  skipn off buf = le n x ++ post -> (0 < n)%nat ->
  get_u n buf off = Ok (x mod 2 ^ (8 * N.of_nat n), (off + n)%nat)
  /\ skipn (off + n) buf = post.
Proof.
  intros H Hn.
  pose proof (skipn_length_sub _ _ _ H) as L. rewrite app_length, le_length in L.
  split.
  - unfold get_u, sub. rewrite H.
    destruct (Nat.ltb_spec (length buf) (off + n)); [lia|].
    rewrite firstn_app_exact' by (symmetry; apply le_length).
    rewrite unle_le. reflexivity.
  - rewrite skipn_add, H. apply skipn_app_exact'. symmetry; apply le_length.
Qed.

Lemma get_u16_step buf off x post :
  skipn off buf = u16 x ++ post -> x < two16 ->
  get_u16 buf off = Ok (x, (off + 2)%nat) /\ skipn (off + 2) buf = post.
Proof.
  intros H Hx. destruct (get_u_step 2 buf off x post H) as [E S]; [lia|].
  split; [|exact S]. unfold get_u16. rewrite E.
  change (2 ^ (8 * N.of_nat 2)) with two16. rewrite N.mod_small by exact Hx. reflexivity.
Qed.

Lemma get_u32_step buf off x post :
  skipn off buf = u32 x ++ post -> x < two32 ->
  get_u32 buf off = Ok (x, (off + 4)%nat) /\ skipn (off + 4) buf = post.
Proof.
  intros H Hx. destruct (get_u_step 4 buf off x post H) as [E S]; [lia|].
  split; [|exact S]. unfold get_u32. rewrite E.
  change (2 ^ (8 * N.of_nat 4)) with two32. rewrite N.mod_small by exact Hx. reflexivity.
Qed.

Lemma get_u64_step buf off x post :
  skipn off buf = u64 x ++ post -> x < two64 ->
  get_u64 buf off = Ok (x, (off + 8)%nat) /\ skipn (off + 8) buf = post.
Proof.
  intros H Hx. destruct (get_u_step 8 buf off x post H) as [E S]; [lia|].
  split; [|exact S]. unfold get_u64. rewrite E.
  change (2 ^ (8 * N.of_nat 8)) with two64. rewrite N.mod_small by exact Hx. reflexivity.
Qed.

(* the "pre ++ enc ++ post" presentation asked for by the callers *)
Lemma get_u_app n pre x post :
  (0 < n)%nat ->
  get_u n (pre ++ le n x ++ post) (length pre)
  = Ok (x mod 2 ^ (8 * N.of_nat n), (length pre + n)%nat).
Proof. intro Hn. apply (get_u_step n _ _ x post); [apply skipn_pre | exact Hn]. Qed.

Lemma get_pstr_step buf off s post :
  skipn off buf = pstr s ++ post -> blen s < two32 ->
  get_pstr buf off = Ok (s, (off + 4 + length s)%nat)
  /\ skipn (off + 4 + length s) buf = post.
Proof.
  intros H Hs.
  pose proof (skipn_length_sub _ _ _ H) as L. rewrite app_length, pstr_length in L.
  unfold pstr in H. rewrite <- app_assoc in H.
  assert (H4 : skipn (off + 4) buf = s ++ post).
  { rewrite skipn_add, H. apply skipn_app_exact'. symmetry; apply u32_length. }
  split.
  - unfold get_pstr, sub. cbv zeta.
    destruct (Nat.ltb_spec (length buf) off); [lia|].
    destruct (Nat.ltb_spec (length buf - off) 4); [lia|].
    rewrite H, firstn_app_exact' by (symmetry; apply u32_length).
    rewrite unle_u32 by assumption. unfold blen.
    destruct (N.ltb_spec (N.of_nat (length buf - (off + 4))) (N.of_nat (length s))); [lia|].
    rewrite Nat2N.id. rewrite H4, firstn_app_exact. reflexivity.
  - rewrite skipn_add, H4. apply skipn_app_exact.
Qed.

Lemma get_pstr_app pre s post :
  blen s < two32 ->
  get_pstr (pre ++ pstr s ++ post) (length pre) = Ok (s, (length pre + 4 + length s)%nat).
Proof. intro Hs. apply (get_pstr_step _ _ s post); [apply skipn_pre | exact Hs]. Qed.

(* ====================================================================== *)
(** * 3. sorted association lists *)

(** ** 3a. string-keyed maps: kv_sort, kv_set *)

Definition kle (a b : bytes * bytes) : Prop := bytes_ltb (fst b) (fst a) = false.
Definition klt (a b : bytes * bytes) : Prop := bytes_ltb (fst a) (fst b) = true.

Lemma klt_trans a b c : klt a b -> klt b c -> klt a c.
Proof. unfold klt. apply bytes_ltb_trans. Qed.

Lemma kv_insert_perm kv l : Permutation (kv :: l) (kv_insert kv l).
Proof.
  induction l as [|x r IH]; cbn [kv_insert]; [reflexivity|].
  destruct (bytes_ltb (fst x) (fst kv)); [|reflexivity].
  rewrite perm_swap. apply perm_skip, IH.
Qed.

Theorem kv_sort_perm l : Permutation l (kv_sort l).
Proof.
  induction l as [|x r IH]; cbn [kv_sort fold_right]; [reflexivity|].
  rewrite <- kv_insert_perm. apply perm_skip, IH.
Qed.

Lemma kv_sort_length l : length (kv_sort l) = length l.
Proof. symmetry. apply Permutation_length, kv_sort_perm. Qed.

Lemma kv_insert_hdrel x kv r : HdRel kle x r -> kle x kv -> HdRel kle x (kv_insert kv r).
Proof.
  intros H Hk. destruct r as [|y r]; cbn [kv_insert]; [constructor; exact Hk|].
  destruct (bytes_ltb (fst y) (fst kv)); constructor; [inversion H; assumption | exact Hk].
Qed.

Lemma kv_insert_sorted kv l : Sorted kle l -> Sorted kle (kv_insert kv l).
Proof.
  induction 1 as [|x r HS IH HR]; cbn [kv_insert]; [repeat constructor|].
  destruct (bytes_ltb (fst x) (fst kv)) eqn:E.
  - constructor; [exact IH|]. apply kv_insert_hdrel; [exact HR|].
    unfold kle. apply bytes_ltb_asym, E.
  - constructor; [constructor; assumption|]. constructor. exact E.
Qed.

(* sorted (non-strictly) whatever the input *)
Theorem kv_sort_sorted_le l : Sorted kle (kv_sort l).
Proof.
  induction l as [|x r IH]; cbn [kv_sort fold_right]; [constructor|].
  apply kv_insert_sorted, IH.
Qed.

Lemma sorted_kle_klt l : Sorted kle l -> NoDup (map fst l) -> Sorted klt l.
Proof.
  induction 1 as [|a l HS IH HR]; intro ND; [constructor|].
  cbn [map] in ND. inversion ND as [|? ? Hnin ND']; subst.
  constructor; [apply IH, ND'|].
  destruct HR as [|b l Hab]; constructor.
  unfold klt. destruct (bytes_ltb (fst a) (fst b)) eqn:E; [reflexivity|].
  exfalso. apply Hnin. cbn [map]. left. symmetry. apply bytes_ltb_total; assumption.
Qed.

Lemma kv_sort_nodup l : NoDup (map fst l) -> NoDup (map fst (kv_sort l)).
Proof. apply Permutation_NoDup, Permutation_map, kv_sort_perm. Qed.

(* strictly sorted by bytes_ltb when the keys are distinct *)
Theorem kv_sort_sorted l : NoDup (map fst l) -> StronglySorted klt (kv_sort l).
Proof.
  intro ND. apply Sorted_StronglySorted; [exact klt_trans|].
  apply sorted_kle_klt; [apply kv_sort_sorted_le | apply kv_sort_nodup, ND].
Qed.

Lemma kv_set_snoc k v acc :
  Forall (fun x => klt x (k, v)) acc -> kv_set k v acc = acc ++ [(k, v)].
Proof.
  induction 1 as [|x r Hx HF IH]; cbn [kv_set app]; [reflexivity|].
  unfold klt in Hx. cbn [fst] in Hx.
  destruct (bytes_eqb (fst x) k) eqn:E.
  - apply bytes_eqb_eq in E. rewrite E, bytes_ltb_irrefl in Hx. discriminate.
  - rewrite (bytes_ltb_asym _ _ Hx). f_equal. exact IH.
Qed.

Lemma StronglySorted_app_mid {A} (R : A -> A -> Prop) l1 x l2 :
  StronglySorted R (l1 ++ x :: l2) -> Forall (fun y => R y x) l1.
Proof.
  induction l1 as [|y l1 IH]; cbn [app]; intro H; [constructor|].
  inversion H as [|? ? HS HF]; subst. constructor; [|apply IH, HS].
  rewrite Forall_forall in HF. apply HF, in_elt.
Qed.

Definition kv_build_from (acc l : kvs) : kvs :=
  fold_left (fun a kv => kv_set (fst kv) (snd kv) a) l acc.
Definition kv_build (l : kvs) : kvs := kv_build_from [] l.

Lemma kv_build_from_sorted l : forall acc,
  StronglySorted klt (acc ++ l) -> kv_build_from acc l = acc ++ l.
Proof.
  unfold kv_build_from.
  induction l as [|[k v] l IH]; intros acc H; cbn [fold_left fst snd]; [now rewrite app_nil_r|].
  rewrite kv_set_snoc by (apply (StronglySorted_app_mid _ _ _ _ H)).
  rewrite IH; rewrite <- app_assoc; [reflexivity | exact H].
Qed.

(* folding Go map assignment over a strictly sorted list rebuilds the list *)
Theorem kv_build_sorted l : StronglySorted klt l -> kv_build l = l.
Proof. intro H. apply (kv_build_from_sorted l []). exact H. Qed.

Theorem kv_build_kv_sort m : NoDup (map fst m) -> kv_build (kv_sort m) = kv_sort m.
Proof. intro ND. apply kv_build_sorted, kv_sort_sorted, ND. Qed.

(** ** 3b. uint16 -> uint64 maps: nn_set, nn_get *)

Definition nlt (a b : N * N) : Prop := fst a < fst b.

Lemma nn_set_snoc k v acc :
  Forall (fun x => nlt x (k, v)) acc -> nn_set k v acc = acc ++ [(k, v)].
Proof.
  induction 1 as [|x r Hx HF IH]; cbn [nn_set app]; [reflexivity|].
  unfold nlt in Hx. cbn [fst] in Hx.
  destruct (N.eqb_spec (fst x) k); [lia|].
  destruct (N.ltb_spec k (fst x)); [lia|]. f_equal. exact IH.
Qed.

Definition nn_build_from (acc l : list (N * N)) : list (N * N) :=
  fold_left (fun a kv => nn_set (fst kv) (snd kv) a) l acc.
Definition nn_build (l : list (N * N)) : list (N * N) := nn_build_from [] l.

Lemma nn_build_from_sorted l : forall acc,
  StronglySorted nlt (acc ++ l) -> nn_build_from acc l = acc ++ l.
Proof.
  unfold nn_build_from.
  induction l as [|[k v] l IH]; intros acc H; cbn [fold_left fst snd]; [now rewrite app_nil_r|].
  rewrite nn_set_snoc by (apply (StronglySorted_app_mid _ _ _ _ H)).
  rewrite IH; rewrite <- app_assoc; [reflexivity | exact H].
Qed.

Theorem nn_build_sorted l : StronglySorted nlt l -> nn_build l = l.
Proof. intro H. apply (nn_build_from_sorted l []). exact H. Qed.

Lemma nn_get_set k k' v acc :
  nn_get k (nn_set k' v acc) = if k' =? k then Some v else nn_get k acc.
Proof.
  induction acc as [|x r IH]; cbn [nn_set nn_get fst snd]; [reflexivity|].
  destruct (N.eqb_spec (fst x) k') as [E|NE].
  - cbn [nn_get fst snd]. destruct (N.eqb_spec k' k); [reflexivity|].
    destruct (N.eqb_spec (fst x) k); [lia | reflexivity].
  - destruct (N.ltb_spec k' (fst x)); cbn [nn_get fst snd]; [reflexivity|].
    rewrite IH. destruct (N.eqb_spec k' k), (N.eqb_spec (fst x) k); try reflexivity; lia.
Qed.

Lemma nn_get_notin k l : ~ In k (map fst l) -> nn_get k l = None.
Proof.
  induction l as [|x r IH]; cbn [nn_get map]; intro H; [reflexivity|].
  destruct (N.eqb_spec (fst x) k) as [E|NE]; [exfalso; apply H; left; exact E|].
  apply IH. intro; apply H; right; assumption.
Qed.

Lemma nn_get_build_from k l : forall acc,
  NoDup (map fst l) ->
  nn_get k (nn_build_from acc l)
  = match nn_get k l with Some v => Some v | None => nn_get k acc end.
Proof.
  unfold nn_build_from.
  induction l as [|x l IH]; intros acc ND; cbn [fold_left nn_get map]; [reflexivity|].
  cbn [map] in ND. inversion ND as [|? ? Hnin ND']; subst.
  rewrite IH by exact ND'. rewrite nn_get_set.
  destruct (N.eqb_spec (fst x) k) as [E|NE].
  - rewrite nn_get_notin by (rewrite <- E; exact Hnin). reflexivity.
  - reflexivity.
Qed.

(* general form: whatever the order of [l], rebuilding it with nn_set keeps every lookup *)
Theorem nn_get_build k l : NoDup (map fst l) -> nn_get k (nn_build l) = nn_get k l.
Proof.
  intro ND. unfold nn_build. rewrite nn_get_build_from by exact ND.
  destruct (nn_get k l); reflexivity.
Qed.

Lemma nn_set_in y k v l : In y (nn_set k v l) -> y = (k, v) \/ In y l.
Proof.
  induction l as [|x r IH]; cbn [nn_set]; intro H.
  - destruct H as [H|[]]; left; symmetry; exact H.
  - destruct (fst x =? k).
    + destruct H as [H|H]; [left; symmetry; exact H | right; right; exact H].
    + destruct (k <? fst x).
      * destruct H as [H|H]; [left; symmetry; exact H | right; exact H].
      * destruct H as [H|H]; [right; left; exact H|].
        destruct (IH H) as [H'|H']; [left; exact H' | right; right; exact H'].
Qed.

Lemma nn_set_sorted k v l : StronglySorted nlt l -> StronglySorted nlt (nn_set k v l).
Proof.
  induction 1 as [|x r HS IH HF]; cbn [nn_set]; [repeat constructor|].
  rewrite Forall_forall in HF. unfold nlt in HF.
  destruct (N.eqb_spec (fst x) k) as [E|NE].
  - constructor; [exact HS|]. apply Forall_forall. intros y Hy. unfold nlt. cbn [fst].
    rewrite <- E. apply HF, Hy.
  - destruct (N.ltb_spec k (fst x)) as [L|L].
    + constructor; [constructor; [exact HS | apply Forall_forall; exact HF]|].
      apply Forall_forall. intros y [<-|Hy]; unfold nlt; cbn [fst]; [exact L|].
      specialize (HF y Hy). lia.
    + constructor; [exact IH|]. apply Forall_forall. intros y Hy. unfold nlt.
      destruct (nn_set_in _ _ _ _ Hy) as [->|Hy']; [cbn [fst]; lia | apply HF, Hy'].
Qed.

Lemma nn_build_from_sorted_out l : forall acc,
  StronglySorted nlt acc -> StronglySorted nlt (nn_build_from acc l).
Proof.
  unfold nn_build_from. induction l as [|x l IH]; intros acc H; cbn [fold_left]; [exact H|].
  apply IH, nn_set_sorted, H.
Qed.

(* whatever the input, the rebuilt list is strictly sorted by key (hence duplicate-free) *)
Theorem nn_build_sorted_out l : StronglySorted nlt (nn_build l).
Proof. apply nn_build_from_sorted_out. constructor. Qed.

(* ====================================================================== *)
(** * 4. getPrefixedMap *)

Definition wf_kv (kv : bytes * bytes) : Prop := blen (fst kv) < two32 /\ blen (snd kv) < two32.
Definition wf_kvs (m : kvs) : Prop := NoDup (map fst m) /\ Forall wf_kv m.

Lemma enc_kvs_body_cons kv l :
  enc_kvs_body (kv :: l) = pstr (fst kv) ++ pstr (snd kv) ++ enc_kvs_body l.
Proof. unfold enc_kvs_body. cbn [map concat]. unfold enc_kv. rewrite <- app_assoc. reflexivity. Qed.

Lemma enc_kvs_body_length_ge l : (8 * length l <= length (enc_kvs_body l))%nat.
Proof.
  induction l as [|kv l IH]; [cbn; lia|].
  rewrite enc_kvs_body_cons, !app_length, !pstr_length. cbn [length]. lia.
Qed.

(* Go's uint32 wrap-around loop test is the plain comparison when nothing overflows *)
Lemma wrap_test a b c :
  a < two32 -> b + c < two32 ->
  (a mod two32 <? (b mod two32 + c) mod two32) = (a <? b + c).
Proof.
  intros Ha Hb. rewrite (N.mod_small a) by exact Ha. rewrite (N.mod_small b) by lia.
  rewrite N.mod_small by exact Hb. reflexivity.
Qed.

Lemma get_map_loop_ok buf off1 maplen post : forall l fuel inset acc,
  Forall wf_kv l ->
  skipn inset (skipn off1 buf) = enc_kvs_body l ++ post ->
  N.of_nat (inset + length (enc_kvs_body l)) = maplen ->
  N.of_nat off1 + maplen < two32 ->
  (length l < fuel)%nat ->
  get_map_loop fuel buf off1 inset maplen acc
  = Ok (kv_build_from acc l, (off1 + (inset + length (enc_kvs_body l)))%nat).
Proof.
  induction l as [|[k v] l IH]; intros fuel inset acc F S HL HB HF;
    (destruct fuel as [|fuel]; [cbn [length] in HF; lia|]); cbn [get_map_loop]; cbv zeta.
  - cbn [enc_kvs_body map concat length] in *.
    rewrite wrap_test by lia.
    destruct (N.ltb_spec (N.of_nat (off1 + inset)) (N.of_nat off1 + maplen)); [lia|].
    unfold kv_build_from. cbn [fold_left]. do 2 f_equal. lia.
  - rewrite enc_kvs_body_cons in *. cbn [fst snd] in *.
    rewrite !app_length, !pstr_length in HL. rewrite <- !app_assoc in S.
    inversion F as [|? ? [Hk Hv] F']; subst. cbn [fst snd] in Hk, Hv.
    rewrite wrap_test by lia.
    match goal with |- context [N.ltb ?a ?b] => destruct (N.ltb_spec a b) end; [|lia].
    destruct (get_pstr_step _ _ _ _ S Hk) as [E1 S1]. rewrite E1. cbn [bind].
    destruct (get_pstr_step _ _ _ _ S1 Hv) as [E2 S2]. rewrite E2. cbn [bind].
    rewrite (IH fuel _ _ F' S2); try lia; cbn [length] in HF; try lia.
    unfold kv_build_from. cbn [fold_left fst snd]. do 2 f_equal.
    rewrite !app_length, !pstr_length. lia.
Qed.

(* core lemma for channels and metadata *)
Theorem get_map_step buf off m post :
  skipn off buf = enc_map m ++ post -> wf_kvs m ->
  N.of_nat (off + 4 + length (enc_kvs_body (kv_sort m))) < two32 ->
  get_map buf off = Ok (kv_sort m, (off + 4 + length (enc_kvs_body (kv_sort m)))%nat)
  /\ skipn (off + 4 + length (enc_kvs_body (kv_sort m))) buf = post.
Proof.
  intros H [ND F] HB. unfold enc_map in H. cbv zeta in H. rewrite <- app_assoc in H.
  set (body := enc_kvs_body (kv_sort m)) in *.
  pose proof (skipn_length_sub _ _ _ H) as L. rewrite !app_length, u32_length in L.
  assert (Hb : blen body < two32) by (unfold blen; lia).
  destruct (get_u32_step _ _ _ _ H Hb) as [E S].
  split.
  - unfold get_map. rewrite E. cbn [bind].
    rewrite (get_map_loop_ok buf (off + 4) (blen body) post (kv_sort m)).
    + fold (kv_build (kv_sort m)). rewrite kv_build_kv_sort by exact ND.
      fold body. do 2 f_equal.
    + eapply Permutation_Forall; [apply kv_sort_perm | exact F].
    + cbn [skipn]. exact S.
    + reflexivity.
    + unfold blen. lia.
    + pose proof (enc_kvs_body_length_ge (kv_sort m)). fold body in H0. lia.
  - rewrite skipn_add, S. apply skipn_app_exact.
Qed.

Theorem get_map_app pre m post :
  wf_kvs m ->
  N.of_nat (length pre + length (enc_map m)) < two32 ->
  get_map (pre ++ enc_map m ++ post) (length pre) = Ok (kv_sort m, (length pre + length (enc_map m))%nat).
Proof.
  intros W HB.
  assert (EL : length (enc_map m) = (4 + length (enc_kvs_body (kv_sort m)))%nat).
  { unfold enc_map. cbv zeta. rewrite app_length, u32_length. reflexivity. }
  rewrite EL in *.
  destruct (get_map_step (pre ++ enc_map m ++ post) (length pre) m post) as [E _];
    [apply skipn_pre | exact W | lia |].
  rewrite E. do 2 f_equal. lia.
Qed.

(* ====================================================================== *)
(** * 5. the three numeric-pair loops *)

Definition wf_mi_entry (e : N * N) : Prop := fst e < two64 /\ snd e < two64.
Definition wf_nn (e : N * N) : Prop := fst e < two16 /\ snd e < two64.

Lemma enc_mi_body_length l : length (concat (map enc_mi_entry l)) = (16 * length l)%nat.
Proof.
  induction l as [|e l IH]; [reflexivity|].
  cbn [map concat]. unfold enc_mi_entry at 1. rewrite !app_length, !u64_length, IH. cbn [length]. lia.
Qed.

Lemma enc_nn_body_length l : length (concat (map enc_nn l)) = (10 * length l)%nat.
Proof.
  induction l as [|e l IH]; [reflexivity|].
  cbn [map concat]. unfold enc_nn at 1. rewrite !app_length, u16_length, u64_length, IH. cbn [length]. lia.
Qed.

Lemma parse_mi_loop_ok buf start bl post : forall l fuel off acc,
  Forall wf_mi_entry l ->
  skipn off buf = concat (map enc_mi_entry l) ++ post ->
  N.of_nat (off + length (concat (map enc_mi_entry l))) = N.of_nat start + bl ->
  N.of_nat start + bl < two32 ->
  (length l < fuel)%nat ->
  parse_mi_loop fuel buf start off bl acc = Ok (acc ++ l).
Proof.
  induction l as [|[t v] l IH]; intros fuel off acc F S HL HB HF;
    (destruct fuel as [|fuel]; [cbn [length] in HF; lia|]); cbn [parse_mi_loop].
  - cbn [map concat length] in *. rewrite wrap_test by lia.
    destruct (N.ltb_spec (N.of_nat off) (N.of_nat start + bl)); [lia|].
    rewrite app_nil_r. reflexivity.
  - cbn [map concat] in *. unfold enc_mi_entry at 1 in S. unfold enc_mi_entry at 1 in HL.
    cbn [fst snd] in *. rewrite <- !app_assoc in S. rewrite !app_length, !u64_length in HL.
    inversion F as [|? ? [Ht Hv] F']; subst. cbn [fst snd] in Ht, Hv.
    rewrite wrap_test by lia.
    destruct (N.ltb_spec (N.of_nat off) (N.of_nat start + bl)); [|lia].
    destruct (get_u64_step _ _ _ _ S Ht) as [E1 S1]. rewrite E1. cbn [bind].
    destruct (get_u64_step _ _ _ _ S1 Hv) as [E2 S2]. rewrite E2. cbn [bind].
    rewrite (IH fuel _ _ F' S2); cbn [length] in HF; try lia.
    rewrite <- app_assoc. reflexivity.
Qed.

Lemma parse_cio_loop_ok rest total post : forall l fuel inset acc,
  Forall wf_nn l ->
  skipn inset rest = concat (map enc_nn l) ++ post ->
  N.of_nat (inset + length (concat (map enc_nn l))) = total ->
  (length l < fuel)%nat ->
  parse_cio_loop fuel rest inset total acc
  = Ok (nn_build_from acc l, (inset + length (concat (map enc_nn l)))%nat).
Proof.
  induction l as [|[k v] l IH]; intros fuel inset acc F S HL HF;
    (destruct fuel as [|fuel]; [cbn [length] in HF; lia|]); cbn [parse_cio_loop].
  - cbn [map concat length] in *.
    destruct (N.ltb_spec (N.of_nat inset) total); [lia|].
    unfold nn_build_from. cbn [fold_left]. do 2 f_equal. lia.
  - cbn [map concat] in *. unfold enc_nn at 1 in S. unfold enc_nn at 1 in HL. unfold enc_nn at 1.
    cbn [fst snd] in *. rewrite <- !app_assoc in S.
    rewrite !app_length, u16_length, u64_length in HL.
    inversion F as [|? ? [Hk Hv] F']; subst. cbn [fst snd] in Hk, Hv.
    match goal with |- context [N.ltb ?a ?b] => destruct (N.ltb_spec a b) end; [|lia].
    destruct (get_u16_step _ _ _ _ S Hk) as [E1 S1]. rewrite E1. cbn [bind].
    destruct (get_u64_step _ _ _ _ S1 Hv) as [E2 S2]. rewrite E2. cbn [bind].
    rewrite (IH fuel _ _ F' S2); cbn [length] in HF; try lia.
    unfold nn_build_from. cbn [fold_left fst snd]. do 2 f_equal.
    rewrite !app_length, u16_length, u64_length. lia.
Qed.

Lemma parse_counts_loop_ok buf stop post : forall l fuel off acc,
  Forall wf_nn l ->
  skipn off buf = concat (map enc_nn l) ++ post ->
  (off + length (concat (map enc_nn l)))%nat = stop ->
  (length l < fuel)%nat ->
  parse_counts_loop fuel buf off stop acc = Ok (nn_build_from acc l).
Proof.
  induction l as [|[k v] l IH]; intros fuel off acc F S HL HF;
    (destruct fuel as [|fuel]; [cbn [length] in HF; lia|]); cbn [parse_counts_loop].
  - cbn [map concat length] in *.
    destruct (Nat.ltb_spec off stop); [lia|]. reflexivity.
  - cbn [map concat] in *. unfold enc_nn at 1 in S. unfold enc_nn at 1 in HL.
    cbn [fst snd] in *. rewrite <- !app_assoc in S.
    rewrite !app_length, u16_length, u64_length in HL.
    inversion F as [|? ? [Hk Hv] F']; subst. cbn [fst snd] in Hk, Hv.
    match goal with |- context [Nat.ltb ?a ?b] => destruct (Nat.ltb_spec a b) end; [|lia].
    destruct (get_u16_step _ _ _ _ S Hk) as [E1 S1]. rewrite E1. cbn [bind].
    destruct (get_u64_step _ _ _ _ S1 Hv) as [E2 S2]. rewrite E2. cbn [bind].
    rewrite (IH fuel _ _ F' S2); cbn [length] in HF; try lia.
    reflexivity.
Qed.

(* ====================================================================== *)
(** * 6. framing *)

Lemma frame_length op body : length (frame op body) = (9 + length body)%nat.
Proof. unfold frame, frame_head. cbn [app length]. rewrite app_length, u64_length. reflexivity. Qed.

Lemma frame_cons op body : frame op body = op :: u64 (blen body) ++ body.
Proof. reflexivity. Qed.

Lemma frame_opcode op body post d : nth 0 (frame op body ++ post) d = op.
Proof. reflexivity. Qed.

(* the 8 bytes after the opcode decode to the body length *)
Lemma unle_frame_len op body post :
  blen body < two64 -> unle (sub (frame op body ++ post) 1 8) = blen body.
Proof.
  intro H. rewrite frame_cons. cbn [app]. unfold sub. cbn [skipn].
  rewrite <- app_assoc, firstn_app_exact' by (symmetry; apply u64_length).
  apply unle_u64, H.
Qed.

Lemma get_u64_frame_len op body post :
  blen body < two64 -> get_u64 (frame op body ++ post) 1 = Ok (blen body, 9%nat).
Proof.
  intro H.
  destruct (get_u64_step (frame op body ++ post) 1 (blen body) (body ++ post)) as [E _];
    [rewrite frame_cons; cbn [app skipn]; rewrite <- app_assoc; reflexivity | exact H |].
  exact E.
Qed.

Lemma frame_body op body post : sub (frame op body ++ post) 9 (length body) = body.
Proof.
  rewrite frame_cons. change (op :: u64 (blen body) ++ body) with ((op :: u64 (blen body)) ++ body).
  rewrite <- app_assoc.
  replace 9%nat with (length (op :: u64 (blen body))) by (cbn [length]; rewrite u64_length; reflexivity).
  apply sub_app_mid.
Qed.

Lemma frame_rest op body post : skipn (9 + length body) (frame op body ++ post) = post.
Proof. rewrite <- (frame_length op). apply skipn_app_exact. Qed.

(* ====================================================================== *)
(** * 7. decode (encode x ++ pad) = x, record by record *)

(* run one primitive reader: [H : skipn off buf = enc ++ post] is consumed and replaced by
   the cursor fact for the next field; the width bound is found among the hypotheses *)
Ltac step lem H :=
  let E := fresh "E" in let S' := fresh "S" in let B := fresh "B" in
  match type of (lem _ _ _ _ H) with
  | ?P -> _ =>
      assert (B : P) by (first [assumption | lia]);
      destruct (lem _ _ _ _ H B) as [E S']; rewrite E; cbn [bind];
      clear E B H; rename S' into H
  end.

(** ** Header *)
Definition wf_header (h : header) : Prop :=
  blen (h_profile h) < two32 /\ blen (h_library h) < two32.

Theorem parse_enc_header h pad : wf_header h -> parse_header (enc_header h ++ pad) = Ok h.
Proof.
  destruct h as [p l]. unfold wf_header, enc_header, parse_header. cbn [h_profile h_library].
  intros (H1 & H2). set (buf := _ ++ pad).
  assert (H : skipn 0 buf = pstr p ++ pstr l ++ pad) by (unfold buf; rewrite <- !app_assoc; reflexivity).
  step get_pstr_step H. step get_pstr_step H. reflexivity.
Qed.

(** ** Footer *)
Definition wf_footer (f : footer) : Prop :=
  f_summary_start f < two64 /\ f_summary_offset_start f < two64 /\ f_crc f < two32.

Theorem parse_enc_footer f pad : wf_footer f -> parse_footer (enc_footer f ++ pad) = Ok f.
Proof.
  destruct f as [a b c]. unfold wf_footer, enc_footer, parse_footer.
  cbn [f_summary_start f_summary_offset_start f_crc].
  intros (H1 & H2 & H3). set (buf := _ ++ pad).
  assert (H : skipn 0 buf = u64 a ++ u64 b ++ u32 c ++ pad) by (unfold buf; rewrite <- !app_assoc; reflexivity).
  step get_u64_step H. step get_u64_step H. step get_u32_step H. reflexivity.
Qed.

(** ** Schema *)
Definition wf_schema (s : schema) : Prop :=
  s_id s < two16 /\ blen (s_name s) < two32 /\ blen (s_encoding s) < two32 /\ blen (s_data s) < two32.

Theorem parse_enc_schema s pad : wf_schema s -> parse_schema (enc_schema s ++ pad) = Ok s.
Proof.
  destruct s as [id nm en da]. unfold wf_schema, enc_schema, parse_schema.
  cbn [s_id s_name s_encoding s_data].
  intros (H1 & H2 & H3 & H4). set (buf := _ ++ pad).
  assert (H : skipn 0 buf = u16 id ++ pstr nm ++ pstr en ++ pstr da ++ pad)
    by (unfold buf; rewrite <- !app_assoc; reflexivity).
  step get_u16_step H. step get_pstr_step H. step get_pstr_step H. step get_pstr_step H.
  reflexivity.
Qed.

(** ** Channel *)
Definition wf_channel (c : channel) : Prop :=
  c_id c < two16 /\ c_schema c < two16 /\ blen (c_topic c) < two32 /\ blen (c_menc c) < two32
  /\ wf_kvs (c_meta c) /\ N.of_nat (length (enc_channel c)) < two32.

Definition channel_norm (c : channel) : channel :=
  {| c_id := c_id c; c_schema := c_schema c; c_topic := c_topic c; c_menc := c_menc c;
     c_meta := kv_sort (c_meta c) |}.

Lemma enc_map_length m : length (enc_map m) = (4 + length (enc_kvs_body (kv_sort m)))%nat.
Proof. unfold enc_map. cbv zeta. rewrite app_length, u32_length. reflexivity. Qed.

Theorem parse_enc_channel c pad :
  wf_channel c -> parse_channel (enc_channel c ++ pad) = Ok (channel_norm c).
Proof.
  destruct c as [id sid tp me mt]. unfold wf_channel, channel_norm, enc_channel, parse_channel.
  cbn [c_id c_schema c_topic c_menc c_meta].
  intros (H1 & H2 & H3 & H4 & H5 & H6). set (buf := _ ++ pad).
  rewrite !app_length, !u16_length, !pstr_length, enc_map_length in H6.
  assert (H : skipn 0 buf = u16 id ++ u16 sid ++ pstr tp ++ pstr me ++ enc_map mt ++ pad)
    by (unfold buf; rewrite <- !app_assoc; reflexivity).
  step get_u16_step H. step get_u16_step H. step get_pstr_step H. step get_pstr_step H.
  destruct (get_map_step _ _ _ _ H H5) as [E _]; [lia|].
  rewrite E. reflexivity.
Qed.

(** ** Message.  The data field is "the rest of the record", so padding is NOT ignored. *)
Definition wf_message (m : message) : Prop :=
  m_chan m < two16 /\ m_seq m < two32 /\ m_log m < two64 /\ m_pub m < two64.

Theorem parse_enc_message_pad m pad :
  wf_message m ->
  parse_message (enc_message m ++ pad)
  = Ok {| m_chan := m_chan m; m_seq := m_seq m; m_log := m_log m; m_pub := m_pub m;
          m_data := m_data m ++ pad |}.
Proof.
  destruct m as [ch sq lt pt da]. unfold wf_message, enc_message, parse_message.
  cbn [m_chan m_seq m_log m_pub m_data].
  intros (H1 & H2 & H3 & H4). set (buf := _ ++ pad).
  assert (H : skipn 0 buf = u16 ch ++ u32 sq ++ u64 lt ++ u64 pt ++ da ++ pad)
    by (unfold buf; rewrite <- !app_assoc; reflexivity).
  step get_u16_step H. step get_u32_step H. step get_u64_step H. step get_u64_step H.
  rewrite H. reflexivity.
Qed.

Theorem parse_enc_message m : wf_message m -> parse_message (enc_message m) = Ok m.
Proof.
  intro W. rewrite <- (app_nil_r (enc_message m)), parse_enc_message_pad by exact W.
  destruct m. cbn. rewrite app_nil_r. reflexivity.
Qed.

(** ** Chunk: the records are taken by their length field, trailing bytes are ignored *)
Definition wf_chunk (k : chunk) : Prop :=
  k_start k < two64 /\ k_end k < two64 /\ k_usize k < two64 /\ k_crc k < two32
  /\ blen (k_comp k) < two32 /\ blen (k_records k) < two64.

Theorem parse_enc_chunk k pad : wf_chunk k -> parse_chunk (enc_chunk k ++ pad) = Ok k.
Proof.
  destruct k as [st en us crc comp recs]. unfold wf_chunk, enc_chunk, enc_chunk_top, parse_chunk.
  cbn [k_start k_end k_usize k_crc k_comp k_records].
  intros (H1 & H2 & H3 & H4 & H5 & H6). set (buf := _ ++ pad).
  assert (H : skipn 0 buf = u64 st ++ u64 en ++ u64 us ++ u32 crc ++ pstr comp
                            ++ u64 (blen recs) ++ recs ++ pad)
    by (unfold buf; rewrite <- !app_assoc; reflexivity).
  step get_u64_step H. step get_u64_step H. step get_u64_step H. step get_u32_step H.
  step get_pstr_step H. step get_u64_step H.
  pose proof (skipn_length_sub _ _ _ H) as L. rewrite app_length in L.
  match goal with |- context [N.ltb ?a ?b] => destruct (N.ltb_spec a b) as [C|C] end;
    [unfold blen in C; lia|].
  unfold sub, blen. rewrite Nat2N.id, H, firstn_app_exact. reflexivity.
Qed.

(** ** Message index *)
Definition wf_msgindex (mi : msgindex) : Prop :=
  mi_chan mi < two16 /\ Forall wf_mi_entry (mi_entries mi)
  /\ 6 + 16 * N.of_nat (length (mi_entries mi)) < two32.

Lemma enc_msgindex_length mi : length (enc_msgindex mi) = (6 + 16 * length (mi_entries mi))%nat.
Proof.
  unfold enc_msgindex. cbv zeta.
  rewrite !app_length, u16_length, u32_length, enc_mi_body_length. lia.
Qed.

Theorem parse_enc_msgindex mi pad :
  wf_msgindex mi -> parse_msgindex (enc_msgindex mi ++ pad) = Ok mi.
Proof.
  destruct mi as [ch es]. unfold wf_msgindex, enc_msgindex, parse_msgindex.
  cbn [mi_chan mi_entries]. cbv zeta.
  intros (H1 & H2 & H3). set (body := concat (map enc_mi_entry es)) in *. set (buf := _ ++ pad).
  assert (BL : length body = (16 * length es)%nat) by apply enc_mi_body_length.
  assert (H : skipn 0 buf = u16 ch ++ u32 (blen body) ++ body ++ pad)
    by (unfold buf; rewrite <- !app_assoc; reflexivity).
  assert (HB : blen body < two32) by (unfold blen; lia).
  step get_u16_step H. step get_u32_step H.
  pose proof (skipn_length_sub _ _ _ H) as L. rewrite app_length in L.
  rewrite (parse_mi_loop_ok buf _ (blen body) pad es); [reflexivity | exact H2 | exact H | | | ];
    fold body; unfold blen; lia.
Qed.

(** ** Chunk index *)
Definition wf_chunkindex (ci : chunkindex) : Prop :=
  ci_start ci < two64 /\ ci_end ci < two64 /\ ci_offset ci < two64 /\ ci_length ci < two64
  /\ Forall wf_nn (ci_mioffsets ci) /\ 10 * N.of_nat (length (ci_mioffsets ci)) < two32
  /\ ci_milength ci < two64 /\ blen (ci_comp ci) < two32
  /\ ci_csize ci < two64 /\ ci_usize ci < two64.

Definition chunkindex_norm (ci : chunkindex) : chunkindex :=
  {| ci_start := ci_start ci; ci_end := ci_end ci; ci_offset := ci_offset ci;
     ci_length := ci_length ci; ci_mioffsets := nn_build (ci_mioffsets ci);
     ci_milength := ci_milength ci; ci_comp := ci_comp ci;
     ci_csize := ci_csize ci; ci_usize := ci_usize ci |}.

Theorem parse_enc_chunkindex ci pad :
  wf_chunkindex ci -> parse_chunkindex (enc_chunkindex ci ++ pad) = Ok (chunkindex_norm ci).
Proof.
  destruct ci as [st en off len mo mil comp cs us].
  unfold wf_chunkindex, chunkindex_norm, enc_chunkindex, parse_chunkindex.
  cbn [ci_start ci_end ci_offset ci_length ci_mioffsets ci_milength ci_comp ci_csize ci_usize].
  cbv zeta.
  intros (H1 & H2 & H3 & H4 & H5 & H6 & H7 & H8 & H9 & H10).
  set (offs := concat (map enc_nn mo)) in *. set (buf := _ ++ pad).
  assert (BL : length offs = (10 * length mo)%nat) by apply enc_nn_body_length.
  assert (H : skipn 0 buf = u64 st ++ u64 en ++ u64 off ++ u64 len ++ u32 (blen offs) ++ offs
                            ++ u64 mil ++ pstr comp ++ u64 cs ++ u64 us ++ pad)
    by (unfold buf; rewrite <- !app_assoc; reflexivity).
  assert (HB : blen offs < two32) by (unfold blen; lia).
  step get_u64_step H. step get_u64_step H. step get_u64_step H. step get_u64_step H.
  step get_u32_step H.
  pose proof (skipn_length_sub _ _ _ H) as L. rewrite app_length in L.
  match goal with |- context [parse_cio_loop _ (skipn ?o buf)] => set (o1 := o) in * end.
  rewrite (parse_cio_loop_ok (skipn o1 buf) (blen offs)
             (u64 mil ++ pstr comp ++ u64 cs ++ u64 us ++ pad) mo);
    [ | exact H5 | exact H | reflexivity | fold offs; lia].
  cbn [bind]. fold offs. fold (nn_build mo).
  assert (H' : skipn (o1 + (0 + length offs)) buf = u64 mil ++ pstr comp ++ u64 cs ++ u64 us ++ pad).
  { rewrite skipn_add, H. cbn [Nat.add]. apply skipn_app_exact. }
  step get_u64_step H'. step get_pstr_step H'. step get_u64_step H'. step get_u64_step H'.
  reflexivity.
Qed.

Theorem parse_enc_chunkindex_sorted ci pad :
  wf_chunkindex ci -> StronglySorted nlt (ci_mioffsets ci) ->
  parse_chunkindex (enc_chunkindex ci ++ pad) = Ok ci.
Proof.
  intros W S. rewrite parse_enc_chunkindex by exact W.
  unfold chunkindex_norm. rewrite nn_build_sorted by exact S. destruct ci; reflexivity.
Qed.

(** ** Attachment index *)
Definition wf_attindex (ai : attindex) : Prop :=
  ai_offset ai < two64 /\ ai_length ai < two64 /\ ai_log ai < two64 /\ ai_create ai < two64
  /\ ai_size ai < two64 /\ blen (ai_name ai) < two32 /\ blen (ai_media ai) < two32.

Theorem parse_enc_attindex ai pad :
  wf_attindex ai -> parse_attindex (enc_attindex ai ++ pad) = Ok ai.
Proof.
  destruct ai as [off len lt ct sz nm me]. unfold wf_attindex, enc_attindex, parse_attindex.
  cbn [ai_offset ai_length ai_log ai_create ai_size ai_name ai_media].
  intros (H1 & H2 & H3 & H4 & H5 & H6 & H7). set (buf := _ ++ pad).
  assert (H : skipn 0 buf = u64 off ++ u64 len ++ u64 lt ++ u64 ct ++ u64 sz ++ pstr nm ++ pstr me ++ pad)
    by (unfold buf; rewrite <- !app_assoc; reflexivity).
  step get_u64_step H. step get_u64_step H. step get_u64_step H. step get_u64_step H.
  step get_u64_step H. step get_pstr_step H. step get_pstr_step H. reflexivity.
Qed.

(** ** Statistics *)
Definition wf_statistics (s : statistics) : Prop :=
  st_messages s < two64 /\ st_schemas s < two16 /\ st_channels s < two32
  /\ st_attachments s < two32 /\ st_metadata s < two32 /\ st_chunks s < two32
  /\ st_start s < two64 /\ st_end s < two64
  /\ Forall wf_nn (st_counts s) /\ 10 * N.of_nat (length (st_counts s)) < two32.

Definition statistics_norm (s : statistics) : statistics :=
  {| st_messages := st_messages s; st_schemas := st_schemas s; st_channels := st_channels s;
     st_attachments := st_attachments s; st_metadata := st_metadata s; st_chunks := st_chunks s;
     st_start := st_start s; st_end := st_end s; st_counts := nn_build (st_counts s) |}.

Theorem parse_enc_statistics s pad :
  wf_statistics s -> parse_statistics (enc_statistics s ++ pad) = Ok (statistics_norm s).
Proof.
  destruct s as [mc sc cc ac mdc kc st en cnts].
  unfold wf_statistics, statistics_norm, enc_statistics, parse_statistics.
  cbn [st_messages st_schemas st_channels st_attachments st_metadata st_chunks st_start st_end st_counts].
  cbv zeta.
  intros (H1 & H2 & H3 & H4 & H5 & H6 & H7 & H8 & H9 & H10).
  set (cnt := concat (map enc_nn cnts)) in *. set (buf := _ ++ pad).
  assert (BL : length cnt = (10 * length cnts)%nat) by apply enc_nn_body_length.
  assert (H : skipn 0 buf = u64 mc ++ u16 sc ++ u32 cc ++ u32 ac ++ u32 mdc ++ u32 kc
                            ++ u64 st ++ u64 en ++ u32 (blen cnt) ++ cnt ++ pad)
    by (unfold buf; rewrite <- !app_assoc; reflexivity).
  assert (HB : blen cnt < two32) by (unfold blen; lia).
  pose proof (skipn_length_sub _ _ _ H) as L0.
  rewrite !app_length, !u64_length, !u32_length, u16_length in L0.
  destruct (Nat.ltb_spec (length buf) 46); [lia|].
  step get_u64_step H. step get_u16_step H. step get_u32_step H. step get_u32_step H.
  step get_u32_step H. step get_u32_step H. step get_u64_step H. step get_u64_step H.
  step get_u32_step H.
  match goal with |- context [N.ltb ?a ?b] => destruct (N.ltb_spec a b) end; [unfold blen in *; lia|].
  unfold blen at 1. rewrite Nat2N.id.
  rewrite (parse_counts_loop_ok buf _ pad cnts); [reflexivity | exact H9 | exact H | reflexivity | lia].
Qed.

Theorem parse_enc_statistics_sorted s pad :
  wf_statistics s -> StronglySorted nlt (st_counts s) ->
  parse_statistics (enc_statistics s ++ pad) = Ok s.
Proof.
  intros W S. rewrite parse_enc_statistics by exact W.
  unfold statistics_norm. rewrite nn_build_sorted by exact S. destruct s; reflexivity.
Qed.

(** ** Metadata *)
Definition wf_metadata (m : metadata) : Prop :=
  blen (md_name m) < two32 /\ wf_kvs (md_meta m) /\ N.of_nat (length (enc_metadata m)) < two32.

Definition metadata_norm (m : metadata) : metadata :=
  {| md_name := md_name m; md_meta := kv_sort (md_meta m) |}.

Theorem parse_enc_metadata m pad :
  wf_metadata m -> parse_metadata (enc_metadata m ++ pad) = Ok (metadata_norm m).
Proof.
  destruct m as [nm mt]. unfold wf_metadata, metadata_norm, enc_metadata, parse_metadata.
  cbn [md_name md_meta].
  intros (H1 & H2 & H3). set (buf := _ ++ pad).
  rewrite !app_length, !pstr_length, enc_map_length in H3.
  assert (H : skipn 0 buf = pstr nm ++ enc_map mt ++ pad)
    by (unfold buf; rewrite <- !app_assoc; reflexivity).
  step get_pstr_step H.
  destruct (get_map_step _ _ _ _ H H2) as [E _]; [lia|].
  rewrite E. reflexivity.
Qed.

(** ** Metadata index *)
Definition wf_mdindex (x : mdindex) : Prop :=
  mx_offset x < two64 /\ mx_length x < two64 /\ blen (mx_name x) < two32.

Theorem parse_enc_mdindex x pad : wf_mdindex x -> parse_mdindex (enc_mdindex x ++ pad) = Ok x.
Proof.
  destruct x as [off len nm]. unfold wf_mdindex, enc_mdindex, parse_mdindex.
  cbn [mx_offset mx_length mx_name].
  intros (H1 & H2 & H3). set (buf := _ ++ pad).
  assert (H : skipn 0 buf = u64 off ++ u64 len ++ pstr nm ++ pad)
    by (unfold buf; rewrite <- !app_assoc; reflexivity).
  step get_u64_step H. step get_u64_step H. step get_pstr_step H. reflexivity.
Qed.

(** ** Summary offset *)
Definition wf_sumoffset (s : sumoffset) : Prop := so_start s < two64 /\ so_length s < two64.

Theorem parse_enc_sumoffset s pad :
  wf_sumoffset s -> parse_sumoffset (enc_sumoffset s ++ pad) = Ok s.
Proof.
  destruct s as [op gs gl]. unfold wf_sumoffset, enc_sumoffset, parse_sumoffset.
  cbn [so_op so_start so_length].
  intros (H1 & H2). set (buf := _ ++ pad).
  assert (H : skipn 1 buf = u64 gs ++ u64 gl ++ pad)
    by (unfold buf; cbn [app skipn]; rewrite <- !app_assoc; reflexivity).
  assert (L : length buf = (17 + length pad)%nat).
  { unfold buf. cbn [app length]. rewrite !app_length, !u64_length. lia. }
  destruct (Nat.ltb_spec (length buf) 17); [lia|].
  step get_u64_step H. step get_u64_step H. reflexivity.
Qed.

(** ** Data end *)
Definition wf_dataend (d : dataend) : Prop := de_crc d < two32.

Theorem parse_enc_dataend d pad : wf_dataend d -> parse_dataend (enc_dataend d ++ pad) = Ok d.
Proof.
  destruct d as [c]. unfold wf_dataend, enc_dataend, parse_dataend. cbn [de_crc].
  intros H1. set (buf := _ ++ pad).
  assert (H : skipn 0 buf = u32 c ++ pad) by reflexivity.
  step get_u32_step H. reflexivity.
Qed.

(* ====================================================================== *)
(** * 8. general (unsorted) form for the uint16 -> uint64 maps

   The writer emits channel_message_counts / message_index_offsets in channel registration
   order.  The reader rebuilds them with [nn_build]: same lookups, same entries up to order. *)

Lemma nn_set_perm k v acc :
  ~ In k (map fst acc) -> Permutation ((k, v) :: acc) (nn_set k v acc).
Proof.
  induction acc as [|x r IH]; cbn [nn_set map]; intro H; [reflexivity|].
  destruct (N.eqb_spec (fst x) k) as [E|NE]; [exfalso; apply H; left; exact E|].
  destruct (k <? fst x); [reflexivity|].
  rewrite perm_swap. apply perm_skip, IH. intro; apply H; right; assumption.
Qed.

Lemma nn_build_from_perm l : forall acc,
  NoDup (map fst (acc ++ l)) -> Permutation (acc ++ l) (nn_build_from acc l).
Proof.
  unfold nn_build_from.
  induction l as [|[k v] l IH]; intros acc ND; cbn [fold_left fst snd]; [now rewrite app_nil_r|].
  assert (P : Permutation (acc ++ (k, v) :: l) (nn_set k v acc ++ l)).
  { rewrite <- Permutation_middle. rewrite app_comm_cons. apply Permutation_app_tail, nn_set_perm.
    rewrite map_app in ND. cbn [map fst] in ND. apply NoDup_remove_2 in ND.
    intro; apply ND, in_or_app; left; assumption. }
  rewrite P. apply IH. eapply Permutation_NoDup; [apply Permutation_map, P | exact ND].
Qed.

Theorem nn_build_perm l : NoDup (map fst l) -> Permutation l (nn_build l).
Proof. intro ND. apply (nn_build_from_perm l []). exact ND. Qed.

Theorem parse_enc_statistics_lookup s pad :
  wf_statistics s -> NoDup (map fst (st_counts s)) ->
  exists s', parse_statistics (enc_statistics s ++ pad) = Ok s'
    /\ st_counts s' = nn_build (st_counts s)
    /\ (forall k, nn_get k (st_counts s') = nn_get k (st_counts s))
    /\ Permutation (st_counts s) (st_counts s')
    /\ StronglySorted nlt (st_counts s')
    /\ st_messages s' = st_messages s /\ st_schemas s' = st_schemas s
    /\ st_channels s' = st_channels s /\ st_attachments s' = st_attachments s
    /\ st_metadata s' = st_metadata s /\ st_chunks s' = st_chunks s
    /\ st_start s' = st_start s /\ st_end s' = st_end s.
Proof.
  intros W ND. exists (statistics_norm s). split; [apply parse_enc_statistics, W|].
  unfold statistics_norm; cbn [st_counts st_messages st_schemas st_channels st_attachments
                                st_metadata st_chunks st_start st_end].
  repeat split.
  - intro k. apply nn_get_build, ND.
  - apply nn_build_perm, ND.
  - apply nn_build_sorted_out.
Qed.

Theorem parse_enc_chunkindex_lookup ci pad :
  wf_chunkindex ci -> NoDup (map fst (ci_mioffsets ci)) ->
  exists ci', parse_chunkindex (enc_chunkindex ci ++ pad) = Ok ci'
    /\ ci_mioffsets ci' = nn_build (ci_mioffsets ci)
    /\ (forall k, nn_get k (ci_mioffsets ci') = nn_get k (ci_mioffsets ci))
    /\ Permutation (ci_mioffsets ci) (ci_mioffsets ci')
    /\ StronglySorted nlt (ci_mioffsets ci')
    /\ ci_start ci' = ci_start ci /\ ci_end ci' = ci_end ci /\ ci_offset ci' = ci_offset ci
    /\ ci_length ci' = ci_length ci /\ ci_milength ci' = ci_milength ci
    /\ ci_comp ci' = ci_comp ci /\ ci_csize ci' = ci_csize ci /\ ci_usize ci' = ci_usize ci.
Proof.
  intros W ND. exists (chunkindex_norm ci). split; [apply parse_enc_chunkindex, W|].
  unfold chunkindex_norm; cbn [ci_start ci_end ci_offset ci_length ci_mioffsets ci_milength
                                ci_comp ci_csize ci_usize].
  repeat split.
  - intro k. apply nn_get_build, ND.
  - apply nn_build_perm, ND.
  - apply nn_build_sorted_out.
Qed.

(* channel / metadata maps: what the reader returns relative to what the writer was given *)
Theorem parse_enc_channel_meta c pad :
  wf_channel c ->
  exists c', parse_channel (enc_channel c ++ pad) = Ok c'
    /\ c_meta c' = kv_sort (c_meta c)
    /\ Permutation (c_meta c) (c_meta c') /\ StronglySorted klt (c_meta c')
    /\ c_id c' = c_id c /\ c_schema c' = c_schema c /\ c_topic c' = c_topic c /\ c_menc c' = c_menc c.
Proof.
  intro W. exists (channel_norm c). split; [apply parse_enc_channel, W|].
  destruct W as (_ & _ & _ & _ & [ND _] & _).
  unfold channel_norm; cbn [c_id c_schema c_topic c_menc c_meta].
  repeat split; [apply kv_sort_perm | apply kv_sort_sorted, ND].
Qed.

(* kv_sort of a strictly sorted list is the list itself *)
Lemma kv_sort_of_sorted l : StronglySorted klt l -> kv_sort l = l.
Proof.
  induction 1 as [|x r HS IH HF]; [reflexivity|].
  cbn [kv_sort fold_right]. fold (kv_sort r). rewrite IH.
  destruct r as [|y r]; [reflexivity|]. cbn [kv_insert].
  inversion HF as [|? ? Hxy _]; subst. unfold klt in Hxy.
  rewrite (bytes_ltb_asym _ _ Hxy). reflexivity.
Qed.

Theorem parse_enc_channel_sorted c pad :
  wf_channel c -> StronglySorted klt (c_meta c) -> parse_channel (enc_channel c ++ pad) = Ok c.
Proof.
  intros W S. rewrite parse_enc_channel by exact W. unfold channel_norm.
  rewrite kv_sort_of_sorted by exact S. destruct c; reflexivity.
Qed.

Theorem parse_enc_metadata_sorted m pad :
  wf_metadata m -> StronglySorted klt (md_meta m) -> parse_metadata (enc_metadata m ++ pad) = Ok m.
Proof.
  intros W S. rewrite parse_enc_metadata by exact W. unfold metadata_norm.
  rewrite kv_sort_of_sorted by exact S. destruct m; reflexivity.
Qed.

(* ====================================================================== *)
(** * 9. boolean versions of the well-formedness predicates (all are decidable) *)

Lemma forallb_Forall_iff {A} (f : A -> bool) (P : A -> Prop) l :
  (forall x, f x = true <-> P x) -> (forallb f l = true <-> Forall P l).
Proof.
  intro HfP. induction l as [|x l IH]; cbn [forallb].
  - split; [constructor | reflexivity].
  - rewrite andb_true_iff, IH, HfP. split.
    + intros [H1 H2]. constructor; assumption.
    + intro H. inversion H; subst. split; assumption.
Qed.

Fixpoint keys_nodupb (l : list bytes) : bool :=
  match l with
  | [] => true
  | k :: r => negb (existsb (bytes_eqb k) r) && keys_nodupb r
  end.

Lemma keys_nodupb_iff l : keys_nodupb l = true <-> NoDup l.
Proof.
  induction l as [|k r IH]; cbn [keys_nodupb].
  - split; [constructor | reflexivity].
  - rewrite andb_true_iff, negb_true_iff, IH. split.
    + intros [H1 H2]. constructor; [|exact H2]. intro Hin.
      assert (existsb (bytes_eqb k) r = true)
        by (apply existsb_exists; exists k; split; [exact Hin | apply bytes_eqb_refl]).
      congruence.
    + intro H. inversion H as [|? ? Hnin ND]; subst. split; [|exact ND].
      destruct (existsb (bytes_eqb k) r) eqn:E; [|reflexivity].
      apply existsb_exists in E. destruct E as (x & Hx & Hkx).
      apply bytes_eqb_eq in Hkx. subst x. contradiction.
Qed.

Definition wf_kvb (kv : bytes * bytes) : bool :=
  (blen (fst kv) <? two32) && (blen (snd kv) <? two32).
Definition wf_kvsb (m : kvs) : bool := keys_nodupb (map fst m) && forallb wf_kvb m.
Definition wf_mi_entryb (e : N * N) : bool := (fst e <? two64) && (snd e <? two64).
Definition wf_nnb (e : N * N) : bool := (fst e <? two16) && (snd e <? two64).

Lemma wf_kvb_iff kv : wf_kvb kv = true <-> wf_kv kv.
Proof. unfold wf_kvb, wf_kv. rewrite andb_true_iff, !N.ltb_lt. reflexivity. Qed.
Lemma wf_kvsb_iff m : wf_kvsb m = true <-> wf_kvs m.
Proof.
  unfold wf_kvsb, wf_kvs.
  rewrite andb_true_iff, keys_nodupb_iff, (forallb_Forall_iff _ _ _ wf_kvb_iff). reflexivity.
Qed.
Lemma wf_mi_entryb_iff e : wf_mi_entryb e = true <-> wf_mi_entry e.
Proof. unfold wf_mi_entryb, wf_mi_entry. rewrite andb_true_iff, !N.ltb_lt. reflexivity. Qed.
Lemma wf_nnb_iff e : wf_nnb e = true <-> wf_nn e.
Proof. unfold wf_nnb, wf_nn. rewrite andb_true_iff, !N.ltb_lt. reflexivity. Qed.

Definition wf_headerb (h : header) : bool :=
  (blen (h_profile h) <? two32) && (blen (h_library h) <? two32).
Definition wf_footerb (f : footer) : bool :=
  (f_summary_start f <? two64) && (f_summary_offset_start f <? two64) && (f_crc f <? two32).
Definition wf_schemab (s : schema) : bool :=
  (s_id s <? two16) && (blen (s_name s) <? two32) && (blen (s_encoding s) <? two32)
  && (blen (s_data s) <? two32).
Definition wf_channelb (c : channel) : bool :=
  (c_id c <? two16) && (c_schema c <? two16) && (blen (c_topic c) <? two32)
  && (blen (c_menc c) <? two32) && wf_kvsb (c_meta c)
  && (N.of_nat (length (enc_channel c)) <? two32).
Definition wf_messageb (m : message) : bool :=
  (m_chan m <? two16) && (m_seq m <? two32) && (m_log m <? two64) && (m_pub m <? two64).
Definition wf_chunkb (k : chunk) : bool :=
  (k_start k <? two64) && (k_end k <? two64) && (k_usize k <? two64) && (k_crc k <? two32)
  && (blen (k_comp k) <? two32) && (blen (k_records k) <? two64).
Definition wf_msgindexb (mi : msgindex) : bool :=
  (mi_chan mi <? two16) && forallb wf_mi_entryb (mi_entries mi)
  && (6 + 16 * N.of_nat (length (mi_entries mi)) <? two32).
Definition wf_chunkindexb (ci : chunkindex) : bool :=
  (ci_start ci <? two64) && (ci_end ci <? two64) && (ci_offset ci <? two64)
  && (ci_length ci <? two64) && forallb wf_nnb (ci_mioffsets ci)
  && (10 * N.of_nat (length (ci_mioffsets ci)) <? two32)
  && (ci_milength ci <? two64) && (blen (ci_comp ci) <? two32)
  && (ci_csize ci <? two64) && (ci_usize ci <? two64).
Definition wf_attindexb (ai : attindex) : bool :=
  (ai_offset ai <? two64) && (ai_length ai <? two64) && (ai_log ai <? two64)
  && (ai_create ai <? two64) && (ai_size ai <? two64) && (blen (ai_name ai) <? two32)
  && (blen (ai_media ai) <? two32).
Definition wf_statisticsb (s : statistics) : bool :=
  (st_messages s <? two64) && (st_schemas s <? two16) && (st_channels s <? two32)
  && (st_attachments s <? two32) && (st_metadata s <? two32) && (st_chunks s <? two32)
  && (st_start s <? two64) && (st_end s <? two64)
  && forallb wf_nnb (st_counts s) && (10 * N.of_nat (length (st_counts s)) <? two32).
Definition wf_metadatab (m : metadata) : bool :=
  (blen (md_name m) <? two32) && wf_kvsb (md_meta m)
  && (N.of_nat (length (enc_metadata m)) <? two32).
Definition wf_mdindexb (x : mdindex) : bool :=
  (mx_offset x <? two64) && (mx_length x <? two64) && (blen (mx_name x) <? two32).
Definition wf_sumoffsetb (s : sumoffset) : bool := (so_start s <? two64) && (so_length s <? two64).
Definition wf_dataendb (d : dataend) : bool := de_crc d <? two32.

Ltac reflect_wf :=
  rewrite ?andb_true_iff, ?N.ltb_lt, ?wf_kvsb_iff,
          ?(forallb_Forall_iff _ _ _ wf_mi_entryb_iff), ?(forallb_Forall_iff _ _ _ wf_nnb_iff);
  tauto.

Lemma wf_headerb_iff h : wf_headerb h = true <-> wf_header h.
Proof. unfold wf_headerb, wf_header. reflect_wf. Qed.
Lemma wf_footerb_iff f : wf_footerb f = true <-> wf_footer f.
Proof. unfold wf_footerb, wf_footer. reflect_wf. Qed.
Lemma wf_schemab_iff s : wf_schemab s = true <-> wf_schema s.
Proof. unfold wf_schemab, wf_schema. reflect_wf. Qed.
Lemma wf_channelb_iff c : wf_channelb c = true <-> wf_channel c.
Proof. unfold wf_channelb, wf_channel. reflect_wf. Qed.
Lemma wf_messageb_iff m : wf_messageb m = true <-> wf_message m.
Proof. unfold wf_messageb, wf_message. reflect_wf. Qed.
Lemma wf_chunkb_iff k : wf_chunkb k = true <-> wf_chunk k.
Proof. unfold wf_chunkb, wf_chunk. reflect_wf. Qed.
Lemma wf_msgindexb_iff mi : wf_msgindexb mi = true <-> wf_msgindex mi.
Proof. unfold wf_msgindexb, wf_msgindex. reflect_wf. Qed.
Lemma wf_chunkindexb_iff ci : wf_chunkindexb ci = true <-> wf_chunkindex ci.
Proof. unfold wf_chunkindexb, wf_chunkindex. reflect_wf. Qed.
Lemma wf_attindexb_iff ai : wf_attindexb ai = true <-> wf_attindex ai.
Proof. unfold wf_attindexb, wf_attindex. reflect_wf. Qed.
Lemma wf_statisticsb_iff s : wf_statisticsb s = true <-> wf_statistics s.
Proof. unfold wf_statisticsb, wf_statistics. reflect_wf. Qed.
Lemma wf_metadatab_iff m : wf_metadatab m = true <-> wf_metadata m.
Proof. unfold wf_metadatab, wf_metadata. reflect_wf. Qed.
Lemma wf_mdindexb_iff x : wf_mdindexb x = true <-> wf_mdindex x.
Proof. unfold wf_mdindexb, wf_mdindex. reflect_wf. Qed.
Lemma wf_sumoffsetb_iff s : wf_sumoffsetb s = true <-> wf_sumoffset s.
Proof. unfold wf_sumoffsetb, wf_sumoffset. reflect_wf. Qed.
Lemma wf_dataendb_iff d : wf_dataendb d = true <-> wf_dataend d.
Proof. unfold wf_dataendb, wf_dataend. reflect_wf. Qed.

(* ====================================================================== *)
(** * 10. non-vacuity: concrete instances of every hypothesis, and computed sanity checks *)

(* keys in insertion order "\xe2\x82\xac" (non-ASCII), "" (empty), "a": sorted order is "", "a", "\xe2\x82\xac" *)
Definition ex_kvs : kvs :=
  [ ([xe2; x82; xac], [x01; xff]); ([], [xff; x00]); ([x61], []) ].
Definition ex_pad : bytes := [xde; xad; xbe; xef; x00].

Definition ex_header : header := {| h_profile := [xe2; x82; xac; x00]; h_library := [] |}.
Definition ex_footer : footer :=
  {| f_summary_start := 18446744073709551615; f_summary_offset_start := 0; f_crc := 4294967295 |}.
Definition ex_schema : schema :=
  {| s_id := 65535; s_name := [xc3; xa9]; s_encoding := []; s_data := [x00; xff; x80] |}.
Definition ex_channel : channel :=
  {| c_id := 513; c_schema := 0; c_topic := [x2f; xe2; x82; xac]; c_menc := []; c_meta := ex_kvs |}.
Definition ex_message : message :=
  {| m_chan := 513; m_seq := 4294967295; m_log := 18446744073709551615; m_pub := 1;
     m_data := [x00; xff; x80] |}.
Definition ex_chunk : chunk :=
  {| k_start := 1; k_end := 18446744073709551615; k_usize := 3; k_crc := 4294967295;
     k_comp := []; k_records := [x05; x00; xff] |}.
Definition ex_msgindex : msgindex :=
  {| mi_chan := 65535; mi_entries := [(5, 0); (5, 18446744073709551615); (3, 7)] |}.
(* offsets in channel registration order 7, 2, 65535: not sorted *)
Definition ex_nn : list (N * N) := [(7, 100); (2, 18446744073709551615); (65535, 0)].
Definition ex_nn_sorted : list (N * N) := [(2, 18446744073709551615); (7, 100); (65535, 0)].
Definition ex_chunkindex : chunkindex :=
  {| ci_start := 1; ci_end := 2; ci_offset := 18446744073709551615; ci_length := 4;
     ci_mioffsets := ex_nn; ci_milength := 66; ci_comp := [x7a; x73; x74; x64];
     ci_csize := 5; ci_usize := 6 |}.
Definition ex_chunkindex_sorted : chunkindex :=
  {| ci_start := 1; ci_end := 2; ci_offset := 18446744073709551615; ci_length := 4;
     ci_mioffsets := ex_nn_sorted; ci_milength := 66; ci_comp := [];
     ci_csize := 5; ci_usize := 6 |}.
Definition ex_attindex : attindex :=
  {| ai_offset := 1; ai_length := 2; ai_log := 3; ai_create := 18446744073709551615; ai_size := 5;
     ai_name := [xe2; x82; xac]; ai_media := [] |}.
Definition ex_statistics : statistics :=
  {| st_messages := 18446744073709551615; st_schemas := 65535; st_channels := 4294967295;
     st_attachments := 1; st_metadata := 2; st_chunks := 3; st_start := 4; st_end := 5;
     st_counts := ex_nn |}.
Definition ex_statistics_sorted : statistics :=
  {| st_messages := 9; st_schemas := 1; st_channels := 3; st_attachments := 0; st_metadata := 0;
     st_chunks := 1; st_start := 4; st_end := 5; st_counts := ex_nn_sorted |}.
Definition ex_metadata : metadata := {| md_name := []; md_meta := ex_kvs |}.
Definition ex_mdindex : mdindex :=
  {| mx_offset := 18446744073709551615; mx_length := 0; mx_name := [xe2; x82; xac] |}.
Definition ex_sumoffset : sumoffset :=
  {| so_op := xff; so_start := 18446744073709551615; so_length := 1 |}.
Definition ex_dataend : dataend := {| de_crc := 4294967295 |}.

Example wf_header_ex : wf_header ex_header.
Proof. apply wf_headerb_iff. vm_compute. reflexivity. Qed.
Example wf_footer_ex : wf_footer ex_footer.
Proof. apply wf_footerb_iff. vm_compute. reflexivity. Qed.
Example wf_schema_ex : wf_schema ex_schema.
Proof. apply wf_schemab_iff. vm_compute. reflexivity. Qed.
Example wf_kvs_ex : wf_kvs ex_kvs.
Proof. apply wf_kvsb_iff. vm_compute. reflexivity. Qed.
Example wf_channel_ex : wf_channel ex_channel.
Proof. apply wf_channelb_iff. vm_compute. reflexivity. Qed.
Example wf_message_ex : wf_message ex_message.
Proof. apply wf_messageb_iff. vm_compute. reflexivity. Qed.
Example wf_chunk_ex : wf_chunk ex_chunk.
Proof. apply wf_chunkb_iff. vm_compute. reflexivity. Qed.
Example wf_msgindex_ex : wf_msgindex ex_msgindex.
Proof. apply wf_msgindexb_iff. vm_compute. reflexivity. Qed.
Example wf_chunkindex_ex : wf_chunkindex ex_chunkindex /\ NoDup (map fst (ci_mioffsets ex_chunkindex)).
Proof.
  split; [apply wf_chunkindexb_iff; vm_compute; reflexivity|].
  cbn. repeat constructor; cbn; intuition discriminate.
Qed.
Example ex_nn_sorted_sorted : StronglySorted nlt ex_nn_sorted.
Proof. repeat constructor. Qed.
Example wf_chunkindex_sorted_ex :
  wf_chunkindex ex_chunkindex_sorted /\ StronglySorted nlt (ci_mioffsets ex_chunkindex_sorted).
Proof. split; [apply wf_chunkindexb_iff; vm_compute; reflexivity | exact ex_nn_sorted_sorted]. Qed.
Example wf_attindex_ex : wf_attindex ex_attindex.
Proof. apply wf_attindexb_iff. vm_compute. reflexivity. Qed.
Example wf_statistics_ex : wf_statistics ex_statistics /\ NoDup (map fst (st_counts ex_statistics)).
Proof.
  split; [apply wf_statisticsb_iff; vm_compute; reflexivity|].
  cbn. repeat constructor; cbn; intuition discriminate.
Qed.
Example wf_statistics_sorted_ex :
  wf_statistics ex_statistics_sorted /\ StronglySorted nlt (st_counts ex_statistics_sorted).
Proof. split; [apply wf_statisticsb_iff; vm_compute; reflexivity | exact ex_nn_sorted_sorted]. Qed.
Example wf_metadata_ex : wf_metadata ex_metadata.
Proof. apply wf_metadatab_iff. vm_compute. reflexivity. Qed.
Example wf_mdindex_ex : wf_mdindex ex_mdindex.
Proof. apply wf_mdindexb_iff. vm_compute. reflexivity. Qed.
Example wf_sumoffset_ex : wf_sumoffset ex_sumoffset.
Proof. apply wf_sumoffsetb_iff. vm_compute. reflexivity. Qed.
Example wf_dataend_ex : wf_dataend ex_dataend.
Proof. apply wf_dataendb_iff. vm_compute. reflexivity. Qed.

(* hypotheses of the helper lemmas *)
Example get_map_step_ex :
  skipn 2 ([x00; x01] ++ enc_map ex_kvs ++ ex_pad) = enc_map ex_kvs ++ ex_pad
  /\ wf_kvs ex_kvs /\ N.of_nat (2 + 4 + length (enc_kvs_body (kv_sort ex_kvs))) < two32.
Proof. split; [reflexivity|]. split; [exact wf_kvs_ex | vm_compute; reflexivity]. Qed.
Example get_pstr_step_ex :
  skipn 1 ([x00] ++ pstr [xe2; x82] ++ ex_pad) = pstr [xe2; x82] ++ ex_pad /\ blen [xe2; x82] < two32.
Proof. split; reflexivity. Qed.
Example unle_frame_len_ex : blen (enc_header ex_header) < two64.
Proof. vm_compute. reflexivity. Qed.

(* direct computation, independent of the theorems *)
Example kv_sort_ex : kv_sort ex_kvs = [ ([], [xff; x00]); ([x61], []); ([xe2; x82; xac], [x01; xff]) ].
Proof. vm_compute. reflexivity. Qed.
Example nn_build_ex : nn_build ex_nn = ex_nn_sorted.
Proof. vm_compute. reflexivity. Qed.
Example run_header : parse_header (enc_header ex_header ++ ex_pad) = Ok ex_header.
Proof. vm_compute. reflexivity. Qed.
Example run_footer : parse_footer (enc_footer ex_footer ++ ex_pad) = Ok ex_footer.
Proof. vm_compute. reflexivity. Qed.
Example run_schema : parse_schema (enc_schema ex_schema ++ ex_pad) = Ok ex_schema.
Proof. vm_compute. reflexivity. Qed.
Example run_channel : parse_channel (enc_channel ex_channel ++ ex_pad) = Ok (channel_norm ex_channel).
Proof. vm_compute. reflexivity. Qed.
Example run_message : parse_message (enc_message ex_message) = Ok ex_message.
Proof. vm_compute. reflexivity. Qed.
Example run_chunk : parse_chunk (enc_chunk ex_chunk ++ ex_pad) = Ok ex_chunk.
Proof. vm_compute. reflexivity. Qed.
Example run_msgindex : parse_msgindex (enc_msgindex ex_msgindex ++ ex_pad) = Ok ex_msgindex.
Proof. vm_compute. reflexivity. Qed.
Example run_chunkindex :
  parse_chunkindex (enc_chunkindex ex_chunkindex ++ ex_pad) = Ok (chunkindex_norm ex_chunkindex).
Proof. vm_compute. reflexivity. Qed.
Example run_attindex : parse_attindex (enc_attindex ex_attindex ++ ex_pad) = Ok ex_attindex.
Proof. vm_compute. reflexivity. Qed.
Example run_statistics :
  parse_statistics (enc_statistics ex_statistics ++ ex_pad) = Ok (statistics_norm ex_statistics).
Proof. vm_compute. reflexivity. Qed.
Example run_metadata : parse_metadata (enc_metadata ex_metadata ++ ex_pad) = Ok (metadata_norm ex_metadata).
Proof. vm_compute. reflexivity. Qed.
Example run_mdindex : parse_mdindex (enc_mdindex ex_mdindex ++ ex_pad) = Ok ex_mdindex.
Proof. vm_compute. reflexivity. Qed.
Example run_sumoffset : parse_sumoffset (enc_sumoffset ex_sumoffset ++ ex_pad) = Ok ex_sumoffset.
Proof. vm_compute. reflexivity. Qed.
Example run_dataend : parse_dataend (enc_dataend ex_dataend ++ ex_pad) = Ok ex_dataend.
Proof. vm_compute. reflexivity. Qed.
Example run_frame :
  get_u64 (frame OpHeader (enc_header ex_header) ++ ex_pad) 1 = Ok (12, 9%nat)
  /\ sub (frame OpHeader (enc_header ex_header) ++ ex_pad) 9 12 = enc_header ex_header.
Proof. split; vm_compute; reflexivity. Qed.

(** ** statements that are FALSE of the model (counterexamples) *)

(* (a) "parse_message (enc_message m ++ pad) = Ok m": the data field absorbs the padding *)
Example message_pad_counterexample :
  wf_message ex_message /\
  parse_message (enc_message ex_message ++ [x00])
  = Ok {| m_chan := 513; m_seq := 4294967295; m_log := 18446744073709551615; m_pub := 1;
          m_data := [x00; xff; x80; x00] |}
  /\ parse_message (enc_message ex_message ++ [x00]) <> Ok ex_message.
Proof. split; [exact wf_message_ex|]. split; [vm_compute; reflexivity | vm_compute; discriminate]. Qed.

(* (b) "parse_channel (enc_channel c ++ pad) = Ok c" without sorting the metadata *)
Example channel_unsorted_counterexample :
  wf_channel ex_channel /\ parse_channel (enc_channel ex_channel ++ ex_pad) <> Ok ex_channel.
Proof. split; [exact wf_channel_ex | vm_compute; discriminate]. Qed.

(* (c) duplicate map keys (cannot come from a Go map): the writer model keeps both entries,
       the reader keeps the last one, so NoDup is necessary for "= kv_sort m" *)
Definition ex_dup_kvs : kvs := [([x61], [x31]); ([x61], [x32])].
Example dup_keys_counterexample :
  parse_metadata (enc_metadata {| md_name := []; md_meta := ex_dup_kvs |})
  = Ok {| md_name := []; md_meta := [([x61], [x32])] |}
  /\ kv_sort ex_dup_kvs = ex_dup_kvs.
Proof. split; vm_compute; reflexivity. Qed.

(* (d) "parse_statistics (enc_statistics st ++ pad) = Ok st" for counts in registration order,
       and with a duplicated channel id the reader keeps the last value (nn_get gives the first) *)
Example statistics_unsorted_counterexample :
  wf_statistics ex_statistics /\
  parse_statistics (enc_statistics ex_statistics ++ ex_pad) <> Ok ex_statistics.
Proof. split; [exact (proj1 wf_statistics_ex) | vm_compute; discriminate]. Qed.
Example nn_dup_counterexample :
  nn_get 7 (nn_build [(7, 1); (7, 2)]) = Some 2 /\ nn_get 7 [(7, 1); (7, 2)] = Some 1.
Proof. split; reflexivity. Qed.

(* (e) truncating integer fields: a field >= 2^width does not round-trip (why the bounds are needed) *)
Example width_counterexample :
  parse_dataend (enc_dataend {| de_crc := 4294967296 |}) = Ok {| de_crc := 0 |}.
Proof. vm_compute. reflexivity. Qed.

Eval vm_compute in parse_channel (enc_channel ex_channel ++ ex_pad).
Eval vm_compute in parse_statistics (enc_statistics ex_statistics ++ ex_pad).
Eval vm_compute in parse_message (enc_message ex_message ++ [x00]).
Eval vm_compute in (length (enc_channel ex_channel), enc_map ex_kvs).

(* (f) why the bound on the map must be strict: when the map ends exactly at offset 2^32 of
       the record body, Go's `uint32(offset+inset) < uint32(offset)+maplen` compares against 0,
       the loop body never runs and a non-empty map is read as empty (no error). *)
Lemma get_map_loop_wrap_exits f buf off1 maplen :
  N.of_nat off1 < two32 -> N.of_nat off1 + maplen = two32 ->
  get_map_loop (S f) buf off1 0 maplen [] = Ok ([], (off1 + 0)%nat).
Proof.
  intros H1 H2. cbn [get_map_loop].
  rewrite (N.mod_small (N.of_nat off1)) by exact H1. rewrite H2, N.mod_same by discriminate.
  destruct (N.ltb_spec (N.of_nat (off1 + 0) mod two32) 0); [lia | reflexivity].
Qed.
Example get_map_loop_wrap_exits_ex : N.of_nat 12 < two32 /\ N.of_nat 12 + 4294967284 = two32.
Proof. split; reflexivity. Qed.

(* the theorems applied to the concrete instances *)
Example use_parse_enc_channel :
  parse_channel (enc_channel ex_channel ++ ex_pad) = Ok (channel_norm ex_channel).
Proof. exact (parse_enc_channel _ _ wf_channel_ex). Qed.
Example use_parse_enc_statistics_sorted :
  parse_statistics (enc_statistics ex_statistics_sorted ++ ex_pad) = Ok ex_statistics_sorted.
Proof. exact (parse_enc_statistics_sorted _ _ (proj1 wf_statistics_sorted_ex) (proj2 wf_statistics_sorted_ex)). Qed.
Example use_parse_enc_chunkindex_sorted :
  parse_chunkindex (enc_chunkindex ex_chunkindex_sorted ++ ex_pad) = Ok ex_chunkindex_sorted.
Proof. exact (parse_enc_chunkindex_sorted _ _ (proj1 wf_chunkindex_sorted_ex) (proj2 wf_chunkindex_sorted_ex)). Qed.

(* ====================================================================== *)
(** * 11. kv_set versus kv_insert (general position, not only "append at the end") *)

(* Go map assignment of a fresh key on the sorted association list = sorted insertion *)
Lemma kv_set_insert k v l : ~ In k (map fst l) -> kv_set k v l = kv_insert (k, v) l.
Proof.
  induction l as [|x r IH]; cbn [kv_set kv_insert map fst]; intro H; [reflexivity|].
  destruct (bytes_eqb (fst x) k) eqn:E.
  - exfalso. apply H. left. apply bytes_eqb_eq, E.
  - destruct (bytes_ltb k (fst x)) eqn:L.
    + rewrite (bytes_ltb_asym _ _ L). reflexivity.
    + destruct (bytes_ltb (fst x) k) eqn:L'.
      * f_equal. apply IH. intro; apply H; right; assumption.
      * exfalso. apply H. left. apply bytes_ltb_total; assumption.
Qed.

Lemma kv_build_from_insert l : forall acc,
  NoDup (map fst (acc ++ l)) ->
  kv_build_from acc l = fold_left (fun a kv => kv_insert kv a) l acc.
Proof.
  unfold kv_build_from.
  induction l as [|[k v] l IH]; intros acc ND; cbn [fold_left fst snd]; [reflexivity|].
  assert (Hk : ~ In k (map fst acc)).
  { rewrite map_app in ND. cbn [map fst] in ND. apply NoDup_remove_2 in ND.
    intro; apply ND, in_or_app; left; assumption. }
  rewrite kv_set_insert by exact Hk. apply IH.
  eapply Permutation_NoDup; [|exact ND]. apply Permutation_map.
  rewrite <- Permutation_middle, app_comm_cons. apply Permutation_app_tail, kv_insert_perm.
Qed.

(* for distinct keys, replaying the assignments in any order is insertion sort *)
Theorem kv_build_rev l : NoDup (map fst l) -> kv_build l = kv_sort (rev l).
Proof.
  intro ND. unfold kv_build. rewrite kv_build_from_insert by exact ND.
  unfold kv_sort. symmetry. apply (fold_left_rev_right kv_insert).
Qed.
Example kv_build_rev_ex : NoDup (map fst ex_kvs) /\ kv_build ex_kvs = kv_sort ex_kvs.
Proof. split; [exact (proj1 wf_kvs_ex) | vm_compute; reflexivity]. Qed.
