(* RecordsFacts.v - decode (encode x ++ pad) = x for every record kind of Records.v,
   framing lemmas, and the facts about sorted association lists (kv_sort / kv_set / nn_set)
   that the reader proofs need. *)
From Coq Require Import List NArith ZArith Lia ZifyN ZifyNat ZifyBool Bool Permutation Sorted.
From Coq.Strings Require Import Byte.
From Mcap Require Import Bytes BytesFacts GoSem Records.
Import ListNotations.
Open Scope N_scope.
Open Scope go_scope.
Ltac Zify.zify_post_hook ::= Z.div_mod_to_equations.

(* ====================================================================== *)
(** * 1. skipn / firstn plumbing *)

Lemma skipn_add {A} (a b : nat) (l : list A) : skipn (a + b) l = skipn b (skipn a l).
Proof.
  revert l. induction a as [|a IH]; intro l; [reflexivity|].
  destruct l as [|x l]; cbn [Nat.add skipn]; [now rewrite skipn_nil | apply IH].
Qed.

Lemma skipn_length_sub {A} off (buf l : list A) :
  skipn off buf = l -> (length buf - off = length l)%nat.
Proof. intros <-. symmetry. apply skipn_length. Qed.

Lemma sub_app_mid (pre x post : bytes) : sub (pre ++ x ++ post) (length pre) (length x) = x.
Proof. unfold sub. rewrite skipn_app_exact. apply firstn_app_exact. Qed.

Lemma skipn_app_mid {A} (pre x post : list A) :
  skipn (length pre + length x) (pre ++ x ++ post) = post.
Proof. rewrite skipn_add, skipn_app_exact. apply skipn_app_exact. Qed.

Lemma skipn_pre {A} (pre rest : list A) : skipn (length pre) (pre ++ rest) = rest.
Proof. apply skipn_app_exact. Qed.

(* ====================================================================== *)
(** * 2. primitive readers, "cursor" form

   Every lemma has the shape
     skipn off buf = <encoding> ++ post  ->  <bounds>  ->
       reader buf off = Ok (value, off')  /\  skipn off' buf = post
   so that a parser can be run field by field without re-associating the buffer. *)

Lemma get_u_step n buf off x post :
  skipn off buf = le n x ++ post -> (0 < n)%nat ->
  get_u n buf off = Ok (x mod 2 ^ (8 * N.of_nat n), (off + n)%nat)
  /\ skipn (off + n) buf = post.
Proof.
  intros H Hn.
  pose proof (skipn_length_sub _ _ _ H) as L. rewrite app_length, le_length in L.
  split.
  - unfold get_u, sub. rewrite H.
    destruct (Nat.ltb_spec (length buf) (off + n)); [lia|].
    rewrite firstn_app_exact' by (symmetry; apply le_length).
    rewrite unle_le. reflexivity.
  - rewrite skipn_add, H. apply skipn_app_exact'. symmetry; apply le_length.
Qed.

Lemma get_u16_step buf off x post :
  skipn off buf = u16 x ++ post -> x < two16 ->
  get_u16 buf off = Ok (x, (off + 2)%nat) /\ skipn (off + 2) buf = post.
Proof.
  intros H Hx. destruct (get_u_step 2 buf off x post H) as [E S]; [lia|].
  split; [|exact S]. unfold get_u16. rewrite E.
  change (2 ^ (8 * N.of_nat 2)) with two16. rewrite N.mod_small by exact Hx. reflexivity.
Qed.

Lemma get_u32_step buf off x post :
  skipn off buf = u32 x ++ post -> x < two32 ->
  get_u32 buf off = Ok (x, (off + 4)%nat) /\ skipn (off + 4) buf = post.
Proof.
  intros H Hx. destruct (get_u_step 4 buf off x post H) as [E S]; [lia|].
  split; [|exact S]. unfold get_u32. rewrite E.
  change (2 ^ (8 * N.of_nat 4)) with two32. rewrite N.mod_small by exact Hx. reflexivity.
Qed.

Lemma get_u64_step buf off x post :
  skipn off buf = u64 x ++ post -> x < two64 ->
  get_u64 buf off = Ok (x, (off + 8)%nat) /\ skipn (off + 8) buf = post.
Proof.
  intros H Hx. destruct (get_u_step 8 buf off x post H) as [E S]; [lia|].
  split; [|exact S]. unfold get_u64. rewrite E.
  change (2 ^ (8 * N.of_nat 8)) with two64. rewrite N.mod_small by exact Hx. reflexivity.
Qed.

(* the "pre ++ enc ++ post" presentation asked for by the callers *)
Lemma get_u_app n pre x post :
  (0 < n)%nat ->
  get_u n (pre ++ le n x ++ post) (length pre)
  = Ok (x mod 2 ^ (8 * N.of_nat n), (length pre + n)%nat).
Proof. intro Hn. apply (get_u_step n _ _ x post); [apply skipn_pre | exact Hn]. Qed.

Lemma get_pstr_step buf off s post :
  skipn off buf = pstr s ++ post -> blen s < two32 ->
  get_pstr buf off = Ok (s, (off + 4 + length s)%nat)
  /\ skipn (off + 4 + length s) buf = post.
Proof.
  intros H Hs.
  pose proof (skipn_length_sub _ _ _ H) as L. rewrite app_length, pstr_length in L.
  unfold pstr in H. rewrite <- app_assoc in H.
  assert (H4 : skipn (off + 4) buf = s ++ post).
  { rewrite skipn_add, H. apply skipn_app_exact'. symmetry; apply u32_length. }
  split.
  - unfold get_pstr, sub. cbv zeta.
    destruct (Nat.ltb_spec (length buf) off); [lia|].
    destruct (Nat.ltb_spec (length buf - off) 4); [lia|].
    rewrite H, firstn_app_exact' by (symmetry; apply u32_length).
    rewrite unle_u32 by assumption. unfold blen. rewrite Nat2N.id.
    destruct (Nat.ltb_spec (length buf - (off + 4)) (length s)); [lia|].
    rewrite H4, firstn_app_exact. reflexivity.
  - rewrite skipn_add, H4. apply skipn_app_exact.
Qed.

Lemma get_pstr_app pre s post :
  blen s < two32 ->
  get_pstr (pre ++ pstr s ++ post) (length pre) = Ok (s, (length pre + 4 + length s)%nat).
Proof. intro Hs. apply (get_pstr_step _ _ s post); [apply skipn_pre | exact Hs]. Qed.

(* ====================================================================== *)
(** * 3. sorted association lists *)

(** ** 3a. string-keyed maps: kv_sort, kv_set *)

Definition kle (a b : bytes * bytes) : Prop := bytes_ltb (fst b) (fst a) = false.
Definition klt (a b : bytes * bytes) : Prop := bytes_ltb (fst a) (fst b) = true.

Lemma klt_trans a b c : klt a b -> klt b c -> klt a c.
Proof. unfold klt. apply bytes_ltb_trans. Qed.

Lemma kv_insert_perm kv l : Permutation (kv :: l) (kv_insert kv l).
Proof.
  induction l as [|x r IH]; cbn [kv_insert]; [reflexivity|].
  destruct (bytes_ltb (fst x) (fst kv)); [|reflexivity].
  rewrite perm_swap. apply perm_skip, IH.
Qed.

Theorem kv_sort_perm l : Permutation l (kv_sort l).
Proof.
  induction l as [|x r IH]; cbn [kv_sort fold_right]; [reflexivity|].
  rewrite <- kv_insert_perm. apply perm_skip, IH.
Qed.

Lemma kv_sort_length l : length (kv_sort l) = length l.
Proof. symmetry. apply Permutation_length, kv_sort_perm. Qed.

Lemma kv_insert_hdrel x kv r : HdRel kle x r -> kle x kv -> HdRel kle x (kv_insert kv r).
Proof.
  intros H Hk. destruct r as [|y r]; cbn [kv_insert]; [constructor; exact Hk|].
  destruct (bytes_ltb (fst y) (fst kv)); constructor; [inversion H; assumption | exact Hk].
Qed.

Lemma kv_insert_sorted kv l : Sorted kle l -> Sorted kle (kv_insert kv l).
Proof.
  induction 1 as [|x r HS IH HR]; cbn [kv_insert]; [repeat constructor|].
  destruct (bytes_ltb (fst x) (fst kv)) eqn:E.
  - constructor; [exact IH|]. apply kv_insert_hdrel; [exact HR|].
    unfold kle. apply bytes_ltb_asym, E.
  - constructor; [constructor; assumption|]. constructor. exact E.
Qed.

(* sorted (non-strictly) whatever the input *)
Theorem kv_sort_sorted_le l : Sorted kle (kv_sort l).
Proof.
  induction l as [|x r IH]; cbn [kv_sort fold_right]; [constructor|].
  apply kv_insert_sorted, IH.
Qed.

Lemma sorted_kle_klt l : Sorted kle l -> NoDup (map fst l) -> Sorted klt l.
Proof.
  induction 1 as [|a l HS IH HR]; intro ND; [constructor|].
  cbn [map] in ND. inversion ND as [|? ? Hnin ND']; subst.
  constructor; [apply IH, ND'|].
  destruct HR as [|b l Hab]; constructor.
  unfold klt. destruct (bytes_ltb (fst a) (fst b)) eqn:E; [reflexivity|].
  exfalso. apply Hnin. cbn [map]. left. symmetry. apply bytes_ltb_total; assumption.
Qed.

Lemma kv_sort_nodup l : NoDup (map fst l) -> NoDup (map fst (kv_sort l)).
Proof. apply Permutation_NoDup, Permutation_map, kv_sort_perm. Qed.

(* strictly sorted by bytes_ltb when the keys are distinct *)
Theorem kv_sort_sorted l : NoDup (map fst l) -> StronglySorted klt (kv_sort l).
Proof.
  intro ND. apply Sorted_StronglySorted; [exact klt_trans|].
  apply sorted_kle_klt; [apply kv_sort_sorted_le | apply kv_sort_nodup, ND].
Qed.

Lemma kv_set_snoc k v acc :
  Forall (fun x => klt x (k, v)) acc -> kv_set k v acc = acc ++ [(k, v)].
Proof.
  induction 1 as [|x r Hx HF IH]; cbn [kv_set app]; [reflexivity|].
  unfold klt in Hx. cbn [fst] in Hx.
  destruct (bytes_eqb (fst x) k) eqn:E.
  - apply bytes_eqb_eq in E. rewrite E, bytes_ltb_irrefl in Hx. discriminate.
  - rewrite (bytes_ltb_asym _ _ Hx). f_equal. exact IH.
Qed.

Lemma StronglySorted_app_mid {A} (R : A -> A -> Prop) l1 x l2 :
  StronglySorted R (l1 ++ x :: l2) -> Forall (fun y => R y x) l1.
Proof.
  induction l1 as [|y l1 IH]; cbn [app]; intro H; [constructor|].
  inversion H as [|? ? HS HF]; subst. constructor; [|apply IH, HS].
  rewrite Forall_forall in HF. apply HF, in_elt.
Qed.

Definition kv_build_from (acc l : kvs) : kvs :=
  fold_left (fun a kv => kv_set (fst kv) (snd kv) a) l acc.
Definition kv_build (l : kvs) : kvs := kv_build_from [] l.

Lemma kv_build_from_sorted l : forall acc,
  StronglySorted klt (acc ++ l) -> kv_build_from acc l = acc ++ l.
Proof.
  unfold kv_build_from.
  induction l as [|[k v] l IH]; intros acc H; cbn [fold_left fst snd]; [now rewrite app_nil_r|].
  rewrite kv_set_snoc by (apply (StronglySorted_app_mid _ _ _ _ H)).
  rewrite IH; rewrite <- app_assoc; [reflexivity | exact H].
Qed.

(* folding Go map assignment over a strictly sorted list rebuilds the list *)
Theorem kv_build_sorted l : StronglySorted klt l -> kv_build l = l.
Proof. intro H. apply (kv_build_from_sorted l []). exact H. Qed.

Theorem kv_build_kv_sort m : NoDup (map fst m) -> kv_build (kv_sort m) = kv_sort m.
Proof. intro ND. apply kv_build_sorted, kv_sort_sorted, ND. Qed.

(** ** 3b. uint16 -> uint64 maps: nn_set, nn_get *)

Definition nlt (a b : N * N) : Prop := fst a < fst b.

Lemma nn_set_snoc k v acc :
  Forall (fun x => nlt x (k, v)) acc -> nn_set k v acc = acc ++ [(k, v)].
Proof.
  induction 1 as [|x r Hx HF IH]; cbn [nn_set app]; [reflexivity|].
  unfold nlt in Hx. cbn [fst] in Hx.
  destruct (N.eqb_spec (fst x) k); [lia|].
  destruct (N.ltb_spec k (fst x)); [lia|]. f_equal. exact IH.
Qed.

Definition nn_build_from (acc l : list (N * N)) : list (N * N) :=
  fold_left (fun a kv => nn_set (fst kv) (snd kv) a) l acc.
Definition nn_build (l : list (N * N)) : list (N * N) := nn_build_from [] l.

Lemma nn_build_from_sorted l : forall acc,
  StronglySorted nlt (acc ++ l) -> nn_build_from acc l = acc ++ l.
Proof.
  unfold nn_build_from.
  induction l as [|[k v] l IH]; intros acc H; cbn [fold_left fst snd]; [now rewrite app_nil_r|].
  rewrite nn_set_snoc by (apply (StronglySorted_app_mid _ _ _ _ H)).
  rewrite IH; rewrite <- app_assoc; [reflexivity | exact H].
Qed.

Theorem nn_build_sorted l : StronglySorted nlt l -> nn_build l = l.
Proof. intro H. apply (nn_build_from_sorted l []). exact H. Qed.

Lemma nn_get_set k k' v acc :
  nn_get k (nn_set k' v acc) = if k' =? k then Some v else nn_get k acc.
Proof.
  induction acc as [|x r IH]; cbn [nn_set nn_get fst snd]; [reflexivity|].
  destruct (N.eqb_spec (fst x) k') as [E|NE].
  - cbn [nn_get fst snd]. destruct (N.eqb_spec k' k); [reflexivity|].
    destruct (N.eqb_spec (fst x) k); [lia | reflexivity].
  - destruct (N.ltb_spec k' (fst x)); cbn [nn_get fst snd]; [reflexivity|].
    rewrite IH. destruct (N.eqb_spec k' k), (N.eqb_spec (fst x) k); try reflexivity; lia.
Qed.

Lemma nn_get_notin k l : ~ In k (map fst l) -> nn_get k l = None.
Proof.
  induction l as [|x r IH]; cbn [nn_get map]; intro H; [reflexivity|].
  destruct (N.eqb_spec (fst x) k) as [E|NE]; [exfalso; apply H; left; exact E|].
  apply IH. intro; apply H; right; assumption.
Qed.

Lemma nn_get_build_from k l : forall acc,
  NoDup (map fst l) ->
  nn_get k (nn_build_from acc l)
  = match nn_get k l with Some v => Some v | None => nn_get k acc end.
Proof.
  unfold nn_build_from.
  induction l as [|x l IH]; intros acc ND; cbn [fold_left nn_get map]; [reflexivity|].
  cbn [map] in ND. inversion ND as [|? ? Hnin ND']; subst.
  rewrite IH by exact ND'. rewrite nn_get_set.
  destruct (N.eqb_spec (fst x) k) as [E|NE].
  - rewrite nn_get_notin by (rewrite <- E; exact Hnin). reflexivity.
  - reflexivity.
Qed.

(* general form: whatever the order of [l], rebuilding it with nn_set keeps every lookup *)
Theorem nn_get_build k l : NoDup (map fst l) -> nn_get k (nn_build l) = nn_get k l.
Proof.
  intro ND. unfold nn_build. rewrite nn_get_build_from by exact ND.
  destruct (nn_get k l); reflexivity.
Qed.

Lemma nn_set_in y k v l : In y (nn_set k v l) -> y = (k, v) \/ In y l.
Proof.
  induction l as [|x r IH]; cbn [nn_set]; intro H.
  - destruct H as [H|[]]; left; symmetry; exact H.
  - destruct (fst x =? k).
    + destruct H as [H|H]; [left; symmetry; exact H | right; right; exact H].
    + destruct (k <? fst x).
      * destruct H as [H|H]; [left; symmetry; exact H | right; exact H].
      * destruct H as [H|H]; [right; left; exact H|].
        destruct (IH H) as [H'|H']; [left; exact H' | right; right; exact H'].
Qed.

Lemma nn_set_sorted k v l : StronglySorted nlt l -> StronglySorted nlt (nn_set k v l).
Proof.
  induction 1 as [|x r HS IH HF]; cbn [nn_set]; [repeat constructor|].
  rewrite Forall_forall in HF. unfold nlt in HF.
  destruct (N.eqb_spec (fst x) k) as [E|NE].
  - constructor; [exact HS|]. apply Forall_forall. intros y Hy. unfold nlt. cbn [fst].
    rewrite <- E. apply HF, Hy.
  - destruct (N.ltb_spec k (fst x)) as [L|L].
    + constructor; [constructor; [exact HS | apply Forall_forall; exact HF]|].
      apply Forall_forall. intros y [<-|Hy]; unfold nlt; cbn [fst]; [exact L|].
      specialize (HF y Hy). lia.
    + constructor; [exact IH|]. apply Forall_forall. intros y Hy. unfold nlt.
      destruct (nn_set_in _ _ _ _ Hy) as [->|Hy']; [cbn [fst]; lia | apply HF, Hy'].
Qed.

Lemma nn_build_from_sorted_out l : forall acc,
  StronglySorted nlt acc -> StronglySorted nlt (nn_build_from acc l).
Proof.
  unfold nn_build_from. induction l as [|x l IH]; intros acc H; cbn [fold_left]; [exact H|].
  apply IH, nn_set_sorted, H.
Qed.

(* whatever the input, the rebuilt list is strictly sorted by key (hence duplicate-free) *)
Theorem nn_build_sorted_out l : StronglySorted nlt (nn_build l).
Proof. apply nn_build_from_sorted_out. constructor. Qed.

(* ====================================================================== *)
(** * 4. getPrefixedMap *)

Definition wf_kv (kv : bytes * bytes) : Prop := blen (fst kv) < two32 /\ blen (snd kv) < two32.
Definition wf_kvs (m : kvs) : Prop := NoDup (map fst m) /\ Forall wf_kv m.

Lemma enc_kvs_body_cons kv l :
  enc_kvs_body (kv :: l) = pstr (fst kv) ++ pstr (snd kv) ++ enc_kvs_body l.
Proof. unfold enc_kvs_body. cbn [map concat]. unfold enc_kv. rewrite <- app_assoc. reflexivity. Qed.

Lemma enc_kvs_body_length_ge l : (8 * length l <= length (enc_kvs_body l))%nat.
Proof.
  induction l as [|kv l IH]; [cbn; lia|].
  rewrite enc_kvs_body_cons, !app_length, !pstr_length. cbn [length]. lia.
Qed.

(* Go's uint32 wrap-around loop test is the plain comparison when nothing overflows *)
Lemma wrap_test a b c :
  a < two32 -> b + c < two32 ->
  (a mod two32 <? (b mod two32 + c) mod two32) = (a <? b + c).
Proof.
  intros Ha Hb. rewrite (N.mod_small a) by exact Ha. rewrite (N.mod_small b) by lia.
  rewrite N.mod_small by exact Hb. reflexivity.
Qed.

Lemma get_map_loop_ok buf off1 maplen post : forall l fuel inset acc,
  Forall wf_kv l ->
  skipn inset (skipn off1 buf) = enc_kvs_body l ++ post ->
  N.of_nat (inset + length (enc_kvs_body l)) = maplen ->
  N.of_nat off1 + maplen < two32 ->
  (length l < fuel)%nat ->
  get_map_loop fuel buf off1 inset maplen acc
  = Ok (kv_build_from acc l, (off1 + (inset + length (enc_kvs_body l)))%nat).
Proof.
  induction l as [|[k v] l IH]; intros fuel inset acc F S HL HB HF;
    (destruct fuel as [|fuel]; [cbn [length] in HF; lia|]); cbn [get_map_loop]; cbv zeta.
  - cbn [enc_kvs_body map concat length] in *.
    rewrite wrap_test by lia.
    destruct (N.ltb_spec (N.of_nat (off1 + inset)) (N.of_nat off1 + maplen)); [lia|].
    unfold kv_build_from. cbn [fold_left]. do 2 f_equal. lia.
  - rewrite enc_kvs_body_cons in *. cbn [fst snd] in *.
    rewrite !app_length, !pstr_length in HL. rewrite <- !app_assoc in S.
    inversion F as [|? ? [Hk Hv] F']; subst. cbn [fst snd] in Hk, Hv.
    rewrite wrap_test by lia.
    match goal with |- context [N.ltb ?a ?b] => destruct (N.ltb_spec a b) end; [|lia].
    destruct (get_pstr_step _ _ _ _ S Hk) as [E1 S1]. rewrite E1. cbn [bind].
    destruct (get_pstr_step _ _ _ _ S1 Hv) as [E2 S2]. rewrite E2. cbn [bind].
    rewrite (IH fuel _ _ F' S2); try lia; cbn [length] in HF; try lia.
    unfold kv_build_from. cbn [fold_left fst snd]. do 2 f_equal.
    rewrite !app_length, !pstr_length. lia.
Qed.

(* core lemma for channels and metadata *)
Theorem get_map_step buf off m post :
  skipn off buf = enc_map m ++ post -> wf_kvs m ->
  N.of_nat (off + 4 + length (enc_kvs_body (kv_sort m))) < two32 ->
  get_map buf off = Ok (kv_sort m, (off + 4 + length (enc_kvs_body (kv_sort m)))%nat)
  /\ skipn (off + 4 + length (enc_kvs_body (kv_sort m))) buf = post.
Proof.
  intros H [ND F] HB. unfold enc_map in H. cbv zeta in H. rewrite <- app_assoc in H.
  set (body := enc_kvs_body (kv_sort m)) in *.
  pose proof (skipn_length_sub _ _ _ H) as L. rewrite !app_length, u32_length in L.
  assert (Hb : blen body < two32) by (unfold blen; lia).
  destruct (get_u32_step _ _ _ _ H Hb) as [E S].
  split.
  - unfold get_map. rewrite E. cbn [bind].
    rewrite (get_map_loop_ok buf (off + 4) (blen body) post (kv_sort m)).
    + fold (kv_build (kv_sort m)). rewrite kv_build_kv_sort by exact ND.
      fold body. do 2 f_equal.
    + eapply Permutation_Forall; [apply kv_sort_perm | exact F].
    + cbn [skipn]. exact S.
    + reflexivity.
    + unfold blen. lia.
    + pose proof (enc_kvs_body_length_ge (kv_sort m)). fold body in H0. lia.
  - rewrite skipn_add, S. apply skipn_app_exact.
Qed.

Theorem get_map_app pre m post :
  wf_kvs m ->
  N.of_nat (length pre + length (enc_map m)) < two32 ->
  get_map (pre ++ enc_map m ++ post) (length pre) = Ok (kv_sort m, (length pre + length (enc_map m))%nat).
Proof.
  intros W HB.
  assert (EL : length (enc_map m) = (4 + length (enc_kvs_body (kv_sort m)))%nat).
  { unfold enc_map. cbv zeta. rewrite app_length, u32_length. reflexivity. }
  rewrite EL in *.
  destruct (get_map_step (pre ++ enc_map m ++ post) (length pre) m post) as [E _];
    [apply skipn_pre | exact W | lia |].
  rewrite E. do 2 f_equal. lia.
Qed.

(* ====================================================================== *)
(** * 5. the three numeric-pair loops *)

Definition wf_mi_entry (e : N * N) : Prop := fst e < two64 /\ snd e < two64.
Definition wf_nn (e : N * N) : Prop := fst e < two16 /\ snd e < two64.

Lemma enc_mi_body_length l : length (concat (map enc_mi_entry l)) = (16 * length l)%nat.
Proof.
  induction l as [|e l IH]; [reflexivity|].
  cbn [map concat]. unfold enc_mi_entry at 1. rewrite !app_length, !u64_length, IH. cbn [length]. lia.
Qed.

Lemma enc_nn_body_length l : length (concat (map enc_nn l)) = (10 * length l)%nat.
Proof.
  induction l as [|e l IH]; [reflexivity|].
  cbn [map concat]. unfold enc_nn at 1. rewrite !app_length, u16_length, u64_length, IH. cbn [length]. lia.
Qed.

Lemma parse_mi_loop_ok buf start bl post : forall l fuel off acc,
  Forall wf_mi_entry l ->
  skipn off buf = concat (map enc_mi_entry l) ++ post ->
  N.of_nat (off + length (concat (map enc_mi_entry l))) = N.of_nat start + bl ->
  N.of_nat start + bl < two32 ->
  (length l < fuel)%nat ->
  parse_mi_loop fuel buf start off bl acc = Ok (acc ++ l).
Proof.
  induction l as [|[t v] l IH]; intros fuel off acc F S HL HB HF;
    (destruct fuel as [|fuel]; [cbn [length] in HF; lia|]); cbn [parse_mi_loop].
  - cbn [map concat length] in *. rewrite wrap_test by lia.
    destruct (N.ltb_spec (N.of_nat off) (N.of_nat start + bl)); [lia|].
    rewrite app_nil_r. reflexivity.
  - cbn [map concat] in *. unfold enc_mi_entry at 1 in S. unfold enc_mi_entry at 1 in HL.
    cbn [fst snd] in *. rewrite <- !app_assoc in S. rewrite !app_length, !u64_length in HL.
    inversion F as [|? ? [Ht Hv] F']; subst. cbn [fst snd] in Ht, Hv.
    rewrite wrap_test by lia.
    destruct (N.ltb_spec (N.of_nat off) (N.of_nat start + bl)); [|lia].
    destruct (get_u64_step _ _ _ _ S Ht) as [E1 S1]. rewrite E1. cbn [bind].
    destruct (get_u64_step _ _ _ _ S1 Hv) as [E2 S2]. rewrite E2. cbn [bind].
    rewrite (IH fuel _ _ F' S2); cbn [length] in HF; try lia.
    rewrite <- app_assoc. reflexivity.
Qed.

Lemma parse_cio_loop_ok rest total post : forall l fuel inset acc,
  Forall wf_nn l ->
  skipn inset rest = concat (map enc_nn l) ++ post ->
  N.of_nat (inset + length (concat (map enc_nn l))) = total ->
  (length l < fuel)%nat ->
  parse_cio_loop fuel rest inset total acc
  = Ok (nn_build_from acc l, (inset + length (concat (map enc_nn l)))%nat).
Proof.
  induction l as [|[k v] l IH]; intros fuel inset acc F S HL HF;
    (destruct fuel as [|fuel]; [cbn [length] in HF; lia|]); cbn [parse_cio_loop].
  - cbn [map concat length] in *.
    destruct (N.ltb_spec (N.of_nat inset) total); [lia|].
    unfold nn_build_from. cbn [fold_left]. do 2 f_equal. lia.
  - cbn [map concat] in *. unfold enc_nn at 1 in S. unfold enc_nn at 1 in HL. unfold enc_nn at 1.
    cbn [fst snd] in *. rewrite <- !app_assoc in S.
    rewrite !app_length, u16_length, u64_length in HL.
    inversion F as [|? ? [Hk Hv] F']; subst. cbn [fst snd] in Hk, Hv.
    match goal with |- context [N.ltb ?a ?b] => destruct (N.ltb_spec a b) end; [|lia].
    destruct (get_u16_step _ _ _ _ S Hk) as [E1 S1]. rewrite E1. cbn [bind].
    destruct (get_u64_step _ _ _ _ S1 Hv) as [E2 S2]. rewrite E2. cbn [bind].
    rewrite (IH fuel _ _ F' S2); cbn [length] in HF; try lia.
    unfold nn_build_from. cbn [fold_left fst snd]. do 2 f_equal.
    rewrite !app_length, u16_length, u64_length. lia.
Qed.

Lemma parse_counts_loop_ok buf stop post : forall l fuel off acc,
  Forall wf_nn l ->
  skipn off buf = concat (map enc_nn l) ++ post ->
  (off + length (concat (map enc_nn l)))%nat = stop ->
  (length l < fuel)%nat ->
  parse_counts_loop fuel buf off stop acc = Ok (nn_build_from acc l).
Proof.
  induction l as [|[k v] l IH]; intros fuel off acc F S HL HF;
    (destruct fuel as [|fuel]; [cbn [length] in HF; lia|]); cbn [parse_counts_loop].
  - cbn [map concat length] in *.
    destruct (Nat.ltb_spec off stop); [lia|]. reflexivity.
  - cbn [map concat] in *. unfold enc_nn at 1 in S. unfold enc_nn at 1 in HL.
    cbn [fst snd] in *. rewrite <- !app_assoc in S.
    rewrite !app_length, u16_length, u64_length in HL.
    inversion F as [|? ? [Hk Hv] F']; subst. cbn [fst snd] in Hk, Hv.
    match goal with |- context [Nat.ltb ?a ?b] => destruct (Nat.ltb_spec a b) end; [|lia].
    destruct (get_u16_step _ _ _ _ S Hk) as [E1 S1]. rewrite E1. cbn [bind].
    destruct (get_u64_step _ _ _ _ S1 Hv) as [E2 S2]. rewrite E2. cbn [bind].
    rewrite (IH fuel _ _ F' S2); cbn [length] in HF; try lia.
    reflexivity.
Qed.

(* ====================================================================== *)
(** * 6. framing *)

Lemma frame_length op body : length (frame op body) = (9 + length body)%nat.
Proof. unfold frame, frame_head. cbn [app length]. rewrite app_length, u64_length. reflexivity. Qed.

Lemma frame_cons op body : frame op body = op :: u64 (blen body) ++ body.
Proof. reflexivity. Qed.

Lemma frame_opcode op body post d : nth 0 (frame op body ++ post) d = op.
Proof. reflexivity. Qed.

(* the 8 bytes after the opcode decode to the body length *)
Lemma unle_frame_len op body post :
  blen body < two64 -> unle (sub (frame op body ++ post) 1 8) = blen body.
Proof.
  intro H. rewrite frame_cons. cbn [app]. unfold sub. cbn [skipn].
  rewrite <- app_assoc, firstn_app_exact' by (symmetry; apply u64_length).
  apply unle_u64, H.
Qed.

Lemma get_u64_frame_len op body post :
  blen body < two64 -> get_u64 (frame op body ++ post) 1 = Ok (blen body, 9%nat).
Proof.
  intro H.
  destruct (get_u64_step (frame op body ++ post) 1 (blen body) (body ++ post)) as [E _];
    [rewrite frame_cons; cbn [app skipn]; rewrite <- app_assoc; reflexivity | exact H |].
  exact E.
Qed.

Lemma frame_body op body post : sub (frame op body ++ post) 9 (length body) = body.
Proof.
  rewrite frame_cons. change (op :: u64 (blen body) ++ body) with ((op :: u64 (blen body)) ++ body).
  rewrite <- app_assoc.
  replace 9%nat with (length (op :: u64 (blen body))) by (cbn [length]; rewrite u64_length; reflexivity).
  apply sub_app_mid.
Qed.

Lemma frame_rest op body post : skipn (9 + length body) (frame op body ++ post) = post.
Proof. rewrite <- (frame_length op). apply skipn_app_exact. Qed.
